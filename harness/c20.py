"""C20 — idle-connection reaper: correspondence of PxModel/Idle.lean with the real
HttpProtocolHandler (last_activity / is_inactive), TcpConnection buffer counter,
Threadless._run_forever (tick cadence, _cleanup_inactive) and the threaded
HttpProtocolHandler.run() loop, under a virtual clock; and the property oracle.

Clock unit: 1/1024 s (binary fraction, so the implementation's float arithmetic on
`time.time()` values is exact and "timeout - 1 / timeout / timeout + 1 units" mean
exactly that).

A trace case:
  {'kind': 'trace', 'mode': 'threadless'|'threaded', 'sess': 'plain'|'tunnel',
   'timeout_u': int, 'via': 'opt'|'arg', 'start': int, 'maxsend': int,
   'cad': None | [sel_ms, wait_ms, cleanup_ms], 'steps': [[op, dt, ...], ...]}
ops (dt = clock units added before the op):
  ['rd', dt, n]    client sends the next n bytes of its stream; client fd handled as readable
  ['rx', dt, o]    client sends 3 bytes; client fd handled as readable and the client socket's recv() has
                   the scripted outcome o: 'want' (ssl.SSLWantReadError after consuming the bytes: an incomplete
                   TLS record; handle_readables returns False), 'block' (BlockingIOError), 'oserr'
                   (OSError EHOSTUNREACH), 'reset' (ConnectionResetError), 'timeout' (TimeoutError), 'eof'
                   (b'') — the last five end reading (handle_readables returns True)
  ['wr', dt]       client fd handled as writable
  ['rw', dt, n]    both in one handle_events call
  ['q', dt, k, L]  (plain) k chunks of L bytes are queued for the client (scripted upstream/plugin output; L may be 0)
  ['qs', dt, [..]] (plain) chunks of the given lengths are queued, e.g. [57, 0] = header block + empty body
  ['ur', dt, L]    (tunnel) upstream peer sends L bytes; upstream fd handled as readable
  ['uw', dt]       (tunnel) upstream fd handled as writable
  ['nop', dt]      handle_events([], [])
  ['it', dt]       loop iteration boundary: the REAL loop code runs (threadless: tick bookkeeping and
                   _cleanup_inactive in Threadless._run_forever; threaded: the is_inactive() test at the
                   top of HttpProtocolHandler.run())
A cadence case: {'kind': 'cadence', 'cad': None | [sel_ms, wait_ms, cleanup_ms], 'n': iterations}
"""
import ssl
import math
import errno
import logging
import time as _time
import socket
import fractions

from harness.common import REPO  # noqa: F401  (sys.path is set by ./check)

logging.disable(logging.ERROR)

PROPERTY = 'C20'
LEAN_TARGETS = ['PxProofs.C20']
THEOREMS = [
    'Px.Idle.C20_empty_piece_popped', 'Px.Idle.C20_counter_is_pieces', 'Px.Idle.C20_empty_piece_drains',
    'Px.Idle.C20_safety', 'Px.Idle.C20_active_never_reaped', 'Px.Idle.C20_only_loop_closes',
    'Px.Idle.C20_due_iff', 'Px.Idle.C20_cadence', 'Px.Idle.C20_period_impl', 'Px.Idle.C20_cadence_impl',
    'Px.Idle.C20_cadence_margin_impl', 'Px.Idle.C20_period_threaded',
    'Px.Idle.C20_bound', 'Px.Idle.C20_bound_threadless', 'Px.Idle.C20_bound_threadless_impl',
    'Px.Idle.C20_bound_threaded',
]
RULE = ('trace: timed op list (client send+readable with scripted recv outcome, client writable, queued output, upstream read/write, loop '
        'iteration) run on the real HttpProtocolHandler inside the real Threadless._run_forever / '
        'HttpProtocolHandler.run loops under a virtual clock (unit 1/1024 s) and on the model; per step '
        'last_activity, _num_buffer, reaper runs, is_inactive(), reaped/EOF are compared; iteration times are '
        'placed at last-I/O + timeout + {-1,0,+1} units; cadence: which of n real _run_forever iterations call '
        '_cleanup_inactive; distinct by canonical JSON; non-trivial = trace with at least one loop iteration')
ASSUMPTIONS = [
    'iteration duration bound D and continued running of the loop are hypotheses of the bound theorems (environment)',
    'virtual clock: time.time as seen by proxy.http.handler is non-decreasing; unit 1/1024 s makes float arithmetic exact',
    'the client socket accepts what is flushed (no BlockingIOError / short send) in the harness runs; the flush model and '
    'C20_empty_piece_drains cover short sends, only BlockingIOError on every attempt is excluded by hypothesis',
    'recv outcomes SSLWantReadError / BlockingIOError / OSError / ConnectionResetError / TimeoutError / EOF are scripted on a '
    'wrapped client socket; a real TLS handshake is not run',
    'non-default cadence constants in correspondence cases stay >= 1 ms away from exact tick*(select+wait) == cleanup '
    'ties (the implementation evaluates that test in binary floating point; for the shipped constants the margin is '
    'proved to be >= 12 ms)',
    'TLS-wrapped client connections and plugins that replace handler.work are not exercised',
]
EXHAUSTIVE = {'thorough': True}
EXPLANATION = ('thorough tier includes every op sequence of length <= 4 over {rd, rx-want, wr, q[3 bytes], q[empty piece], it} '
               '(and of length <= 3 with rx-eof added) x dt in {0,1,3} units '
               'with timeout 2 units in both modes (threadless with cleanup period 0/1); the quantifier itself '
               '(all timeouts, unbounded traces) is covered by the theorems')
UNIT = 1024
CONNECT = b'CONNECT example.org:443 HTTP/1.1\r\nHost: example.org:443\r\n\r\n'
ESTABLISHED_LEN = 39


def _client_stream(sess):
    if sess == 'tunnel':
        return None
    head = b'GET http://example.com/ HTTP/1.1\r\nHost: example.com\r\n'
    return head + b'X-Pad: abcdefghijklmnop\r\n' * 400


class _Clock:
    def __init__(self, u):
        self.u = u

    def time(self):
        return self.u / float(UNIT)


class _FakeTime:
    """stands in for the `time` module inside proxy.http.handler"""

    def __init__(self, clock):
        self._clock = clock

    def time(self):
        return self._clock.time()

    def __getattr__(self, k):
        return getattr(_time, k)


class _Stuck(Exception):
    """the threaded shutdown flush spins without making progress"""


class _GuardedSelector:
    """The handler's own selector with a bound on the number of select() calls, so that a flush loop
    that never empties the buffer ends the case (as a reported outcome) instead of hanging it."""

    def __init__(self, real, limit=2000):
        self._real = real
        self._left = limit

    def select(self, timeout=None):
        self._left -= 1
        if self._left < 0:
            raise _Stuck()
        return self._real.select(timeout=0 if timeout else timeout)

    def __getattr__(self, k):
        return getattr(self._real, k)


TERMINAL = ('block', 'oserr', 'reset', 'timeout', 'eof')


class _ClientSock:
    """Proxy-side client socket whose next recv() outcome can be scripted (a TLS layer reporting an
    incomplete record, a reset, ...); everything else goes to the real socket."""

    def __init__(self, real):
        self._real = real
        self.next_recv = None

    def fileno(self):
        return self._real.fileno()

    def setblocking(self, flag):
        self._real.setblocking(flag)

    def recv(self, bufsize, *a):
        o, self.next_recv = self.next_recv, None
        if o is None:
            return self._real.recv(bufsize)
        try:
            self._real.recv(bufsize)        # the lower layer consumed what was on the wire
        except OSError:
            pass
        if o == 'want':
            raise ssl.SSLWantReadError()
        if o == 'block':
            raise BlockingIOError(errno.EAGAIN, 'scripted')
        if o == 'oserr':
            raise OSError(errno.EHOSTUNREACH, 'scripted')
        if o == 'reset':
            raise ConnectionResetError(errno.ECONNRESET, 'scripted')
        if o == 'timeout':
            raise TimeoutError(errno.ETIMEDOUT, 'scripted')
        if o == 'eof':
            return b''
        raise ValueError(o)

    def send(self, data, *a):
        return self._real.send(data)

    def shutdown(self, how):
        self._real.shutdown(how)

    def close(self):
        self._real.close()


_FLAGS = {}


def _flags(mode, timeout_u, via, maxsend):
    key = (mode, timeout_u, via, maxsend)
    if key not in _FLAGS:
        from proxy.common.flag import FlagParser
        args = ['--max-sendbuf-size', str(maxsend)]
        opts = {}
        if via == 'arg':
            assert timeout_u % UNIT == 0
            args += ['--timeout=%d' % (timeout_u // UNIT)]
        else:
            opts['timeout'] = timeout_u / float(UNIT)
        if mode == 'threaded':
            f = FlagParser.initialize(args, threadless=False, threaded=True, **opts)
        else:
            f = FlagParser.initialize(args, threadless=True, **opts)
        _FLAGS[key] = f
    return _FLAGS[key]


def _impl_cadence_consts():
    from proxy.common import constants as C
    return (round(C.DEFAULT_SELECTOR_SELECT_TIMEOUT * 1000), round(C.DEFAULT_WAIT_FOR_TASKS_TIMEOUT * 1000),
            round(C.DEFAULT_INACTIVE_CONN_CLEANUP_TIMEOUT * 1000))


def _period(cad):
    """iterations between reaper runs, from the constants alone (exact arithmetic)"""
    sel, wait, cl = cad if cad else _impl_cadence_consts()
    if sel + wait == 0:
        return 0 if cl == 0 else None
    return int(math.ceil(fractions.Fraction(cl, sel + wait)))


class _Run:
    """Executes one trace case on the real classes and records what happened."""

    def __init__(self, case):
        self.case = case
        self.mode = case['mode']
        self.sess = case['sess']
        self.clock = _Clock(case['start'])
        self.steps = case['steps']
        self.pos = 0
        self.recs = []
        self.pending_it = None
        self.runs = 0
        self.probing = False
        self.reaped_at = None
        self.torn_at = None
        self.stream = _client_stream(self.sess)
        self.spos = 0
        self.connected = False
        self.delivered_total = 0
        self.eof = False
        self.up_peer = None
        self.socks = []

    # -- plumbing ---------------------------------------------------------
    def alive(self):
        if self.torn_at is not None:
            return False
        if self.mode == 'threadless':
            return self.wid in self.ex.works
        return not self.finished

    def drain_client(self):
        got = 0
        while True:
            try:
                d = self.peer.recv(65536)
            except (BlockingIOError, InterruptedError):
                break
            except OSError:
                self.eof = True
                break
            if d == b'':
                self.eof = True
                break
            got += len(d)
        self.delivered_total += got
        return got

    def probe(self):
        self.probing = True
        try:
            return bool(self.h.is_inactive())
        finally:
            self.probing = False

    def record(self, step, t, delivered, read, teardown=False, executed=False):
        alive = self.alive()
        if not alive and not self.eof:
            delivered += self.drain_client()
        rec = {'op': step[0], 't': t, 'alive': alive, 'delivered': delivered, 'read': read,
               'runs': self.runs, 'eof': self.eof, 'teardown': teardown, 'exec': executed}
        if alive:
            rec['la'] = self.h.last_activity * UNIT
            rec['nbuf'] = self.h.work._num_buffer
            rec['inactive'] = self.probe()
            rec['lingering'] = bool(self.h.reads_teared)
        elif self.torn_at is not None:
            rec['torn_at'] = self.torn_at
        else:
            rec['reaped_at'] = self.reaped_at if self.reaped_at is not None else t
        self.recs.append(rec)

    async def do_op(self, step):
        op = step[0]
        h = self.h
        cfd = self.cfd
        read = 0
        td = False
        if op in ('rd', 'rw'):
            if self.sess == 'tunnel' and not self.connected:
                data = CONNECT
                self.connected = True
            elif self.sess == 'tunnel':
                data = bytes((i * 7 + 1) & 0xff for i in range(step[2]))
            else:
                data = self.stream[self.spos:self.spos + step[2]]
                self.spos += step[2]
            self.peer.sendall(data)
            read = len(data)
            td = await h.handle_events([cfd], [cfd] if op == 'rw' else [])
        elif op == 'rx':
            self.peer.sendall(b'\x17\x03\x03')
            read = 3
            self.csock.next_recv = step[2]
            td = await h.handle_events([cfd], [])
            self.csock.next_recv = None
        elif op == 'wr':
            td = await h.handle_events([], [cfd])
        elif op == 'q':
            for _ in range(step[2]):
                h.work.queue(memoryview(b'z' * step[3]))
        elif op == 'qs':
            for n in step[2]:
                h.work.queue(memoryview(b'z' * n))
        elif op == 'ur':
            if self.up_peer is not None:
                self.up_peer.sendall(b'u' * step[2])
                td = await h.handle_events([self.ufd], [])
        elif op == 'uw':
            if self.up_peer is not None:
                td = await h.handle_events([], [self.ufd])
                try:
                    while self.up_peer.recv(65536):
                        pass
                except (BlockingIOError, OSError):
                    pass
        elif op == 'nop':
            td = await h.handle_events([], [])
        else:
            raise ValueError(op)
        return read, bool(td)

    async def fake_run_once(self):
        if self.pending_it is not None:
            step, t = self.pending_it
            self.pending_it = None
            self.record(step, t, self.drain_client(), 0)
        while self.pos < len(self.steps):
            step = self.steps[self.pos]
            self.pos += 1
            self.clock.u += step[1]
            t = self.clock.u
            if step[0] == 'it':
                self.pending_it = (step, t)
                return False
            if not self.alive():
                self.record(step, t, 0, 0)
                continue
            read, td = await self.do_op(step)
            if td:
                # handle_events asked for teardown: what Threadless._run_once / run() do next
                self.torn_at = t
                if self.mode == 'threadless':
                    self.ex._cleanup(self.wid)
                    self.record(step, t, self.drain_client(), read, True, True)
                    continue
                self.pending_torn = (step, t, read)
                return True
            self.record(step, t, self.drain_client(), read, False, True)
        return True

    # -- the run ----------------------------------------------------------
    def go(self):
        import proxy.http.handler as H
        import proxy.core.connection.server as S
        import proxy.core.work.threadless as TL
        case = self.case
        flags = _flags(self.mode, case['timeout_u'], case['via'], case['maxsend'])
        a, b = socket.socketpair()
        b.setblocking(False)
        self.peer = b
        self.socks += [a, b]
        orig_time, orig_nsc, orig_sel = H.time, S.new_socket_connection, TL.DEFAULT_SELECTOR_SELECT_TIMEOUT

        def nsc(addr, source_address=None):
            x, y = socket.socketpair()
            y.setblocking(False)
            self.up_peer = y
            self.ufd = x.fileno()
            self.socks += [x, y]
            return x
        H.time = _FakeTime(self.clock)
        S.new_socket_connection = nsc
        self.finished = False
        self.pending_torn = None
        a = _ClientSock(a)
        self.csock = a
        try:
            if self.mode == 'threadless':
                from proxy.core.work.fd import LocalFdExecutor
                from proxy.common.backports import NonBlockingQueue
                ex = LocalFdExecutor('1', NonBlockingQueue(), flags)
                self.ex = ex
                if case.get('cad'):
                    sel, wait, cl = case['cad']
                    TL.DEFAULT_SELECTOR_SELECT_TIMEOUT = sel / 1000
                    ex.wait_timeout = wait / 1000
                    ex.cleanup_inactive_timeout = cl / 1000
                self.wid = a.fileno()
                self.cfd = a.fileno()
                ex.work(a.fileno(), ('127.0.0.1', 54321), a)     # real create + initialize
                self.h = ex.works[self.wid]
                orig_ci = ex._cleanup_inactive

                def ci():
                    self.runs += 1
                    orig_ci()
                    if self.reaped_at is None and self.wid not in ex.works:
                        self.reaped_at = self.clock.u
                ex._cleanup_inactive = ci
                ex._run_once = self.fake_run_once
                try:
                    ex.loop.run_until_complete(ex._run_forever())
                finally:
                    ex.loop.close()
            else:
                from proxy.http.handler import HttpProtocolHandler
                from proxy.http.connection import HttpClientConnection
                h = HttpProtocolHandler(HttpClientConnection(a, ('127.0.0.1', 54321)), flags=flags)
                self.h = h
                self.cfd = a.fileno()
                orig_ii = h.is_inactive

                def ii():
                    r = orig_ii()
                    if not self.probing:
                        self.runs += 1
                        if r and self.reaped_at is None:
                            self.reaped_at = self.clock.u
                    return r
                h.is_inactive = ii
                h._run_once = self.fake_run_once
                h.selector = _GuardedSelector(h.selector)
                self.stuck = False
                try:
                    h.run()                                       # real loop, real shutdown
                except _Stuck:
                    self.stuck = True
                self.finished = True
            if self.pending_torn is not None:
                step, t, read = self.pending_torn
                self.record(step, t, self.drain_client(), read, True, True)
            if self.pending_it is not None:
                step, t = self.pending_it
                self.pending_it = None
                self.record(step, t, self.drain_client(), 0)
            # anything the loop never got to (threaded loop ended by the reaper)
            while self.pos < len(self.steps):
                step = self.steps[self.pos]
                self.pos += 1
                self.clock.u += step[1]
                self.record(step, self.clock.u, 0, 0)
            if self.mode == 'threaded' and self.stuck:
                for r in self.recs:
                    r['stuck'] = True
        finally:
            H.time = orig_time
            S.new_socket_connection = orig_nsc
            TL.DEFAULT_SELECTOR_SELECT_TIMEOUT = orig_sel
            for s in self.socks:
                try:
                    s.close()
                except OSError:
                    pass
        return self.recs


def _fmt_num(x):
    return str(int(x)) if float(x) == int(x) else repr(float(x))


def _obs(rec, was_reaped):
    if rec.get('stuck'):
        return 'shutdown-flush-never-ends!'
    if rec['alive']:
        return '%s:%d:%d:%d:%s%s' % (_fmt_num(rec['la']), rec['nbuf'], rec['runs'], rec['inactive'],
                                     'l' if rec['lingering'] else 'o', '!eof' if rec['eof'] else '')
    if 'torn_at' in rec:
        return 'T%d%s' % (rec['torn_at'], '' if rec['eof'] else '!noeof')
    return 'R%d%s' % (rec['reaped_at'], '' if rec['eof'] else '!noeof')


def _run_cadence(case):
    """Which of the first n iterations of the REAL Threadless._run_forever call _cleanup_inactive."""
    import proxy.core.work.threadless as TL
    from proxy.core.work.fd import LocalFdExecutor
    from proxy.common.backports import NonBlockingQueue
    flags = _flags('threadless', 10 * UNIT, 'arg', 65536)
    ex = LocalFdExecutor('1', NonBlockingQueue(), flags)
    orig_sel = TL.DEFAULT_SELECTOR_SELECT_TIMEOUT
    n = case['n']
    state = {'i': 0}
    hits = []

    async def once():
        if state['i'] >= n:
            return True
        state['i'] += 1
        return False
    ex._run_once = once
    ex._cleanup_inactive = lambda: hits.append(state['i'])
    try:
        if case.get('cad'):
            sel, wait, cl = case['cad']
            TL.DEFAULT_SELECTOR_SELECT_TIMEOUT = sel / 1000
            ex.wait_timeout = wait / 1000
            ex.cleanup_inactive_timeout = cl / 1000
        ex.loop.run_until_complete(ex._run_forever())
    finally:
        TL.DEFAULT_SELECTOR_SELECT_TIMEOUT = orig_sel
        ex.loop.close()
    return hits


def impl(case):
    if case['kind'] == 'cadence':
        return ['ok runs=' + ','.join(str(x) for x in _run_cadence(case))]
    if case['kind'] == 'period':
        hits = _run_cadence({'kind': 'cadence', 'cad': None, 'n': 400})
        return ['ok period=%d' % (hits[2] - hits[1])]
    recs = _Run(case).go()
    return ['ok ' + '|'.join(_obs(r, None) for r in recs)]


# ---------------------------------------------------------------------------
# model side
ALL = 1000000        # what the client socket's send() accepts in the harness runs: everything offered


def _lens(ls):
    return '+'.join(str(x) for x in ls) if ls else '-'


def _events(case):
    """Model events implied by the script (the harness's expectation of what each op is); the queued piece
    lengths travel to the model, which runs TcpConnection.flush on them itself."""
    toks = []
    t = case['start']
    connected = False
    lingering = False    # reads ended: the real handler skips all further reads (client and upstream)
    if case['mode'] == 'threaded':
        toks.append('~i,%d' % t)                 # run() tests is_inactive() before the first _run_once

    def rd():
        nonlocal connected
        if case['sess'] == 'tunnel' and not connected and not lingering:
            connected = True
            return [ESTABLISHED_LEN]
        return []
    for st in case['steps']:
        op = st[0]
        t += st[1]
        if op == 'rd':
            toks.append('r,%d,%s' % (t, _lens(rd())))
        elif op == 'rx':
            if st[2] == 'want':
                toks.append('r,%d,-' % t)
            else:
                toks.append('e,%d' % t)
                lingering = True
        elif op == 'rw':
            toks.append('~w,%d,%d' % (t, ALL))
            toks.append('r,%d,%s' % (t, _lens(rd())))
        elif op == 'wr':
            toks.append('w,%d,%d' % (t, ALL))
        elif op == 'q':
            toks.append('u,%d,%s' % (t, _lens([st[3]] * st[2])))
        elif op == 'qs':
            toks.append('u,%d,%s' % (t, _lens(st[2])))
        elif op == 'ur':
            toks.append('u,%d,%s' % (t, _lens([st[2]] if connected and not lingering else [])))
        elif op in ('uw', 'nop'):
            toks.append('u,%d,-' % t)
        elif op == 'it':
            toks.append('i,%d' % t)
        else:
            raise ValueError(op)
    return toks


def model_lines(case):
    if case['kind'] == 'cadence':
        if case.get('cad'):
            return ['idle cadence %d %d %d %d' % (case['cad'][0], case['cad'][1], case['cad'][2], case['n'])]
        return ['idle icadence %d' % case['n']]
    if case['kind'] == 'period':
        return ['idle iperiod']
    th = 1 if case['mode'] == 'threaded' else 0
    ev = ' '.join(_events(case))
    if case.get('cad') and not th:
        return ['idle trace %d %d %d %d %d %d %d %s' % (th, case['timeout_u'], case['cad'][0], case['cad'][1],
                                                       case['cad'][2], case['maxsend'], case['start'], ev)]
    return ['idle itrace %d %d %d %d %s' % (th, case['timeout_u'], case['maxsend'], case['start'], ev)]


# ---------------------------------------------------------------------------
# the property, evaluated on the implementation only
def oracle(case):
    if case['kind'] == 'period':
        return None
    if case['kind'] == 'cadence':
        N = _period(case.get('cad'))
        hits = _run_cadence(case)
        if N is None:
            return None      # select + wait == 0 < cleanup: no bound is claimed
        prev = 0
        for x in hits + [case['n'] + 1]:
            if x - prev > N + 1:
                return 'reaper-not-run-within-period+1-iterations'
            prev = x
        return None
    recs = _Run(case).go()
    T = case['timeout_u']
    last_io = case['start']
    fifo = []            # what the proxy still owes the client, piece by piece (an empty piece owes one turn)
    N = 0 if case['mode'] == 'threaded' else _period(case.get('cad'))
    overdue = 0
    connected = False
    prev_alive = True
    reads_ended = False
    for st, r in zip(case['steps'], recs):
        op, t = st[0], r['t']
        was_alive, prev_alive = prev_alive, r['alive']
        if 'torn_at' in r:
            return None          # closed because reading ended (EOF, reset, ...): not the reaper's doing
        # a writable turn with output pending is a client-side write (attempt): the head piece gets its turn,
        # an empty head piece is thereby done; delivered bytes come off the front
        if op in ('wr', 'rw') and r['exec'] and fifo:
            last_io = t
            if fifo[0] == 0:
                fifo.pop(0)
        d = r['delivered']
        while d > 0 and fifo:
            take = min(d, fifo[0])
            fifo[0] -= take
            d -= take
            if fifo[0] == 0:
                fifo.pop(0)
        # pieces the script made the proxy owe the client
        if op in ('rd', 'rw') and case['sess'] == 'tunnel' and not connected and r['read'] and not reads_ended:
            connected = True
            fifo.append(ESTABLISHED_LEN)
        elif op == 'q' and r['exec']:
            fifo += [st[3]] * st[2]
        elif op == 'qs' and r['exec']:
            fifo += list(st[2])
        elif op == 'ur' and connected and r['exec'] and not reads_ended:
            fifo.append(st[2])
        if (r['read'] and not reads_ended) or r['delivered']:
            # a client-side read (attempt on the readable descriptor, whatever its outcome) or write at t
            last_io = t
        if op == 'rx' and r['read'] and st[2] in TERMINAL:
            reads_ended = True
        pending = bool(fifo)
        idle_past = (not pending) and (t - last_io > T)
        if r['alive']:
            if r['eof']:
                return 'client-sees-eof-on-live-connection'
            if r['inactive'] and pending:
                return 'reported-inactive-with-pending-output'
            if r['inactive'] and not (t - last_io > T):
                return 'reported-inactive-with-client-io-within-timeout'
            if idle_past and not r['inactive']:
                return 'idle-past-timeout-not-reported-inactive'
            if op == 'it' and idle_past:
                overdue += 1
                if N is not None and overdue >= N + 1:
                    return 'idle-connection-not-reaped-within-bound'
            elif not idle_past:
                overdue = 0
        elif was_alive:
            # reaped since the previous observation, at r['reaped_at']
            t = r['reaped_at']
            if pending:
                return 'reaped-with-pending-output'
            if not (t - last_io > T):
                return 'reaped-with-client-io-within-timeout'
            if not r['eof']:
                return 'reaped-but-client-sees-no-eof'
    return None


# ---------------------------------------------------------------------------
# cases
def _trace(mode, sess, timeout_u, steps, via='opt', start=5000, maxsend=65536, cad=None):
    return {'kind': 'trace', 'mode': mode, 'sess': sess, 'timeout_u': timeout_u, 'via': via, 'start': start,
            'maxsend': maxsend, 'cad': cad, 'steps': steps}


def corpus():
    cs = [{'kind': 'period'}, {'kind': 'cadence', 'cad': None, 'n': 130}]
    T = 2048
    for mode in ('threadless', 'threaded'):
        cad = [25, 1, 30] if mode == 'threadless' else None
        for d in (-1, 0, 1):
            # never any traffic: reaped relative to the creation time
            cs.append(_trace(mode, 'plain', T, [['it', 10], ['it', T - 10 + d], ['it', 1], ['it', 1], ['it', 1]], cad=cad))
            # read, then silence
            cs.append(_trace(mode, 'plain', T, [['rd', 100, 10], ['it', T + d], ['it', 1], ['it', 1], ['it', 1]], cad=cad))
            # output pending for a long time, then flushed: the flush is client-side activity
            cs.append(_trace(mode, 'plain', T, [['q', 5, 1, 10], ['it', 3 * T], ['it', 1], ['wr', 7], ['it', T + d],
                                                ['it', 1], ['it', 1], ['it', 1]], cad=cad))
            # tunnel: upstream data does not count as client activity until it is flushed
            cs.append(_trace(mode, 'tunnel', T, [['rd', 1, 0], ['wr', 1], ['ur', T - 5, 9], ['it', 5 + d], ['it', 1],
                                                 ['wr', 1], ['it', T + d], ['it', 1], ['it', 1]], cad=cad))
        cs.append(_trace(mode, 'plain', T, [['q', 1, 2, 10], ['wr', 1], ['it', 2 * T], ['it', 1], ['wr', 1],
                                            ['it', T], ['it', 1], ['it', 1]], maxsend=4, cad=cad))
    # a TLS client whose record arrives in segments (recv raises SSLWantReadError): every attempt is client
    # activity; other recv outcomes end reading (torn down at once, or after the pending output is flushed)
    for mode in ('threadless', 'threaded'):
        cad = [25, 1, 0] if mode == 'threadless' else None
        for d in (-1, 0, 1):
            cs.append(_trace(mode, 'plain', T, [['rx', T - 3, 'want'], ['it', 5], ['rx', T - 5, 'want'], ['it', T + d],
                                                ['it', 1], ['it', 1]], cad=cad))
        for o in TERMINAL:
            cs.append(_trace(mode, 'plain', T, [['it', 1], ['rx', T, o], ['it', 1], ['it', T + 1]], cad=cad))
            cs.append(_trace(mode, 'plain', T, [['q', 1, 2, 5], ['rx', 3 * T, o], ['it', 1], ['rd', 1, 4], ['wr', T],
                                                ['it', T + 1], ['wr', 1], ['it', 1]], cad=cad))
    # output cut into pieces some of which are EMPTY (header block + empty body, ...): alone, first, between, last;
    # every piece is gone after its writable turn and the idle connection is reaped on time
    for mode in ('threadless', 'threaded'):
        cad = [25, 1, 0] if mode == 'threadless' else None
        for pieces in ([0], [0, 7], [7, 0, 7], [7, 0], [0, 0], [57, 0]):
            for d in (0, 1):
                cs.append(_trace(mode, 'plain', T, [['rd', 3, 9], ['qs', 2, pieces]] + [['wr', 1]] * len(pieces) +
                                 [['it', 1], ['it', T - 1 + d], ['it', 1], ['it', 1]], cad=cad))
        cs.append(_trace(mode, 'plain', T, [['qs', 2, [0, 9]], ['wr', 1], ['wr', 1], ['wr', T + 5], ['it', 1],
                                            ['it', T], ['it', 1]], maxsend=4, cad=cad))
    cs.append(_trace('threadless', 'plain', 1024, [['rd', 3, 5], ['qs', 1, [12, 0]], ['wr', 1], ['wr', 1]] +
                     [['it', 30]] * 90, via='arg'))
    # default cadence, long idle: reaped by the 40th iteration at the latest
    cs.append(_trace('threadless', 'plain', 1024, [['rd', 3, 5]] + [['it', 30]] * 90, via='arg'))
    cs.append(_trace('threadless', 'plain', 0, [['it', 0]] * 45, via='arg'))
    cs.append(_trace('threadless', 'plain', -1024, [['it', 0]] * 41 + [['rd', 0, 3]], via='arg'))
    return cs


def _gen_trace(rng, mode, big):
    sess = rng.choice(['plain', 'plain', 'tunnel'])
    via = rng.choice(['opt', 'arg'])
    if via == 'arg':
        T = rng.choice([0, 1, 1, 2, 3, 10, -1]) * UNIT
    else:
        T = rng.choice([0, 1, 2, 3, 7, 512, 1000, 1536, 2048, 2560, 10240, -3])
    maxsend = rng.choice([65536, 65536, 4, 16])
    cad = None
    if mode == 'threadless' and rng.random() < 0.85:
        cad = rng.choice([[25, 1, 0], [25, 1, 20], [25, 1, 30], [25, 1, 60], [25, 1, 100], [10, 5, 40], [0, 3, 7]])
    start = rng.choice([0, 5000, 123456, 1700000000 * UNIT])
    n = rng.randrange(3, 40 if big else 24)
    steps = []
    now, last_io, chunks, connected = start, start, [], False
    absT = max(T, 0)
    for _ in range(n):
        # time step: mostly aimed at the threshold
        r = rng.random()
        target = last_io + T + rng.choice([-1, 0, 1])
        if r < 0.45 and target >= now:
            dt = target - now
        elif r < 0.6:
            dt = 0
        elif r < 0.8:
            dt = rng.randrange(0, 4)
        else:
            dt = rng.randrange(0, absT + 3)
        ops = ['it'] * 5 + ['rd', 'wr', 'wr', 'nop', 'rw', 'rx', 'rx']
        ops += ['ur', 'ur', 'uw'] if sess == 'tunnel' else ['q', 'q', 'qs']
        op = rng.choice(ops)
        now += dt
        if op == 'it':
            steps.append(['it', dt])
            if rng.random() < 0.5:   # bursts of iterations one unit apart straddle the threshold
                for _ in range(rng.randrange(1, 4)):
                    steps.append(['it', 1])
                    now += 1
        elif op in ('rd', 'rw'):
            if op == 'rw' and chunks:
                if chunks[0] <= maxsend:
                    chunks.pop(0)
                else:
                    chunks[0] -= maxsend
            steps.append([op, dt, rng.randrange(1, 30)])
            if sess == 'tunnel' and not connected:
                connected = True
                chunks.append(ESTABLISHED_LEN)
            last_io = now
        elif op == 'rx':
            o = rng.choice(['want'] * 6 + list(TERMINAL)) if rng.random() < 0.6 else 'want'
            steps.append(['rx', dt, o])
            last_io = now
        elif op == 'wr':
            steps.append(['wr', dt])
            if chunks:
                last_io = now
                if chunks[0] <= maxsend:
                    chunks.pop(0)
                else:
                    chunks[0] -= maxsend
        elif op == 'q':
            k, L = rng.randrange(1, 3), rng.choice([0, 1, 3, 5, 20])
            steps.append(['q', dt, k, L])
            chunks += [L] * k
        elif op == 'qs':
            ls = [rng.choice([0, 0, 2, 9]) for _ in range(rng.randrange(1, 4))]
            steps.append(['qs', dt, ls])
            chunks += ls
        elif op == 'ur':
            L = rng.choice([1, 5, 20])
            steps.append(['ur', dt, L])
            if connected:
                chunks.append(L)
        else:
            steps.append([op, dt])
    return _trace(mode, sess, T, steps, via=via, start=start, maxsend=maxsend, cad=cad)


def _small_scope():
    """every op sequence of length <= 4 over a small alphabet, timeout 2 units, dt in 0..3"""
    alpha, extra = [], []
    for dt in (0, 1, 3):
        alpha += [['rd', dt, 2], ['rx', dt, 'want'], ['wr', dt], ['q', dt, 1, 3], ['q', dt, 1, 0], ['it', dt]]
        extra += [['rx', dt, 'eof']]
    seqs = [[]]
    out = []
    for _ in range(4):
        seqs = [s + [a] for s in seqs for a in alpha]
        out += seqs
    seqs = [[]]
    for _ in range(3):                 # the read-ending outcome: every sequence of length <= 3 that uses it
        seqs = [s + [a] for s in seqs for a in alpha + extra]
        out += [s for s in seqs if any(x[0] == 'rx' and x[2] == 'eof' for x in s)]
    for s in out:
        if not any(x[0] == 'it' for x in s):
            continue
        yield _trace('threaded', 'plain', 2, s, start=100)
        yield _trace('threadless', 'plain', 2, s, start=100, cad=[25, 1, 0 if len(s) % 2 else 20])


def generate(rng, tier):
    big = tier == 'thorough'
    for _ in range(1500 if not big else 22000):
        yield _gen_trace(rng, 'threadless', big)
        yield _gen_trace(rng, 'threaded', big)
    # default cadence: long idle stretches (first reaper run in iteration 40, then every 39)
    for _ in range(40 if not big else 600):
        T = rng.choice([0, 1, 2]) * UNIT
        pre = [['it', rng.randrange(0, 30)] for _ in range(rng.randrange(0, 45))]
        mid = [['rd', rng.randrange(0, 40), 4]] if rng.random() < 0.8 else [['q', 3, 1, 5], ['wr', 2]]
        idle = [['it', rng.choice([0, 1, 26, 30, T // 20 + 1])] for _ in range(rng.randrange(30, 95))]
        yield _trace('threadless', 'plain', T, pre + mid + idle, via='arg', start=rng.choice([0, 99999]))
    # cadence of the real loop for other constants (kept off exact float ties) and for the shipped ones
    yield {'kind': 'cadence', 'cad': None, 'n': 400}
    for _ in range(60 if not big else 1500):
        sel, wait = rng.choice([0, 1, 5, 10, 25, 50, 100]), rng.choice([0, 1, 2, 5, 10])
        p = sel + wait
        cl = rng.choice([0, 1, 7, 26, 100, 999, 1000, 1001, 2500, rng.randrange(0, 3000)])
        if p and cl % p == 0 and cl:
            cl += rng.choice([-1, 1])         # stay off exact ties (float evaluation in the implementation)
        N = _period([sel, wait, cl])
        yield {'kind': 'cadence', 'cad': [sel, wait, cl], 'n': min(400, 3 * (N or 1) + 5)}
    if big:
        for c in _small_scope():
            yield c


def neighbours(case):
    if case['kind'] != 'trace':
        return
    for d in (-1, 1):
        yield dict(case, timeout_u=case['timeout_u'] + d, via='opt')
    for k in range(len(case['steps'])):
        yield dict(case, steps=case['steps'][:k] + case['steps'][k + 1:])
    for k in range(1, len(case['steps'])):
        yield dict(case, steps=case['steps'][:k])


def search(rng):
    out = []
    for _ in range(600):
        out.append(_gen_trace(rng, 'threadless', False))
        out.append(_gen_trace(rng, 'threaded', False))
    return out


def shrink(case, still_fails):
    if case['kind'] != 'trace':
        return case
    changed = True
    while changed:
        changed = False
        for k in range(len(case['steps']) - 1, -1, -1):
            c = dict(case, steps=case['steps'][:k] + case['steps'][k + 1:])
            if k + 1 < len(case['steps']):   # keep later absolute times where they were
                nxt = list(c['steps'][k])
                nxt[1] += case['steps'][k][1]
                c['steps'] = c['steps'][:k] + [nxt] + c['steps'][k + 1:]
            if c['steps'] and still_fails(c):
                case = c
                changed = True
    return case


def describe(case):
    if case['kind'] != 'trace':
        return [case['kind']]
    ops = [s[0] for s in case['steps']]
    return ['trace ' + case['mode'], 'sess ' + case['sess'],
            'timeout ' + ('<0' if case['timeout_u'] < 0 else '0' if case['timeout_u'] == 0 else '>0'),
            'iters ' + ('0' if 'it' not in ops else '<39' if ops.count('it') < 39 else '>=39'),
            'cad ' + ('default' if not case.get('cad') else 'custom')] + sorted(
                set('recv ' + s[2] for s in case['steps'] if s[0] == 'rx'))


def nontrivial(case):
    return case['kind'] == 'trace' and any(s[0] == 'it' for s in case['steps'])
