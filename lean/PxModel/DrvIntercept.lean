import PxModel.Intercept
namespace Px.Intercept
open Px Px.Pki

def optHex (s : String) : Option (Option Bytes) :=
  if s == "None" then some none else (unhex s).map some

/-- `None` | `[]` | comma separated hex names (`-` = empty name) -/
def parseAlt (s : String) : Option (Option (List Str)) :=
  if s == "None" then some none
  else if s == "[]" then some (some [])
  else ((s.splitOn ",").mapM unhex).map some

def parseList (s : String) : Option (List Bytes) :=
  if s == "-" then some [] else (s.splitOn ",").mapM unhex

def parseSubject (s : String) : Option (List (Str × Str)) :=
  if s == "-" then some []
  else (s.splitOn ",").mapM (fun kv =>
    match kv.splitOn "=" with
    | [k, v] => do some ((← unhex k), (← unhex v))
    | _ => none)

def parseAnswers (s : String) : Option (List (Option Bool)) :=
  if s == "-" then some []
  else s.toList.mapM (fun c =>
    if c == 'T' then some (some true) else if c == 'F' then some (some false)
    else if c == 'N' then some none else none)

def parseSit : String → Option CertSituation
  | "trusted" => some .trusted | "selfsigned" => some .selfSigned | "untrusted" => some .untrustedIssuer
  | "wrongname" => some .wrongName | "expired" => some .expired | "garbage" => some .garbage | "reset" => some .reset
  | _ => none

def cmdAt (s : String) (k : Nat) : CmdOut :=
  match s.toList[k]? with
  | some 'f' => .failed
  | some 't' => .timeout
  | _ => .ok

def parseCw : String → Option CwOut
  | "o" => some .ok | "f" => some .flushFailed | "h" => some .hsFailed | _ => none

/-- the names `ipaddress.ip_address` accepts, as a list -/
def ipPred (ips : List Bytes) : Str → Bool := fun n => ips.contains n

def b01 (x : Bool) : String := if x then "1" else "0"

def hexList (l : List Bytes) : String := if l.isEmpty then "-" else ",".intercalate (l.map hex)

def hsStr : HsOut → String
  | .ok => "ok" | .certVerification => "certVerification" | .sslError => "sslError" | .osError => "osError"
def cmdStr : CmdOut → String
  | .ok => "ok" | .failed => "failed" | .timeout => "timeout"
def cwStr : CwOut → String
  | .ok => "ok" | .flushFailed => "flushFailed" | .hsFailed => "hsFailed"
def excStr : Exc → String
  | .assertion => "assertion" | .httpProtocol => "httpProtocol" | .osError => "osError"

def callStr (c : Call) : String :=
  let f := match c.file with
    | some (p, content) => s!"{hex p}:{hex content}"
    | none => "None"
  s!"argv={hexList c.argv} file={f}"

def effStr : Eff → String
  | .queueClient p => s!"Q {hex p}"
  | .ask i => s!"A {i}"
  | .wrapUpstream p out =>
    s!"U sni={hexOpt p.serverHostname} ca={hexOpt p.caFile} none={b01 p.verifyNone} chk={b01 p.checkHostname} out={hsStr out}"
  | .isfile p r => s!"F {hex p} {b01 r}"
  | .openssl c out => s!"X {callStr c} out={cmdStr out}"
  | .wrapClient k c pend out => s!"C key={hex k} cert={hex c} pending={hexList pend} out={cwStr out}"

def resStr : Res → String
  | .plain => "plain" | .sslSocket => "ssl" | .teardown => "teardown" | .raised e => s!"raised-{excStr e}"

def kindStr : Relay.Kind → String
  | .tunnel => "tunnel" | .http => "http" | .local => "local"

def relayStr : Option Relay.St → String
  | none => "S none"
  | some s => s!"S kind={kindStr s.kind} mustFlush={b01 s.mustFlush} readsTeared={b01 s.readsTeared} cbuf={hexList s.client.buffer} ubuf={hexList s.upstream.buffer}"

def postStr (p : Post) : String :=
  s!"R {resStr p.res} ctls={b01 p.clientTls} utls={b01 p.upstreamTls} det={b01 p.upstreamDetached} cbuf={hexList p.clientBuf}"

def effsStr (l : List Eff) : String := " | ".intercalate (l.map effStr)

def tmpName (k : Nat) : Str := b "TMP" ++ natToDec k

def genEndStr : GenEnd → String
  | .done => "done" | .assertion => "assertion" | .timeout => "timeout"

/-- `n` CONNECTs to the same host one after the other, each starting from the files the previous one left -/
def orcLoop (cfg : Cfg) (answers : List (Option Bool)) (env : Env) (host : Str) (maxSend : Nat) :
    Nat → List String → List Str → List String
  | 0, _, _ => []
  | n + 1, cmds, fs =>
    let r := onConnect cfg answers { env with fs := fs, cmd := cmdAt (cmds.headD "") } host
    s!"{effsStr r.1} | {postStr r.2} | {relayStr (relayState cfg answers maxSend r.2)}" ::
      orcLoop cfg answers env host maxSend n cmds.tail r.2.fs

/-- `tls orc <cakey|None> <cacert|None> <signkey|None> <dir|None> <cafile|None> <insecure> <openssl>
       <answers> <host> <sit> <subject> <fs> <cmds> <cw> <serial> <maxSend> <n> <ips>` (n CONNECTs, joined by ` || `; `cmds` = per-CONNECT outcome strings joined by `/`)
    `tls gen <cakey> <cacert> <signkey> <dir> <openssl> <host> <subject> <fs> <cmds> <serial> <ips>`
    `tls chain <enabled 0|1> <answers>`
    `tls swrap <hostname|None> <cafile|None> <verifyNone 0|1>`
    `tls ext <ips> <alt> <eku|None>` / `tls cfg <ips> <alt> <eku|None>`  (`ips` = the names ipaddress accepts)
    `tls pub <ips> <openssl> <pub> <key> <pw> <subject> <alt> <eku|None> <days> <tmp>`
    `tls csr <openssl> <csr> <key> <pw> <crt>`
    `tls sign <ips> <openssl> <csr> <crt> <cakey> <capw> <cacrt> <serial> <alt> <eku|None> <days> <tmp>`
    `tls path <dir> <host>` -/
def drv (args : List String) : String :=
  match args with
  | ["orc", cakey, cacert, signkey, dir, cafile, insecure, openssl, answers, host, sit, subject, fs, cmds, cw,
     serial, maxSend, n, ips] =>
    match optHex cakey, optHex cacert, optHex signkey, optHex dir, optHex cafile, unhex openssl,
          parseAnswers answers, unhex host, parseSit sit, parseSubject subject, parseList fs, parseCw cw,
          unhex serial, maxSend.toNat?, n.toNat?, parseList ips with
    | some cakey, some cacert, some signkey, some dir, some cafile, some openssl, some answers, some host,
      some sit, some subject, some fs, some cw, some serial, some maxSend, some n, some ips =>
      let cfg : Cfg := { caKeyFile := cakey, caCertFile := cacert, caSigningKeyFile := signkey, caCertDir := dir,
                         caFile := cafile, insecure := insecure == "1", openssl := openssl }
      let env : Env := { handshake := refHandshake sit, subject := subject, fs := fs, cmd := cmdAt cmds,
                         tmp := tmpName, serial := serial, clientWrap := cw, isIp := ipPred ips }
      " || ".intercalate (orcLoop cfg answers env host maxSend n (cmds.splitOn "/") fs)
    | _, _, _, _, _, _, _, _, _, _, _, _, _, _, _, _ => "bad-op"
  | ["gen", cakey, cacert, signkey, dir, openssl, host, subject, fs, cmds, serial, ips] =>
    match optHex cakey, optHex cacert, optHex signkey, optHex dir, unhex openssl, unhex host,
          parseSubject subject, parseList fs, unhex serial, parseList ips with
    | some cakey, some cacert, some signkey, some dir, some openssl, some host, some subject, some fs, some serial,
      some ips =>
      let cfg : Cfg := { caKeyFile := cakey, caCertFile := cacert, caSigningKeyFile := signkey, caCertDir := dir,
                         caFile := none, insecure := false, openssl := openssl }
      let env : Env := { handshake := fun _ => .ok, subject := subject, fs := fs, cmd := cmdAt cmds,
                         tmp := tmpName, serial := serial, clientWrap := .ok, isIp := ipPred ips }
      match generateUpstreamCertificate cfg env host with
      | none => "exc httpProtocol"
      | some (effs, _, e) => s!"{effsStr effs} | {genEndStr e} {hex (certFilePath (dir.getD []) host)}"
    | _, _, _, _, _, _, _, _, _, _ => "bad-op"
  | ["chain", en, answers] =>
    match parseAnswers answers with
    | some answers =>
      let some1 : Option Str := some [1]
      let cfg : Cfg := { caKeyFile := if en == "1" then some1 else none, caCertFile := some1,
                         caSigningKeyFile := some1, caCertDir := some1, caFile := none, insecure := false,
                         openssl := [] }
      let r := tlsInterceptEnabled cfg answers
      s!"{b01 r.1} {effsStr r.2}"
    | none => "bad-op"
  | ["swrap", hostname, cafile, vn] =>
    match optHex hostname, optHex cafile with
    | some h, some ca =>
      let p := serverWrapParams h ca (vn == "1")
      s!"sni={hexOpt p.serverHostname} ca={hexOpt p.caFile} none={b01 p.verifyNone} chk={b01 p.checkHostname}"
    | _, _ => "bad-op"
  | ["ext", ips, alt, eku] =>
    match parseList ips, parseAlt alt, optHex eku with
    | some ips, some alt, some eku => s!"ok {hex (extConfig (ipPred ips) alt eku)}"
    | _, _, _ => "bad-op"
  | ["cfg", ips, alt, eku] =>
    match parseList ips, parseAlt alt, optHex eku with
    | some ips, some alt, some eku => s!"ok {b01 (hasExtension alt eku)} {hex (sslConfig (ipPred ips) alt eku)}"
    | _, _, _ => "bad-op"
  | ["pub", ips, openssl, pub, key, pw, subject, alt, eku, days, tmp] =>
    match parseList ips, unhex openssl, unhex pub, unhex key, unhex pw, unhex subject, parseAlt alt, optHex eku,
          days.toNat?, unhex tmp with
    | some ips, some o, some pub, some key, some pw, some subj, some alt, some eku, some days, some tmp =>
      callStr (genPublicKey (ipPred ips) o pub key pw subj alt eku days tmp)
    | _, _, _, _, _, _, _, _, _, _ => "bad-op"
  | ["csr", openssl, csr, key, pw, crt] =>
    match unhex openssl, unhex csr, unhex key, unhex pw, unhex crt with
    | some o, some csr, some key, some pw, some crt => callStr (genCsr o csr key pw crt)
    | _, _, _, _, _ => "bad-op"
  | ["sign", ips, openssl, csr, crt, cakey, capw, cacrt, serial, alt, eku, days, tmp] =>
    match parseList ips, unhex openssl, unhex csr, unhex crt, unhex cakey, unhex capw, unhex cacrt, unhex serial,
          parseAlt alt, optHex eku, days.toNat?, unhex tmp with
    | some ips, some o, some csr, some crt, some cakey, some capw, some cacrt, some serial, some alt, some eku,
      some days, some tmp => callStr (signCsr (ipPred ips) o csr crt cakey capw cacrt serial alt eku days tmp)
    | _, _, _, _, _, _, _, _, _, _, _, _ => "bad-op"
  | ["path", dir, host] =>
    match unhex dir, unhex host with
    | some d, some h => s!"ok {hex (certFilePath d h)}"
    | _, _ => "bad-op"
  | _ => "bad-op"

end Px.Intercept
