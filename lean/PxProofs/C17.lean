import PxModel.Modes
import PxProofs.ModesLemmas
import PxProofs.C01
import PxProofs.C07
import PxProofs.C20
/-!
# C17 — threaded, local-threadless and remote-threadless modes behave identically

Property theorems only; lemmas are in `PxProofs/ModesLemmas.lean`.  The model
(`PxModel/Modes.lean`: the three drivers `threadedRun` / `localRun` / `remoteRun`
over the common handler model `Relay.step` / `Relay.shutdown`) is tied to
`proxy/http/handler.py` `run()` / `_run_once()` / `shutdown()` / `_flush()` and to
the executor loop by the handler-level runs of `harness/c17.py`; the live
differential runs of the same harness compare real `proxy.Proxy` instances in
the three modes.

**Label: partial.**  What is proved: the three drivers feed the *same* handler
function with tick lists from the same space (`C17_same_step`), local and remote
are the same function on the handler level (`C17_local_remote_identical`), on
corresponding scripts threaded and threadless runs give the same transcript
(`C17_same_transcript_partial`), and the one piece of mode-specific handler code —
threaded `_flush()` in `shutdown()` versus the `must_flush_before_shutdown`
deferral — delivers the same bytes and then closes (`C17_flush_vs_deferral`).
Not provable, because it is false in the model and in the code: when an
exception escapes `handle_events` while output is pending, threaded mode still
delivers it and threadless mode drops it (`C17_raised_pending_differs`,
`C17_raised_difference`).  Outside any Lean model: process creation,
`send_handle`, thread scheduling, acceptor load balancing.
-/
namespace Px.Modes
open Px Px.Relay Px.Conn

/-- **C17 same step.**  In each of the three drivers, the state the main loop
ends in and the way it ends are those of `Relay.run` — the function every C01 /
C07 theorem quantifies over — applied to the list of environment inputs of the
`handle_events` calls the driver made; that list is a prefix (threaded: every
iteration calls the handler) resp. a sublist (executor: rounds in which no
descriptor of the work is ready make no call) of the ticks of the script.  So
every theorem proved for all tick lists holds in all three modes. -/
theorem C17_same_step (s : St) (tr : List TRound) (er : List ERound) (fl : List SelEv) :
    (run s (threadedRun s tr fl).loop.calls =
        ((threadedRun s tr fl).loop.st, (threadedRun s tr fl).loop.stop.toRet) ∧
      (threadedRun s tr fl).loop.calls <+: tr.map (·.tick)) ∧
    (run s (localRun s er).loop.calls =
        ((localRun s er).loop.st, (localRun s er).loop.stop.toRet) ∧
      (localRun s er).loop.calls.Sublist (er.map (·.tick))) ∧
    (run s (remoteRun s er).loop.calls =
        ((remoteRun s er).loop.st, (remoteRun s er).loop.stop.toRet) ∧
      (remoteRun s er).loop.calls.Sublist (er.map (·.tick))) :=
  ⟨⟨threadedLoop_run tr s, threadedLoop_calls_prefix tr s⟩,
   ⟨execLoop_run er s, execLoop_calls_sublist er s⟩,
   ⟨execLoop_run er s, execLoop_calls_sublist er s⟩⟩

/-- **C17 transfer (instance).**  The C01 tunnel invariant — delivered followed
by pending is the acknowledgement followed by everything read from the upstream —
holds at the end of the main loop of every driver, for every script. -/
theorem C17_C01_in_all_modes (m : Nat) (tr : List TRound) (er : List ERound) (fl : List SelEv) :
    (let s := (threadedRun (initTunnel m) tr fl).loop.st
     s.sentC ++ s.client.buffer.flatten = ack ++ s.recvU) ∧
    (let s := (localRun (initTunnel m) er).loop.st
     s.sentC ++ s.client.buffer.flatten = ack ++ s.recvU) ∧
    (let s := (remoteRun (initTunnel m) er).loop.st
     s.sentC ++ s.client.buffer.flatten = ack ++ s.recvU) := by
  have h1 := C01_tunnel_down m (threadedLoop (initTunnel m) tr).calls
  rw [threadedLoop_run] at h1
  have h2 := C01_tunnel_down m (execLoop (initTunnel m) er).calls
  rw [execLoop_run] at h2
  exact ⟨h1, h2, h2⟩

/-- **descriptor bookkeeping.**  In every mode no descriptor is closed twice or
before it exists; once `shutdown()` (and, remote, `os.close(work_id)`) has run no
descriptor of the connection is left open in any process; before that the one the
handler's socket object wraps is open. -/
theorem C17_fd_bookkeeping (m : Mode) (finished : Bool) :
    (fdRun (fdOps m finished)).bad = false ∧
    (finished = true → (fdRun (fdOps m finished)).openNow = []) ∧
    (finished = false → handlerDesc m ∈ (fdRun (fdOps m finished)).openNow) := by
  cases m <;> cases finished <;> decide

theorem fdsReleased_eq (m : Mode) (f : Bool) :
    ((fdRun (fdOps m f)).openNow.isEmpty && !(fdRun (fdOps m f)).bad) = f := by
  cases m <;> cases f <;> decide

/-- **C17 local = remote.**  The local and the remote executor run the same
function on the handler level: same loop result (state, end, handler calls), same
`shutdown()` result, same transcript — for every script.  They differ only in
which descriptors exist (`C17_fd_bookkeeping`). -/
theorem C17_local_remote_identical (s : St) (er : List ERound) :
    (remoteRun s er).loop = (localRun s er).loop ∧
    (remoteRun s er).shut = (localRun s er).shut ∧
    transcript (remoteRun s er) = transcript (localRun s er) := by
  refine ⟨rfl, rfl, ?_⟩
  simp only [transcript, remoteRun, localRun, mkRun, fdsReleased_eq, local_beq, remote_beq]

/-- transcripts of two runs whose loops ended alike with nothing pending -/
theorem transcript_eq_of_key (m m' : Mode) (a b : LoopRes) (fa fb : List SelEv)
    (hk : key a = key b)
    (hd : a.stop ≠ .scriptEnd → a.st.client.hasBuffer = false) :
    transcript (mkRun m a fa) = transcript (mkRun m' b fb) := by
  obtain ⟨sa, ea, ca⟩ := a
  obtain ⟨sb, eb, cb⟩ := b
  simp only [key, Prod.mk.injEq] at hk
  obtain ⟨hn, he⟩ := hk
  subst he
  have f1 : (norm sa).sentC = (norm sb).sentC := congrArg St.sentC hn
  have f2 : (norm sa).sentU = (norm sb).sentU := congrArg St.sentU hn
  have f3 : (norm sa).recvC = (norm sb).recvC := congrArg St.recvC hn
  have f4 : (norm sa).recvU = (norm sb).recvU := congrArg St.recvU hn
  have f5 : (norm sa).client = (norm sb).client := congrArg St.client hn
  simp only [norm] at f1 f2 f3 f4 f5
  simp only at hd
  cases ea with
  | scriptEnd =>
    simp [transcript, mkRun, shutAfter, fdsReleased_eq, f1, f2, f3, f4]
  | teardown =>
    have hb := hd (by simp)
    have hb' : sb.client.hasBuffer = false := f5 ▸ hb
    simp [transcript, mkRun, shutAfter, fdsReleased_eq, f1, f2, f3, f4, f5,
      shutdown_drained _ _ _ _ hb']
  | raised =>
    have hb := hd (by simp)
    have hb' : sb.client.hasBuffer = false := f5 ▸ hb
    simp [transcript, mkRun, shutAfter, fdsReleased_eq, f1, f2, f3, f4, f5,
      shutdown_drained _ _ _ _ hb']
  | inactive =>
    have hb := hd (by simp)
    have hb' : sb.client.hasBuffer = false := f5 ▸ hb
    simp [transcript, mkRun, shutAfter, fdsReleased_eq, f1, f2, f3, f4, f5,
      shutdown_drained _ _ _ _ hb']

/-- **C17 same transcript (partial).**

Full statement (false, see below): *for every handler state between rounds, every
threaded script whose client never fails a `send`, and every `_flush` script, the
transcript — bytes delivered to the client and to the upstream, bytes consumed
from both, close after the data, upstream release, lost bytes, descriptors
released — of the threaded run equals that of the local and of the remote run on
the corresponding executor script.*

Proved: the statement with the extra hypothesis `hx` that the loop does not end by
an exception escaping `handle_events` while client output is pending.  Under it
threaded `_flush()` is never entered (teardown and inactivity leave nothing
pending: `C07_no_early_close`), so `shutdown()` is the same function in all modes
and the threaded iteration on a select timeout (`handle_events([], [])`) is a
stutter.  What is missing is exactly the excluded case, in which the modes really
differ: `C17_raised_pending_differs` (witness) and `C17_raised_difference`
(general form).  Corresponding scripts: `shiftRounds` (same ticks; the threaded
`is_inactive()` outcome of iteration `i+1` is the reaper outcome after executor
round `i`; the handler is fresh, so the first threaded check is negative). -/
theorem C17_same_transcript_partial (s : St) (rounds : List TRound) (fl : List SelEv)
    (ha : Alive s)
    (h0 : ∀ r, rounds.head? = some r → isInactive s r.expired = false)
    (hok : ∀ r ∈ rounds, SendOk r.tick)
    (hx : (threadedLoop s rounds).stop = .raised →
      (threadedLoop s rounds).st.client.hasBuffer = false) :
    transcript (threadedRun s rounds fl) = transcript (localRun s (shiftRounds rounds)) ∧
    transcript (threadedRun s rounds fl) = transcript (remoteRun s (shiftRounds rounds)) := by
  have hk : key (threadedLoop s rounds) = key (execLoop s (shiftRounds rounds)) := by
    cases rounds with
    | nil => rfl
    | cons r rs => exact (loops_key rs r s s rfl ha (h0 r rfl)).symm
  have hd : (threadedLoop s rounds).stop ≠ .scriptEnd →
      (threadedLoop s rounds).st.client.hasBuffer = false := by
    intro hne
    cases hs : (threadedLoop s rounds).stop with
    | scriptEnd => exact absurd hs hne
    | teardown => exact threadedLoop_teardown_drained rounds s hok hs
    | inactive => exact threadedLoop_inactive rounds s hs
    | raised => exact hx hs
  exact ⟨transcript_eq_of_key .threaded .local _ _ fl [] hk hd,
         transcript_eq_of_key .threaded .remote _ _ fl [] hk hd⟩

/-- the hypotheses are satisfiable by a run in which things happen: CONNECT
acknowledged, upstream data arrives, a select timeout, a short write, upstream
EOF, drain, teardown — and both sides of the conclusion are the same non-trivial
transcript -/
example :
    let s := initTunnel 4
    let rounds : List TRound := [
      ⟨false, ⟨false, false, true, false, .blocking, .data [1, 2, 3], .blocking, .blocking, .raised⟩⟩,
      ⟨false, ⟨false, false, false, false, .blocking, .blocking, .blocking, .blocking, .raised⟩⟩,
      ⟨false, ⟨true, true, true, true, .data [9, 9], .eof, .sent 2, .sent 5, .raised⟩⟩,
      ⟨true, ⟨false, true, false, true, .blocking, .blocking, .sent 100, .sent 5, .raised⟩⟩,
      ⟨true, ⟨false, true, false, false, .blocking, .blocking, .sent 100, .blocking, .raised⟩⟩] ++
      List.replicate 12 ⟨true, ⟨false, true, false, false, .blocking, .blocking, .sent 100, .blocking, .raised⟩⟩
    Alive s ∧ (∀ r, rounds.head? = some r → isInactive s r.expired = false) ∧
    (∀ r ∈ rounds, SendOk r.tick) ∧ (threadedLoop s rounds).stop = .teardown ∧
    (transcript (threadedRun s rounds [])).toClient = ack ++ [1, 2, 3] ∧
    (transcript (localRun s (shiftRounds rounds))).toClient = ack ++ [1, 2, 3] ∧
    (transcript (threadedRun s rounds [])).toUpstream = [9, 9] ∧
    (transcript (threadedRun s rounds [])).closed = true ∧
    (localRun s (shiftRounds rounds)).loop.calls.length + 1 =
      (threadedRun s rounds []).loop.calls.length := by
  decide

/-- inactivity in the script: both loops stop at the same point (nothing pending) -/
example :
    let s := initHttp 0 [71]
    let rounds : List TRound := [
      ⟨false, ⟨false, false, false, true, .blocking, .blocking, .blocking, .sent 9, .raised⟩⟩,
      ⟨true, ⟨false, false, true, false, .blocking, .data [5], .blocking, .blocking, .raised⟩⟩]
    (threadedLoop s rounds).stop = .inactive ∧ (execLoop s (shiftRounds rounds)).stop = .inactive ∧
    transcript (threadedRun s rounds []) = transcript (localRun s (shiftRounds rounds)) := by
  decide

/-- **C17 flush vs deferral.**  The mode-specific handler code.  From a state in
which a close has been requested or reads are torn down and output is pending
(`FinalFlush`, `FlushInv`, `hasBuffer`):
* threadless: `handle_events` does not return `True`; the executor keeps running
  rounds (`must_flush_before_shutdown` / `reads_teared` deferral) — with a client
  that takes at least a byte per round the loop ends in teardown, and `shutdown()`
  closes without sending;
* threaded, had `shutdown()` been called at once: `_flush()` sends until the
  buffer is empty, then closes.
Both deliver exactly the bytes delivered so far followed by the pending bytes, in
order, lose nothing, and close after the data (via `C07_delivered` and
`C07_threaded_drains`). -/
theorem C17_flush_vs_deferral (s : St) (rounds : List ERound) (fl : List SelEv)
    (hf : FinalFlush s) (hi : FlushInv s) (hb : s.client.hasBuffer = true)
    (hg : ∀ r ∈ rounds, GoodTick r.tick) (hn : pending s.client ≤ rounds.length)
    (hgf : ∀ e ∈ fl, e = .timeout ∨ ∃ k, e = .ready (.sent (k + 1)))
    (hnf : pending s.client ≤ readyCount fl) :
    let a := transcript (mkRun .threaded ⟨s, .teardown, []⟩ fl)
    let b := transcript (localRun s rounds)
    a.toClient = s.sentC ++ s.client.buffer.flatten ∧ b.toClient = s.sentC ++ s.client.buffer.flatten ∧
    a.lost = [] ∧ b.lost = [] ∧ a.closed = true ∧ b.closed = true ∧
    a.upstreamReleased = true ∧ b.upstreamReleased = true := by
  obtain ⟨d1, d2, d3, d4, d5⟩ := C07_threaded_drains s.maxSend s.client fl hb hgf hnf
  have hgt : ∀ t ∈ rounds.map (·.tick), GoodTick t := by
    intro t ht
    obtain ⟨r, hr1, hr2⟩ := List.mem_map.mp ht
    rw [← hr2]; exact hg r hr1
  obtain ⟨e1, e2, e3⟩ := C07_delivered s (rounds.map (·.tick)) hf hi hb hgt (by simpa using hn)
  obtain ⟨x1, _⟩ := execLoop_final_flush rounds s hf hi hb hg
  have hst : (execLoop s rounds).st = (run s (rounds.map (·.tick))).1 := congrArg Prod.fst x1
  have hre : (execLoop s rounds).stop.toRet = .teardown := by
    have := congrArg Prod.snd x1
    simp only at this
    rw [this, e1]
  have hstop : (execLoop s rounds).stop = .teardown := by
    cases h : (execLoop s rounds).stop <;> rw [h] at hre <;> simp [LoopEnd.toRet] at hre
  refine ⟨?_, ?_, ?_, ?_, ?_, ?_, ?_, ?_⟩
  · simp [transcript, mkRun, shutAfter, d2]
  · simp [transcript, localRun, mkRun, shutAfter, hstop, shutdown_threadless, hst, e3]
  · simp [transcript, mkRun, shutAfter, d3]
  · simp [transcript, localRun, mkRun, shutAfter, hstop, shutdown_threadless, hst, e2]
  · simp [transcript, mkRun, shutAfter, d4]
  · simp [transcript, localRun, mkRun, shutAfter, hstop, shutdown_threadless]
  · simp [transcript, mkRun, shutAfter, d5]
  · simp [transcript, localRun, mkRun, shutAfter, hstop, shutdown_threadless]

/-- the hypotheses of `C17_flush_vs_deferral` are satisfiable: a 404-like reply in
two pieces with `max_send = 2` -/
example :
    let s := st0 .local 2 [[1, 2, 3], [4]] [] true false
    let rounds : List ERound := List.replicate 6
      ⟨⟨true, true, false, false, .blocking, .blocking, .sent 1, .blocking, .raised⟩, some true⟩
    let fl : List SelEv := [.timeout, .ready (.sent 2), .ready (.sent 9), .ready (.sent 1), .ready (.sent 1),
      .ready (.sent 1), .ready (.sent 1)]
    pending s.client ≤ rounds.length ∧ pending s.client ≤ readyCount fl ∧
    (transcript (localRun s rounds)).toClient = [1, 2, 3, 4] ∧
    (transcript (mkRun .threaded ⟨s, .teardown, []⟩ fl)).toClient = [1, 2, 3, 4] := by
  decide

/-- **the modes differ (witness).**  Plain-HTTP exchange, three response bytes
queued for a client that is not writable yet; the client's follow-up request
makes the request pipeline raise (`Tick.app = raised`: e.g. `Content-Length: x`
→ `ValueError` out of `HttpParser.parse`).  Threaded: `run()` catches the
exception, `shutdown()` → `_flush()` delivers the three bytes, then closes.
Threadless (local and remote): `_cleanup` → `shutdown()` closes at once; the three
bytes are lost. -/
theorem C17_raised_pending_differs :
    let s := st0 .http 0 [[1, 2, 3]] [] false false
    let t : Tick := ⟨true, false, false, false, .data [88], .blocking, .blocking, .blocking, .raised⟩
    let th := transcript (threadedRun s [⟨false, t⟩] [.ready (.sent 100)])
    let lo := transcript (localRun s (shiftRounds [⟨false, t⟩]))
    let re := transcript (remoteRun s (shiftRounds [⟨false, t⟩]))
    (threadedRun s [⟨false, t⟩] []).loop.stop = .raised ∧
    th.toClient = [1, 2, 3] ∧ th.lost = [] ∧ th.closed = true ∧
    lo.toClient = [] ∧ lo.lost = [1, 2, 3] ∧ lo.closed = true ∧ re = lo := by
  decide

/-- **the modes differ (general form).**  Whenever the loops end by an escaping
exception with output pending, and the client then takes at least a byte per
`select` of `_flush`, threaded mode delivers exactly what threadless mode
delivers *plus* the bytes threadless mode loses (everything that was pending);
both close. -/
theorem C17_raised_difference (s : St) (rounds : List TRound) (fl : List SelEv)
    (ha : Alive s) (h0 : ∀ r, rounds.head? = some r → isInactive s r.expired = false)
    (hr : (threadedLoop s rounds).stop = .raised)
    (hb : (threadedLoop s rounds).st.client.hasBuffer = true)
    (hgf : ∀ e ∈ fl, e = .timeout ∨ ∃ k, e = .ready (.sent (k + 1)))
    (hnf : pending (threadedLoop s rounds).st.client ≤ readyCount fl) :
    let th := transcript (threadedRun s rounds fl)
    let lo := transcript (localRun s (shiftRounds rounds))
    th.toClient = lo.toClient ++ lo.lost ∧
    lo.lost = (threadedLoop s rounds).st.client.buffer.flatten ∧ th.lost = [] ∧
    th.closed = true ∧ lo.closed = true ∧ th.toUpstream = lo.toUpstream := by
  have hk : key (execLoop s (shiftRounds rounds)) = key (threadedLoop s rounds) := by
    cases rounds with
    | nil => rfl
    | cons r rs => exact loops_key rs r s s rfl ha (h0 r rfl)
  simp only [key, Prod.mk.injEq] at hk
  obtain ⟨hn, he⟩ := hk
  have f1 : (norm (execLoop s (shiftRounds rounds)).st).sentC = (norm (threadedLoop s rounds).st).sentC :=
    congrArg St.sentC hn
  have f2 : (norm (execLoop s (shiftRounds rounds)).st).sentU = (norm (threadedLoop s rounds).st).sentU :=
    congrArg St.sentU hn
  have f5 : (norm (execLoop s (shiftRounds rounds)).st).client = (norm (threadedLoop s rounds).st).client :=
    congrArg St.client hn
  simp only [norm] at f1 f2 f5
  rw [hr] at he
  obtain ⟨d1, d2, d3, d4, d5⟩ :=
    C07_threaded_drains (threadedLoop s rounds).st.maxSend (threadedLoop s rounds).st.client fl hb hgf hnf
  refine ⟨?_, ?_, ?_, ?_, ?_, ?_⟩
  · simp [transcript, threadedRun, localRun, mkRun, shutAfter, hr, he, d2, f1, f5, shutdown_threadless]
  · simp [transcript, localRun, mkRun, shutAfter, he, shutdown_threadless, f5]
  · simp [transcript, threadedRun, mkRun, shutAfter, hr, d3]
  · simp [transcript, threadedRun, mkRun, shutAfter, hr, d4]
  · simp [transcript, localRun, mkRun, shutAfter, he, shutdown_threadless]
  · simp [transcript, threadedRun, localRun, mkRun, f2]

/-- **C17 hand-off is atomic.**  `delegate_work_to_pool` sends the client address
and the descriptor under one acquisition of the worker lock.  For every schedule
of any number of delegate threads sharing one worker pipe — every interleaving,
including steps of threads blocked on the lock — the pipe holds the intact
`(address, descriptor)` pairs of the earlier acquisitions in acquisition order,
followed by a prefix of the current holder's pair; whenever the lock is free the
worker's receive loop (`recv()`, `recv_handle()`, repeat) reads exactly the pairs
`(i, i)` in acquisition order and never an address where a descriptor is due. -/
theorem C17_handoff_atomic (sched : List Nat) :
    HInv (hrun lockedProg sched) ∧
    ((hrun lockedProg sched).lock = none →
      recvAll (hrun lockedProg sched).pipe = some ((hrun lockedProg sched).acq.map (fun j => (j, j)))) := by
  have h := hrun_inv_from sched {} hinv_init
  refine ⟨h, fun hl => ?_⟩
  have h2 := h.2
  unfold hrun at hl
  rw [hl] at h2
  simp only at h2
  unfold hrun
  rw [h2]
  exact recvAll_pairs _

/-- three hand-offs, interleaved as hard as the lock allows: three intact pairs -/
example :
    let s := hrun lockedProg [0, 1, 0, 2, 1, 0, 0, 2, 1, 2, 2, 2, 1, 1, 1, 1]
    s.lock = none ∧ s.acq = [0, 2, 1] ∧ recvAll s.pipe = some [(0, 0), (2, 2), (1, 1)] := by
  decide

/-- **the lock must cover both sends.**  With the address sent before the lock is
taken ("hold the lock only while the descriptor is in flight") two simultaneous
hand-offs can put `addr 0, addr 1, fd 0, fd 1` on the pipe: the worker's
`recv_handle()` finds pickled address bytes. -/
theorem C17_handoff_needs_lock :
    (hrun addrOutsideProg [0, 1, 0, 0, 0, 1, 1, 1]).pipe = [.addr 0, .addr 1, .fd 0, .fd 1] ∧
    recvAll (hrun addrOutsideProg [0, 1, 0, 0, 0, 1, 1, 1]).pipe = none ∧
    (hrun addrOutsideProg [0, 1, 0, 0, 0, 1, 1, 1]).lock = none := by
  decide

/-- **C17 hand-off framing.**  Sender (`delegate_work_to_pool`) and receiver
(`receive_from_work_queue`) both decide from the one flag `unix_socket_path` whether
an address item precedes the descriptor.  For every value of the flag and every
sequence of hand-offs of connections of either kind (accepted on a TCP listener,
with an address, or on the unix listener, without) the receiver's reads line up:
it gets every descriptor, in order, paired with its address exactly when the flag
is off. -/
theorem C17_handoff_framing (u : Bool) (hs : List (Nat × ConnKind)) :
    recvFramed (receiverExpects u) (framedPipe senderSends u hs) =
      some (hs.map (fun h => (if u then none else some h.1, h.1))) := by
  induction hs with
  | nil => simp [framedPipe, recvFramed]
  | cons h hs ih =>
    cases u <;>
      simp [framedPipe, frame, senderSends, receiverExpects, recvFramed] at ih ⊢ <;> simp [ih]

/-- **the two sides must use the same rule.**  If the sender sends the address
whenever the connection has one while the receiver still goes by the flag, the first
TCP client of a proxy started with `--unix-socket-path … --ports …` makes the worker
read the pickled address where the descriptor message is due. -/
theorem C17_handoff_framing_mismatch :
    framedPipe senderSendsByAddr true [(0, .tcp), (1, .unix)] = [.addr 0, .fd 0, .fd 1] ∧
    recvFramed (receiverExpects true) (framedPipe senderSendsByAddr true [(0, .tcp), (1, .unix)]) = none ∧
    recvFramed (receiverExpects true) (framedPipe senderSends true [(0, .tcp), (1, .unix)]) =
      some [(none, 0), (none, 1)] := by
  decide

/-- **C17 hand-off queue is lossless.**  The queue between an acceptor and its local
executor is an unbounded FIFO: for every sequence of `put`s (accepted connections,
any number pending) and `get`s (one per executor round, `Empty` when nothing
waits), the works taken so far followed by the works still waiting are exactly the
works put, in order — none dropped, duplicated or reordered; in particular once
the queue is empty every accepted connection has been handed to the executor. -/
theorem C17_handoff_queue_lossless (ops : List QOp) :
    (qrun ops).got.filterMap id ++ (qrun ops).q = putsOf ops ∧
    ((qrun ops).q = [] → (qrun ops).got.filterMap id = putsOf ops) := by
  have h := qrun_account ops {}
  simp only [List.filterMap_nil, List.nil_append] at h
  refine ⟨h, fun he => ?_⟩
  unfold qrun at he ⊢
  rw [he, List.append_nil] at h
  exact h

/-- 40 connections pending, then taken one per round: all 40, in order, then `Empty` -/
example :
    let ops := (List.range 40).map QOp.put ++ List.replicate 41 QOp.get
    (qrun ops).got.filterMap id = List.range 40 ∧ (qrun ops).got.getLast? = some none := by
  decide

/-- **a bounded queue is not equivalent.**  With `deque(maxlen=cap)` semantics the
oldest waiting connections are silently discarded once more than `cap` are pending. -/
theorem C17_handoff_queue_bounded_loses :
    (((List.range 5).map QOp.put ++ List.replicate 5 QOp.get).foldl (bqstep 3) {}).got.filterMap id = [2, 3, 4] := by
  decide

end Px.Modes

namespace Px.Idle

/-- **C17 idle reaping in all modes (from C20).**  The only other place where the
drivers differ is *when* `is_inactive()` is asked: the threaded loop at the top of
every iteration, the executor every `period = 39` iterations of `_run_forever` — and
the period is counted in ALL loop iterations, busy or not (`C20_cadence`,
`C20_period_impl`).  Hence, with the constants of the implementation and iterations at
most `D` apart, a connection idle with an empty buffer from `t0` is closed no later
than `t0 + timeout + D` in threaded mode and no later than `t0 + timeout + 40·D` in
both threadless modes (`C20_bound_threaded`, `C20_bound_threadless_impl`): the modes
agree on "a connection silent past the timeout is dropped" up to that bounded
delay.  (`Modes.shiftRounds` is the script-level form of the same correspondence.) -/
theorem C17_idle_reaping_bounded (timeout : Int) (hT : 0 ≤ timeout) (D : Int) (hD : 0 ≤ D)
    (t0 start : Int) (pre suf : List Ev) (hq : ∀ e ∈ suf, Quiet e) (hp : Paced D t0 suf) :
    (IdleAt (run (implCfg timeout true) (init start) pre) t0 →
      (∃ t, Ev.loopIter t ∈ suf ∧ t0 + timeout < t) →
      ∃ t, (run (implCfg timeout true) (init start) (pre ++ suf)).status = .reaped t ∧
        t ≤ t0 + timeout + D) ∧
    (IdleAt (run (implCfg timeout false) (init start) pre) t0 →
      (∃ t, Ev.loopIter t ∈ suf ∧ t0 + timeout + 40 * D < t + D) →
      ∃ t, (run (implCfg timeout false) (init start) (pre ++ suf)).status = .reaped t ∧
        t ≤ t0 + timeout + 40 * D) ∧
    period (implCfg timeout false) = 39 :=
  ⟨fun hi hr => C20_bound_threaded (t0 := t0) (implCfg timeout true) rfl hT D hD start pre suf hi hq hp hr,
   fun hi hr => C20_bound_threadless_impl (t0 := t0) timeout hT D hD start pre suf hi hq hp hr,
   C20_period_impl timeout⟩

end Px.Idle
