import PxProofs.BuildGuards
import PxProofs.ChunkCodec
/-!
# Re-serialising a parsed message (`HttpParser.build` / `build_response`) and reading it back (C15)

* `hdrInvB` : decidable guard on a header map (keys are the lower-cased names and are unique — which the
  parser guarantees, `parse_keys_inv` — names / values in the header grammar);
* `rebuildHeaders_eq`, `respHeaders_eq` : the dict comprehension of `build()` is the list of
  `(name, value)` pairs in order;  `hdrFold_namesOf` : reading that list back gives the same map;
* `build_parse_req_*`, `build_parse_resp_*` : the three framings.
-/
namespace Px.Codec

open Px.Parser Px.Build
open Px.Url (Url)

/-- the `(name, value)` pairs of a header map, in order -/
def namesOf (h : Headers) : HDict := h.map (·.2)

/-- decidable guard on a parsed header map -/
def hdrInvB (h : Headers) : Bool :=
  decide ((h.map (fun e => lower e.2.1)).Nodup) &&
    h.all (fun e => e.1 == lower e.2.1 && wfName e.2.1 && wfValue e.2.2)

theorem hdrInvB_spec {h : Headers} (hi : hdrInvB h = true) :
    (h.map (fun e => lower e.2.1)).Nodup ∧
    ∀ e ∈ h, e.1 = lower e.2.1 ∧ wfName e.2.1 = true ∧ wfValue e.2.2 = true := by
  simp only [hdrInvB, Bool.and_eq_true, decide_eq_true_eq, List.all_eq_true, beq_iff_eq] at hi
  exact ⟨hi.1, fun e he => ⟨(hi.2 e he).1.1, (hi.2 e he).1.2, (hi.2 e he).2⟩⟩

theorem wfHeaders_namesOf {h : Headers} (hi : hdrInvB h = true) : wfHeaders (namesOf h) = true := by
  obtain ⟨-, h2⟩ := hdrInvB_spec hi
  simp only [wfHeaders, namesOf, List.all_eq_true, List.mem_map, Bool.and_eq_true]
  rintro e ⟨a, ha, rfl⟩
  exact ⟨(h2 a ha).2.1, (h2 a ha).2.2⟩

/-- distinct names: the dict comprehension only appends -/
theorem foldl_dSet_distinct (h : Headers) (acc : HDict)
    (hnd : (h.map (fun e => e.2.1)).Nodup) (hacc : ∀ e ∈ h, ∀ a ∈ acc, a.1 ≠ e.2.1) :
    h.foldl (fun acc e => dSet acc e.2.1 e.2.2) acc = acc ++ namesOf h := by
  induction h generalizing acc with
  | nil => simp [namesOf]
  | cons e t ih =>
    simp only [List.map_cons, List.nodup_cons, List.mem_map, not_exists, not_and] at hnd
    simp only [List.foldl_cons]
    rw [dSet_of_not_mem acc e.2.1 e.2.2 (fun a ha => hacc e (by simp) a ha)]
    rw [ih _ hnd.2 (fun e' he' a ha => by
      simp only [List.mem_append, List.mem_singleton] at ha
      rcases ha with ha | rfl
      · exact hacc e' (List.mem_cons_of_mem _ he') a ha
      · exact fun heq => hnd.1 e' he' heq.symm)]
    simp [namesOf]

theorem names_nodup_of_lower {h : Headers} (hnd : (h.map (fun e => lower e.2.1)).Nodup) :
    (h.map (fun e => e.2.1)).Nodup := by
  have : h.map (fun e => lower e.2.1) = (h.map (fun e => e.2.1)).map lower := by simp
  rw [this] at hnd
  exact List.Pairwise.of_map lower (fun a c hne heq => hne (heq ▸ rfl)) hnd

/-- `HttpParser.build`'s header dict (default `disable_headers`, no Host override) -/
theorem rebuildHeaders_eq (h : Headers) (hi : hdrInvB h = true) : rebuildHeaders h [] none = namesOf h := by
  obtain ⟨hnd, -⟩ := hdrInvB_spec hi
  unfold rebuildHeaders
  have : (fun (acc : HDict) (x : Bytes × Bytes × Bytes) =>
      match x with
      | (k, name, value) =>
        if ([] : List Bytes).contains (lower k) = true then acc
        else dSet acc name (match (none : Option Bytes) with
          | some hv => if (lower name == b "host") = true then hv else value
          | none => value)) = (fun acc e => dSet acc e.2.1 e.2.2) := by
    funext acc x; obtain ⟨k, name, value⟩ := x; simp
  rw [this, foldl_dSet_distinct h [] (names_nodup_of_lower hnd) (by simp)]
  simp

/-- `HttpParser.build_response`'s header dict -/
theorem respHeaders_eq (h : Headers) (hi : hdrInvB h = true) :
    h.foldl (fun acc (x : Bytes × Bytes × Bytes) => match x with | (_, name, value) => dSet acc name value) [] =
      namesOf h := by
  obtain ⟨hnd, -⟩ := hdrInvB_spec hi
  have : (fun (acc : HDict) (x : Bytes × Bytes × Bytes) => match x with | (_, name, value) => dSet acc name value) =
      (fun acc e => dSet acc e.2.1 e.2.2) := by
    funext acc x; obtain ⟨k, name, value⟩ := x; rfl
  rw [this, foldl_dSet_distinct h [] (names_nodup_of_lower hnd) (by simp)]
  simp

theorem hdrSet_of_no_key (h : Headers) (k : Bytes) (x : Bytes × Bytes) (hk : ∀ e ∈ h, e.1 ≠ k) :
    hdrSet h k x = h ++ [(k, x)] := by
  unfold hdrSet
  have : h.any (·.1 == k) = false := by
    rw [List.any_eq_false]; intro e he; simpa using hk e he
  simp [this]

/-- reading the `(name, value)` list of a map back gives the map -/
theorem hdrFold_namesOf_aux (h : Headers) (acc : Headers)
    (hnd : (h.map (fun e => lower e.2.1)).Nodup) (hk : ∀ e ∈ h, e.1 = lower e.2.1)
    (hacc : ∀ e ∈ h, ∀ a ∈ acc, a.1 ≠ lower e.2.1) :
    hdrFold acc (namesOf h) = acc ++ h := by
  induction h generalizing acc with
  | nil => simp [namesOf, hdrFold]
  | cons e t ih =>
    simp only [List.map_cons, List.nodup_cons, List.mem_map, not_exists, not_and] at hnd
    have he := hk e (by simp)
    simp only [namesOf, List.map_cons]
    rw [hdrFold_cons, hdrSet_of_no_key _ _ _ (fun a ha => hacc e (by simp) a ha)]
    have := ih (acc ++ [(lower e.2.1, (e.2.1, e.2.2))]) hnd.2 (fun e' he' => hk e' (List.mem_cons_of_mem _ he'))
      (fun e' he' a ha => by
        simp only [List.mem_append, List.mem_singleton] at ha
        rcases ha with ha | rfl
        · exact hacc e' (List.mem_cons_of_mem _ he') a ha
        · exact fun heq => hnd.1 e' he' heq.symm)
    simp only [namesOf] at this
    rw [this]
    have : (lower e.2.1, (e.2.1, e.2.2)) = e := by
      obtain ⟨k, n, v⟩ := e; simp only at he; simp [he]
    simp [this]

theorem hdrFold_namesOf (h : Headers) (hi : hdrInvB h = true) : hdrFold [] (namesOf h) = h := by
  obtain ⟨hnd, hk⟩ := hdrInvB_spec hi
  simpa using hdrFold_namesOf_aux h [] hnd (fun e he => (hk e he).1) (by simp)

theorem hdrsOf_namesOf (h : Headers) (hi : hdrInvB h = true) (hne : h ≠ []) : hdrsOf (namesOf h) = some h := by
  unfold hdrsOf
  have : namesOf h ≠ [] := by simpa [namesOf] using hne
  rw [if_neg this, hdrFold_namesOf h hi]

/-! ### the request target that `build()` writes -/

/-- `self.path or b'/'` -/
def pathOf (p : Parser) : Bytes :=
  match p.path with
  | some x => if x.isEmpty then [SLASH] else x
  | none => [SLASH]

/-- origin-form target that the own parser reads back as a path: starts with `/`, not with `//`
    (a leading `//` is read as a network-path reference: finding D24) -/
def originPath (x : Bytes) : Bool :=
  match x with
  | c0 :: tl => c0 == SLASH && (match tl with | c1 :: _ => c1 != SLASH | [] => true)
  | [] => false

theorem fromBytes_origin (allowed : List Bytes) (x : Bytes) (h : originPath x = true) :
    Px.Url.fromBytes allowed x = .ok { remainder := some x } := by
  cases x with
  | nil => simp [originPath] at h
  | cons c0 tl =>
    simp only [originPath, Bool.and_eq_true, beq_iff_eq] at h
    obtain ⟨rfl, h2⟩ := h
    unfold Px.Url.fromBytes
    cases tl with
    | nil => simp
    | cons c1 tl' =>
      have : (c1 == SLASH) = false := by simpa using h2
      simp [this]

end Px.Codec

namespace Px.Codec

open Px.Parser Px.Build
open Px.Url (Url)

/-! ### rendered packets with an arbitrary (well-formed) header list -/

theorem req_pkt_nobody (cfg : Cfg) {m u v : Bytes} {url : Url} (H : HDict)
    (hm : plainTok m = true) (hu : plainTok u = true) (hv : plainTok v = true)
    (hurl : Px.Url.fromBytes cfg.allowedSchemes u = .ok url) (hH : ∀ e ∈ H, HdrOK e.1 e.2)
    (hte : H.any isTEChunked = false) (hcl : ∀ e ∈ H, isCL e = true → pyInt 10 e.2 = some 0) :
    ∃ r, parse cfg (init .request) (m ++ SP :: (u ++ SP :: v) ++ CRLF ++ (renderHdrs H ++ CRLF ++ [])) = .ok r ∧
      ReqResult r m v url H none false := by
  obtain ⟨hmne, hmsp, hmcr⟩ := plainTok_spec hm
  obtain ⟨-, husp, hucr⟩ := plainTok_spec hu
  obtain ⟨-, -, hvcr⟩ := plainTok_spec hv
  have hparse := parse_request_pkt cfg H [] hmne hmsp husp (line3_noCRLF hmcr hucr hvcr) hurl hH _ rfl
  obtain ⟨r, h1, h2, h3, h4, h5, h6, h7⟩ := finish_nobody cfg .request _ _ [] _ hparse
    (freshLine_req cfg _ m v url) hte hcl (.inl rfl)
  exact ⟨r, h1, reqResult_of h2 h3 h4 h5 (by simpa using h6) h7⟩

theorem req_pkt_cl (cfg : Cfg) {m u v : Bytes} {url : Url} (H : HDict) (body : Bytes)
    (hm : plainTok m = true) (hu : plainTok u = true) (hv : plainTok v = true)
    (hurl : Px.Url.fromBytes cfg.allowedSchemes u = .ok url) (hH : ∀ e ∈ H, HdrOK e.1 e.2)
    (hte : H.any isTEChunked = false)
    (hcl : ∀ e ∈ H, isCL e = true → pyInt 10 e.2 = some (Int.ofNat body.length))
    (hex : ∃ e ∈ H, isCL e = true) (hne : body ≠ []) :
    ∃ r, parse cfg (init .request) (m ++ SP :: (u ++ SP :: v) ++ CRLF ++ (renderHdrs H ++ CRLF ++ body)) = .ok r ∧
      ReqResult r m v url H (some body) false := by
  obtain ⟨hmne, hmsp, hmcr⟩ := plainTok_spec hm
  obtain ⟨-, husp, hucr⟩ := plainTok_spec hu
  obtain ⟨-, -, hvcr⟩ := plainTok_spec hv
  have hparse := parse_request_pkt cfg H body hmne hmsp husp (line3_noCRLF hmcr hucr hvcr) hurl hH _ rfl
  obtain ⟨r, h1, h2, h3, h4, h5, h6, h7⟩ := finish_cl cfg .request _ _ body [] _ _ hparse
    (List.append_nil _).symm (freshLine_req cfg _ m v url) hte hcl hex hne
  exact ⟨r, h1, reqResult_of h2 h3 h4 h5 (by simpa using h6) h7⟩

theorem req_pkt_chunked (cfg : Cfg) {m u v : Bytes} {url : Url} (H : HDict) (s : Px.Chunk.ChunkedStream)
    (hm : plainTok m = true) (hu : plainTok u = true) (hv : plainTok v = true)
    (hurl : Px.Url.fromBytes cfg.allowedSchemes u = .ok url) (hH : ∀ e ∈ H, HdrOK e.1 e.2)
    (hte : H.any isTEChunked = true) (hcl : clValuesOK H) (hs : s.Valid) :
    ∃ r, parse cfg (init .request) (m ++ SP :: (u ++ SP :: v) ++ CRLF ++ (renderHdrs H ++ CRLF ++ s.render)) = .ok r ∧
      ReqResult r m v url H (some s.decoded) true := by
  obtain ⟨hmne, hmsp, hmcr⟩ := plainTok_spec hm
  obtain ⟨-, husp, hucr⟩ := plainTok_spec hu
  obtain ⟨-, -, hvcr⟩ := plainTok_spec hv
  have hparse := parse_request_pkt cfg H s.render hmne hmsp husp (line3_noCRLF hmcr hucr hvcr) hurl hH _ rfl
  obtain ⟨r, h1, h2, h3, h4, h5, h6, h7⟩ := finish_chunked cfg .request _ _ s [] _ _ hparse
    (List.append_nil _).symm (freshLine_req cfg _ m v url) hte hcl hs
  exact ⟨r, h1, reqResult_of h2 h3 h4 h5 (by simpa using h6) h7⟩

theorem res_pkt_nobody (cfg : Cfg) (status : Int) {v : Bytes} (reason : Option Bytes) (H : HDict)
    (hv : plainTok v = true) (hr : reasonOK reason = true) (hne : H ≠ []) (hH : ∀ e ∈ H, HdrOK e.1 e.2)
    (hte : H.any isTEChunked = false) (hcl : ∀ e ∈ H, isCL e = true → pyInt 10 e.2 = some 0) :
    ∃ r, parse cfg (init .response) (statusLine status v reason ++ CRLF ++ (renderHdrs H ++ CRLF ++ [])) = .ok r ∧
      ResResult r v (intToDec status) (reasonSeen reason) H none false := by
  have hparse := parse_status_pkt cfg status v reason H [] hv hr (.inl hne) hH _ rfl
  obtain ⟨r, h1, h2, h3, h4, h5, h6, h7⟩ := finish_nobody cfg .response _ _ [] _ hparse
    (freshLine_res _ v (intToDec status) (reasonSeen reason)) hte hcl (.inl rfl)
  exact ⟨r, h1, resResult_of h2 h3 h4 h5 (by simpa using h6) h7⟩

theorem res_pkt_cl (cfg : Cfg) (status : Int) {v : Bytes} (reason : Option Bytes) (H : HDict) (body : Bytes)
    (hv : plainTok v = true) (hr : reasonOK reason = true) (hH : ∀ e ∈ H, HdrOK e.1 e.2)
    (hte : H.any isTEChunked = false)
    (hcl : ∀ e ∈ H, isCL e = true → pyInt 10 e.2 = some (Int.ofNat body.length))
    (hex : ∃ e ∈ H, isCL e = true) (hne : body ≠ []) :
    ∃ r, parse cfg (init .response) (statusLine status v reason ++ CRLF ++ (renderHdrs H ++ CRLF ++ body)) = .ok r ∧
      ResResult r v (intToDec status) (reasonSeen reason) H (some body) false := by
  have hparse := parse_status_pkt cfg status v reason H body hv hr (.inr hne) hH _ rfl
  obtain ⟨r, h1, h2, h3, h4, h5, h6, h7⟩ := finish_cl cfg .response _ _ body [] _ _ hparse
    (List.append_nil _).symm (freshLine_res _ v (intToDec status) (reasonSeen reason)) hte hcl hex hne
  exact ⟨r, h1, resResult_of h2 h3 h4 h5 (by simpa using h6) h7⟩

theorem res_pkt_chunked (cfg : Cfg) (status : Int) {v : Bytes} (reason : Option Bytes) (H : HDict)
    (s : Px.Chunk.ChunkedStream)
    (hv : plainTok v = true) (hr : reasonOK reason = true) (hH : ∀ e ∈ H, HdrOK e.1 e.2)
    (hte : H.any isTEChunked = true) (hcl : clValuesOK H) (hs : s.Valid) :
    ∃ r, parse cfg (init .response) (statusLine status v reason ++ CRLF ++ (renderHdrs H ++ CRLF ++ s.render)) = .ok r ∧
      ResResult r v (intToDec status) (reasonSeen reason) H (some s.decoded) true := by
  have hparse := parse_status_pkt cfg status v reason H s.render hv hr
    (.inr (Px.Chunk.render_ne_nil s)) hH _ rfl
  obtain ⟨r, h1, h2, h3, h4, h5, h6, h7⟩ := finish_chunked cfg .response _ _ s [] _ _ hparse
    (List.append_nil _).symm (freshLine_res _ v (intToDec status) (reasonSeen reason)) hte hcl hs
  exact ⟨r, h1, resResult_of h2 h3 h4 h5 (by simpa using h6) h7⟩

end Px.Codec
