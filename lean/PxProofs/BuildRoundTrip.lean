import PxProofs.BuildParse
/-!
# The builders' output read back by the parser, part 3: framing cases and the builders (C15)

* `finish_nobody` / `finish_cl` / `finish_chunked` : what `parse` returns for a rendered packet
  in each of the three framings, for any start line (`p1` = parser after the start line);
* `buildPkt_eq`, `reqHeaders`, `buildRequest_eq`, `resHeaders`, `buildResponse_eq` : the builders as
  `start-line CRLF header-block CRLF payload` and the exact header list they send;
* `mem_reqHeaders`, `mem_resHeaders` and the facts about these lists the framing theorems need.
-/
namespace Px.Codec

open Px.Parser Px.Build
open Px.Url (Url)

/-! ### framing cases, generic in the start line -/

/-- the start-line fields of `r` are those of `p` -/
def LineEq (p r : Parser) : Prop :=
  r.ty = p.ty ∧ r.method = p.method ∧ r.version = p.version ∧ r.code = p.code ∧ r.reason = p.reason ∧
  r.url = p.url ∧ r.host = p.host ∧ r.port = p.port ∧ r.path = p.path ∧ r.isTunnel = p.isTunnel ∧
  r.totalSize = p.totalSize

/-- the parser's header map for a received header list -/
def hdrsOf (H : HDict) : Option Headers := if H = [] then none else some (hdrFold [] H)

/-- a parser that has read a start line and nothing else -/
def FreshLine (p1 : Parser) : Prop :=
  p1.contentExpected = false ∧ p1.isChunked = false ∧ p1.headers = none ∧ p1.body = none ∧
  p1.chunk = none ∧ p1.buffer = none

theorem lineEq_of_sameLine {p q : Parser} (h : sameLine p q) : LineEq p q := by
  obtain ⟨a1, a2, a3, a4, a5, a6, a7, a8, a9, a10, -, -, a13, -⟩ := h
  exact ⟨a1, a2, a3, a4, a5, a6, a7, a8, a9, a10, a13⟩

theorem clValuesOK_of {H : HDict} {n : Int} (h : ∀ e ∈ H, isCL e = true → pyInt 10 e.2 = some n) :
    clValuesOK H := fun e he hc => ⟨n, h e he hc⟩

/-- **no body**: no chunked transfer coding and every `content-length` (if any) reads as 0.
    The message completes at the blank line; `B` (bytes after it) stays in the buffer. -/
theorem finish_nobody (cfg : Cfg) (ty : PType) (p1 : Parser) (H : HDict) (B pkt : Bytes)
    (hparse : parse cfg (init ty) pkt = match foldHdrs p1 H with
      | .error e => .error e
      | .ok q => bodyPhase cfg (pkt.length + 6) q B)
    (hp1 : FreshLine p1) (hte : H.any isTEChunked = false)
    (hcl : ∀ e ∈ H, isCL e = true → pyInt 10 e.2 = some 0) (hB : B = [] ∨ p1.ty = .request) :
    ∃ r, parse cfg (init ty) pkt = .ok r ∧ r.state = .complete ∧ LineEq p1 r ∧ r.headers = hdrsOf H ∧
      r.body = none ∧ r.buffer = (if B.isEmpty then none else some B) ∧ r.isChunked = false := by
  obtain ⟨hce, hch, hh, hb, hck, hbf⟩ := hp1
  obtain ⟨q, hq⟩ := foldHdrs_ok H (clValuesOK_of hcl) p1
  obtain ⟨hsl, hhd, hchq⟩ := foldHdrs_spec H hq
  have hceq : q.contentExpected = false := by
    by_cases hex : ∃ e ∈ H, isCL e = true
    · rw [foldHdrs_ce_some H 0 hcl hex hq]; decide
    · have hnone : ∀ e ∈ H, isCL e = false := by
        intro e he
        cases hc : isCL e with
        | false => rfl
        | true => exact absurd ⟨e, he, hc⟩ hex
      rw [foldHdrs_ce_none H hnone hq, hce]
  have hchq' : q.isChunked = false := by rw [hchq, hch, hte]; rfl
  have hty : q.ty = p1.ty := hsl.1
  rw [hparse, hq]
  simp only
  rw [bodyPhase_nobody cfg _ q B hceq hchq' (by
    rcases hB with h | h
    · exact .inl h
    · exact .inr (.inl (hty.trans h)))]
  refine ⟨_, rfl, rfl, ?_, ?_, ?_, rfl, hchq'⟩
  · exact lineEq_of_sameLine hsl
  · show q.headers = _; rw [hhd, hh]; rfl
  · show q.body = _; rw [hsl.2.2.2.2.2.2.2.2.2.2.1, hb]

/-- **Content-Length framing**: no chunked transfer coding, at least one `content-length`, all of them
    reading as `len(body) > 0`; the payload is `body ++ tail`. -/
theorem finish_cl (cfg : Cfg) (ty : PType) (p1 : Parser) (H : HDict) (body tail pkt : Bytes)
    (hparse : parse cfg (init ty) pkt = match foldHdrs p1 H with
      | .error e => .error e
      | .ok q => bodyPhase cfg (pkt.length + 6) q (body ++ tail))
    (hp1 : FreshLine p1) (hte : H.any isTEChunked = false)
    (hcl : ∀ e ∈ H, isCL e = true → pyInt 10 e.2 = some (Int.ofNat body.length))
    (hex : ∃ e ∈ H, isCL e = true) (hne : body ≠ []) :
    ∃ r, parse cfg (init ty) pkt = .ok r ∧ r.state = .complete ∧ LineEq p1 r ∧ r.headers = hdrsOf H ∧
      r.body = some body ∧ r.buffer = (if tail.isEmpty then none else some tail) ∧ r.isChunked = false := by
  obtain ⟨hce, hch, hh, hb, hck, hbf⟩ := hp1
  obtain ⟨q, hq⟩ := foldHdrs_ok H (clValuesOK_of hcl) p1
  obtain ⟨hsl, hhd, hchq⟩ := foldHdrs_spec H hq
  have hpos : 0 < body.length := List.length_pos_iff.2 hne
  have hceq : q.contentExpected = true := by
    rw [foldHdrs_ce_some H _ hcl hex hq]
    simp only [decide_eq_true_eq]; exact Int.natCast_pos.2 hpos
  have hchq' : q.isChunked = false := by rw [hchq, hch, hte]; rfl
  have hbq : q.body = none := by rw [hsl.2.2.2.2.2.2.2.2.2.2.1, hb]
  -- the value the parser looks up is one of the content-length values
  have hHne : H ≠ [] := by
    obtain ⟨e, he, -⟩ := hex; intro h; rw [h] at he; simp at he
  have hlookup : ∃ clv, header q (b "content-length") = .ok clv ∧ pyInt 10 clv = some (Int.ofNat body.length) := by
    have hqh : q.headers = some (hdrFold [] H) := by rw [hhd, if_neg hHne, hh]; rfl
    obtain ⟨nv, hget, hval⟩ := hdrGet_hdrFold_cl H [] hex
    obtain ⟨e, he, hce', hv⟩ := hval
    refine ⟨nv.2, ?_, by rw [hv]; exact hcl e he hce'⟩
    unfold header
    rw [hqh, b_content_length]
    simp only [show lower [99, 111, 110, 116, 101, 110, 116, 45, 108, 101, 110, 103, 116, 104] = kCL from by decide,
      hget]
  obtain ⟨clv, hhdr, hint⟩ := hlookup
  rw [hparse, hq]
  simp only
  have e6 : pkt.length + 6 = (pkt.length + 4) + 2 := rfl
  rw [e6, bodyPhase_cl cfg _ q body tail clv hchq' hceq hbq hhdr hint hne]
  refine ⟨_, rfl, rfl, ?_, ?_, rfl, rfl, hchq'⟩
  · exact lineEq_of_sameLine hsl
  · show q.headers = _; rw [hhd, hh]; rfl

/-- **chunked framing**: some header is `Transfer-Encoding: chunked` (case-insensitively), every
    `content-length` present is an integer literal (it is ignored); the payload is a valid chunked
    stream followed by `tail`. -/
theorem finish_chunked (cfg : Cfg) (ty : PType) (p1 : Parser) (H : HDict) (s : Px.Chunk.ChunkedStream)
    (tail pkt : Bytes)
    (hparse : parse cfg (init ty) pkt = match foldHdrs p1 H with
      | .error e => .error e
      | .ok q => bodyPhase cfg (pkt.length + 6) q (s.render ++ tail))
    (hp1 : FreshLine p1) (hte : H.any isTEChunked = true) (hcl : clValuesOK H) (hv : s.Valid) :
    ∃ r, parse cfg (init ty) pkt = .ok r ∧ r.state = .complete ∧ LineEq p1 r ∧ r.headers = hdrsOf H ∧
      r.body = some s.decoded ∧ r.buffer = (if tail.isEmpty then none else some tail) ∧ r.isChunked = true := by
  obtain ⟨hce, hch, hh, hb, hck, hbf⟩ := hp1
  obtain ⟨q, hq⟩ := foldHdrs_ok H hcl p1
  obtain ⟨hsl, hhd, hchq⟩ := foldHdrs_spec H hq
  have hchq' : q.isChunked = true := by rw [hchq, hte]; simp
  have hckq : q.chunk = none := by rw [hsl.2.2.2.2.2.2.2.2.2.2.2.1, hck]
  rw [hparse, hq]
  simp only
  have e6 : pkt.length + 6 = (pkt.length + 4) + 2 := rfl
  rw [e6, bodyPhase_chunked cfg _ q s tail hchq' hckq hv]
  refine ⟨_, rfl, rfl, ?_, ?_, rfl, rfl, hchq'⟩
  · exact lineEq_of_sameLine hsl
  · show q.headers = _; rw [hhd, hh]; rfl

end Px.Codec
