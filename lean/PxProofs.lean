import PxProofs.C16
import PxProofs.C20
