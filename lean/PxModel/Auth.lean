import PxModel.Bytes
import PxModel.Generated
import PxModel.Sha1
/-
  Model of proxy/http/proxy/auth.py (AuthPlugin.before_upstream_connection)
  and of the way proxy/common/flag.py derives `flags.auth_code`.

      if self.flags.auth_code:
          request.headers = request.headers or {}
          if httpHeaders.PROXY_AUTHORIZATION not in request.headers:
              raise ProxyAuthenticationFailed()
          parts = request.headers[httpHeaders.PROXY_AUTHORIZATION][1].split()
          if len(parts) != 2 \
                  or parts[0].lower() != b'basic' \
                  or parts[1] != self.flags.auth_code:
              raise ProxyAuthenticationFailed()
      return request
-/
namespace Px.Auth

/-- `httpHeaders.PROXY_AUTHORIZATION` (generated from /repo) -/
def PROXY_AUTHORIZATION : Bytes := Px.Gen.hdrProxyAuthorization
/-- `httpHeaders.PROXY_CONNECTION` (generated from /repo) -/
def PROXY_CONNECTION : Bytes := Px.Gen.hdrProxyConnection

/-- the literal `b'basic'` of auth.py -/
def BASIC : Bytes := b "basic"

/-- `flags.auth_code = base64.b64encode(bytes_(basic_auth))` (flag.py), `None`
    when `basic_auth` is falsy (absent or the empty string). -/
def authCode (basicAuth : Option Bytes) : Option Bytes :=
  match basicAuth with
  | none => none
  | some s => if s.isEmpty then none else some (Px.Sha1.b64encode s)

/-- the three-way `or` of auth.py evaluated left to right on the header value:
    `true` = no exception raised -/
def valueOk (code v : Bytes) : Bool :=
  let parts := splitWs v
  if parts.length != 2 then false
  else if lower (parts.getD 0 []) != BASIC then false
  else if parts.getD 1 [] != code then false
  else true

/-- `AuthPlugin.before_upstream_connection`: `true` = the request is returned,
    `false` = `ProxyAuthenticationFailed` is raised.  `hdr` is the value stored
    under the key `proxy-authorization` of the parser's header map (`none` = key
    absent).  `if self.flags.auth_code:` is a truthiness test: `None` and `b''`
    both switch authentication off. -/
def check (code : Option Bytes) (hdr : Option Bytes) : Bool :=
  match code with
  | none => true
  | some c =>
    if c.isEmpty then true
    else match hdr with
      | none => false
      | some v => valueOk c v

end Px.Auth
