import PxProofs.ForwardSem
/-!
# C02 helper lemmas, part 12: the forwarded message is lexically well formed

Every field line of `fwdImpl first cfg r` is `token ":" SP field-value` with no CR / LF / other
control byte in the value and no OWS at its ends, so `render (fwdImpl …)` reads back unambiguously
(no header injection through re-serialisation).
-/
namespace Px.Forward

open Px.Parser Px.Build

/-- the proxy's own Via entry is a legal field value -/
def AgentOk (cfg : Cfg) : Prop := valueOk (viaValue cfg) = true ∧ viaValue cfg ≠ []

instance (cfg : Cfg) : Decidable (AgentOk cfg) := by unfold AgentOk; infer_instance

example : AgentOk {} := by decide +kernel

theorem valueOk_iff (v : Bytes) : valueOk v = true ↔
    (∀ c ∈ v, isFieldByte c = true) ∧ (∀ c, v.head? = some c → isOws c = false) ∧
      (∀ c, v.getLast? = some c → isOws c = false) := by
  simp only [valueOk, Bool.and_eq_true, List.all_eq_true]
  constructor
  · rintro ⟨⟨h1, h2⟩, h3⟩
    refine ⟨h1, ?_, ?_⟩
    · intro c hc; rw [hc] at h2; simpa using h2
    · intro c hc; rw [hc] at h3; simpa using h3
  · rintro ⟨h1, h2, h3⟩
    refine ⟨⟨h1, ?_⟩, ?_⟩
    · cases hh : v.head? with
      | none => rfl
      | some c => simp [h2 c hh]
    · cases hh : v.getLast? with
      | none => rfl
      | some c => simp [h3 c hh]

theorem valueOk_via_append {cfg : Cfg} (ha : AgentOk cfg) {v : Bytes} (hv : valueOk v = true) :
    valueOk (v ++ commaSp ++ viaValue cfg) = true := by
  obtain ⟨hvia, hne⟩ := ha
  rw [valueOk_iff] at hv hvia ⊢
  refine ⟨?_, ?_, ?_⟩
  · intro c hc
    simp only [List.mem_append] at hc
    rcases hc with (hc | hc) | hc
    · exact hv.1 c hc
    · have : ∀ c ∈ commaSp, isFieldByte c = true := by decide
      exact this c hc
    · exact hvia.1 c hc
  · intro c hc
    cases v with
    | nil =>
      simp [commaSp] at hc; subst hc; decide
    | cons d ds =>
      simp at hc; subst hc
      exact hv.2.1 d rfl
  · intro c hc
    rw [List.getLast?_append] at hc
    cases hb : (viaValue cfg).getLast? with
    | none => simp at hb; exact absurd hb hne
    | some d =>
      rw [hb] at hc
      simp only [Option.some_or, Option.some.injEq] at hc
      subst hc
      exact hvia.2.2 d hb

theorem valueOk_digits {v : Bytes} (h : ∀ c ∈ v, isDigitIn 10 c = true) : valueOk v = true := by
  have hd : ∀ c : UInt8, isDigitIn 10 c = true → isFieldByte c = true ∧ isOws c = false :=
    forall_u8 _ (by decide +kernel)
  rw [valueOk_iff]
  exact ⟨fun c hc => (hd c (h c hc)).1, fun c hc => (hd c (h c (List.mem_of_mem_head? hc))).2,
    fun c hc => (hd c (h c (List.mem_of_mem_getLast? hc))).2⟩

theorem mem_addViaI {cfg : Cfg} {G : List Field} {g : Field} (hg : g ∈ addViaI cfg G) :
    g ∈ G ∨ g = viaField cfg ∨
      ∃ f ∈ G, g = { f with name := viaName, value := f.value ++ commaSp ++ viaValue cfg } := by
  unfold addViaI at hg
  split at hg
  · simp only [List.mem_map] at hg
    obtain ⟨f, hf, rfl⟩ := hg
    by_cases hv : nameIs viaLower f = true
    · simp only [hv, if_true]; exact .inr (.inr ⟨f, hf, rfl⟩)
    · simp only [hv, Bool.false_eq_true, if_false]; exact .inl hf
  · simp only [List.mem_append, List.mem_singleton] at hg
    rcases hg with hg | rfl
    · exact .inl hg
    · exact .inr (.inl rfl)

/-- **every forwarded field line is lexically well formed** -/
theorem fwdImpl_fieldOk (first : Bool) (cfg : Cfg) (ha : AgentOk cfg) (r : Req) (hwf : r.WF) :
    ∀ f ∈ (fwdImpl first cfg r).fields, fieldOk f = true := by
  obtain ⟨_, _, _, _, hfs, hnodup, _⟩ := hwf
  have hmk : ∀ k v : Bytes, tokenOk k = true → valueOk v = true →
      fieldOk { name := k, pre := [SP], value := v, post := [] } = true := by
    intro k v hk hv
    simp only [fieldOk, hk, hv, Bool.and_true, Bool.true_and, List.all_nil]
    decide
  have hsplit : ∀ g : Field, fieldOk g = true → tokenOk g.name = true ∧ valueOk g.value = true := by
    intro g hg
    simp only [fieldOk, Bool.and_eq_true] at hg
    exact ⟨hg.1.1.1, hg.2⟩
  have htokVia : tokenOk viaName = true := by decide
  have htokCL : tokenOk nCL = true := by decide
  have hkept : ∀ e ∈ keptDict first cfg r, tokenOk e.1 = true ∧ valueOk e.2 = true := by
    intro e he
    rw [keptDict_eq first cfg r hnodup] at he
    simp only [dictOf, List.mem_map] at he
    obtain ⟨g, hg, rfl⟩ := he
    have hgi := (List.mem_filter.1 hg).1
    have hG : ∀ x ∈ r.fields.filter (notProxy cfg), fieldOk x = true :=
      fun x hx => hfs x (List.mem_filter.1 hx).1
    cases first with
    | false =>
      simp only [Bool.false_eq_true, if_false] at hgi
      exact hsplit g (hG g hgi)
    | true =>
      simp only [if_true] at hgi
      rcases mem_addViaI hgi with hgG | rfl | ⟨f, hf, rfl⟩
      · exact hsplit g (hG g hgG)
      · exact ⟨htokVia, ha.1⟩
      · exact ⟨htokVia, valueOk_via_append ha (hsplit f (hG f hf)).2⟩
  intro f hf
  simp only [fwdImpl, List.mem_map] at hf
  obtain ⟨e, he, rfl⟩ := hf
  unfold implDict at he
  split at he
  · rcases Px.Codec.mem_dSet he with rfl | ⟨he, _⟩
    · exact hmk _ _ htokCL (valueOk_digits (natToDec_isDigit _))
    · exact hmk _ _ (hkept e he).1 (hkept e he).2
  · exact hmk _ _ (hkept e he).1 (hkept e he).2

end Px.Forward
