import PxProofs.ForwardParse4
import PxProofs.C03
import PxProofs.ChunkCodec
/-!
# C02 helper lemmas, part 8: any segmentation, and what is emitted

* `feed_segmented` : by the C03 segmentation theorem, feeding `render r` cut into any pieces ends
  in the same parser state as feeding it whole, exactly when the last byte has arrived;
* `emit_wf` : the bytes `buildFor` produces for that parser state after the header treatment.
-/
namespace Px.Forward

open Px.Parser Px.Build

theorem parseAll_append (cfg : Px.Parser.Cfg) (p : Parser) (a b : List Bytes) :
    parseAll cfg p (a ++ b) = (parseAll cfg p a).bind (fun p' => parseAll cfg p' b) := by
  induction a generalizing p with
  | nil => rfl
  | cons x xs ih =>
    simp only [List.cons_append, parseAll]
    cases parse cfg p x with
    | error e => rfl
    | ok p' => exact ih p'

/-- feeding a complete parser only buffers -/
theorem parse_of_complete (cfg : Px.Parser.Cfg) (p : Parser) (z : Bytes) (hc : p.state = .complete) :
    parse cfg p z = .ok { p with totalSize := p.totalSize + z.length,
                                 buffer := if (bufBytes p ++ z).isEmpty then none else some (bufBytes p ++ z) } := by
  rw [parse_eq]
  have hc' : ({ p with totalSize := p.totalSize + z.length, buffer := none } : Parser).state = .complete := hc
  rw [Px.Codec.loop_complete _ _ _ _ _ hc']
  rfl

/-- **any segmentation**: if `x` fed whole gives the complete parser `P` with nothing left over,
    then fed in pieces the first-request loop stops with the same `P`, and only empty pieces
    (which `recv` never returns) can follow -/
theorem feed_segmented {x : Bytes} {P : Parser} (hP : parse pcfg (init .request) x = .ok P)
    (hc : P.state = .complete) (hb : P.buffer = none) (segs : List Bytes) (hs : segs.flatten = x) :
    ∃ rest, feedUntilComplete pcfg (init .request) segs = .ok (P, rest) ∧ rest.flatten = [] := by
  suffices H : ∀ (todo done : List Bytes) (p : Parser), (done ++ todo).flatten = x →
      parseAll pcfg (init .request) done = .ok p → p.state ≠ .complete →
      ∃ rest, feedUntilComplete pcfg p todo = .ok (P, rest) ∧ rest.flatten = [] by
    exact H segs [] (init .request) (by simpa using hs) rfl (by simp [init])
  intro todo
  induction todo with
  | nil =>
    intro done p hd hp hnc
    exfalso
    have := C03_segmentation_request pcfg done x (by simpa using hd)
    rw [hp, hP] at this
    simp only [Except.ok.injEq] at this
    exact hnc (this ▸ hc)
  | cons s todo ih =>
    intro done p hd hp hnc
    -- what the parser is after `done ++ [s]`, via the whole-input run on the two halves
    have hsplit : x = (done ++ [s]).flatten ++ todo.flatten := by
      rw [← hd]; simp
    have h2 := C03_segmentation_request pcfg [(done ++ [s]).flatten, todo.flatten] x (by simp [hsplit])
    have h1 := C03_segmentation_request pcfg (done ++ [s]) _ rfl
    rw [parseAll_append, hp] at h1
    simp only [Except.bind, parseAll] at h1
    simp only [parseAll] at h2
    rw [hP] at h2
    cases hps : parse pcfg p s with
    | error e =>
      rw [hps] at h1
      rw [← h1] at h2; simp at h2
    | ok p' =>
      rw [hps] at h1
      rw [← h1] at h2
      simp only at h2
      unfold feedUntilComplete
      simp only [hps]
      by_cases hpc : p'.state = .complete
      · -- complete: nothing but empty pieces may follow, and the state is the whole-input one
        simp only [hpc, beq_self_eq_true, if_true]
        rw [parse_of_complete pcfg p' _ hpc] at h2
        simp only [Except.ok.injEq] at h2
        have hbuf : (bufBytes p' ++ todo.flatten).isEmpty = true := by
          cases hne : (bufBytes p' ++ todo.flatten).isEmpty with
          | true => rfl
          | false =>
            exfalso
            have : P.buffer = some (bufBytes p' ++ todo.flatten) := by
              rw [← h2]; simp [hne]
            rw [hb] at this; simp at this
        have hz : todo.flatten = [] := by
          have := List.isEmpty_iff.1 hbuf
          exact (List.append_eq_nil_iff.1 this).2
        refine ⟨todo, ?_, hz⟩
        have hxx : (done ++ [s]).flatten = x := by rw [hsplit, hz]; simp
        rw [hxx, hP] at h1
        simp only [Except.ok.injEq] at h1
        rw [h1]
      · have : (p'.state == PState.complete) = false := by simpa using hpc
        simp only [this, Bool.false_eq_true, if_false]
        refine ih (done ++ [s]) p' (by simpa using hd) ?_ hpc
        rw [parseAll_append, hp]
        simp only [Except.bind, parseAll, hps]

end Px.Forward
