import PxModel.Exec
/-!
Helper lemmas for C05 / C10: association lists, the *cell* view of the selector
and kernel (everything `selectors` and `epoll_ctl` do to descriptor `fd` depends
on and changes only the cell of `fd`), the executor invariant and its
preservation.
-/
namespace Px.Sel

section assoc
variable {κ ν : Type} [DecidableEq κ]

@[simp] theorem aget_nil (k : κ) : aget ([] : List (κ × ν)) k = none := rfl

theorem aget_cons (k' : κ) (v : ν) (m : List (κ × ν)) (k : κ) :
    aget ((k', v) :: m) k = if k' = k then some v else aget m k := rfl

theorem aget_adel (m : List (κ × ν)) (k k' : κ) :
    aget (adel m k) k' = if k' = k then none else aget m k' := by
  induction m with
  | nil => simp [adel]
  | cons e m ih =>
    obtain ⟨a, v⟩ := e
    unfold adel at ih ⊢
    by_cases h : a = k
    · subst h
      simp only [List.filter_cons, ne_eq, not_true_eq_false, decide_false, Bool.false_eq_true, if_false, ih]
      by_cases h2 : k' = a
      · simp [h2]
      · have : ¬ a = k' := fun e => h2 e.symm
        simp [h2, aget_cons, this]
    · simp only [List.filter_cons, ne_eq, h, not_false_eq_true, decide_true, if_true, aget_cons, ih]
      by_cases h2 : a = k'
      · subst h2; simp [h]
      · simp [h2]

theorem aget_aset (m : List (κ × ν)) (k : κ) (v : ν) (k' : κ) :
    aget (aset m k v) k' = if k' = k then some v else aget m k' := by
  unfold aset
  rw [aget_cons, aget_adel]
  by_cases h : k = k'
  · subst h; simp
  · have : ¬ k' = k := fun e => h e.symm
    simp [h, this]

theorem aget_some_mem {m : List (κ × ν)} {k : κ} {v : ν} (h : aget m k = some v) : (k, v) ∈ m := by
  induction m with
  | nil => simp at h
  | cons e m ih =>
    obtain ⟨a, w⟩ := e
    rw [aget_cons] at h
    by_cases h2 : a = k
    · subst h2; simp at h; subst h; simp
    · simp [h2] at h; exact List.mem_cons_of_mem _ (ih h)

theorem aget_none_of_not_mem_keys {m : List (κ × ν)} {k : κ} (h : k ∉ m.map (·.1)) : aget m k = none := by
  induction m with
  | nil => rfl
  | cons e m ih =>
    obtain ⟨a, w⟩ := e
    simp only [List.map_cons, List.mem_cons, not_or] at h
    rw [aget_cons, if_neg (fun e => h.1 e.symm)]
    exact ih h.2

theorem mem_keys_of_aget_ne_none {m : List (κ × ν)} {k : κ} (h : aget m k ≠ none) : k ∈ m.map (·.1) := by
  by_cases h2 : k ∈ m.map (·.1)
  · exact h2
  · exact absurd (aget_none_of_not_mem_keys h2) h

end assoc

/-! ### cells -/

structure Cell where
  key : Option (Mask × WorkId)
  isOpen : Bool
  interest : Option Mask
  deriving DecidableEq, Repr

def cell (s : SK) (fd : Fd) : Cell := ⟨aget s.map fd, s.k.isOpen fd, aget s.k.epoll fd⟩

def regC (c : Cell) (fd : Fd) (ev : Mask) (d : WorkId) : Cell × Option Exc :=
  if !validEvents ev then (c, some .valueError)
  else if fd < 0 then (c, some .valueError)
  else if c.key.isSome then (c, some .keyError)
  else if !c.isOpen then (c, some .ebadf)
  else if c.interest.isSome then (c, some .eexist)
  else ({ c with key := some (ev, d), interest := some (pollBits ev) }, none)

def modC (c : Cell) (fd : Fd) (ev : Mask) (d : WorkId) : Cell × Option Exc :=
  if fd < 0 then (c, some .valueError)
  else match c.key with
    | none => (c, some .keyError)
    | some (oev, odata) =>
      if ev ≠ oev then
        if !c.isOpen then ({ c with key := none }, some .ebadf)
        else if c.interest.isNone then ({ c with key := none }, some .enoent)
        else ({ c with key := some (ev, d), interest := some (pollBits ev) }, none)
      else if d ≠ odata then ({ c with key := some (ev, d) }, none)
      else (c, none)

def unregC (c : Cell) (fd : Fd) : Cell × Option Exc :=
  if fd < 0 then (c, some .valueError)
  else match c.key with
    | none => (c, some .keyError)
    | some _ =>
      if !c.isOpen then ({ c with key := none }, none)
      else if c.interest.isNone then ({ c with key := none }, none)
      else ({ c with key := none, interest := none }, none)

@[simp] theorem isOpen_epoll (k : Kernel) (e : List (Fd × Mask)) (fd : Fd) :
    Kernel.isOpen { k with epoll := e } fd = k.isOpen fd := rfl

theorem register_cell (s : SK) (fd : Fd) (ev : Mask) (d : WorkId) :
    (register s fd ev d).2 = (regC (cell s fd) fd ev d).2 ∧
    ∀ fd', cell (register s fd ev d).1 fd' = if fd' = fd then (regC (cell s fd) fd ev d).1 else cell s fd' := by
  unfold register regC
  by_cases h1 : validEvents ev = true
  · by_cases h2 : fd < 0
    · simp [h1, h2]
    · by_cases h3 : (aget s.map fd).isSome = true
      · simp [h1, h2, h3, cell]
      · by_cases h4 : s.k.isOpen fd = true
        · by_cases h5 : (aget s.k.epoll fd).isSome = true
          · simp [h1, h2, h3, h4, h5, cell, Kernel.ctlAdd]
          · simp only [Bool.not_eq_true, Option.isSome_eq_false_iff, Option.isNone_iff_eq_none] at h3 h5
            simp only [h1, h2, h3, h4, h5, cell, Kernel.ctlAdd, Bool.not_true, Bool.false_eq_true, if_false,
              Option.isSome_none, true_and]
            intro fd'
            by_cases e : fd' = fd
            · subst e; simp [aget_aset, h4]
            · simp [aget_aset, e]
        · simp [h1, h2, h3, h4, cell, Kernel.ctlAdd]
  · simp [h1]

theorem modify_cell (s : SK) (fd : Fd) (ev : Mask) (d : WorkId) :
    (modify s fd ev d).2 = (modC (cell s fd) fd ev d).2 ∧
    ∀ fd', cell (modify s fd ev d).1 fd' = if fd' = fd then (modC (cell s fd) fd ev d).1 else cell s fd' := by
  unfold modify modC
  by_cases h2 : fd < 0
  · simp [h2]
  · cases hk : aget s.map fd with
    | none => simp [h2, hk, cell]
    | some p =>
      obtain ⟨oev, odata⟩ := p
      by_cases h3 : ev = oev
      · by_cases h4 : d = odata
        · simp [h2, hk, cell, h3, h4]
        · simp only [h2, hk, cell, h3, h4, if_false, ne_eq, not_true_eq_false, not_false_eq_true, if_true, true_and]
          intro fd'
          by_cases e : fd' = fd
          · subst e; simp [aget_aset]
          · simp [aget_aset, e]
      · by_cases h5 : s.k.isOpen fd = true
        · cases h6 : aget s.k.epoll fd with
          | none =>
            simp only [h2, hk, cell, h3, h5, h6, Kernel.ctlMod, if_false, ne_eq, not_false_eq_true, if_true,
              Bool.not_true, Bool.false_eq_true, Option.isNone_none, true_and]
            intro fd'
            by_cases e : fd' = fd
            · subst e; simp [aget_adel, h5, h6]
            · simp [aget_adel, e]
          | some i =>
            simp only [h2, hk, cell, h3, h5, h6, Kernel.ctlMod, if_false, ne_eq, not_false_eq_true, if_true,
              Bool.not_true, Bool.false_eq_true, Option.isNone_some, true_and]
            intro fd'
            by_cases e : fd' = fd
            · subst e; simp [aget_aset, h5]
            · simp [aget_aset, e]
        · simp only [Bool.not_eq_true] at h5
          simp only [h2, hk, cell, h3, h5, Kernel.ctlMod, if_false, ne_eq, not_false_eq_true, if_true,
            Bool.not_false, true_and]
          intro fd'
          by_cases e : fd' = fd
          · subst e; simp [aget_adel, h5]
          · simp [aget_adel, e]

theorem unregister_cell (s : SK) (fd : Fd) :
    (unregister s fd).2 = (unregC (cell s fd) fd).2 ∧
    ∀ fd', cell (unregister s fd).1 fd' = if fd' = fd then (unregC (cell s fd) fd).1 else cell s fd' := by
  unfold unregister unregC
  by_cases h2 : fd < 0
  · simp [h2]
  · cases hk : aget s.map fd with
    | none => simp [h2, hk, cell]
    | some p =>
      by_cases h5 : s.k.isOpen fd = true
      · cases h6 : aget s.k.epoll fd with
        | none =>
          simp only [h2, hk, cell, h5, h6, Kernel.ctlDel, if_false, Bool.not_true, Bool.false_eq_true,
            Option.isNone_none, if_true, true_and]
          intro fd'
          by_cases e : fd' = fd
          · subst e; simp [aget_adel, h5, h6]
          · simp [aget_adel, e]
        | some i =>
          simp only [h2, hk, cell, h5, h6, Kernel.ctlDel, if_false, Bool.not_true, Bool.false_eq_true,
            Option.isNone_some, true_and]
          intro fd'
          by_cases e : fd' = fd
          · subst e; simp [aget_adel, h5]
          · simp [aget_adel, e]
      · simp only [Bool.not_eq_true] at h5
        simp only [h2, hk, cell, h5, Kernel.ctlDel, if_false, Bool.not_false, if_true, true_and]
        intro fd'
        by_cases e : fd' = fd
        · subst e; simp [aget_adel, h5]
        · simp [aget_adel, e]

/-- cell after a kernel-only change -/
def kcell (s : SK) (k' : Kernel) (fd : Fd) : Cell := cell { s with k := k' } fd

theorem close_cell (s : SK) (fd fd' : Fd) :
    cell { s with k := s.k.close fd } fd' =
      if fd' = fd then { (cell s fd) with isOpen := false, interest := none } else cell s fd' := by
  unfold cell Kernel.close Kernel.isOpen
  by_cases e : fd' = fd
  · subst e; simp [aget_adel]
  · simp [aget_adel, e]

theorem openAt_cell (s : SK) (fd fd' : Fd) :
    cell { s with k := s.k.openAt fd } fd' =
      if fd' = fd then { (cell s fd) with isOpen := true } else cell s fd' := by
  unfold cell Kernel.openAt Kernel.isOpen
  by_cases h : fd ∈ s.k.open_
  · by_cases e : fd' = fd
    · subst e; simp [h]
    · simp [h, e]
  · by_cases e : fd' = fd
    · subst e; simp [h]
    · simp [h, e]

end Px.Sel

namespace Px.Exec
open Px.Sel

/-- the work's inner dict as seen after `if work_id not in registered: registered[work_id] = {}` -/
def regOf (x : Exec) (w : WorkId) : List (Fd × Mask) := (aget x.registered w).getD []

theorem regMask_eq (x : Exec) (w : WorkId) (fd : Fd) : x.regMask w fd = aget (regOf x w) fd := by
  unfold Exec.regMask regOf
  cases aget x.registered w <;> simp

/-- what one iteration of the `_update_work_events` loop does, as a function of the work's
    registry entry and of the cell of the descriptor -/
def updC (r : List (Fd × Mask)) (c : Cell) (w : WorkId) (fd : Fd) (mask : Mask) :
    List (Fd × Mask) × Cell × Option Exc :=
  match aget r fd with
  | some old =>
    if mask ≠ old then
      match modC c fd mask w with
      | (c', some e) => (r, c', some e)
      | (c', none) => (aset r fd mask, c', none)
    else (r, c, none)
  | none =>
    if fd ≠ -1 then
      match regC c fd mask w with
      | (c', none) => (aset r fd mask, c', none)
      | (c', some .keyError) => (r, c', none)
      | (c', some e) => (r, c', some e)
    else (r, c, none)

theorem updEvent_spec (x : Exec) (w : WorkId) (fd : Fd) (mask : Mask) :
    let u := updC (regOf x w) (cell x.sk fd) w fd mask
    let y := (updEvent x w fd mask).1
    (updEvent x w fd mask).2 = u.2.2 ∧ y.works = x.works ∧
    (∀ w', aget y.registered w' = if w' = w then some u.1 else aget x.registered w') ∧
    (∀ fd', cell y.sk fd' = if fd' = fd then u.2.1 else cell x.sk fd') := by
  intro u y
  -- the registry after the `= {}` line
  have hreg : ∀ w', aget (if (aget x.registered w).isNone then aset x.registered w [] else x.registered) w'
      = if w' = w then some (regOf x w) else aget x.registered w' := by
    intro w'
    unfold regOf
    cases h : aget x.registered w with
    | none =>
      simp only [Option.isNone_none, if_true, aget_aset, Option.getD_none]
    | some r0 =>
      simp only [Option.isNone_some, Bool.false_eq_true, if_false, Option.getD_some]
      by_cases e : w' = w
      · subst e; simp [h]
      · simp [e]
  have hr : (aget (if (aget x.registered w).isNone then aset x.registered w [] else x.registered) w).getD []
      = regOf x w := by rw [hreg]; simp
  have hset : ∀ (r' : List (Fd × Mask)) w', aget (aset (if (aget x.registered w).isNone then aset x.registered w [] else x.registered) w r') w'
      = if w' = w then some r' else aget x.registered w' := by
    intro r' w'
    rw [aget_aset, hreg]
    by_cases e : w' = w <;> simp [e]
  have hm := modify_cell x.sk fd mask w
  have hg := register_cell x.sk fd mask w
  simp only [u, y]
  unfold updEvent updC
  generalize (if (aget x.registered w).isNone then aset x.registered w [] else x.registered) = reg at hreg hr hset ⊢
  simp only [hr]
  cases hfd : aget (regOf x w) fd with
  | some old =>
    simp only
    by_cases hmask : mask = old
    · simp [hmask, hreg]
    · simp only [ne_eq, hmask, not_false_eq_true, if_true]
      rcases h1 : modify x.sk fd mask w with ⟨sk, e⟩
      rcases h2 : modC (cell x.sk fd) fd mask w with ⟨c', e'⟩
      rw [h1, h2] at hm
      obtain ⟨he, hc⟩ := hm
      simp only at he hc
      subst he
      cases e with
      | none => simp [hset, hc]
      | some e => simp [hreg, hc]
  | none =>
    simp only
    by_cases hneg : fd = -1
    · simp [hneg, hreg]
    · simp only [ne_eq, hneg, not_false_eq_true, if_true]
      rcases h1 : register x.sk fd mask w with ⟨sk, e⟩
      rcases h2 : regC (cell x.sk fd) fd mask w with ⟨c', e'⟩
      rw [h1, h2] at hg
      obtain ⟨he, hc⟩ := hg
      simp only at he hc
      subst he
      cases e with
      | none => simp [hset, hc]
      | some e => cases e <;> simp [hreg, hc]

theorem updC_frame (r : List (Fd × Mask)) (c : Cell) (w : WorkId) (fd : Fd) (mask : Mask) (fd' : Fd) (h : fd' ≠ fd) :
    aget (updC r c w fd mask).1 fd' = aget r fd' := by
  unfold updC
  split
  · split
    · split <;> simp_all [aget_aset]
    · rfl
  · split
    · split <;> simp_all [aget_aset]
    · rfl

theorem updC_key (r : List (Fd × Mask)) (c : Cell) (w : WorkId) (fd : Fd) (mask : Mask)
    (hM : ∀ m, c.key = some (m, w) → aget r fd = some m) (m : Mask) (d : WorkId)
    (hk : (updC r c w fd mask).2.1.key = some (m, d)) :
    (d = w ∧ aget (updC r c w fd mask).1 fd = some m) ∨ (d ≠ w ∧ c.key = some (m, d)) := by
  unfold updC modC regC at *
  grind [aget_aset]

theorem updC_nonneg (r : List (Fd × Mask)) (c : Cell) (w : WorkId) (fd : Fd) (mask : Mask)
    (hk : (updC r c w fd mask).2.1.key ≠ none) : c.key ≠ none ∨ 0 ≤ fd := by
  unfold updC modC regC at *
  grind

/-- The executor invariant the code actually maintains, whatever the works do:
    every selector key is accounted for in the registry of the work it names
    (`mapReg`), only live works have a registry entry (`regWorks`), no negative
    descriptor has a key, work ids are distinct and never `0`. -/
structure Inv (x : Exec) : Prop where
  mapReg : ∀ fd m d, (cell x.sk fd).key = some (m, d) → aget (regOf x d) fd = some m
  regWorks : ∀ w, aget x.registered w ≠ none → w ∈ x.works
  mapNonneg : ∀ fd, (cell x.sk fd).key ≠ none → 0 ≤ fd
  nodup : x.works.Nodup
  noZero : (0 : WorkId) ∉ x.works

theorem regOf_of_spec {x y : Exec} {w : WorkId} {r : List (Fd × Mask)}
    (h : ∀ w', aget y.registered w' = if w' = w then some r else aget x.registered w') (d : WorkId) :
    regOf y d = if d = w then r else regOf x d := by
  unfold regOf
  rw [h]
  by_cases e : d = w <;> simp [e]

theorem updEvent_inv (x : Exec) (w : WorkId) (fd : Fd) (mask : Mask) (hw : w ∈ x.works) (hi : Inv x) :
    Inv (updEvent x w fd mask).1 := by
  obtain ⟨_, hworks, hreg, hcell⟩ := updEvent_spec x w fd mask
  have hro := regOf_of_spec hreg
  have hMw : ∀ m, (cell x.sk fd).key = some (m, w) → aget (regOf x w) fd = some m := fun m h => hi.mapReg fd m w h
  constructor
  · intro fd' m d hk
    rw [hcell] at hk
    rw [hro]
    by_cases e : fd' = fd
    · subst e
      simp only [if_true] at hk
      rcases updC_key _ _ _ _ _ hMw m d hk with ⟨hd, h⟩ | ⟨hd, h⟩
      · simp [hd, h]
      · simp [hd]; exact hi.mapReg _ _ _ h
    · simp only [e, if_false] at hk
      have := hi.mapReg _ _ _ hk
      by_cases e2 : d = w
      · subst e2; simp; rw [updC_frame _ _ _ _ _ _ e]; exact this
      · simp [e2]; exact this
  · intro w' h
    rw [hworks]
    rw [hreg] at h
    by_cases e : w' = w
    · subst e; exact hw
    · simp [e] at h; exact hi.regWorks _ h
  · intro fd' h
    rw [hcell] at h
    by_cases e : fd' = fd
    · subst e
      simp only [if_true] at h
      rcases updC_nonneg _ _ _ _ _ h with h | h
      · exact hi.mapNonneg _ h
      · exact h
    · simp only [e, if_false] at h; exact hi.mapNonneg _ h
  · rw [hworks]; exact hi.nodup
  · rw [hworks]; exact hi.noZero

theorem updEvent_works (x : Exec) (w : WorkId) (fd : Fd) (mask : Mask) : (updEvent x w fd mask).1.works = x.works :=
  (updEvent_spec x w fd mask).2.1

theorem updEvents_inv (w : WorkId) (evs : List (Fd × Mask)) : ∀ (x : Exec), w ∈ x.works → Inv x →
    Inv (updEvents x w evs).1 ∧ (updEvents x w evs).1.works = x.works := by
  induction evs with
  | nil => intro x _ hi; exact ⟨hi, rfl⟩
  | cons e rest ih =>
    intro x hw hi
    obtain ⟨fd, m⟩ := e
    unfold updEvents
    have h1 := updEvent_inv x w fd m hw hi
    have h2 := updEvent_works x w fd m
    rcases h : updEvent x w fd m with ⟨x', e⟩
    rw [h] at h1 h2
    simp only at h1 h2
    cases e with
    | some e => exact ⟨h1, h2⟩
    | none =>
      simp only
      have := ih x' (h2 ▸ hw) h1
      exact ⟨this.1, this.2.trans h2⟩

theorem unregC_idem (c : Cell) (fd : Fd) : (unregC (unregC c fd).1 fd).1 = (unregC c fd).1 := by
  unfold unregC; grind

def keysOf (r : List (Fd × Mask)) : List Fd := r.map (·.1)

theorem unregAll_cell (r : List (Fd × Mask)) : ∀ (sk : SK) (fd' : Fd),
    cell (unregAll sk r) fd' = if fd' ∈ keysOf r then (unregC (cell sk fd') fd').1 else cell sk fd' := by
  induction r with
  | nil => intro sk fd'; simp [unregAll, keysOf]
  | cons e rest ih =>
    intro sk fd'
    obtain ⟨fd, m⟩ := e
    unfold unregAll
    rw [ih]
    have hc := (unregister_cell sk fd).2 fd'
    rw [hc]
    have hk : keysOf ((fd, m) :: rest) = fd :: keysOf rest := rfl
    rw [hk]
    by_cases e1 : fd' = fd
    · subst e1; by_cases e2 : fd' ∈ keysOf rest <;> simp [e2, unregC_idem]
    · by_cases e2 : fd' ∈ keysOf rest <;> simp [e1, e2]

def closedCell (c : Cell) : Cell := { c with isOpen := false, interest := none }

theorem closeAll_cell (l : List Fd) : ∀ (s : SK) (fd' : Fd),
    cell { s with k := s.k.closeAll l } fd' = if fd' ∈ l then closedCell (cell s fd') else cell s fd' := by
  induction l with
  | nil => intro s fd'; simp [Kernel.closeAll]
  | cons fd rest ih =>
    intro s fd'
    unfold Kernel.closeAll
    have := ih { s with k := s.k.close fd } fd'
    simp only at this
    rw [this, close_cell]
    by_cases e1 : fd' = fd
    · subst e1; by_cases e2 : fd' ∈ rest <;> simp [e2, closedCell]
    · by_cases e2 : fd' ∈ rest <;> simp [e1, e2, closedCell]

theorem mem_keysOf_iff (r : List (Fd × Mask)) (fd : Fd) : fd ∈ keysOf r ↔ aget r fd ≠ none := by
  constructor
  · intro h
    induction r with
    | nil => simp [keysOf] at h
    | cons e rest ih =>
      obtain ⟨a, v⟩ := e
      rw [aget_cons]
      by_cases e1 : a = fd
      · simp [e1]
      · simp [e1]
        apply ih
        simp [keysOf] at h ⊢
        rcases h with h | h
        · exact absurd h.symm e1
        · exact h
  · exact mem_keys_of_aget_ne_none

theorem aget_filter_key {ν : Type} (r : List (Fd × ν)) (q : Fd → Bool) (k : Fd) :
    aget (r.filter (fun e => q e.1)) k = if q k = true then aget r k else none := by
  induction r with
  | nil => simp
  | cons e rest ih =>
    obtain ⟨a, v⟩ := e
    by_cases hq : q a = true
    · simp only [List.filter_cons, hq, if_true, aget_cons, ih]
      by_cases e1 : a = k
      · subst e1; simp [hq]
      · simp [e1]
    · simp only [List.filter_cons, hq, Bool.false_eq_true, if_false, ih, aget_cons]
      by_cases e1 : a = k
      · subst e1; simp [hq]
      · simp [e1]

/-- descriptors of registry `r` that the events list no longer mentions -/
def staleOf (r evs : List (Fd × Mask)) : List (Fd × Mask) :=
  r.filter (fun e => !decide (e.1 ∈ evs.map (·.1)))

def keptOf (r evs : List (Fd × Mask)) : List (Fd × Mask) :=
  r.filter (fun e => decide (e.1 ∈ evs.map (·.1)))

theorem mem_keysOf_staleOf (r evs : List (Fd × Mask)) (fd : Fd) :
    fd ∈ keysOf (staleOf r evs) ↔ fd ∈ keysOf r ∧ fd ∉ evs.map (·.1) := by
  rw [mem_keysOf_iff, mem_keysOf_iff]
  unfold staleOf
  rw [aget_filter_key r (fun k => !decide (k ∈ evs.map (·.1)))]
  by_cases h : fd ∈ evs.map (·.1) <;> simp [h]

theorem aget_keptOf (r evs : List (Fd × Mask)) (fd : Fd) :
    aget (keptOf r evs) fd = if fd ∈ evs.map (·.1) then aget r fd else none := by
  unfold keptOf
  rw [aget_filter_key r (fun k => decide (k ∈ evs.map (·.1)))]
  by_cases h : fd ∈ evs.map (·.1) <;> simp [h]

theorem pruneStale_spec (x : Exec) (w : WorkId) (evs : List (Fd × Mask)) :
    (pruneStale x w evs).works = x.works ∧
    (∀ w', aget (pruneStale x w evs).registered w' =
      if w' = w then (aget x.registered w).map (fun r => keptOf r evs) else aget x.registered w') ∧
    (∀ fd', cell (pruneStale x w evs).sk fd' =
      if fd' ∈ keysOf (staleOf (regOf x w) evs) then (unregC (cell x.sk fd') fd').1 else cell x.sk fd') := by
  unfold pruneStale
  cases h : aget x.registered w with
  | none =>
    refine ⟨rfl, ?_, ?_⟩
    · intro w'; by_cases e : w' = w
      · subst e; simp [h]
      · simp [e]
    · intro fd'; simp [regOf, h, staleOf, keysOf]
  | some r =>
    refine ⟨rfl, ?_, ?_⟩
    · intro w'
      simp only [aget_aset]
      by_cases e : w' = w
      · simp [e, keptOf]
      · simp [e]
    · intro fd'
      simp only
      rw [unregAll_cell]
      simp [regOf, h, staleOf]

theorem pruneStale_inv (x : Exec) (w : WorkId) (evs : List (Fd × Mask)) (hi : Inv x) :
    Inv (pruneStale x w evs) := by
  obtain ⟨hworks, hreg, hcell⟩ := pruneStale_spec x w evs
  have hro : ∀ d, regOf (pruneStale x w evs) d = if d = w then keptOf (regOf x w) evs else regOf x d := by
    intro d
    unfold regOf
    rw [hreg]
    by_cases e : d = w
    · subst e
      cases aget x.registered d <;> simp [keptOf]
    · simp [e]
  have hkey : ∀ fd p, (cell (pruneStale x w evs).sk fd).key = some p →
      (cell x.sk fd).key = some p ∧ fd ∉ keysOf (staleOf (regOf x w) evs) := by
    intro fd p hk
    rw [hcell] at hk
    by_cases hs : fd ∈ keysOf (staleOf (regOf x w) evs)
    · simp only [hs, if_true] at hk
      have hnn : (cell x.sk fd).key ≠ none := by
        intro hn; unfold unregC at hk; simp [hn] at hk; split at hk <;> simp_all
      have := hi.mapNonneg fd hnn
      unfold unregC at hk
      have h0 : ¬ fd < 0 := Int.not_lt.mpr this
      simp only [h0, if_false] at hk
      cases hc : (cell x.sk fd).key with
      | none => exact absurd hc hnn
      | some q => simp only [hc] at hk; split at hk <;> (try split at hk) <;> simp at hk
    · simp only [hs, if_false] at hk
      exact ⟨hk, hs⟩
  constructor
  · intro fd m d hk
    obtain ⟨hk1, hns⟩ := hkey fd (m, d) hk
    have h1 := hi.mapReg _ _ _ hk1
    rw [hro]
    by_cases e : d = w
    · subst e
      simp only [if_true]
      rw [aget_keptOf]
      have hin : fd ∈ keysOf (regOf x d) := (mem_keysOf_iff _ _).2 (by rw [h1]; simp)
      have : fd ∈ evs.map (·.1) := by
        by_cases h : fd ∈ evs.map (·.1)
        · exact h
        · exact absurd ((mem_keysOf_staleOf _ _ _).2 ⟨hin, h⟩) hns
      simp [this, h1]
    · simp [e]; exact h1
  · intro w' h
    rw [hworks]
    rw [hreg] at h
    by_cases e : w' = w
    · subst e
      apply hi.regWorks
      intro hn; simp [hn] at h
    · simp [e] at h; exact hi.regWorks _ h
  · intro fd h
    cases hc : (cell (pruneStale x w evs).sk fd).key with
    | none => exact absurd hc h
    | some p => exact hi.mapNonneg fd (by rw [(hkey fd p hc).1]; simp)
  · rw [hworks]; exact hi.nodup
  · rw [hworks]; exact hi.noZero

theorem updWork_inv (x : Exec) (w : WorkId) (ev : EvRes) (hw : w ∈ x.works) (hi : Inv x) :
    Inv (updWork x w ev).1 ∧ (updWork x w ev).1.works = x.works := by
  cases ev with
  | exc => exact ⟨hi, rfl⟩
  | ok evs =>
    have h := updEvents_inv w evs x hw hi
    simp only [updWork]
    rcases hu : updEvents x w evs with ⟨x', bad⟩
    rw [hu] at h
    simp only at h
    cases bad with
    | true => exact h
    | false => exact ⟨pruneStale_inv x' w evs h.1, (pruneStale_spec x' w evs).1.trans h.2⟩

theorem updAll_inv (env : RoundEnv) (l : List WorkId) : ∀ (x : Exec), (∀ w ∈ l, w ∈ x.works) → Inv x →
    Inv (updAll env x l).1 ∧ (updAll env x l).1.works = x.works ∧ (updAll env x l).2.Sublist l := by
  induction l with
  | nil => intro x _ hi; exact ⟨hi, rfl, List.Sublist.refl _⟩
  | cons w r ih =>
    intro x hl hi
    unfold updAll
    have h1 := updWork_inv x w (env.beh w).events (hl w (List.mem_cons_self)) hi
    rcases h : updWork x w (env.beh w).events with ⟨x1, bad⟩
    rw [h] at h1
    simp only at h1
    have h2 := ih x1 (fun v hv => h1.2 ▸ hl v (List.mem_cons_of_mem _ hv)) h1.1
    simp only
    refine ⟨h2.1, h2.2.1.trans h1.2, ?_⟩
    cases bad
    · simp; exact List.Sublist.cons _ h2.2.2
    · simp; exact h2.2.2


/-- the cell of `fd'` after `_cleanup(w)` -/
def cleanC (r : List (Fd × Mask)) (closes : List Fd) (c : Cell) (fd' : Fd) : Cell :=
  let c1 := if fd' ∈ keysOf r then (unregC c fd').1 else c
  if fd' ∈ closes then closedCell c1 else c1

theorem cleanup_spec (x : Exec) (w : WorkId) (sd : Shutdown) :
    (w ∉ x.works → cleanup x w sd = .error (.worksKeyError w)) ∧
    (w ∈ x.works → ∃ y, cleanup x w sd = .ok y ∧
      y.works = x.works.filter (fun v => decide (v ≠ w)) ∧
      (∀ w', aget y.registered w' = if w' = w then none else aget x.registered w') ∧
      (∀ fd', cell y.sk fd' = cleanC (regOf x w) sd.closes (cell x.sk fd') fd')) := by
  unfold cleanup
  cases h : aget x.registered w with
  | none =>
    simp only
    constructor
    · intro hw; simp [hw]
    · intro hw
      simp only [hw, if_true]
      refine ⟨_, rfl, rfl, ?_, ?_⟩
      · intro w'; by_cases e : w' = w
        · subst e; simp [h]
        · simp [e]
      · intro fd'
        have := closeAll_cell sd.closes x.sk fd'
        rw [this]
        simp [cleanC, regOf, h, keysOf]
  | some r =>
    simp only
    constructor
    · intro hw; simp [hw]
    · intro hw
      simp only [hw, if_true]
      refine ⟨_, rfl, rfl, ?_, ?_⟩
      · intro w'; simp [aget_adel]
      · intro fd'
        have := closeAll_cell sd.closes (unregAll x.sk r) fd'
        rw [this, unregAll_cell]
        simp [cleanC, regOf, h]

theorem cleanC_key (r : List (Fd × Mask)) (cl : List Fd) (c : Cell) (fd' : Fd) (p : Mask × WorkId)
    (h : (cleanC r cl c fd').key = some p) : c.key = some p ∧ (fd' ∉ keysOf r ∨ fd' < 0) := by
  unfold cleanC closedCell unregC at h
  grind

theorem regOf_after_cleanup {x y : Exec} {w : WorkId}
    (h : ∀ w', aget y.registered w' = if w' = w then none else aget x.registered w') (d : WorkId) :
    regOf y d = if d = w then [] else regOf x d := by
  unfold regOf; rw [h]; by_cases e : d = w <;> simp [e]

theorem cleanup_inv (x y : Exec) (w : WorkId) (sd : Shutdown) (hi : Inv x) (h : cleanup x w sd = .ok y) :
    Inv y ∧ w ∈ x.works ∧ y.works = x.works.filter (fun v => decide (v ≠ w)) := by
  have hs := cleanup_spec x w sd
  by_cases hw : w ∈ x.works
  · obtain ⟨y', hy, hworks, hreg, hcell⟩ := hs.2 hw
    rw [h] at hy
    cases hy
    refine ⟨?_, hw, hworks⟩
    have hro := regOf_after_cleanup hreg
    constructor
    · intro fd m d hk
      rw [hcell] at hk
      obtain ⟨hk1, hk2⟩ := cleanC_key _ _ _ _ _ hk
      have h1 := hi.mapReg _ _ _ hk1
      have hnn := hi.mapNonneg fd (by rw [hk1]; simp)
      rw [hro]
      by_cases e : d = w
      · subst e
        have : fd ∈ keysOf (regOf x d) := (mem_keysOf_iff _ _).2 (by rw [h1]; simp)
        rcases hk2 with hk2 | hk2
        · exact absurd this hk2
        · exact absurd hk2 (Int.not_lt.mpr hnn)
      · simp [e]; exact h1
    · intro w' hw'
      rw [hreg] at hw'
      rw [hworks]
      by_cases e : w' = w
      · simp [e] at hw'
      · simp [e] at hw'
        simp [hi.regWorks _ hw', e]
    · intro fd hk
      rw [hcell] at hk
      cases hk' : (cleanC (regOf x w) sd.closes (cell x.sk fd) fd).key with
      | none => exact absurd hk' hk
      | some p =>
        have := (cleanC_key _ _ _ _ _ hk').1
        exact hi.mapNonneg fd (by rw [this]; simp)
    · rw [hworks]; exact hi.nodup.filter _
    · rw [hworks]; intro h0; exact hi.noZero (List.mem_filter.1 h0).1
  · rw [hs.1 hw] at h; cases h

theorem cleanupMany_ok (sd : WorkId → Shutdown) (l : List WorkId) : ∀ (x : Exec), Inv x →
    (∀ w ∈ l, w ∈ x.works) → l.Nodup →
    ∃ y, cleanupMany sd x l = .ok y ∧ Inv y ∧ y.works = x.works.filter (fun v => decide (v ∉ l)) := by
  induction l with
  | nil => intro x hi _ _; exact ⟨x, rfl, hi, (List.filter_eq_self.2 (by simp)).symm⟩
  | cons w r ih =>
    intro x hi hl hnd
    unfold cleanupMany
    obtain ⟨y, hy, _⟩ := (cleanup_spec x w (sd w)).2 (hl w List.mem_cons_self)
    rw [hy]
    simp only
    obtain ⟨hiy, _, hworks⟩ := cleanup_inv x y w (sd w) hi hy
    have hnd' := List.nodup_cons.1 hnd
    obtain ⟨z, hz, hiz, hzw⟩ := ih y hiy (by
      intro v hv
      rw [hworks]
      refine List.mem_filter.2 ⟨hl v (List.mem_cons_of_mem _ hv), ?_⟩
      have : v ≠ w := fun e => hnd'.1 (e ▸ hv)
      simp [this]) hnd'.2
    refine ⟨z, hz, hiz, ?_⟩
    rw [hzw, hworks, List.filter_filter]
    congr 1
    funext v
    simp only [List.mem_cons, not_or, ne_eq, Bool.decide_and]
    rw [Bool.and_comm]

theorem Inv.of_same_book {x y : Exec} (hw : y.works = x.works) (hr : y.registered = x.registered)
    (hm : y.sk.map = x.sk.map) (hi : Inv x) : Inv y := by
  have hk : ∀ fd, (cell y.sk fd).key = (cell x.sk fd).key := by intro fd; simp [cell, hm]
  have hro : ∀ d, regOf y d = regOf x d := by intro d; simp [regOf, hr]
  constructor
  · intro fd m d h; rw [hk] at h; rw [hro]; exact hi.mapReg _ _ _ h
  · intro w h; rw [hr] at h; rw [hw]; exact hi.regWorks _ h
  · intro fd h; rw [hk] at h; exact hi.mapNonneg _ h
  · rw [hw]; exact hi.nodup
  · rw [hw]; exact hi.noZero

theorem mem_dedup (l : List WorkId) (v : WorkId) : v ∈ dedup l ↔ v ∈ l := by
  induction l with
  | nil => simp [dedup]
  | cons a r ih =>
    unfold dedup
    by_cases e : v = a
    · simp [e]
    · simp [e, List.mem_filter, ih]

theorem nodup_dedup (l : List WorkId) : (dedup l).Nodup := by
  induction l with
  | nil => simp [dedup]
  | cons a r ih =>
    unfold dedup
    refine List.nodup_cons.2 ⟨?_, ih.filter _⟩
    simp [List.mem_filter]

theorem select_data_mem (x : Exec) (hi : Inv x) (ready : List (Fd × Mask)) (e : WorkId × Fd × Mask)
    (he : e ∈ select x.sk ready) : e.1 ∈ x.works := by
  unfold select at he
  obtain ⟨a, _, ha⟩ := List.mem_filterMap.1 he
  unfold selectOne at ha
  cases h1 : aget x.sk.k.epoll a.1 with
  | none => simp [h1] at ha
  | some i =>
    simp only [h1] at ha
    split at ha
    · simp at ha
    · cases h2 : aget x.sk.map a.1 with
      | none => simp [h2] at ha
      | some p =>
        obtain ⟨ev, d⟩ := p
        simp only [h2, Option.some.injEq] at ha
        subst ha
        simp only
        have hk : (cell x.sk a.1).key = some (ev, d) := by simp [cell, h2]
        have h3 := hi.mapReg _ _ _ hk
        apply hi.regWorks
        intro hn
        simp [regOf, hn] at h3

theorem tasks_ids_mem (x : Exec) (hi : Inv x) (ready : List (Fd × Mask)) :
    ∀ w ∈ (workByIds (select x.sk ready)).map (·.1), w ∈ x.works := by
  intro w hw
  unfold workByIds at hw
  simp only [List.map_map, List.mem_map, Function.comp] at hw
  obtain ⟨v, hv, rfl⟩ := hw
  rw [mem_dedup] at hv
  obtain ⟨e, he, rfl⟩ := List.mem_map.1 hv
  exact select_data_mem x hi ready e he

theorem tasks_ids_nodup (evs : List (WorkId × Fd × Mask)) : ((workByIds evs).map (·.1)).Nodup := by
  unfold workByIds
  simp only [List.map_map]
  have : ((fun x : WorkId × List Fd × List Fd => x.1) ∘ fun w => (w, readablesOf evs w, writablesOf evs w)) = id := by
    funext w; rfl
  rw [this, List.map_id]
  exact nodup_dedup _

/-- what the arriving connection must satisfy: its descriptor is not `0`, and a connection whose
    `initialize()` raises does not reuse the id of a work that is still registered -/
def ArriveOk (x : Exec) (env : RoundEnv) : Prop :=
  ∀ a, env.arrive = some a → a.fd ≠ 0 ∧ (a.initRaises = true → a.fd ∉ x.works)

theorem accept_ok (x : Exec) (a : Arrive) (sd : Shutdown) (hi : Inv x) (h0 : a.fd ≠ 0)
    (hf : a.initRaises = true → a.fd ∉ x.works) :
    ∃ y, accept x a sd = .ok y ∧ Inv y ∧ (∀ v ∈ x.works, v ∈ y.works) ∧
      (∀ v ∈ y.works, v ∈ x.works ∨ v = a.fd) := by
  unfold accept
  have hi1 : Inv { x with works := if a.fd ∈ x.works then x.works else x.works ++ [a.fd] } := by
    constructor
    · exact hi.mapReg
    · intro w h
      have := hi.regWorks w h
      by_cases e : a.fd ∈ x.works <;> simp [e, this]
    · exact hi.mapNonneg
    · by_cases e : a.fd ∈ x.works
      · simp [e]; exact hi.nodup
      · simp only [e, if_false]
        exact List.nodup_append.2 ⟨hi.nodup, by simp, by
          intro u hu v hv; simp at hv; subst hv; intro e2; exact e (e2 ▸ hu)⟩
    · by_cases e : a.fd ∈ x.works
      · simp [e]; exact hi.noZero
      · simp only [e, if_false, List.mem_append, List.mem_singleton, not_or]
        exact ⟨hi.noZero, fun h => h0 h.symm⟩
  cases hr : a.initRaises with
  | false =>
    simp only [Bool.false_eq_true, if_false]
    refine ⟨_, rfl, hi1, ?_, ?_⟩
    · intro v hv; by_cases e : a.fd ∈ x.works <;> simp [e, hv]
    · intro v hv
      by_cases e : a.fd ∈ x.works
      · simp [e] at hv; exact Or.inl hv
      · simp [e] at hv; exact hv
  | true =>
    simp only [if_true]
    have hnot := hf hr
    have hmem : a.fd ∈ (if a.fd ∈ x.works then x.works else x.works ++ [a.fd]) := by simp [hnot]
    obtain ⟨y, hy, _⟩ := (cleanup_spec { x with works := if a.fd ∈ x.works then x.works else x.works ++ [a.fd] } a.fd sd).2 hmem
    obtain ⟨hiy, _, hworks⟩ := cleanup_inv _ y a.fd sd hi1 hy
    refine ⟨y, hy, hiy, ?_, ?_⟩
    · intro v hv
      rw [hworks]
      simp only [hnot, if_false]
      refine List.mem_filter.2 ⟨by simp [hv], ?_⟩
      have : v ≠ a.fd := fun e => hnot (e ▸ hv)
      simp [this]
    · intro v hv
      rw [hworks] at hv
      have := (List.mem_filter.1 hv).1
      simp only [hnot, if_false, List.mem_append, List.mem_singleton] at this
      exact this

theorem checkTasks_ok (x : Exec) (ids : List WorkId) (h : ∀ w ∈ ids, w ∈ x.works) (h0 : (0 : WorkId) ∉ x.works) :
    checkTasks x ids = .ok () := by
  induction ids with
  | nil => rfl
  | cons w r ih =>
    unfold checkTasks
    have hw := h w List.mem_cons_self
    have : w ≠ 0 := fun e => h0 (e ▸ hw)
    simp [this, hw]
    exact ih (fun v hv => h v (List.mem_cons_of_mem _ hv))

theorem runTasks_book (env : RoundEnv) (l : List WorkId) : ∀ (x : Exec),
    (runTasks env x l).works = x.works ∧ (runTasks env x l).registered = x.registered ∧
    (runTasks env x l).sk.map = x.sk.map := by
  induction l with
  | nil => intro x; exact ⟨rfl, rfl, rfl⟩
  | cons w r ih => intro x; unfold runTasks; exact ih _

/-- works surviving the result loop: all but the task owners whose task asked for teardown -/
def survivors (env : RoundEnv) (works rem : List WorkId) : List WorkId :=
  works.filter (fun v => !(decide (v ∈ rem) && teardown env v))

theorem handleOne_ok (env : RoundEnv) (x : Exec) (w : WorkId) (hi : Inv x) (hw : w ∈ x.works) :
    ∃ y, handleOne env x w = .ok y ∧ Inv y ∧
      y.works = x.works.filter (fun v => !(decide (v = w) && teardown env v)) := by
  unfold handleOne
  cases ht : teardown env w with
  | false =>
    refine ⟨x, by simp, hi, ?_⟩
    refine (List.filter_eq_self.2 ?_).symm
    intro v _
    by_cases e : v = w
    · subst e; simp [ht]
    · simp [e]
  | true =>
    simp only [if_true]
    obtain ⟨y, hy, _⟩ := (cleanup_spec x w (env.beh w).sd).2 hw
    obtain ⟨hiy, _, hworks⟩ := cleanup_inv x y w _ hi hy
    refine ⟨y, hy, hiy, ?_⟩
    rw [hworks]
    apply List.filter_congr
    intro v _
    by_cases e : v = w
    · subst e; simp [ht]
    · simp [e]

theorem handleRest_ok (env : RoundEnv) (l : List WorkId) : ∀ (x : Exec), Inv x → l.Nodup →
    (∀ w ∈ l, w ∈ x.works) →
    ∃ y, handleRest env x l = .ok y ∧ Inv y ∧ y.works = survivors env x.works l := by
  induction l with
  | nil =>
    intro x hi _ _
    exact ⟨x, rfl, hi, (List.filter_eq_self.2 (by simp)).symm⟩
  | cons w r ih =>
    intro x hi hnd hl
    unfold handleRest
    obtain ⟨y, hy, hiy, hworks⟩ := handleOne_ok env x w hi (hl w List.mem_cons_self)
    rw [hy]
    simp only
    have hnd' := List.nodup_cons.1 hnd
    obtain ⟨z, hz, hiz, hzw⟩ := ih y hiy hnd'.2 (by
      intro v hv
      rw [hworks]
      have : v ≠ w := fun e => hnd'.1 (e ▸ hv)
      exact List.mem_filter.2 ⟨hl v (List.mem_cons_of_mem _ hv), by simp [this]⟩)
    refine ⟨z, hz, hiz, ?_⟩
    rw [hzw, hworks]
    unfold survivors
    rw [List.filter_filter]
    apply List.filter_congr
    intro v _
    by_cases e : v = w
    · subst e; simp [hnd'.1]
    · simp [e]

theorem handleResults_ok (env : RoundEnv) (prio : List WorkId) : ∀ (x : Exec) (rem : List WorkId), Inv x →
    rem.Nodup → (∀ w ∈ rem, w ∈ x.works) →
    ∃ y, handleResults env x rem prio = .ok y ∧ Inv y ∧ y.works = survivors env x.works rem := by
  induction prio with
  | nil => intro x rem hi hnd hl; unfold handleResults; exact handleRest_ok env rem x hi hnd hl
  | cons p ps ih =>
    intro x rem hi hnd hl
    unfold handleResults
    by_cases hp : p ∈ rem
    · simp only [hp, if_true]
      obtain ⟨y, hy, hiy, hworks⟩ := handleOne_ok env x p hi (hl p hp)
      rw [hy]
      simp only
      obtain ⟨z, hz, hiz, hzw⟩ := ih y (rem.filter (fun v => decide (v ≠ p))) hiy (hnd.filter _) (by
        intro v hv
        obtain ⟨hv1, hv2⟩ := List.mem_filter.1 hv
        rw [hworks]
        exact List.mem_filter.2 ⟨hl v hv1, by simp at hv2; simp [hv2]⟩)
      refine ⟨z, hz, hiz, ?_⟩
      rw [hzw, hworks]
      unfold survivors
      rw [List.filter_filter]
      apply List.filter_congr
      intro v _
      by_cases e : v = p
      · subst e; simp [hp]
      · simp [e, List.mem_filter]
    · simp only [hp, if_false]
      exact ih x rem hi hnd hl

/-- **aliveness and invariant preservation of one round** -/
theorem runOnce_ok (x : Exec) (env : RoundEnv) (hi : Inv x) (ha : ArriveOk x env) :
    ∃ y log, runOnce x env = .ok (y, log) ∧ Inv y := by
  unfold runOnce
  obtain ⟨hi1, hw1, hsub⟩ := updAll_inv env x.works x (fun w h => h) hi
  obtain ⟨x2, hx2, hi2, hw2⟩ := cleanupMany_ok (sdOf env) (updAll env x x.works).2 (updAll env x x.works).1 hi1
    (fun w hw => by rw [hw1]; exact hsub.subset hw) (hsub.nodup hi.nodup)
  simp only [hx2]
  have hsubw : ∀ v ∈ x2.works, v ∈ x.works := by
    intro v hv; rw [hw2, hw1] at hv; exact (List.mem_filter.1 hv).1
  have hids := tasks_ids_mem x2 hi2 env.ready
  have hnd := tasks_ids_nodup (select x2.sk env.ready)
  -- accept
  have hacc : ∃ x3, acceptOpt env x2 = .ok x3 ∧ Inv x3 ∧ (∀ v ∈ x2.works, v ∈ x3.works) := by
    unfold acceptOpt
    cases harr : env.arrive with
    | none => exact ⟨x2, rfl, hi2, fun v h => h⟩
    | some a =>
      obtain ⟨h0, hf⟩ := ha a harr
      obtain ⟨x3, h3, hi3, hk, _⟩ := accept_ok x2 a (sdOf env a.fd) hi2 h0 (fun h hm => hf h (hsubw _ hm))
      exact ⟨x3, h3, hi3, hk⟩
  obtain ⟨x3, hx3, hi3, hkeep⟩ := hacc
  simp only [hx3]
  unfold finishRound
  rw [checkTasks_ok x3 _ (fun w hw => hkeep w (hids w hw)) hi3.noZero]
  simp only
  obtain ⟨hb1, hb2, hb3⟩ := runTasks_book env ((workByIds (select x2.sk env.ready)).map (·.1)) x3
  have hi4 : Inv (runTasks env x3 ((workByIds (select x2.sk env.ready)).map (·.1))) := Inv.of_same_book hb1 hb2 hb3 hi3
  obtain ⟨x5, hx5, hi5, _⟩ := handleResults_ok env env.prio _ _ hi4 hnd
    (fun w hw => hb1 ▸ hkeep w (hids w hw))
  rw [hx5]
  exact ⟨x5, _, rfl, hi5⟩

/-- nothing of work `w` is left in the executor's bookkeeping -/
def Released (x : Exec) (w : WorkId) : Prop :=
  w ∉ x.works ∧ aget x.registered w = none ∧ ∀ fd m, (cell x.sk fd).key ≠ some (m, w)

theorem released_of_not_mem (x : Exec) (hi : Inv x) (w : WorkId) (hw : w ∉ x.works) : Released x w := by
  have hreg : aget x.registered w = none := by
    cases h : aget x.registered w with
    | none => rfl
    | some r => exact absurd (hi.regWorks w (by rw [h]; simp)) hw
  refine ⟨hw, hreg, ?_⟩
  intro fd m hk
  have := hi.mapReg fd m w hk
  simp [regOf, hreg] at this

theorem cleanup_release (x y : Exec) (w : WorkId) (sd : Shutdown) (hi : Inv x) (h : cleanup x w sd = .ok y) :
    Released y w ∧ ∀ fd ∈ sd.closes, (cell y.sk fd).isOpen = false ∧ (cell y.sk fd).interest = none := by
  obtain ⟨hiy, hw, hworks⟩ := cleanup_inv x y w sd hi h
  constructor
  · apply released_of_not_mem y hiy
    rw [hworks]; simp [List.mem_filter]
  · intro fd hfd
    obtain ⟨y', hy, _, _, hcell⟩ := (cleanup_spec x w sd).2 hw
    rw [h] at hy; cases hy
    rw [hcell]
    simp [cleanC, hfd, closedCell]

theorem reap_ok (x : Exec) (inactive : WorkId → Bool) (sd : WorkId → Shutdown) (hi : Inv x) :
    ∃ y, reap x inactive sd = .ok y ∧ Inv y ∧ y.works = x.works.filter (fun v => !inactive v) := by
  unfold reap
  obtain ⟨y, hy, hiy, hw⟩ := cleanupMany_ok sd (x.works.filter inactive) x hi
    (fun w hw => (List.mem_filter.1 hw).1) (hi.nodup.filter _)
  refine ⟨y, hy, hiy, ?_⟩
  rw [hw]
  apply List.filter_congr
  intro v hv
  simp [List.mem_filter, hv]

theorem updAll_failed_exc (env : RoundEnv) (l : List WorkId) : ∀ (x : Exec) (w : WorkId), w ∈ l →
    (env.beh w).events = .exc → w ∈ (updAll env x l).2 := by
  induction l with
  | nil => intro x w h; simp at h
  | cons a r ih =>
    intro x w hw he
    unfold updAll
    simp only
    rcases List.mem_cons.1 hw with e | h
    · subst e
      simp [he, updWork]
    · have := ih (updWork x a (env.beh a).events).1 w h he
      cases (updWork x a (env.beh a).events).2 <;> simp [this]

/-- everything C05 / C10 need to know about one round -/
theorem runOnce_facts (x : Exec) (env : RoundEnv) (hi : Inv x) (ha : ArriveOk x env) :
    ∃ y log, runOnce x env = .ok (y, log) ∧ Inv y ∧
      log.failed = (updAll env x x.works).2 ∧
      -- a work whose task asked for teardown (returned True or raised) is gone
      (∀ v ∈ log.tasks.map (·.1), teardown env v = true → v ∉ y.works) ∧
      -- a work whose event refresh failed is gone (unless a new connection with that id arrived)
      (∀ v ∈ log.failed, (∀ a, env.arrive = some a → a.fd ≠ v) → v ∉ y.works) ∧
      -- nothing appears from nowhere
      (∀ v ∈ y.works, v ∈ x.works ∨ ∃ a, env.arrive = some a ∧ a.fd = v) ∧
      -- nothing else is removed
      (∀ v ∈ x.works, v ∉ log.failed → ¬ (v ∈ log.tasks.map (·.1) ∧ teardown env v = true) → v ∈ y.works) ∧
      -- a connection whose initialize() raised is gone
      (∀ a, env.arrive = some a → a.initRaises = true → a.fd ∉ y.works) := by
  unfold runOnce
  obtain ⟨hi1, hw1, hsub⟩ := updAll_inv env x.works x (fun w h => h) hi
  obtain ⟨x2, hx2, hi2, hw2⟩ := cleanupMany_ok (sdOf env) (updAll env x x.works).2 (updAll env x x.works).1 hi1
    (fun w hw => by rw [hw1]; exact hsub.subset hw) (hsub.nodup hi.nodup)
  simp only [hx2]
  rw [hw1] at hw2
  have hids := tasks_ids_mem x2 hi2 env.ready
  have hnd := tasks_ids_nodup (select x2.sk env.ready)
  have hacc : ∃ x3, acceptOpt env x2 = .ok x3 ∧ Inv x3 ∧ (∀ v ∈ x2.works, v ∈ x3.works) ∧
      (∀ v ∈ x3.works, v ∈ x2.works ∨ ∃ a, env.arrive = some a ∧ a.fd = v) ∧
      (∀ a, env.arrive = some a → a.initRaises = true → a.fd ∉ x3.works) := by
    unfold acceptOpt
    cases harr : env.arrive with
    | none => exact ⟨x2, rfl, hi2, fun v h => h, fun v h => Or.inl h, by simp⟩
    | some a =>
      obtain ⟨h0, hf⟩ := ha a harr
      have hf2 : a.initRaises = true → a.fd ∉ x2.works := fun h hm => hf h (by
        rw [hw2] at hm; exact (List.mem_filter.1 hm).1)
      obtain ⟨x3, h3, hi3, hk, hk2⟩ := accept_ok x2 a (sdOf env a.fd) hi2 h0 hf2
      refine ⟨x3, h3, hi3, hk, ?_, ?_⟩
      · intro v hv
        rcases hk2 v hv with h | h
        · exact Or.inl h
        · exact Or.inr ⟨a, rfl, h.symm⟩
      · intro a' ha' hr
        cases ha'
        -- initialize raised: accept = cleanup of the freshly added id
        unfold accept at h3
        simp only [hr, if_true] at h3
        obtain ⟨_, _, hworks⟩ := cleanup_inv _ x3 a.fd _ (by
          constructor
          · exact hi2.mapReg
          · intro w h
            have := hi2.regWorks w h
            by_cases e : a.fd ∈ x2.works <;> simp [e, this]
          · exact hi2.mapNonneg
          · simp only [hf2 hr, if_false]
            exact List.nodup_append.2 ⟨hi2.nodup, by simp, by
              intro u hu v hv; simp at hv; subst hv; intro e2; exact hf2 hr (e2 ▸ hu)⟩
          · simp only [hf2 hr, if_false, List.mem_append, List.mem_singleton, not_or]
            exact ⟨hi2.noZero, fun h => h0 h.symm⟩) h3
        rw [hworks]; simp [List.mem_filter]
  obtain ⟨x3, hx3, hi3, hkeep, hnew, hinit⟩ := hacc
  simp only [hx3]
  unfold finishRound
  rw [checkTasks_ok x3 _ (fun w hw => hkeep w (hids w hw)) hi3.noZero]
  simp only
  obtain ⟨hb1, hb2, hb3⟩ := runTasks_book env ((workByIds (select x2.sk env.ready)).map (·.1)) x3
  have hi4 : Inv (runTasks env x3 ((workByIds (select x2.sk env.ready)).map (·.1))) := Inv.of_same_book hb1 hb2 hb3 hi3
  obtain ⟨x5, hx5, hi5, hw5⟩ := handleResults_ok env env.prio _ _ hi4 hnd
    (fun w hw => hb1 ▸ hkeep w (hids w hw))
  rw [hx5]
  rw [hb1] at hw5
  refine ⟨x5, _, rfl, hi5, rfl, ?_, ?_, ?_, ?_, ?_⟩
  · intro v hv ht hmem
    rw [hw5] at hmem
    have := (List.mem_filter.1 hmem).2
    simp [hv, ht] at this
  · intro v hv hna hmem
    rw [hw5] at hmem
    have h3 := (List.mem_filter.1 hmem).1
    rcases hnew v h3 with h | ⟨a, ha1, ha2⟩
    · rw [hw2] at h
      have := (List.mem_filter.1 h).2
      simp [hv] at this
    · exact hna a ha1 ha2
  · intro v hmem
    rw [hw5] at hmem
    have h3 := (List.mem_filter.1 hmem).1
    rcases hnew v h3 with h | h
    · rw [hw2] at h; exact Or.inl (List.mem_filter.1 h).1
    · exact Or.inr h
  · intro v hv hnf hnt
    rw [hw5]
    refine List.mem_filter.2 ⟨hkeep v ?_, ?_⟩
    · rw [hw2]; exact List.mem_filter.2 ⟨hv, by simp [hnf]⟩
    · by_cases h1 : v ∈ (workByIds (select x2.sk env.ready)).map (·.1)
      · have : teardown env v = false := by
          cases ht : teardown env v with
          | false => rfl
          | true => exact absurd ⟨h1, ht⟩ hnt
        simp [this]
      · simp only [List.mem_map] at h1
        simp [h1]
  · intro a ha1 hr hmem
    rw [hw5] at hmem
    exact hinit a ha1 hr (List.mem_filter.1 hmem).1

/-! ### noninterference: what concerns one work -/

/-- agreement of two executors on everything that concerns work `b`, whose descriptors live in `P` -/
structure AgreeB (P : Fd → Prop) (b : WorkId) (x y : Exec) : Prop where
  alive : b ∈ x.works ↔ b ∈ y.works
  reg : aget x.registered b = aget y.registered b
  cells : ∀ fd, P fd → cell x.sk fd = cell y.sk fd

theorem AgreeB.refl (P : Fd → Prop) (b : WorkId) (x : Exec) : AgreeB P b x x := ⟨Iff.rfl, rfl, fun _ _ => rfl⟩
theorem AgreeB.symm {P : Fd → Prop} {b : WorkId} {x y : Exec} (h : AgreeB P b x y) : AgreeB P b y x :=
  ⟨h.alive.symm, h.reg.symm, fun fd hp => (h.cells fd hp).symm⟩
theorem AgreeB.trans {P : Fd → Prop} {b : WorkId} {x y z : Exec} (h1 : AgreeB P b x y) (h2 : AgreeB P b y z) :
    AgreeB P b x z :=
  ⟨h1.alive.trans h2.alive, h1.reg.trans h2.reg, fun fd hp => (h1.cells fd hp).trans (h2.cells fd hp)⟩

theorem AgreeB.regOf {P : Fd → Prop} {b : WorkId} {x y : Exec} (h : AgreeB P b x y) : regOf x b = regOf y b := by
  unfold Exec.regOf; rw [h.reg]

/-- separation of the registry: `b`'s registered descriptors are in `P`, nobody else's are -/
structure SepSt (P : Fd → Prop) (b : WorkId) (x : Exec) : Prop where
  mine : ∀ fd, fd ∈ keysOf (regOf x b) → P fd
  others : ∀ a, a ≠ b → ∀ fd, fd ∈ keysOf (regOf x a) → ¬ P fd

theorem updC_keys (r : List (Fd × Mask)) (c : Cell) (w : WorkId) (fd : Fd) (mask : Mask) (fd' : Fd)
    (h : fd' ∈ keysOf (updC r c w fd mask).1) : fd' ∈ keysOf r ∨ fd' = fd := by
  by_cases e : fd' = fd
  · exact Or.inr e
  · left
    rw [mem_keysOf_iff] at h ⊢
    rwa [updC_frame _ _ _ _ _ _ e] at h

/-- a step of another work on a descriptor outside `P` is invisible to `b` -/
theorem updEvent_LR (P : Fd → Prop) (b a : WorkId) (x : Exec) (fd : Fd) (m : Mask) (hab : a ≠ b) (hfd : ¬ P fd)
    (hs : SepSt P b x) :
    AgreeB P b x (updEvent x a fd m).1 ∧ SepSt P b (updEvent x a fd m).1 := by
  obtain ⟨_, hworks, hreg, hcell⟩ := updEvent_spec x a fd m
  have hro := regOf_of_spec hreg
  refine ⟨⟨by rw [hworks], by rw [hreg]; simp [Ne.symm hab], ?_⟩, ⟨?_, ?_⟩⟩
  · intro fd' hp
    rw [hcell]
    have : fd' ≠ fd := fun e => hfd (e ▸ hp)
    simp [this]
  · intro fd' h
    rw [hro] at h
    simp only [Ne.symm hab, if_false] at h
    exact hs.mine fd' h
  · intro a' ha' fd' h
    rw [hro] at h
    by_cases e : a' = a
    · subst e
      simp only [if_true] at h
      rcases updC_keys _ _ _ _ _ _ h with h | h
      · exact hs.others _ ha' _ h
      · exact h ▸ hfd
    · simp only [e, if_false] at h
      exact hs.others _ ha' _ h

/-- `b`'s own step depends only on, and changes only, what concerns `b` -/
theorem updEvent_SC (P : Fd → Prop) (b : WorkId) (x y : Exec) (fd : Fd) (m : Mask) (hfd : P fd)
    (hxy : AgreeB P b x y) (hs : SepSt P b x) :
    AgreeB P b (updEvent x b fd m).1 (updEvent y b fd m).1 ∧ (updEvent x b fd m).2 = (updEvent y b fd m).2 ∧
    SepSt P b (updEvent x b fd m).1 := by
  obtain ⟨he1, hworks1, hreg1, hcell1⟩ := updEvent_spec x b fd m
  obtain ⟨he2, hworks2, hreg2, hcell2⟩ := updEvent_spec y b fd m
  have hr : regOf x b = regOf y b := hxy.regOf
  have hc : cell x.sk fd = cell y.sk fd := hxy.cells fd hfd
  have hro := regOf_of_spec hreg1
  refine ⟨⟨by rw [hworks1, hworks2]; exact hxy.alive, by rw [hreg1, hreg2]; simp [hr, hc], ?_⟩, by rw [he1, he2, hr, hc], ⟨?_, ?_⟩⟩
  · intro fd' hp
    rw [hcell1, hcell2, hr, hc, hxy.cells fd' hp]
  · intro fd' h
    rw [hro] at h
    simp only [if_true] at h
    rcases updC_keys _ _ _ _ _ _ h with h | h
    · exact hs.mine _ h
    · exact h ▸ hfd
  · intro a ha fd' h
    rw [hro] at h
    simp only [ha, if_false] at h
    exact hs.others a ha fd' h

theorem updEvents_LR (P : Fd → Prop) (b a : WorkId) (hab : a ≠ b) (evs : List (Fd × Mask)) : ∀ (x : Exec),
    (∀ e ∈ evs, ¬ P e.1) → SepSt P b x →
    AgreeB P b x (updEvents x a evs).1 ∧ SepSt P b (updEvents x a evs).1 := by
  induction evs with
  | nil => intro x _ hs; exact ⟨AgreeB.refl _ _ _, hs⟩
  | cons e rest ih =>
    intro x he hs
    obtain ⟨fd, m⟩ := e
    unfold updEvents
    have h1 := updEvent_LR P b a x fd m hab (he (fd, m) List.mem_cons_self) hs
    rcases h : updEvent x a fd m with ⟨x', e⟩
    rw [h] at h1
    cases e with
    | some e => exact h1
    | none =>
      simp only
      have h2 := ih x' (fun e he' => he e (List.mem_cons_of_mem _ he')) h1.2
      exact ⟨h1.1.trans h2.1, h2.2⟩

theorem updEvents_SC (P : Fd → Prop) (b : WorkId) (evs : List (Fd × Mask)) : ∀ (x y : Exec),
    (∀ e ∈ evs, P e.1) → AgreeB P b x y → SepSt P b x →
    AgreeB P b (updEvents x b evs).1 (updEvents y b evs).1 ∧ (updEvents x b evs).2 = (updEvents y b evs).2 ∧
    SepSt P b (updEvents x b evs).1 := by
  induction evs with
  | nil => intro x y _ hxy hs; exact ⟨hxy, rfl, hs⟩
  | cons e rest ih =>
    intro x y he hxy hs
    obtain ⟨fd, m⟩ := e
    unfold updEvents
    have h1 := updEvent_SC P b x y fd m (he (fd, m) List.mem_cons_self) hxy hs
    rcases hx : updEvent x b fd m with ⟨x', ex⟩
    rcases hy : updEvent y b fd m with ⟨y', ey⟩
    rw [hx, hy] at h1
    obtain ⟨ha, hee, hs'⟩ := h1
    simp only at hee
    subst hee
    cases ex with
    | some e => exact ⟨ha, rfl, hs'⟩
    | none =>
      simp only
      exact ih x' y' (fun e he' => he e (List.mem_cons_of_mem _ he')) ha hs'

theorem keysOf_keptOf_sub (r evs : List (Fd × Mask)) (fd : Fd) (h : fd ∈ keysOf (keptOf r evs)) : fd ∈ keysOf r := by
  rw [mem_keysOf_iff] at h ⊢
  rw [aget_keptOf] at h
  by_cases e : fd ∈ evs.map (·.1)
  · simpa [e] using h
  · simp [e] at h

theorem regOf_pruneStale (x : Exec) (w : WorkId) (evs : List (Fd × Mask)) (d : WorkId) :
    regOf (pruneStale x w evs) d = if d = w then keptOf (regOf x w) evs else regOf x d := by
  unfold regOf
  rw [(pruneStale_spec x w evs).2.1]
  by_cases e : d = w
  · subst e; cases aget x.registered d <;> simp [keptOf]
  · simp [e]

theorem pruneStale_LR (P : Fd → Prop) (b a : WorkId) (x : Exec) (evs : List (Fd × Mask)) (hab : a ≠ b)
    (hs : SepSt P b x) : AgreeB P b x (pruneStale x a evs) ∧ SepSt P b (pruneStale x a evs) := by
  obtain ⟨hworks, hreg, hcell⟩ := pruneStale_spec x a evs
  refine ⟨⟨by rw [hworks], by rw [hreg]; simp [Ne.symm hab], ?_⟩, ⟨?_, ?_⟩⟩
  · intro fd' hp
    rw [hcell]
    have : fd' ∉ keysOf (staleOf (regOf x a) evs) := by
      intro h
      exact hs.others a hab fd' ((mem_keysOf_staleOf _ _ _).1 h).1 hp
    simp [this]
  · intro fd' h
    rw [regOf_pruneStale] at h
    simp only [Ne.symm hab, if_false] at h
    exact hs.mine fd' h
  · intro a' ha' fd' h
    rw [regOf_pruneStale] at h
    by_cases e : a' = a
    · subst e; simp only [if_true] at h
      exact hs.others _ ha' _ (keysOf_keptOf_sub _ _ _ h)
    · simp only [e, if_false] at h; exact hs.others _ ha' _ h

theorem pruneStale_SC (P : Fd → Prop) (b : WorkId) (x y : Exec) (evs : List (Fd × Mask))
    (hxy : AgreeB P b x y) (hs : SepSt P b x) :
    AgreeB P b (pruneStale x b evs) (pruneStale y b evs) ∧ SepSt P b (pruneStale x b evs) := by
  obtain ⟨hworks1, hreg1, hcell1⟩ := pruneStale_spec x b evs
  obtain ⟨hworks2, hreg2, hcell2⟩ := pruneStale_spec y b evs
  have hr : regOf x b = regOf y b := hxy.regOf
  refine ⟨⟨by rw [hworks1, hworks2]; exact hxy.alive, by rw [hreg1, hreg2]; simp [hxy.reg], ?_⟩, ⟨?_, ?_⟩⟩
  · intro fd' hp
    rw [hcell1, hcell2, hr, hxy.cells fd' hp]
  · intro fd' h
    rw [regOf_pruneStale] at h
    simp only [if_true] at h
    exact hs.mine _ (keysOf_keptOf_sub _ _ _ h)
  · intro a ha fd' h
    rw [regOf_pruneStale] at h
    simp only [ha, if_false] at h
    exact hs.others a ha fd' h

/-- what the environment may do with descriptors: `b` stays inside `P`, everybody else outside -/
structure SepEnv (P : Fd → Prop) (b : WorkId) (env : RoundEnv) : Prop where
  myEvents : ∀ evs, (env.beh b).events = .ok evs → ∀ e ∈ evs, P e.1
  myOps : ∀ op ∈ (env.beh b).ops, ∃ fd, (op = .close fd ∨ op = .openAt fd) ∧ P fd
  myCloses : ∀ fd ∈ (env.beh b).sd.closes, P fd
  otherEvents : ∀ a, a ≠ b → ∀ evs, (env.beh a).events = .ok evs → ∀ e ∈ evs, ¬ P e.1
  otherOps : ∀ a, a ≠ b → ∀ op ∈ (env.beh a).ops, ∃ fd, (op = .close fd ∨ op = .openAt fd) ∧ ¬ P fd
  otherCloses : ∀ a, a ≠ b → ∀ fd ∈ (env.beh a).sd.closes, ¬ P fd
  arrive : ∀ a, env.arrive = some a → a.fd ≠ b

theorem updWork_LR (P : Fd → Prop) (b a : WorkId) (x : Exec) (ev : EvRes) (hab : a ≠ b)
    (he : ∀ evs, ev = .ok evs → ∀ e ∈ evs, ¬ P e.1) (hs : SepSt P b x) :
    AgreeB P b x (updWork x a ev).1 ∧ SepSt P b (updWork x a ev).1 := by
  cases ev with
  | exc => exact ⟨AgreeB.refl _ _ _, hs⟩
  | ok evs =>
    have h := updEvents_LR P b a hab evs x (he evs rfl) hs
    simp only [updWork]
    rcases hu : updEvents x a evs with ⟨x', bad⟩
    rw [hu] at h
    cases bad with
    | true => exact h
    | false =>
      have h2 := pruneStale_LR P b a x' evs hab h.2
      exact ⟨h.1.trans h2.1, h2.2⟩

theorem updWork_SC (P : Fd → Prop) (b : WorkId) (x y : Exec) (ev : EvRes)
    (he : ∀ evs, ev = .ok evs → ∀ e ∈ evs, P e.1) (hxy : AgreeB P b x y) (hs : SepSt P b x) :
    AgreeB P b (updWork x b ev).1 (updWork y b ev).1 ∧ (updWork x b ev).2 = (updWork y b ev).2 ∧
    SepSt P b (updWork x b ev).1 := by
  cases ev with
  | exc => exact ⟨hxy, rfl, hs⟩
  | ok evs =>
    have h := updEvents_SC P b evs x y (he evs rfl) hxy hs
    simp only [updWork]
    rcases hx : updEvents x b evs with ⟨x', bx⟩
    rcases hy : updEvents y b evs with ⟨y', by'⟩
    rw [hx, hy] at h
    obtain ⟨ha, hb, hs'⟩ := h
    simp only at hb
    subst hb
    cases bx with
    | true => exact ⟨ha, rfl, hs'⟩
    | false =>
      have h2 := pruneStale_SC P b x' y' evs ha hs'
      exact ⟨h2.1, rfl, h2.2⟩

/-- the whole refresh loop, seen from `b`: only `b`'s own refresh matters -/
theorem updAll_view (P : Fd → Prop) (b : WorkId) (env : RoundEnv) (he : SepEnv P b env) (l : List WorkId) :
    ∀ (x : Exec), l.Nodup → SepSt P b x →
    AgreeB P b (updAll env x l).1 (if b ∈ l then (updWork x b (env.beh b).events).1 else x) ∧
    (b ∈ (updAll env x l).2 ↔ (b ∈ l ∧ (updWork x b (env.beh b).events).2 = true)) ∧
    SepSt P b (updAll env x l).1 := by
  induction l with
  | nil => intro x _ hs; simp [updAll]; exact ⟨AgreeB.refl _ _ _, hs⟩
  | cons a r ih =>
    intro x hnd hs
    obtain ⟨hna, hndr⟩ := List.nodup_cons.1 hnd
    unfold updAll
    simp only
    by_cases hab : a = b
    · subst hab
      have hsc := updWork_SC P a x x (env.beh a).events he.myEvents (AgreeB.refl _ _ _) hs
      obtain ⟨h1, h2, h3⟩ := ih (updWork x a (env.beh a).events).1 hndr hsc.2.2
      simp only [hna, if_false] at h1
      refine ⟨by simpa using h1, ?_, h3⟩
      simp only [hna, false_and, iff_false] at h2
      cases hb : (updWork x a (env.beh a).events).2 <;> simp [h2]
    · have hlr := updWork_LR P b a x (env.beh a).events hab (he.otherEvents a hab) hs
      obtain ⟨h1, h2, h3⟩ := ih (updWork x a (env.beh a).events).1 hndr hlr.2
      have hsc := updWork_SC P b (updWork x a (env.beh a).events).1 x (env.beh b).events he.myEvents hlr.1.symm hlr.2
      have hba : ¬ b = a := fun e => hab e.symm
      refine ⟨?_, ?_, h3⟩
      · by_cases hbr : b ∈ r
        · simp only [hbr, if_true, List.mem_cons, or_true] at h1 ⊢
          exact h1.trans hsc.1
        · simp only [hbr, if_false, List.mem_cons, hba, or_false] at h1 ⊢
          exact h1.trans hlr.1.symm
      · rw [← hsc.2.1]
        cases hbad : (updWork x a (env.beh a).events).2 <;> simp [h2, hba]

theorem regOf_cleanup {x y : Exec} {w : WorkId} {sd : Shutdown} (h : cleanup x w sd = .ok y) (d : WorkId) :
    regOf y d = if d = w then [] else regOf x d := by
  by_cases hw : w ∈ x.works
  · obtain ⟨y', hy, _, hreg, _⟩ := (cleanup_spec x w sd).2 hw
    rw [h] at hy; cases hy
    exact regOf_after_cleanup hreg d
  · rw [(cleanup_spec x w sd).1 hw] at h; cases h

theorem cleanup_LR (P : Fd → Prop) (b a : WorkId) (x y : Exec) (sd : Shutdown) (hab : a ≠ b)
    (hcl : ∀ fd ∈ sd.closes, ¬ P fd) (hs : SepSt P b x) (h : cleanup x a sd = .ok y) :
    AgreeB P b x y ∧ SepSt P b y := by
  have hro := regOf_cleanup h
  by_cases hw : a ∈ x.works
  · obtain ⟨y', hy, hworks, hreg, hcell⟩ := (cleanup_spec x a sd).2 hw
    rw [h] at hy; cases hy
    refine ⟨⟨?_, by rw [hreg]; simp [Ne.symm hab], ?_⟩, ⟨?_, ?_⟩⟩
    · rw [hworks]; simp [List.mem_filter, Ne.symm hab]
    · intro fd' hp
      rw [hcell]
      unfold cleanC
      have h1 : fd' ∉ keysOf (regOf x a) := fun hk => hs.others a hab fd' hk hp
      have h2 : fd' ∉ sd.closes := fun hk => hcl fd' hk hp
      simp [h1, h2]
    · intro fd' hk
      rw [hro] at hk; simp only [Ne.symm hab, if_false] at hk
      exact hs.mine _ hk
    · intro a' ha' fd' hk
      rw [hro] at hk
      by_cases e : a' = a
      · simp [e, keysOf] at hk
      · simp only [e, if_false] at hk; exact hs.others _ ha' _ hk
  · rw [(cleanup_spec x a sd).1 hw] at h; cases h

theorem cleanup_SC (P : Fd → Prop) (b : WorkId) (x y : Exec) (sd : Shutdown) (hxy : AgreeB P b x y)
    (hs : SepSt P b x) :
    (∀ x', cleanup x b sd = .ok x' → ∃ y', cleanup y b sd = .ok y' ∧ AgreeB P b x' y' ∧ SepSt P b x') ∧
    ((∃ d, cleanup x b sd = .error d) ↔ (∃ d, cleanup y b sd = .error d)) := by
  have hsx := cleanup_spec x b sd
  have hsy := cleanup_spec y b sd
  constructor
  · intro x' hx'
    by_cases hw : b ∈ x.works
    · obtain ⟨x'', hx'', hworks1, hreg1, hcell1⟩ := hsx.2 hw
      rw [hx'] at hx''; cases hx''
      obtain ⟨y', hy', hworks2, hreg2, hcell2⟩ := hsy.2 (hxy.alive.1 hw)
      refine ⟨y', hy', ⟨?_, by rw [hreg1, hreg2]; simp, ?_⟩, ⟨?_, ?_⟩⟩
      · rw [hworks1, hworks2]; simp [List.mem_filter]
      · intro fd' hp
        rw [hcell1, hcell2, hxy.regOf, hxy.cells fd' hp]
      · intro fd' hk
        rw [regOf_cleanup hx'] at hk; simp [keysOf] at hk
      · intro a ha fd' hk
        rw [regOf_cleanup hx'] at hk; simp only [ha, if_false] at hk
        exact hs.others a ha fd' hk
    · rw [hsx.1 hw] at hx'; cases hx'
  · constructor
    · intro ⟨d, hd⟩
      by_cases hw : b ∈ x.works
      · obtain ⟨x'', hx'', _⟩ := hsx.2 hw
        rw [hd] at hx''; cases hx''
      · exact ⟨_, hsy.1 (fun h => hw (hxy.alive.2 h))⟩
    · intro ⟨d, hd⟩
      by_cases hw : b ∈ y.works
      · obtain ⟨y'', hy'', _⟩ := hsy.2 hw
        rw [hd] at hy''; cases hy''
      · exact ⟨_, hsx.1 (fun h => hw (hxy.alive.1 h))⟩

/-- a batch of cleanups seen from `b`: only `b`'s own cleanup (if it is in the batch) matters -/
theorem cleanupMany_view (P : Fd → Prop) (b : WorkId) (sd : WorkId → Shutdown)
    (hcl : ∀ a, a ≠ b → ∀ fd ∈ (sd a).closes, ¬ P fd) (l : List WorkId) : ∀ (x y : Exec), l.Nodup →
    SepSt P b x → cleanupMany sd x l = .ok y →
    SepSt P b y ∧ (b ∉ l → AgreeB P b x y) ∧
    (b ∈ l → ∃ x', cleanup x b (sd b) = .ok x' ∧ AgreeB P b x' y) := by
  induction l with
  | nil =>
    intro x y _ hs h
    unfold cleanupMany at h; cases h
    exact ⟨hs, fun _ => AgreeB.refl _ _ _, by simp⟩
  | cons a r ih =>
    intro x y hnd hs h
    obtain ⟨hna, hndr⟩ := List.nodup_cons.1 hnd
    unfold cleanupMany at h
    cases hc : cleanup x a (sd a) with
    | error d => rw [hc] at h; cases h
    | ok x1 =>
      rw [hc] at h
      simp only at h
      by_cases hab : a = b
      · subst hab
        have hsc := (cleanup_SC P a x x (sd a) (AgreeB.refl _ _ _) hs).1 x1 hc
        obtain ⟨_, _, _, hs1⟩ := hsc
        obtain ⟨h1, h2, _⟩ := ih x1 y hndr hs1 h
        refine ⟨h1, by simp, fun _ => ⟨x1, hc, h2 hna⟩⟩
      · have hlr := cleanup_LR P b a x x1 (sd a) hab (hcl a hab) hs hc
        obtain ⟨h1, h2, h3⟩ := ih x1 y hndr hlr.2 h
        have hba : ¬ b = a := fun e => hab e.symm
        refine ⟨h1, ?_, ?_⟩
        · intro hb
          simp only [List.mem_cons, hba, false_or] at hb
          exact hlr.1.trans (h2 hb)
        · intro hb
          simp only [List.mem_cons, hba, false_or] at hb
          obtain ⟨x', hx', ha'⟩ := h3 hb
          -- b's cleanup on x agrees with b's cleanup on x1
          obtain ⟨y', hy', hag, _⟩ := (cleanup_SC P b x1 x (sd b) hlr.1.symm hlr.2).1 x' hx'
          exact ⟨y', hy', hag.symm.trans ha'⟩

/-- `selectOne` reads only the cell of the descriptor -/
def selC (c : Cell) (fd : Fd) (truth : Mask) : Option (WorkId × Fd × Mask) :=
  match c.interest with
  | none => none
  | some interest =>
    let kbits := (truth % 4) &&& interest
    let hup := decide (truth / 4 % 2 = 1)
    if kbits = 0 ∧ hup = false then none
    else match c.key with
      | none => none
      | some (ev, d) => some (d, fd, (kbits ||| (if hup then 3 else 0)) &&& ev)

theorem selectOne_eq (s : SK) (fd : Fd) (t : Mask) : selectOne s fd t = selC (cell s fd) fd t := rfl

theorem selC_data (c : Cell) (fd : Fd) (t : Mask) (e : WorkId × Fd × Mask) (h : selC c fd t = some e) :
    ∃ m, c.key = some (m, e.1) := by
  unfold selC at h
  cases hi : c.interest with
  | none => simp [hi] at h
  | some i =>
    cases hk : c.key with
    | none =>
      simp only [hi, hk] at h
      split at h <;> cases h
    | some q =>
      obtain ⟨ev, d⟩ := q
      simp only [hi, hk] at h
      split at h
      · cases h
      · simp only [Option.some.injEq] at h
        exact ⟨ev, by rw [← h]⟩

theorem filterMap_congr' {α β : Type} (f g : α → Option β) (l : List α) (h : ∀ a ∈ l, f a = g a) :
    l.filterMap f = l.filterMap g := by
  induction l with
  | nil => rfl
  | cons a r ih =>
    simp only [List.filterMap_cons, h a List.mem_cons_self]
    rw [ih (fun a' ha' => h a' (List.mem_cons_of_mem _ ha'))]

theorem filterMap_filter_of_none {α β : Type} (f : α → Option β) (q : α → Bool) (l : List α)
    (h : ∀ a ∈ l, q a = false → f a = none) : l.filterMap f = (l.filter q).filterMap f := by
  induction l with
  | nil => rfl
  | cons a r ih =>
    have ih' := ih (fun a' ha' => h a' (List.mem_cons_of_mem _ ha'))
    cases hq : q a with
    | true => simp only [List.filter_cons, hq, if_true, List.filterMap_cons]; rw [ih']
    | false =>
      simp only [List.filter_cons, hq, Bool.false_eq_true, if_false, List.filterMap_cons,
        h a List.mem_cons_self hq]
      exact ih'

/-- the events the selector hands to `b`: determined by the cells of `b`'s descriptors and the
    readiness of those descriptors -/
theorem select_for_b (p : Fd → Bool) (b : WorkId) (x y : Exec) (r1 r2 : List (Fd × Mask))
    (hc : ∀ fd, p fd = true → cell x.sk fd = cell y.sk fd)
    (hkx : ∀ fd m, (cell x.sk fd).key = some (m, b) → p fd = true)
    (hky : ∀ fd m, (cell y.sk fd).key = some (m, b) → p fd = true)
    (hr : r1.filter (fun e => p e.1) = r2.filter (fun e => p e.1)) :
    (select x.sk r1).filter (fun e => decide (e.1 = b)) = (select y.sk r2).filter (fun e => decide (e.1 = b)) := by
  unfold select
  rw [List.filter_filterMap, List.filter_filterMap]
  have key : ∀ (z : Exec) (hk : ∀ fd m, (cell z.sk fd).key = some (m, b) → p fd = true) (r : List (Fd × Mask)),
      r.filterMap (fun e => (selectOne z.sk e.1 e.2).bind (fun e' => if decide (e'.1 = b) = true then some e' else none))
      = (r.filter (fun e => p e.1)).filterMap
        (fun e => (selectOne z.sk e.1 e.2).bind (fun e' => if decide (e'.1 = b) = true then some e' else none)) := by
    intro z hk r
    apply filterMap_filter_of_none
    intro a _ hq
    cases hs : selectOne z.sk a.1 a.2 with
    | none => rfl
    | some e' =>
      simp only [Option.bind_some]
      by_cases hb : e'.1 = b
      · rw [selectOne_eq] at hs
        obtain ⟨m, hm⟩ := selC_data _ _ _ _ hs
        rw [hb] at hm
        have := hk a.1 m hm
        rw [hq] at this; cases this
      · simp [hb]
  have e1 := key x hkx r1
  have e2 := key y hky r2
  have conv : ∀ (z : Exec) (r : List (Fd × Mask)),
      r.filterMap (fun e => Option.filter (fun e' => decide (e'.1 = b)) (selectOne z.sk e.1 e.2)) =
      r.filterMap (fun e => (selectOne z.sk e.1 e.2).bind (fun e' => if decide (e'.1 = b) = true then some e' else none)) := by
    intro z r
    apply filterMap_congr'
    intro e _
    cases selectOne z.sk e.1 e.2 <;> simp [Option.filter]
  rw [conv, conv, e1, e2, hr]
  apply filterMap_congr'
  intro e he
  have hp : p e.1 = true := by simpa using (List.mem_filter.1 he).2
  rw [selectOne_eq, selectOne_eq, hc e.1 hp]

theorem readablesOf_filter (evs : List (WorkId × Fd × Mask)) (b : WorkId) :
    readablesOf evs b = readablesOf (evs.filter (fun e => decide (e.1 = b))) b := by
  unfold readablesOf
  induction evs with
  | nil => rfl
  | cons e r ih =>
    by_cases h : e.1 = b
    · simp [List.filter_cons, h, List.filterMap_cons, ih]
    · simp [List.filter_cons, h, List.filterMap_cons, ih]

theorem writablesOf_filter (evs : List (WorkId × Fd × Mask)) (b : WorkId) :
    writablesOf evs b = writablesOf (evs.filter (fun e => decide (e.1 = b))) b := by
  unfold writablesOf
  induction evs with
  | nil => rfl
  | cons e r ih =>
    by_cases h : e.1 = b
    · simp [List.filter_cons, h, List.filterMap_cons, ih]
    · simp [List.filter_cons, h, List.filterMap_cons, ih]

theorem mem_ids_iff (evs : List (WorkId × Fd × Mask)) (b : WorkId) :
    b ∈ (workByIds evs).map (·.1) ↔ evs.filter (fun e => decide (e.1 = b)) ≠ [] := by
  unfold workByIds
  simp only [List.map_map]
  have : ((fun x : WorkId × List Fd × List Fd => x.1) ∘ fun w => (w, readablesOf evs w, writablesOf evs w)) = id := by
    funext w; rfl
  rw [this, List.map_id, mem_dedup]
  constructor
  · intro h
    obtain ⟨e, he, hb⟩ := List.mem_map.1 h
    intro hn
    have : e ∈ evs.filter (fun e => decide (e.1 = b)) := List.mem_filter.2 ⟨he, by simp [hb]⟩
    rw [hn] at this; cases this
  · intro h
    cases hl : evs.filter (fun e => decide (e.1 = b)) with
    | nil => exact absurd hl h
    | cons e r =>
      have : e ∈ evs.filter (fun e => decide (e.1 = b)) := by rw [hl]; exact List.mem_cons_self
      obtain ⟨h1, h2⟩ := List.mem_filter.1 this
      exact List.mem_map.2 ⟨e, h1, by simpa using h2⟩

/-- the task entry of `b` in `work_by_ids` (`none` = no task for `b` this round) -/
def taskOf (tasks : List (WorkId × List Fd × List Fd)) (b : WorkId) : Option (List Fd × List Fd) := aget tasks b

theorem taskOf_workByIds (evs : List (WorkId × Fd × Mask)) (b : WorkId) :
    taskOf (workByIds evs) b =
      if b ∈ (workByIds evs).map (·.1) then some (readablesOf evs b, writablesOf evs b) else none := by
  unfold taskOf workByIds
  generalize dedup (evs.map (·.1)) = ids
  induction ids with
  | nil => simp
  | cons a r ih =>
    simp only [List.map_cons, aget_cons, List.mem_cons]
    by_cases e : a = b
    · subst e; simp
    · have : ¬ b = a := fun h => e h.symm
      simp only [e, if_false, this, false_or]
      simpa using ih

theorem accept_LR (P : Fd → Prop) (b : WorkId) (x y : Exec) (a : Arrive) (sd : Shutdown) (hab : a.fd ≠ b)
    (hcl : ∀ fd ∈ sd.closes, ¬ P fd) (hs : SepSt P b x) (h : accept x a sd = .ok y) :
    AgreeB P b x y ∧ SepSt P b y := by
  unfold accept at h
  have h1 : AgreeB P b x { x with works := if a.fd ∈ x.works then x.works else x.works ++ [a.fd] } := by
    refine ⟨?_, rfl, fun _ _ => rfl⟩
    by_cases e : a.fd ∈ x.works
    · simp [e]
    · simp [e, Ne.symm hab]
  have hs1 : SepSt P b { x with works := if a.fd ∈ x.works then x.works else x.works ++ [a.fd] } :=
    ⟨hs.mine, hs.others⟩
  cases hr : a.initRaises with
  | false =>
    simp only [hr, Bool.false_eq_true, if_false] at h
    cases h
    exact ⟨h1, hs1⟩
  | true =>
    simp only [hr, if_true] at h
    have := cleanup_LR P b a.fd _ y sd hab hcl hs1 h
    exact ⟨h1.trans this.1, this.2⟩

theorem acceptOpt_LR (P : Fd → Prop) (b : WorkId) (env : RoundEnv) (he : SepEnv P b env) (x y : Exec)
    (hs : SepSt P b x) (h : acceptOpt env x = .ok y) : AgreeB P b x y ∧ SepSt P b y := by
  unfold acceptOpt at h
  cases ha : env.arrive with
  | none => rw [ha] at h; cases h; exact ⟨AgreeB.refl _ _ _, hs⟩
  | some a =>
    rw [ha] at h
    exact accept_LR P b x y a _ (he.arrive a ha) (he.otherCloses a.fd (he.arrive a ha)) hs h

theorem runOps_cells_LR (P : Fd → Prop) (ops : List FdOp) : ∀ (s : SK),
    (∀ op ∈ ops, ∃ fd, (op = .close fd ∨ op = .openAt fd) ∧ ¬ P fd) →
    ∀ fd, P fd → cell { s with k := runOps s.k ops } fd = cell s fd := by
  induction ops with
  | nil => intro s _ fd _; rfl
  | cons op r ih =>
    intro s h fd hp
    obtain ⟨fd0, hop, hn⟩ := h op List.mem_cons_self
    have hne : fd ≠ fd0 := fun e => hn (e ▸ hp)
    rcases hop with hop | hop
    · subst hop
      unfold runOps
      have := ih { s with k := s.k.close fd0 } (fun o ho => h o (List.mem_cons_of_mem _ ho)) fd hp
      simp only at this
      rw [this, close_cell]; simp [hne]
    · subst hop
      unfold runOps
      have := ih { s with k := s.k.openAt fd0 } (fun o ho => h o (List.mem_cons_of_mem _ ho)) fd hp
      simp only at this
      rw [this, openAt_cell]; simp [hne]

theorem runOps_cells_SC (P : Fd → Prop) (ops : List FdOp) : ∀ (s t : SK),
    (∀ op ∈ ops, ∃ fd, (op = .close fd ∨ op = .openAt fd) ∧ P fd) →
    (∀ fd, P fd → cell s fd = cell t fd) →
    ∀ fd, P fd → cell { s with k := runOps s.k ops } fd = cell { t with k := runOps t.k ops } fd := by
  induction ops with
  | nil => intro s t _ hc fd hp; exact hc fd hp
  | cons op r ih =>
    intro s t h hc fd hp
    obtain ⟨fd0, hop, hp0⟩ := h op List.mem_cons_self
    rcases hop with hop | hop
    · subst hop
      unfold runOps
      refine ih { s with k := s.k.close fd0 } { t with k := t.k.close fd0 }
        (fun o ho => h o (List.mem_cons_of_mem _ ho)) ?_ fd hp
      intro fd' hp'
      rw [close_cell, close_cell, hc fd' hp', hc fd0 hp0]
    · subst hop
      unfold runOps
      refine ih { s with k := s.k.openAt fd0 } { t with k := t.k.openAt fd0 }
        (fun o ho => h o (List.mem_cons_of_mem _ ho)) ?_ fd hp
      intro fd' hp'
      rw [openAt_cell, openAt_cell, hc fd' hp', hc fd0 hp0]

/-- one task step (kernel-only effect) -/
def taskStep (env : RoundEnv) (x : Exec) (w : WorkId) : Exec :=
  { x with sk := { x.sk with k := runOps x.sk.k (env.beh w).ops } }

theorem runTasks_cons (env : RoundEnv) (x : Exec) (w : WorkId) (r : List WorkId) :
    runTasks env x (w :: r) = runTasks env (taskStep env x w) r := rfl

theorem taskStep_LR (P : Fd → Prop) (b a : WorkId) (env : RoundEnv) (he : SepEnv P b env) (x : Exec) (hab : a ≠ b)
    (hs : SepSt P b x) : AgreeB P b x (taskStep env x a) ∧ SepSt P b (taskStep env x a) :=
  ⟨⟨Iff.rfl, rfl, fun fd hp => (runOps_cells_LR P _ x.sk (he.otherOps a hab) fd hp).symm⟩, ⟨hs.mine, hs.others⟩⟩

theorem taskStep_SC (P : Fd → Prop) (b : WorkId) (env : RoundEnv) (he : SepEnv P b env) (x y : Exec)
    (hxy : AgreeB P b x y) : AgreeB P b (taskStep env x b) (taskStep env y b) :=
  ⟨hxy.alive, hxy.reg, runOps_cells_SC P _ x.sk y.sk he.myOps hxy.cells⟩

theorem runTasks_view (P : Fd → Prop) (b : WorkId) (env : RoundEnv) (he : SepEnv P b env) (l : List WorkId) :
    ∀ (x : Exec), l.Nodup → SepSt P b x →
    AgreeB P b (runTasks env x l) (if b ∈ l then taskStep env x b else x) ∧ SepSt P b (runTasks env x l) := by
  induction l with
  | nil => intro x _ hs; exact ⟨by simp [runTasks]; exact AgreeB.refl _ _ _, hs⟩
  | cons a r ih =>
    intro x hnd hs
    obtain ⟨hna, hndr⟩ := List.nodup_cons.1 hnd
    rw [runTasks_cons]
    by_cases hab : a = b
    · subst hab
      have hs1 : SepSt P a (taskStep env x a) := ⟨hs.mine, hs.others⟩
      obtain ⟨h1, h2⟩ := ih (taskStep env x a) hndr hs1
      simp only [hna, if_false] at h1
      exact ⟨by simpa using h1, h2⟩
    · have hlr := taskStep_LR P b a env he x hab hs
      obtain ⟨h1, h2⟩ := ih (taskStep env x a) hndr hlr.2
      have hba : ¬ b = a := fun e => hab e.symm
      refine ⟨?_, h2⟩
      by_cases hbr : b ∈ r
      · simp only [hbr, if_true, List.mem_cons, or_true] at h1 ⊢
        exact h1.trans (taskStep_SC P b env he _ _ hlr.1.symm)
      · simp only [hbr, if_false, List.mem_cons, hba, or_false] at h1 ⊢
        exact h1.trans hlr.1.symm

theorem handleOne_LR (P : Fd → Prop) (b a : WorkId) (env : RoundEnv) (he : SepEnv P b env) (x y : Exec)
    (hab : a ≠ b) (hs : SepSt P b x) (h : handleOne env x a = .ok y) : AgreeB P b x y ∧ SepSt P b y := by
  unfold handleOne at h
  cases ht : teardown env a with
  | false => simp only [ht, Bool.false_eq_true, if_false] at h; cases h; exact ⟨AgreeB.refl _ _ _, hs⟩
  | true =>
    simp only [ht, if_true] at h
    exact cleanup_LR P b a x y _ hab (he.otherCloses a hab) hs h

/-- the result loop seen from `b` -/
def TdView (P : Fd → Prop) (b : WorkId) (env : RoundEnv) (x y : Exec) (hit : Prop) : Prop :=
  SepSt P b y ∧ (¬ hit → AgreeB P b x y) ∧
  (hit → ∃ x', cleanup x b (env.beh b).sd = .ok x' ∧ AgreeB P b x' y)

theorem handleRest_view (P : Fd → Prop) (b : WorkId) (env : RoundEnv) (he : SepEnv P b env) (l : List WorkId) :
    ∀ (x y : Exec), l.Nodup → SepSt P b x → handleRest env x l = .ok y →
    TdView P b env x y (b ∈ l ∧ teardown env b = true) := by
  induction l with
  | nil =>
    intro x y _ hs h
    unfold handleRest at h; cases h
    exact ⟨hs, fun _ => AgreeB.refl _ _ _, by simp⟩
  | cons a r ih =>
    intro x y hnd hs h
    obtain ⟨hna, hndr⟩ := List.nodup_cons.1 hnd
    unfold handleRest at h
    cases hc : handleOne env x a with
    | error d => rw [hc] at h; cases h
    | ok x1 =>
      rw [hc] at h
      simp only at h
      by_cases hab : a = b
      · subst hab
        cases ht : teardown env a with
        | false =>
          unfold handleOne at hc
          simp only [ht, Bool.false_eq_true, if_false] at hc; cases hc
          obtain ⟨h1, h2, _⟩ := ih x y hndr hs h
          refine ⟨h1, fun _ => h2 (by simp [hna]), by simp⟩
        | true =>
          unfold handleOne at hc
          simp only [ht, if_true] at hc
          obtain ⟨_, _, _, hs1⟩ := (cleanup_SC P a x x _ (AgreeB.refl _ _ _) hs).1 x1 hc
          obtain ⟨h1, h2, _⟩ := ih x1 y hndr hs1 h
          refine ⟨h1, by simp, fun _ => ⟨x1, hc, h2 (by simp [hna])⟩⟩
      · have hlr := handleOne_LR P b a env he x x1 hab hs hc
        obtain ⟨h1, h2, h3⟩ := ih x1 y hndr hlr.2 h
        have hba : ¬ b = a := fun e => hab e.symm
        refine ⟨h1, ?_, ?_⟩
        · intro hn
          exact hlr.1.trans (h2 (by simpa [hba] using hn))
        · intro hh
          obtain ⟨x', hx', ha'⟩ := h3 (by simpa [hba] using hh)
          obtain ⟨y', hy', hag, _⟩ := (cleanup_SC P b x1 x _ hlr.1.symm hlr.2).1 x' hx'
          exact ⟨y', hy', hag.symm.trans ha'⟩

theorem handleResults_view (P : Fd → Prop) (b : WorkId) (env : RoundEnv) (he : SepEnv P b env) (prio : List WorkId) :
    ∀ (x y : Exec) (rem : List WorkId), rem.Nodup → SepSt P b x → handleResults env x rem prio = .ok y →
    TdView P b env x y (b ∈ rem ∧ teardown env b = true) := by
  induction prio with
  | nil => intro x y rem hnd hs h; unfold handleResults at h; exact handleRest_view P b env he rem x y hnd hs h
  | cons p ps ih =>
    intro x y rem hnd hs h
    unfold handleResults at h
    by_cases hp : p ∈ rem
    · simp only [hp, if_true] at h
      cases hc : handleOne env x p with
      | error d => rw [hc] at h; cases h
      | ok x1 =>
        rw [hc] at h
        simp only at h
        have hnd' : (rem.filter (fun v => decide (v ≠ p))).Nodup := hnd.filter _
        by_cases hpb : p = b
        · subst hpb
          have hnot : p ∉ rem.filter (fun v => decide (v ≠ p)) := by simp [List.mem_filter]
          cases ht : teardown env p with
          | false =>
            unfold handleOne at hc
            simp only [ht, Bool.false_eq_true, if_false] at hc; cases hc
            obtain ⟨h1, h2, _⟩ := ih x y _ hnd' hs h
            exact ⟨h1, fun _ => h2 (by simp [hnot]), by simp⟩
          | true =>
            unfold handleOne at hc
            simp only [ht, if_true] at hc
            obtain ⟨_, _, _, hs1⟩ := (cleanup_SC P p x x _ (AgreeB.refl _ _ _) hs).1 x1 hc
            obtain ⟨h1, h2, _⟩ := ih x1 y _ hnd' hs1 h
            exact ⟨h1, by simp [hp], fun _ => ⟨x1, hc, h2 (by simp [hnot])⟩⟩
        · have hlr := handleOne_LR P b p env he x x1 hpb hs hc
          obtain ⟨h1, h2, h3⟩ := ih x1 y _ hnd' hlr.2 h
          have hbp : b ≠ p := fun e => hpb e.symm
          have hmem : b ∈ rem.filter (fun v => decide (v ≠ p)) ↔ b ∈ rem := by simp [List.mem_filter, hbp]
          refine ⟨h1, ?_, ?_⟩
          · intro hn
            exact hlr.1.trans (h2 (by rw [hmem]; exact hn))
          · intro hh
            obtain ⟨x', hx', ha'⟩ := h3 (by rw [hmem]; exact hh)
            obtain ⟨y', hy', hag, _⟩ := (cleanup_SC P b x1 x _ hlr.1.symm hlr.2).1 x' hx'
            exact ⟨y', hy', hag.symm.trans ha'⟩
    · simp only [hp, if_false] at h
      exact ih x y rem hnd hs h

/-- the intermediate states of a successful round -/
theorem runOnce_stages (x y : Exec) (env : RoundEnv) (log : Log) (h : runOnce x env = .ok (y, log)) :
    ∃ x2 x3, cleanupMany (sdOf env) (updAll env x x.works).1 (updAll env x x.works).2 = .ok x2 ∧
      acceptOpt env x2 = .ok x3 ∧
      handleResults env (runTasks env x3 ((workByIds (select x2.sk env.ready)).map (·.1)))
        ((workByIds (select x2.sk env.ready)).map (·.1)) env.prio = .ok y ∧
      log = { failed := (updAll env x x.works).2, tasks := workByIds (select x2.sk env.ready) } := by
  unfold runOnce at h
  simp only at h
  cases h2 : cleanupMany (sdOf env) (updAll env x x.works).1 (updAll env x x.works).2 with
  | error d => rw [h2] at h; cases h
  | ok x2 =>
    rw [h2] at h
    simp only at h
    cases h3 : acceptOpt env x2 with
    | error d => rw [h3] at h; cases h
    | ok x3 =>
      rw [h3] at h
      simp only at h
      unfold finishRound at h
      cases h4 : checkTasks x3 ((workByIds (select x2.sk env.ready)).map (·.1)) with
      | error d => rw [h4] at h; cases h
      | ok u =>
        rw [h4] at h
        simp only at h
        cases h5 : handleResults env (runTasks env x3 ((workByIds (select x2.sk env.ready)).map (·.1)))
            ((workByIds (select x2.sk env.ready)).map (·.1)) env.prio with
        | error d => rw [h5] at h; cases h
        | ok x5 =>
          rw [h5] at h
          simp only [Except.ok.injEq, Prod.mk.injEq] at h
          exact ⟨x2, x3, rfl, h3, by rw [← h.1]; exact h5, h.2.symm⟩

theorem keys_of_b_in_P (P : Fd → Prop) (b : WorkId) (x : Exec) (hi : Inv x) (hs : SepSt P b x) (fd : Fd) (m : Mask)
    (hk : (cell x.sk fd).key = some (m, b)) : P fd :=
  hs.mine fd ((mem_keysOf_iff _ _).2 (by rw [hi.mapReg fd m b hk]; simp))

/-- **noninterference of one round, two-run form.**  Two executors that agree on what concerns `b`
    (and are otherwise arbitrary: any other works, in any state, doing anything outside `b`'s
    descriptors), given the same behaviour of `b` and the same readiness of `b`'s descriptors, agree
    again on what concerns `b` after the round, hand `b` the same events and fail / tear down `b`
    alike. -/
theorem round_noninterference (p : Fd → Bool) (b : WorkId) (x₁ x₂ y₁ y₂ : Exec) (env₁ env₂ : RoundEnv) (l₁ l₂ : Log)
    (hi₁ : Inv x₁) (hi₂ : Inv x₂)
    (hag : AgreeB (fun fd => p fd = true) b x₁ x₂)
    (hs₁ : SepSt (fun fd => p fd = true) b x₁) (hs₂ : SepSt (fun fd => p fd = true) b x₂)
    (he₁ : SepEnv (fun fd => p fd = true) b env₁) (he₂ : SepEnv (fun fd => p fd = true) b env₂)
    (hbeh : env₁.beh b = env₂.beh b)
    (hready : env₁.ready.filter (fun e => p e.1) = env₂.ready.filter (fun e => p e.1))
    (h₁ : runOnce x₁ env₁ = .ok (y₁, l₁)) (h₂ : runOnce x₂ env₂ = .ok (y₂, l₂)) :
    AgreeB (fun fd => p fd = true) b y₁ y₂ ∧ taskOf l₁.tasks b = taskOf l₂.tasks b ∧
    (b ∈ l₁.failed ↔ b ∈ l₂.failed) ∧
    SepSt (fun fd => p fd = true) b y₁ ∧ SepSt (fun fd => p fd = true) b y₂ := by
  obtain ⟨a2, a3, ha2, ha3, ha5, hl₁⟩ := runOnce_stages x₁ y₁ env₁ l₁ h₁
  obtain ⟨b2, b3, hb2, hb3, hb5, hl₂⟩ := runOnce_stages x₂ y₂ env₂ l₂ h₂
  -- stage 1: the refresh loop
  obtain ⟨u1, uf1, us1⟩ := updAll_view _ b env₁ he₁ x₁.works x₁ hi₁.nodup hs₁
  obtain ⟨v1, vf1, vs1⟩ := updAll_view _ b env₂ he₂ x₂.works x₂ hi₂.nodup hs₂
  obtain ⟨ui, uw, usub⟩ := updAll_inv env₁ x₁.works x₁ (fun w h => h) hi₁
  obtain ⟨vi, vw, vsub⟩ := updAll_inv env₂ x₂.works x₂ (fun w h => h) hi₂
  have hsc := updWork_SC _ b x₁ x₂ (env₁.beh b).events he₁.myEvents hag hs₁
  have stage1 : AgreeB (fun fd => p fd = true) b (updAll env₁ x₁ x₁.works).1 (updAll env₂ x₂ x₂.works).1 ∧
      (b ∈ (updAll env₁ x₁ x₁.works).2 ↔ b ∈ (updAll env₂ x₂ x₂.works).2) := by
    by_cases hb : b ∈ x₁.works
    · have hb' := hag.alive.1 hb
      simp only [hb, if_true] at u1
      simp only [hb', if_true] at v1
      rw [← hbeh] at v1 vf1
      refine ⟨u1.trans (hsc.1.trans v1.symm), ?_⟩
      rw [uf1, vf1, hsc.2.1]; simp [hb, hb']
    · have hb' : b ∉ x₂.works := fun h => hb (hag.alive.2 h)
      simp only [hb, if_false] at u1
      simp only [hb', if_false] at v1
      refine ⟨u1.trans (hag.trans v1.symm), ?_⟩
      rw [uf1, vf1]; simp [hb, hb']
  -- stage 2: cleanup of the failed works
  obtain ⟨cs1, cn1, cy1⟩ := cleanupMany_view _ b (sdOf env₁) (fun a ha => he₁.otherCloses a ha) _ _ a2
    (usub.nodup hi₁.nodup) us1 ha2
  obtain ⟨ds1, dn1, dy1⟩ := cleanupMany_view _ b (sdOf env₂) (fun a ha => he₂.otherCloses a ha) _ _ b2
    (vsub.nodup hi₂.nodup) vs1 hb2
  have hsd : sdOf env₁ b = sdOf env₂ b := by unfold sdOf; rw [hbeh]
  have stage2 : AgreeB (fun fd => p fd = true) b a2 b2 := by
    by_cases hf : b ∈ (updAll env₁ x₁ x₁.works).2
    · obtain ⟨x', hx', ax'⟩ := cy1 hf
      obtain ⟨y', hy', ay'⟩ := dy1 (stage1.2.1 hf)
      obtain ⟨z, hz, hag', _⟩ := (cleanup_SC _ b _ _ (sdOf env₁ b) stage1.1 us1).1 x' hx'
      rw [hsd, hy'] at hz
      cases hz
      exact ax'.symm.trans (hag'.trans ay')
    · have hf' : b ∉ (updAll env₂ x₂ x₂.works).2 := fun h => hf (stage1.2.2 h)
      exact (cn1 hf).symm.trans (stage1.1.trans (dn1 hf'))
  -- invariants of the intermediate states
  obtain ⟨a2', ha2', ia2, _⟩ := cleanupMany_ok (sdOf env₁) _ _ ui (fun w hw => by rw [uw]; exact usub.subset hw)
    (usub.nodup hi₁.nodup)
  rw [ha2] at ha2'; cases ha2'
  obtain ⟨b2', hb2', ib2, _⟩ := cleanupMany_ok (sdOf env₂) _ _ vi (fun w hw => by rw [vw]; exact vsub.subset hw)
    (vsub.nodup hi₂.nodup)
  rw [hb2] at hb2'; cases hb2'
  -- stage 3: what select hands to b
  have hsel := select_for_b p b a2 b2 env₁.ready env₂.ready stage2.cells
    (fun fd m hk => keys_of_b_in_P _ b a2 ia2 cs1 fd m hk)
    (fun fd m hk => keys_of_b_in_P _ b b2 ib2 ds1 fd m hk) hready
  have hids : b ∈ (workByIds (select a2.sk env₁.ready)).map (·.1) ↔ b ∈ (workByIds (select b2.sk env₂.ready)).map (·.1) := by
    rw [mem_ids_iff, mem_ids_iff, hsel]
  have htask : taskOf l₁.tasks b = taskOf l₂.tasks b := by
    rw [hl₁, hl₂]
    simp only
    rw [taskOf_workByIds, taskOf_workByIds, readablesOf_filter, writablesOf_filter,
      readablesOf_filter (select b2.sk env₂.ready), writablesOf_filter (select b2.sk env₂.ready), hsel]
    by_cases hb : b ∈ (workByIds (select a2.sk env₁.ready)).map (·.1)
    · simp only [hb, hids.1 hb, if_true]
    · have : b ∉ (workByIds (select b2.sk env₂.ready)).map (·.1) := fun h => hb (hids.2 h)
      simp only [hb, this, if_false]
  -- stage 4: accept
  obtain ⟨aa, as3⟩ := acceptOpt_LR _ b env₁ he₁ a2 a3 cs1 ha3
  obtain ⟨ba, bs3⟩ := acceptOpt_LR _ b env₂ he₂ b2 b3 ds1 hb3
  have stage4 : AgreeB (fun fd => p fd = true) b a3 b3 := aa.symm.trans (stage2.trans ba)
  -- stage 5: the tasks
  obtain ⟨ta, ts⟩ := runTasks_view _ b env₁ he₁ _ a3 (tasks_ids_nodup (select a2.sk env₁.ready)) as3
  obtain ⟨tb, tt⟩ := runTasks_view _ b env₂ he₂ _ b3 (tasks_ids_nodup (select b2.sk env₂.ready)) bs3
  have hstep : AgreeB (fun fd => p fd = true) b (taskStep env₁ a3 b) (taskStep env₂ b3 b) := by
    have := taskStep_SC _ b env₁ he₁ a3 b3 stage4
    have e : taskStep env₂ b3 b = taskStep env₁ b3 b := by unfold taskStep; rw [hbeh]
    rw [e]; exact this
  have stage5 : AgreeB (fun fd => p fd = true) b
      (runTasks env₁ a3 ((workByIds (select a2.sk env₁.ready)).map (·.1)))
      (runTasks env₂ b3 ((workByIds (select b2.sk env₂.ready)).map (·.1))) := by
    by_cases hb : b ∈ (workByIds (select a2.sk env₁.ready)).map (·.1)
    · simp only [hb, if_true] at ta
      simp only [hids.1 hb, if_true] at tb
      exact ta.trans (hstep.trans tb.symm)
    · have hb' : b ∉ (workByIds (select b2.sk env₂.ready)).map (·.1) := fun h => hb (hids.2 h)
      simp only [hb, if_false] at ta
      simp only [hb', if_false] at tb
      exact ta.trans (stage4.trans tb.symm)
  -- stage 6: the result loop
  obtain ⟨rs1, rn1, ry1⟩ := handleResults_view _ b env₁ he₁ env₁.prio _ y₁ _ (tasks_ids_nodup _) ts ha5
  obtain ⟨qs1, qn1, qy1⟩ := handleResults_view _ b env₂ he₂ env₂.prio _ y₂ _ (tasks_ids_nodup _) tt hb5
  have htd : teardown env₁ b = teardown env₂ b := by unfold teardown; rw [hbeh]
  refine ⟨?_, htask, ?_, rs1, qs1⟩
  · by_cases hit : b ∈ (workByIds (select a2.sk env₁.ready)).map (·.1) ∧ teardown env₁ b = true
    · have hit' : b ∈ (workByIds (select b2.sk env₂.ready)).map (·.1) ∧ teardown env₂ b = true :=
        ⟨hids.1 hit.1, htd ▸ hit.2⟩
      obtain ⟨x', hx', ax'⟩ := ry1 hit
      obtain ⟨y', hy', ay'⟩ := qy1 hit'
      obtain ⟨z, hz, hag', _⟩ := (cleanup_SC _ b _ _ (env₁.beh b).sd stage5 ts).1 x' hx'
      rw [hbeh, hy'] at hz
      cases hz
      exact ax'.symm.trans (hag'.trans ay')
    · have hit' : ¬ (b ∈ (workByIds (select b2.sk env₂.ready)).map (·.1) ∧ teardown env₂ b = true) :=
        fun h => hit ⟨hids.2 h.1, htd ▸ h.2⟩
      exact (rn1 hit).symm.trans (stage5.trans (qn1 hit'))
  · rw [hl₁, hl₂]; exact stage1.2

/-- does the selector key of `fd` (if any) name work `b`? -/
def keyOfB (x : Exec) (b : WorkId) (fd : Fd) : Bool :=
  match aget x.sk.map fd with
  | some (_, d) => decide (d = b)
  | none => false

/-- the executor that serves only `b`: same kernel, `b`'s registry entry, `b`'s selector keys -/
def soloOf (b : WorkId) (x : Exec) : Exec :=
  { works := x.works.filter (fun v => decide (v = b)),
    registered := x.registered.filter (fun e => decide (e.1 = b)),
    sk := { map := x.sk.map.filter (fun e => keyOfB x b e.1), k := x.sk.k } }

def soloEnv (env : RoundEnv) : RoundEnv := { env with arrive := none }

theorem soloOf_reg (b : WorkId) (x : Exec) (w : WorkId) :
    aget (soloOf b x).registered w = if w = b then aget x.registered b else none := by
  unfold soloOf
  simp only
  have := aget_filter_key x.registered (fun k => decide (k = b)) w
  rw [this]
  by_cases e : w = b
  · subst e; simp
  · simp [e]

theorem soloOf_regOf (b : WorkId) (x : Exec) (w : WorkId) :
    regOf (soloOf b x) w = if w = b then regOf x b else [] := by
  unfold regOf; rw [soloOf_reg]; by_cases e : w = b <;> simp [e]

theorem soloOf_cell (b : WorkId) (x : Exec) (fd : Fd) :
    cell (soloOf b x).sk fd = { (cell x.sk fd) with key := if keyOfB x b fd then (cell x.sk fd).key else none } := by
  unfold soloOf cell
  simp only
  rw [aget_filter_key x.sk.map (keyOfB x b) fd]

theorem keyOfB_true (x : Exec) (b : WorkId) (fd : Fd) (m : Mask) (h : (cell x.sk fd).key = some (m, b)) :
    keyOfB x b fd = true := by
  unfold keyOfB; simp only [cell] at h; rw [h]; simp

theorem keyOfB_data (x : Exec) (b : WorkId) (fd : Fd) (m : Mask) (d : WorkId) (h : (cell x.sk fd).key = some (m, d))
    (hq : keyOfB x b fd = true) : d = b := by
  unfold keyOfB at hq; simp only [cell] at h; rw [h] at hq; simpa using hq

theorem soloOf_inv (b : WorkId) (x : Exec) (hi : Inv x) : Inv (soloOf b x) := by
  constructor
  · intro fd m d hk
    rw [soloOf_cell] at hk
    simp only at hk
    by_cases hq : keyOfB x b fd = true
    · simp only [hq, if_true] at hk
      have hd := keyOfB_data x b fd m d hk hq
      subst hd
      rw [soloOf_regOf]; simp only [if_true]
      exact hi.mapReg _ _ _ hk
    · simp [hq] at hk
  · intro w h
    rw [soloOf_reg] at h
    by_cases e : w = b
    · subst e
      simp only [if_true] at h
      unfold soloOf; simp only
      exact List.mem_filter.2 ⟨hi.regWorks _ h, by simp⟩
    · simp [e] at h
  · intro fd h
    rw [soloOf_cell] at h
    simp only at h
    by_cases hq : keyOfB x b fd = true
    · simp only [hq, if_true] at h; exact hi.mapNonneg fd h
    · simp [hq] at h
  · unfold soloOf; exact hi.nodup.filter _
  · unfold soloOf; simp only; intro h; exact hi.noZero (List.mem_filter.1 h).1

theorem soloOf_agree (P : Fd → Prop) (b : WorkId) (x : Exec) (hi : Inv x) (hs : SepSt P b x) :
    AgreeB P b x (soloOf b x) ∧ SepSt P b (soloOf b x) := by
  refine ⟨⟨?_, ?_, ?_⟩, ⟨?_, ?_⟩⟩
  · unfold soloOf; simp [List.mem_filter]
  · rw [soloOf_reg]; simp
  · intro fd hp
    rw [soloOf_cell]
    cases hk : (cell x.sk fd).key with
    | none => cases hc : cell x.sk fd; simp_all
    | some q =>
      obtain ⟨m, d⟩ := q
      have hd : d = b := by
        by_cases e : d = b
        · exact e
        · have h1 := hi.mapReg fd m d hk
          exact absurd hp (hs.others d e fd ((mem_keysOf_iff _ _).2 (by rw [h1]; simp)))
      subst hd
      rw [keyOfB_true x d fd m hk]
      cases hc : cell x.sk fd; simp_all
  · intro fd h; rw [soloOf_regOf] at h; simp only [if_true] at h; exact hs.mine fd h
  · intro a ha fd h; rw [soloOf_regOf] at h; simp [ha, keysOf] at h

theorem soloEnv_sep (P : Fd → Prop) (b : WorkId) (env : RoundEnv) (he : SepEnv P b env) : SepEnv P b (soloEnv env) :=
  ⟨he.myEvents, he.myOps, he.myCloses, he.otherEvents, he.otherOps, he.otherCloses, by intro a h; cases h⟩

theorem solo_noninterference (p : Fd → Bool) (b : WorkId) (x y : Exec) (env : RoundEnv) (l : Log)
    (hi : Inv x) (hs : SepSt (fun fd => p fd = true) b x) (he : SepEnv (fun fd => p fd = true) b env)
    (h : runOnce x env = .ok (y, l)) :
    ∃ y' l', runOnce (soloOf b x) (soloEnv env) = .ok (y', l') ∧
      AgreeB (fun fd => p fd = true) b y y' ∧ taskOf l.tasks b = taskOf l'.tasks b ∧
      (b ∈ l.failed ↔ b ∈ l'.failed) := by
  obtain ⟨hag, hss⟩ := soloOf_agree _ b x hi hs
  have hiS := soloOf_inv b x hi
  obtain ⟨y', l', hr, _⟩ := runOnce_ok (soloOf b x) (soloEnv env) hiS (by intro a ha; cases ha)
  obtain ⟨h1, h2, h3, _, _⟩ := round_noninterference p b x (soloOf b x) y y' env (soloEnv env) l l' hi hiS hag hs hss he
    (soloEnv_sep _ b env he) rfl rfl h hr
  exact ⟨y', l', hr, h1, h2, h3⟩

end Px.Exec

/-! ### the kernel's lowest-free descriptor allocation -/
namespace Px.Sel

/-- every candidate below the result of `lowestFree` (from `n` on) is open: the result is the lowest free one -/
theorem lowestFree_lowest (open_ : List Fd) : ∀ (fuel n m : Nat), n ≤ m → m < lowestFree open_ fuel n → ((m : Nat) : Int) ∈ open_ := by
  intro fuel
  induction fuel with
  | zero => intro n m h1 h2; simp [lowestFree] at h2; omega
  | succ f ih =>
    intro n m h1 h2
    unfold lowestFree at h2
    by_cases hn : ((n : Nat) : Int) ∈ open_
    · simp only [hn, if_true] at h2
      by_cases e : m = n
      · subst e; exact hn
      · exact ih (n + 1) m (by omega) h2
    · simp only [hn, if_false] at h2; omega

theorem lowestFree_ge (open_ : List Fd) : ∀ (fuel n : Nat), n ≤ lowestFree open_ fuel n := by
  intro fuel
  induction fuel with
  | zero => intro n; simp [lowestFree]
  | succ f ih =>
    intro n
    unfold lowestFree
    by_cases hn : ((n : Nat) : Int) ∈ open_
    · simp only [hn, if_true]; have := ih (n + 1); omega
    · simp [hn]

/-- the result is free provided the fuel did not run out -/
theorem lowestFree_free_or_exhausted (open_ : List Fd) : ∀ (fuel n : Nat),
    ((lowestFree open_ fuel n : Nat) : Int) ∉ open_ ∨ lowestFree open_ fuel n = n + fuel := by
  intro fuel
  induction fuel with
  | zero => intro n; right; simp [lowestFree]
  | succ f ih =>
    intro n
    unfold lowestFree
    by_cases hn : ((n : Nat) : Int) ∈ open_
    · simp only [hn, if_true]
      rcases ih (n + 1) with h | h
      · exact Or.inl h
      · right; omega
    · left; simp [hn]

end Px.Sel

namespace Px.Sel
theorem pigeon : ∀ (k : Nat) (l : List Int), (∀ m : Nat, m < k → ((m : Nat) : Int) ∈ l) → k ≤ l.length := by
  intro k
  induction k with
  | zero => intro l _; omega
  | succ k ih =>
    intro l h
    have hk : ((k : Nat) : Int) ∈ l := h k (by omega)
    have := ih (l.erase (k : Int)) (by
      intro m hm
      have hne : ((m : Nat) : Int) ≠ ((k : Nat) : Int) := by omega
      exact (List.mem_erase_of_ne hne).2 (h m (by omega)))
    rw [List.length_erase_of_mem hk] at this
    have hpos : 0 < l.length := List.length_pos_of_mem hk
    omega

/-- **lowest-free allocation**: the descriptor the kernel model hands out is not open, and every
    smaller non-negative number is -/
theorem alloc_fresh (k : Kernel) : k.alloc ∉ k.open_ ∧ ∀ m : Nat, (m : Int) < k.alloc → (m : Int) ∈ k.open_ := by
  unfold Kernel.alloc
  constructor
  · rcases lowestFree_free_or_exhausted k.open_ k.open_.length 0 with h | h
    · exact h
    · intro hin
      have hall : ∀ m : Nat, m < k.open_.length + 1 → ((m : Nat) : Int) ∈ k.open_ := by
        intro m hm
        by_cases e : m < lowestFree k.open_ k.open_.length 0
        · exact lowestFree_lowest k.open_ _ 0 m (by omega) e
        · have : m = lowestFree k.open_ k.open_.length 0 := by omega
          rw [this]; exact hin
      have := pigeon (k.open_.length + 1) k.open_ hall
      omega
  · intro m hm
    exact lowestFree_lowest k.open_ k.open_.length 0 m (by omega) (by omega)
end Px.Sel
