import PxModel.Conn
/-
  Model of the per-connection relay state machine of proxy.py from the moment
  an exchange is established:

    proxy/http/handler.py        HttpProtocolHandler.get_events / handle_events /
                                 handle_writables / handle_readables / handle_data /
                                 shutdown / _flush
    proxy/core/base/tcp_server.py BaseTcpServerHandler.get_events / handle_writables /
                                 handle_readables (must_flush_before_shutdown)
    proxy/http/proxy/server.py   HttpProxyPlugin.get_descriptors / write_to_descriptors /
                                 read_from_descriptors / on_client_data / _close_and_release

  Default configuration: no `HttpProxyBasePlugin`s (the `handle_upstream_chunk`,
  `handle_client_data`, `on_response_chunk` chains are the identity), no
  connection pool (`_close_and_release` only returns `True`), no TLS
  interception.  NOT part of the model: response inspection (`self.response.parse`
  inside `try/except` since the D14 fix: it cannot change what is queued) and the
  HTTP request pipeline parser applied to follow-up client data on a plain-HTTP
  exchange — its effect is the input `Tick.app` (C02/C04 model it).

  Environment nondeterminism is input: a `Tick` says which descriptors the
  selector reported and the outcome of every syscall `handle_events` may make.
-/
namespace Px.Relay
open Px

/-- what kind of exchange the handler is in
    * `tunnel`: CONNECT acknowledged, `request.is_https_tunnel`, upstream connected
    * `http`  : plain HTTP request forwarded, upstream connected
    * `local` : no upstream descriptor — `plugin is None` (400), `HttpProxyPlugin`
                with `upstream is None` (407) or never connected (502), or the web
                server plugin (404 / replies): every plugin hook is a no-op -/
inductive Kind | tunnel | http | local
  deriving DecidableEq, Repr

/-- effect of the application-level handling of one client segment where that
    is outside this model (`http`: `pipeline_request.parse` + rebuild; `local`:
    first-request parsing / web route).  `ok toUp toClient close`: returned
    normally after queueing `toUp` to upstream (`http`) / `toClient` to the client
    (`local`), `handle_data` returns `close` (an `HttpProtocolException` whose
    `response()` is `None` is `ok none none true`); `raised`: another exception
    escapes `handle_events`. -/
inductive AppOut
  | ok (toUp : Option Bytes) (toClient : Option Bytes) (close : Bool)
  | raised
  deriving DecidableEq, Repr

structure Tick where
  cR : Bool
  cW : Bool
  uR : Bool
  uW : Bool
  cRecv : RecvOut
  uRecv : RecvOut
  cSend : SendOut
  uSend : SendOut
  app : AppOut
  deriving DecidableEq, Repr

structure St where
  kind : Kind
  /-- `flags.max_sendbuf_size` -/
  maxSend : Nat
  client : Conn
  upstream : Conn
  /-- `must_flush_before_shutdown` -/
  mustFlush : Bool
  /-- `reads_teared` -/
  readsTeared : Bool
  /-- `writes_teared` (assigned, never read by the code) -/
  writesTeared : Bool
  /- ghost history -/
  /-- bytes read so far from the upstream / the client -/
  recvU : Bytes
  recvC : Bytes
  /-- bytes accepted so far by sends to the client / the upstream -/
  sentC : Bytes
  sentU : Bytes
  /-- every element ever queued to the client -/
  queuedC : List Bytes
  /-- trace of the current tick: argument and result of the client / upstream `send` -/
  trC : Option (Bytes × Nat)
  trU : Option (Bytes × Nat)
  deriving DecidableEq, Repr

/-- how `handle_events` ended: returned `False`, returned `True`, or an
    exception escaped (Threadless then tears the work down as well) -/
inductive Ret | cont | teardown | raised
  deriving DecidableEq, Repr

structure Interest where
  cR : Bool
  cW : Bool
  uR : Bool
  uW : Bool
  deriving DecidableEq, Repr

/-- `self.upstream and not self.upstream.closed and self.upstream.connection` -/
def upLive (s : St) : Bool := s.kind != .local && !s.upstream.closed

/-- `get_events()`: client read unless `must_flush_before_shutdown`, client write
    iff its buffer is non-empty; `get_descriptors()`: upstream read while not
    closed, upstream write iff additionally its buffer is non-empty. -/
def events (s : St) : Interest :=
  { cR := !s.mustFlush, cW := s.client.hasBuffer,
    uR := upLive s, uW := upLive s && s.upstream.hasBuffer }

/-- what `handle_writables` does with the result `r` of the client flush:
    `BrokenPipeError` / `OSError` → `True`; buffer drained during a final flush
    (`must_flush_before_shutdown and not has_buffer()`) → `True`, flag reset. -/
def afterCW (s : St) (r : FlushRes) : St × Bool :=
  let s1 := { s with client := r.conn, sentC := s.sentC ++ r.wire,
                     trC := r.offered.map (·, r.accepted) }
  match r.exc with
  | some _ => (s1, true)
  | none =>
    if s1.mustFlush && !s1.client.hasBuffer then ({ s1 with mustFlush := false }, true)
    else (s1, false)

/-- `HttpProtocolHandler.handle_writables` (+ the base class one it calls):
    flush one buffer element to the client when it is writable and output is pending. -/
def phaseCW (s : St) (t : Tick) : St × Bool :=
  if t.cW && s.client.hasBuffer then afterCW s (s.client.flush s.maxSend t.cSend)
  else (s, false)

/-- what `write_to_descriptors` does with the result `r` of the upstream flush:
    `SSLWantWriteError` → `False`, `BrokenPipeError` / `OSError` →
    `_close_and_release()` = `True`. -/
def afterUW (s : St) (r : FlushRes) : St × Bool :=
  let s1 := { s with upstream := r.conn, sentU := s.sentU ++ r.wire,
                     trU := r.offered.map (·, r.accepted) }
  match r.exc with
  | some .sslWantWrite => (s1, false)
  | some _ => (s1, true)
  | none => (s1, false)

/-- `HttpProxyPlugin.write_to_descriptors`: flush one element to the upstream
    when it is live, writable and has pending bytes. -/
def phaseUW (s : St) (t : Tick) : St × Bool :=
  if upLive s && t.uW && s.upstream.hasBuffer then afterUW s (s.upstream.flush s.maxSend t.uSend)
  else (s, false)

/-- result of `handle_data` -/
inductive HD | ret (close : Bool) | raised
  deriving DecidableEq, Repr

/-- `handle_data(data)` on an established exchange (`request.state == COMPLETE`)
    → `plugin.on_client_data(data)`: tunnel: `self.upstream.queue(raw)`;
    upstream closed: dropped; otherwise the abstract `app` effect. -/
def onClientData (s : St) (b : Bytes) (a : AppOut) : St × HD :=
  match s.kind with
  | .tunnel =>
    if s.upstream.closed then (s, .ret false)
    else ({ s with upstream := s.upstream.queue b }, .ret false)
  | .http =>
    if s.upstream.closed then (s, .ret false)
    else match a with
      | .raised => (s, .raised)
      | .ok toUp _ close =>
        (match toUp with
         | some x => { s with upstream := s.upstream.queue x }
         | none => s, .ret close)
  | .local =>
    match a with
    | .raised => (s, .raised)
    | .ok _ toCl close =>
      (match toCl with
       | some x => { s with client := s.client.queue x, queuedC := s.queuedC ++ [x] }
       | none => s, .ret close)

/-- value of `handle_readables` (client side) -/
inductive RRet | no | yes | raised
  deriving DecidableEq, Repr

/-- what the base `handle_readables` does with the value of `handle_data`:
    an escaping exception propagates; `True` → `must_flush_before_shutdown = True`
    when output is pending for the client, else teardown. -/
def afterHD (s : St) (hd : HD) : St × RRet :=
  match hd with
  | .raised => (s, .raised)
  | .ret false => (s, .no)
  | .ret true =>
    if s.client.hasBuffer then ({ s with mustFlush := true }, .no) else (s, .yes)

/-- `HttpProtocolHandler.handle_readables` around the base class one:
    reset / timeout / any `socket.error` / end of stream → `True`;
    `SSLWantReadError` → `False`; data → `handle_data`. -/
def phaseCR (s : St) (t : Tick) : St × RRet :=
  if t.cR then
    match Conn.recv t.cRecv with
    | .exc .sslWantRead => (s, .no)
    | .exc _ => (s, .yes)
    | .none_ => (s, .yes)
    | .seg b =>
      let r := onClientData { s with recvC := s.recvC ++ b } b t.app
      afterHD r.1 r.2
  else (s, .no)

/-- `HttpProxyPlugin.read_from_descriptors`: every failure and end of stream →
    `_close_and_release()` = `True`; `SSLWantReadError` → `False`; a segment is
    queued for the client as received. -/
def phaseUR (s : St) (t : Tick) : St × Bool :=
  if upLive s && t.uR then
    match Conn.recv t.uRecv with
    | .exc .sslWantRead => (s, false)
    | .exc _ => (s, true)
    | .none_ => (s, true)
    | .seg b =>
      ({ s with recvU := s.recvU ++ b, client := s.client.queue b,
                queuedC := s.queuedC ++ [b] }, false)
  else (s, false)

/-- the tail of `handle_events`:
    `if self.reads_teared and not self.work.has_buffer(): return True; return False` -/
def finish (s : St) : St × Ret :=
  (s, if s.readsTeared && !s.client.hasBuffer then .teardown else .cont)

/-- the read half of `handle_events` -/
def readHalf (s : St) (t : Tick) : St × Ret :=
  if s.readsTeared then finish s
  else
    match phaseCR s t with
    | (s1, .raised) => (s1, .raised)
    | (s1, .yes) => finish { s1 with readsTeared := true }
    | (s1, .no) =>
      match phaseUR s1 t with
      | (s2, r) => finish { s2 with readsTeared := r }

/-- `HttpProtocolHandler.handle_events(readables, writables)`: client flush
    (a failure or a completed final flush returns `True` at once), upstream flush
    (a failure sets `reads_teared`: handled like an upstream close, output already
    queued for the client is still delivered — the D15 fix), then, unless reads
    are torn down, client read and upstream read; `True` when reads are torn down
    and nothing is pending for the client. -/
def tick (s0 : St) (t : Tick) : St × Ret :=
  let s := { s0 with trC := none, trU := none }
  match phaseCW s t with
  | (s1, true) => ({ s1 with writesTeared := true }, .teardown)
  | (s1, false) =>
    match phaseUW { s1 with writesTeared := false } t with
    | (s2, w) => readHalf { s2 with writesTeared := w, readsTeared := s2.readsTeared || w } t

/-- the selector reports only what `get_events` registered -/
def mask (i : Interest) (t : Tick) : Tick :=
  { t with cR := t.cR && i.cR, cW := t.cW && i.cW, uR := t.uR && i.uR, uW := t.uW && i.uW }

/-- one executor round for this work: `get_events`, select, `handle_events` -/
def step (s : St) (t : Tick) : St × Ret := tick s (mask (events s) t)

/-- rounds until `handle_events` returns `True` or raises (then the executor
    calls `shutdown()`; later ticks do not happen) -/
def run (s : St) : List Tick → St × Ret
  | [] => (s, .cont)
  | t :: ts =>
    match step s t with
    | (s1, .cont) => run s1 ts
    | r => r

/-! ### initial states -/

def st0 (kind : Kind) (maxSend : Nat) (cbuf ubuf : List Bytes) (mustFlush readsTeared : Bool) : St :=
  { kind := kind, maxSend := maxSend, client := { buffer := cbuf }, upstream := { buffer := ubuf },
    mustFlush := mustFlush, readsTeared := readsTeared, writesTeared := false,
    recvU := [], recvC := [], sentC := [], sentU := [], queuedC := cbuf, trC := none, trU := none }

/-- the acknowledgement `on_request_complete` queues: `PROXY_TUNNEL_ESTABLISHED_RESPONSE_PKT` -/
def ack : Bytes := Gen.pkt_PROXY_TUNNEL_ESTABLISHED_RESPONSE_PKT

/-- state right after a CONNECT request completed: `client.queue(ack)` -/
def initTunnel (maxSend : Nat) : St := st0 .tunnel maxSend [ack] [] false false

/-- state right after a CONNECT request that shared its TCP segment with early
    tunnel payload `early` (e.g. a TLS ClientHello sent without waiting for the
    acknowledgement): the handler hands the parser's leftover to
    `plugin.on_client_data`, which queues it for the upstream as received
    (`PxModel/Persist.lean` models the hand-over; here it is the initial state).
    `early = []` is `initTunnel`. -/
def initTunnelEarly (maxSend : Nat) (early : Bytes) : St :=
  { st0 .tunnel maxSend [ack] (if early.isEmpty then [] else [early]) false false with recvC := early }

/-- state right after a plain HTTP request completed: the rebuilt request `req`
    is queued for the upstream, nothing for the client -/
def initHttp (maxSend : Nat) (req : Bytes) : St := st0 .http maxSend [] [req] false false

/-! ### threaded mode: `shutdown()` → `_flush()` -/

/-- one `selector.select()` of `_flush`: nothing ready (`len(ev) == 0: continue`)
    or ready, then the outcome of the `send` inside `work.flush` -/
inductive SelEv | timeout | ready (o : SendOut)
  deriving DecidableEq, Repr

/-- how `_flush` ended: buffer empty; `BrokenPipeError` (swallowed in `_flush`);
    another `OSError` (escapes `_flush`, swallowed by `shutdown`'s `except OSError`,
    which also skips `plugin.on_client_connection_close()`); `looping`: the given
    script ended while `_flush` was still waiting. -/
inductive FlushEnd | drained | brokenPipe | osError | looping
  deriving DecidableEq, Repr

/-- `_flush`: `while self.work.has_buffer(): ev = select(); if len(ev) == 0: continue;
    self.work.flush(max_sendbuf_size)`; `sent` accumulates the bytes accepted. -/
def flushLoop (maxSend : Nat) (c : Conn) (sent : Bytes) : List SelEv → Conn × Bytes × FlushEnd
  | [] => (c, sent, if c.hasBuffer then .looping else .drained)
  | e :: es =>
    if !c.hasBuffer then (c, sent, .drained)
    else match e with
      | .timeout => flushLoop maxSend c sent es
      | .ready o =>
        let r := c.flush maxSend o
        match r.exc with
        | some .brokenPipe => (r.conn, sent ++ r.wire, .brokenPipe)
        | some _ => (r.conn, sent ++ r.wire, .osError)
        | none => flushLoop maxSend r.conn (sent ++ r.wire) es

structure ShutRes where
  client : Conn
  sent : Bytes
  /-- `none`: `_flush` was not entered (threadless, or nothing pending) -/
  flushEnd : Option FlushEnd
  /-- `plugin.on_client_connection_close()` was reached -/
  pluginClosed : Bool
  deriving DecidableEq, Repr

/-- `HttpProtocolHandler.shutdown()`; `threaded` = `self.selector is not None`.
    The connection is closed in the `finally` whatever happened (not when the
    script leaves `_flush` looping: then `shutdown` has not returned yet). -/
def shutdown (threaded : Bool) (maxSend : Nat) (c : Conn) (script : List SelEv) : ShutRes :=
  if threaded && c.hasBuffer then
    match flushLoop maxSend c [] script with
    | (c1, sent, .looping) => ⟨c1, sent, some .looping, false⟩
    | (c1, sent, .osError) => ⟨{ c1 with closed := true }, sent, some .osError, false⟩
    | (c1, sent, e) => ⟨{ c1 with closed := true }, sent, some e, true⟩
  else ⟨{ c with closed := true }, [], none, true⟩

/-! ### the idle reaper as a further environment event -/

/-- `HttpProtocolHandler.is_inactive()`:
    `not self.work.has_buffer() and time.time() - self.last_activity > self.flags.timeout`.
    `elapsed` is `time.time() - last_activity` when the reaper looks (any value:
    how `last_activity` is refreshed is C20's model, `PxModel/Idle.lean`), both in
    clock units; `timeout` may be zero or negative (the flag is an unchecked int). -/
def isInactive (s : St) (elapsed timeout : Int) : Bool :=
  !s.client.hasBuffer && decide (elapsed > timeout)

/-- what can happen to the connection between two executor rounds: a round
    (`Tick`), or `Threadless._cleanup_inactive()` looking at it -/
inductive Ev
  | tick (t : Tick)
  | reap (elapsed timeout : Int)
  deriving DecidableEq, Repr

/-- how a run with reaper events ended: still open; `handle_events` returned
    `True`; an exception escaped; closed by the reaper (`_cleanup` → `shutdown()`,
    which in threadless mode sends nothing) -/
inductive End | open_ | teardown | raised | reaped
  deriving DecidableEq, Repr

def runEv (s : St) : List Ev → St × End
  | [] => (s, .open_)
  | .tick t :: es =>
    match step s t with
    | (s1, .cont) => runEv s1 es
    | (s1, .teardown) => (s1, .teardown)
    | (s1, .raised) => (s1, .raised)
  | .reap e to :: es => if isInactive s e to then (s, .reaped) else runEv s es

end Px.Relay
