import PxModel.Bytes
import PxModel.Generated
import PxModel.Auth
/-
  Model of the plugin chains of proxy/http/proxy/server.py (HttpProxyPlugin),
  of the exception → response path of proxy/http/handler.py
  (HttpProtocolHandler.handle_data / BaseTcpServerHandler.handle_readables),
  of proxy/http/exception/*.py, of the plugin load order of
  proxy/common/flag.py + proxy/common/plugins.py, and of the small part of
  proxy/http/parser/parser.py + proxy/common/utils.py these touch (header map,
  del_headers / add_header, build).

  Scope of the model (what the harness keeps fixed): TLS interception, the
  upstream connection pool, the event queue and the PROXY protocol are off;
  plugin hooks are total functions (they return, return None, or raise an
  `HttpProtocolException`); `resolve_dns` never sets a source address;
  descriptor hooks of plugins (get_descriptors / read_from_descriptors /
  write_to_descriptors) do nothing.
-/
namespace Px.Chain
open Px

/-! ### Python `dict` (insertion ordered, update in place) -/

def dSet {κ ν : Type} [BEq κ] : List (κ × ν) → κ → ν → List (κ × ν)
  | [], k, v => [(k, v)]
  | (k', v') :: rest, k, v => if k' == k then (k', v) :: rest else (k', v') :: dSet rest k v

def dGet? {κ ν : Type} [BEq κ] : List (κ × ν) → κ → Option ν
  | [], _ => none
  | (k', v') :: rest, k => if k' == k then some v' else dGet? rest k

def dDel {κ ν : Type} [BEq κ] (d : List (κ × ν)) (k : κ) : List (κ × ν) :=
  d.filter (fun e => !(e.1 == k))

def dHas {κ ν : Type} [BEq κ] (d : List (κ × ν)) (k : κ) : Bool := d.any (fun e => e.1 == k)

/-! ### the parser's header map: `lower(key) ↦ (key, value)` -/

abbrev HMap := List (Bytes × (Bytes × Bytes))

/-- `HttpParser.add_header` -/
def hAdd (h : HMap) (key value : Bytes) : HMap := dSet h (lower key) (key, value)

/-- `HttpParser._process_header` (key / value part): `raw.split(b':', 1)`, both
    parts stripped, a line without colon has the empty value -/
def processHeader (h : HMap) (line : Bytes) : HMap :=
  match splitOnce1 COLON line with
  | none => hAdd h (strip line) []
  | some (k, v) => hAdd h (strip k) (strip v)

/-- the header map after the header lines were processed in order -/
def parseHeaders (lines : List Bytes) : HMap := lines.foldl processHeader []

/-- value stored under a (lower-case) key, `request.headers[k][1]` -/
def hVal? (h : HMap) (k : Bytes) : Option Bytes := (dGet? h k).map (·.2)

structure Req where
  method : Bytes
  /-- `self.path` (`[]` = None / empty: `build` then uses `/`) -/
  path : Bytes
  version : Bytes
  /-- `self.host` (`[]` = None) -/
  host : Bytes
  /-- `self.port` (`0` = None / 0: both falsy) -/
  port : Nat
  /-- `is_https_tunnel` -/
  tunnel : Bool
  headers : HMap
  /-- what `_get_body_or_chunks()` returns (`[]` = None / empty: both falsy) -/
  body : Bytes
  deriving Repr

def Req.addHeader (r : Req) (key value : Bytes) : Req := { r with headers := hAdd r.headers key value }

/-- `del_header(h)`: `del self.headers[h.lower()]` when present -/
def Req.delHeader (r : Req) (h : Bytes) : Req := { r with headers := dDel r.headers (lower h) }

/-- `del_headers(hs)`: `for key in hs: self.del_header(key.lower())` -/
def Req.delHeaders (r : Req) (hs : List Bytes) : Req := hs.foldl (fun r h => r.delHeader (lower h)) r

def Req.hasHeader (r : Req) (key : Bytes) : Bool := dHas r.headers (lower key)

/-- `is_connection_upgrade` -/
def Req.isUpgrade (r : Req) : Bool :=
  r.version == Px.Gen.http11 && r.hasHeader (b "Connection") && r.hasHeader (b "Upgrade")

/-! ### `build_http_pkt`, `build_http_request`, `build_http_response` -/

def hdrLines : List (Bytes × Bytes) → Bytes
  | [] => []
  | (k, v) :: rest => k ++ Px.Gen.colon ++ Px.Gen.whitespace ++ v ++ Px.Gen.crlf ++ hdrLines rest

def buildPkt (line : List Bytes) (hdrs : List (Bytes × Bytes)) (body : Bytes) (connClose : Bool) : Bytes :=
  let hdrs := if connClose then dSet hdrs (b "Connection") (b "close") else hdrs
  join Px.Gen.whitespace line ++ Px.Gen.crlf ++ hdrLines hdrs ++ Px.Gen.crlf ++ body

def hasTE (hdrs : List (Bytes × Bytes)) : Bool := hdrs.any (fun e => lower e.1 == b "transfer-encoding")

/-- `build_http_request(method, url, version, headers=…, body=…, no_ua=True)` -/
def buildRequest (method url version : Bytes) (hdrs : List (Bytes × Bytes)) (body : Bytes) : Bytes :=
  let hdrs := if !body.isEmpty && !hasTE hdrs then dSet hdrs (b "Content-Length") (natToDec body.length) else hdrs
  buildPkt [method, url, version] hdrs body false

/-- `build_http_response(status, reason=…, headers=…, body=…, conn_close=True)` -/
def buildResponse (status : Nat) (reason : Bytes) (hdrs : List (Bytes × Bytes)) (body : Bytes) : Bytes :=
  let line := [Px.Gen.http11, natToDec status] ++ (if reason.isEmpty then [] else [reason])
  let hdrs := if !hasTE hdrs then
      dSet hdrs (b "Content-Length") (if body.isEmpty then b "0" else natToDec body.length) else hdrs
  buildPkt line hdrs body true

/-- the dict comprehension of `HttpParser.build`: original key ↦ value for the
    keys not in `disable_headers` -/
def Req.buildHeaders (r : Req) (disable : List Bytes) : List (Bytes × Bytes) :=
  r.headers.foldl (fun acc e => if disable.contains (lower e.1) then acc else dSet acc e.2.1 e.2.2) []

/-- `HttpParser.build(disable_headers=…)` of a request -/
def Req.build (r : Req) (disable : List Bytes) : Bytes :=
  buildRequest r.method (if r.path.isEmpty then b "/" else r.path) r.version (r.buildHeaders disable) r.body

/-! ### exceptions and their responses (proxy/http/exception/*.py) -/

inductive Exc
  /-- `ProxyAuthenticationFailed` -/
  | authFailed
  /-- `ProxyConnectionFailed` -/
  | connFailed
  /-- `HttpRequestRejected(status_code, reason, headers, body)`; `0` / `[]` stand for None -/
  | rejected (status : Nat) (reason : Bytes) (hdrs : List (Bytes × Bytes)) (body : Bytes)
  /-- a plain `HttpProtocolException` (its `response()` is None) -/
  | protocol
  deriving Repr

/-- `e.response(request)` -/
def Exc.response : Exc → Option Bytes
  | .authFailed => some Px.Gen.pkt_PROXY_AUTH_FAILED_RESPONSE_PKT
  | .connFailed => some Px.Gen.pkt_BAD_GATEWAY_RESPONSE_PKT
  | .rejected status reason hdrs body => if status == 0 then none else some (buildResponse status reason hdrs body)
  | .protocol => none

/-! ### plugins -/

/-- what a hook invocation does: return a value, return None, raise -/
inductive Res (α : Type)
  | pass (x : α)
  | drop
  | reject (e : Exc)

def optRes {α : Type} : Option α → Res α
  | some x => .pass x
  | none => .drop

/-- the access-log context as far as plugins change it (tags added, in order) -/
abbrev Ctx := List Nat

/-- one configured `HttpProxyBasePlugin` class: a total function per hook -/
structure Plugin where
  before : Req → Res Req
  clientReq : Req → Res Req
  clientData : Bytes → Res Bytes
  upChunk : Bytes → Option Bytes
  accessLog : Ctx → Option Ctx
  /-- `resolve_dns(host, port)[0]`, `[]` = None / '' -/
  resolveDns : Bytes → Nat → Bytes

/-- the defaults of `HttpProxyBasePlugin` -/
def Plugin.base : Plugin :=
  { before := .pass, clientReq := .pass, clientData := .pass, upChunk := some, accessLog := some,
    resolveDns := fun _ _ => [] }

inductive Hook | before | clientReq | clientData | upChunk | accessLog | upClose | resolveDns
  deriving DecidableEq, Repr

inductive Arg
  | req (r : Req)
  | raw (x : Bytes)
  | ctx (c : Ctx)
  | unit

/-- observable effects, in the order they happen -/
inductive Eff
  /-- hook `h` of the plugin at position `i` of the configured list is invoked with `a` -/
  | call (i : Nat) (h : Hook) (a : Arg)
  /-- `new_socket_connection((host, port))` -/
  | connect (host : Bytes) (port : Nat)
  /-- `self.upstream.queue(x)` -/
  | upQ (x : Bytes)
  /-- `self.client.queue(x)` / `self.work.queue(x)` -/
  | clQ (x : Bytes)
  /-- one queued item completely written to the client socket -/
  | clSent (x : Bytes)
  /-- `handle_events` returned True -/
  | teardown
  /-- `HttpProxyPlugin.access_log(context)` (no plugin claimed the log line) -/
  | defaultLog (c : Ctx)

abbrev Log := List Eff

/-- how a chain ended: every plugin returned a value / one returned None (the
    value it was handed is kept) / one raised -/
inductive CR (α : Type)
  | done (x : α)
  | dropped (x : α)
  | raised (e : Exc)

/-- The loop shape shared by every hook chain of server.py:

        for plugin in self.plugins.values():
            r = plugin.hook(x)
            if r is None: …break / return…
            x = r
-/
def chain {α : Type} (h : Hook) (f : Plugin → α → Res α) (w : α → Arg) :
    Nat → List Plugin → α → Log × CR α
  | _, [], x => ([], .done x)
  | i, p :: ps, x =>
    match f p x with
    | .pass y => (Eff.call i h (w x) :: (chain h f w (i + 1) ps y).1, (chain h f w (i + 1) ps y).2)
    | .drop => ([Eff.call i h (w x)], .dropped x)
    | .reject e => ([Eff.call i h (w x)], .raised e)

/-- the `resolve_dns` loop of `connect_upstream`: stops at the first truthy address -/
def resolveChain : Nat → List Plugin → Bytes → Nat → Log × Bytes
  | _, [], _, _ => ([], [])
  | i, p :: ps, host, port =>
    let ip := p.resolveDns host port
    if !ip.isEmpty then ([Eff.call i .resolveDns (.raw host)], ip)
    else (Eff.call i .resolveDns (.raw host) :: (resolveChain (i + 1) ps host port).1,
          (resolveChain (i + 1) ps host port).2)

/-- IPv6 literals are connected without their brackets -/
def connectHost (h : Bytes) : Bytes :=
  if h.head? == some 91 && h.getLast? == some 93 then (h.drop 1).dropLast else h

/-- `connect_upstream()`; `ok` = whether `new_socket_connection` succeeds -/
def connectUpstream (ps : List Plugin) (r : Req) (ok : Bool) : Log × Except Exc Unit :=
  if r.host.isEmpty || r.port == 0 then ([], .error .protocol)
  else
    let rc := resolveChain 0 ps r.host r.port
    let tgt := if rc.2.isEmpty then connectHost r.host else rc.2
    (rc.1 ++ [Eff.connect tgt r.port], if ok then .ok () else .error .connFailed)

structure Cfg where
  /-- `flags.auth_code` -/
  authCode : Option Bytes
  /-- `flags.disable_headers` (lower-cased by flag.py) -/
  disableHeaders : List Bytes

/-- the `Via` value added to the first request -/
def viaValue : Bytes := b "1.1 " ++ Px.Gen.proxyAgentHeaderValue

def STRIP : List Bytes := [Auth.PROXY_AUTHORIZATION, Auth.PROXY_CONNECTION]

/-- the `Via` value of the forwarded first request: appended to a `Via` the client sent -/
def viaFor (r : Req) : Bytes :=
  match hVal? r.headers (lower (b "via")) with
  | some v => v ++ b ", " ++ viaValue
  | none => viaValue

/-- header treatment of the first request before `build` -/
def fwdFirst (r : Req) : Req := (r.delHeaders STRIP).addHeader (b "Via") (viaFor (r.delHeaders STRIP))

/-- header treatment of follow-up requests before `build` (no `Via`) -/
def fwdLater (r : Req) : Req := r.delHeaders STRIP

/-- result of `on_request_complete` that later steps depend on: whether
    `self.upstream` got set, and the request as it stands (or the exception raised) -/
structure ORes where
  upstream : Bool
  out : Except Exc Req

/-- `on_request_complete` from the `handle_client_request` loop on; `up` =
    `self.upstream` is set -/
def afterConnect (cfg : Cfg) (ps : List Plugin) (up : Bool) (x : Req) : Log × ORes :=
  let c := chain .clientReq Plugin.clientReq Arg.req 0 ps x
  match c.2 with
  | .raised e => (c.1, ⟨up, .error e⟩)
  | .dropped y => (c.1, ⟨up, .ok y⟩)
  | .done y =>
    if up then
      if y.tunnel then (c.1 ++ [Eff.clQ Px.Gen.pkt_PROXY_TUNNEL_ESTABLISHED_RESPONSE_PKT], ⟨up, .ok y⟩)
      else (c.1 ++ [Eff.upQ ((fwdFirst y).build cfg.disableHeaders)], ⟨up, .ok (fwdFirst y)⟩)
    else (c.1, ⟨up, .ok y⟩)

/-- `on_request_complete` after the `before_upstream_connection` loop -/
def afterBefore (cfg : Cfg) (ps : List Plugin) (ok : Bool) (doConnect : Bool) (x : Req) : Log × ORes :=
  if doConnect then
    let c := connectUpstream ps x ok
    match c.2 with
    | .error e => (c.1, ⟨false, .error e⟩)
    | .ok () =>
      let a := afterConnect cfg ps true x
      (c.1 ++ a.1, a.2)
  else afterConnect cfg ps false x

/-- `HttpProxyPlugin.on_request_complete()` -/
def onRequestComplete (cfg : Cfg) (ps : List Plugin) (ok : Bool) (r : Req) : Log × ORes :=
  let c := chain .before Plugin.before Arg.req 0 ps r
  match c.2 with
  | .raised e => (c.1, ⟨false, .error e⟩)
  | .dropped x =>
    let a := afterBefore cfg ps ok false x
    (c.1 ++ a.1, a.2)
  | .done x =>
    let a := afterBefore cfg ps ok true x
    (c.1 ++ a.1, a.2)

/-- `AuthPlugin` as one particular plugin -/
def authPlugin (cfg : Cfg) : Plugin :=
  { Plugin.base with
    before := fun r =>
      if Auth.check cfg.authCode (hVal? r.headers Auth.PROXY_AUTHORIZATION) then .pass r
      else .reject .authFailed }

/-! ### the connection (handler level) -/

structure St where
  /-- `handler.plugin` is set (the first request was dispatched to HttpProxyPlugin) -/
  dispatched : Bool := false
  /-- `plugin.request.is_https_tunnel` -/
  tunnel : Bool := false
  /-- `plugin.upstream` is set -/
  upstream : Bool := false
  /-- a forwarded follow-up request was a connection upgrade (`pipeline_request` is kept, complete) -/
  upgraded : Bool := false
  /-- items queued for the client and not yet written -/
  clBuf : List Bytes := []
  /-- `must_flush_before_shutdown` -/
  closing : Bool := false
  /-- reads are torn down / `handle_events` returned True -/
  down : Bool := false

def clItems : Log → List Bytes
  | [] => []
  | .clQ x :: l => x :: clItems l
  | _ :: l => clItems l

/-- `handle_data` returned True (`BaseTcpServerHandler.handle_readables`) -/
def tearReq (st : St) (l : Log) : St × Log :=
  if st.clBuf.isEmpty then ({ st with down := true }, l ++ [.teardown])
  else ({ st with closing := true }, l)

/-- the `except HttpProtocolException` arm of `handle_data` -/
def raise (st : St) (l : Log) (e : Exc) : St × Log :=
  match e.response with
  | some x => tearReq { st with clBuf := st.clBuf ++ clItems l ++ [x] } (l ++ [.clQ x])
  | none => tearReq { st with clBuf := st.clBuf ++ clItems l } l

/-- a complete follow-up request `r` reaches the `handle_client_request` loop of `on_client_data` -/
def follow (cfg : Cfg) (ps : List Plugin) (st : St) (r : Req) : St × Log :=
  let c := chain .clientReq Plugin.clientReq Arg.req 0 ps r
  match c.2 with
  | .raised e => raise st c.1 e
  | .dropped _ => (st, c.1)
  | .done y =>
    ({ st with upgraded := (fwdLater y).isUpgrade }, c.1 ++ [.upQ ((fwdLater y).build cfg.disableHeaders)])

/-- the first request reaches `HttpProxyPlugin` (`_parse_first_request` → `on_request_complete`) -/
def firstStep (cfg : Cfg) (ps : List Plugin) (st : St) (r : Req) (ok : Bool) : St × Log :=
  let o := onRequestComplete cfg ps ok r
  match o.2.out with
  | .error e => raise { st with dispatched := true, upstream := o.2.upstream } o.1 e
  | .ok r' =>
    ({ st with dispatched := true, tunnel := r'.tunnel, upstream := o.2.upstream,
               clBuf := st.clBuf ++ clItems o.1 }, o.1)

/-- `on_client_data` while there is no upstream: the `handle_client_data` loop -/
def noUpstreamData (ps : List Plugin) (st : St) (raw : Bytes) : St × Log :=
  let c := chain .clientData Plugin.clientData Arg.raw 0 ps raw
  match c.2 with
  | .raised e => raise st c.1 e
  | _ => (st, c.1)

/-- `read_from_descriptors`: the `handle_upstream_chunk` loop, then `client.queue` -/
def upstreamData (ps : List Plugin) (st : St) (raw : Bytes) : St × Log :=
  let c := chain .upChunk (fun p x => optRes (p.upChunk x)) Arg.raw 0 ps raw
  match c.2 with
  | .done y => ({ st with clBuf := st.clBuf ++ [y] }, c.1 ++ [.clQ y])
  | _ => (st, c.1)

/-- `_handle_pipeline_data` looped by `on_client_data` over one read: `raw` are the
    bytes still to handle, `more` lists, for every request that completes in
    them, the request and the bytes that follow it (`[]` = `raw` does not complete
    a request: it stays in the pipeline parser).  Every complete request runs
    through the `handle_client_request` chain and is forwarded in turn; an
    exception ends the loop; after a forwarded upgrade request the rest of the read
    is passed on raw. -/
def pipeline (cfg : Cfg) (ps : List Plugin) : St → Bytes → List (Req × Bytes) → St × Log
  | st, raw, [] => if st.upgraded then (st, [.upQ raw]) else (st, [])
  | st, raw, (r, rest) :: more =>
    if st.upgraded then (st, [.upQ raw])
    else if rest.isEmpty || (follow cfg ps st r).1.closing || (follow cfg ps st r).1.down then follow cfg ps st r
    else ((pipeline cfg ps (follow cfg ps st r).1 rest more).1,
          (follow cfg ps st r).2 ++ (pipeline cfg ps (follow cfg ps st r).1 rest more).2)

/-- `HttpProxyPlugin.on_client_data(raw)` -/
def clientData (cfg : Cfg) (ps : List Plugin) (st : St) (raw : Bytes) (more : List (Req × Bytes)) : St × Log :=
  if !st.upstream then noUpstreamData ps st raw
  else if st.tunnel then (st, [.upQ raw])
  else pipeline cfg ps st raw more

/-- reads torn down with the client still able to receive: what is pending is
    written out, then `handle_events` returns True -/
def drain (st : St) : St × Log :=
  ({ st with clBuf := [], down := true }, st.clBuf.map .clSent ++ [.teardown])

inductive Ev
  /-- the first request is complete, was recognised as a proxy request and is handed
      to `HttpProxyPlugin.on_request_complete`; `ok` = the upstream connect succeeds;
      `rest` = bytes of the same read after the end of the request (handed to
      `on_client_data` when `on_request_complete` returned False), `more` = the
      requests completing in `rest`, as for `cdata` -/
  | first (r : Req) (ok : Bool) (rest : Bytes) (more : List (Req × Bytes))
  /-- the first request is complete but is answered 400 before any plugin exists -/
  | first400
  /-- client bytes `raw` after the first request; `more` = for every request the
      pipeline parser completes within these bytes: the request and the bytes after it -/
  | cdata (raw : Bytes) (more : List (Req × Bytes))
  | udata (raw : Bytes)
  | ueof
  /-- the client half-closes (it still reads) -/
  | ceof
  /-- the client is gone -/
  | cabort
  /-- the client socket is writable: one queued item is written -/
  | flush

def step (cfg : Cfg) (ps : List Plugin) (st : St) : Ev → St × Log
  | .first r ok rest more =>
    if st.down || st.closing || st.dispatched then (st, [])
    else if rest.isEmpty || (firstStep cfg ps st r ok).1.closing || (firstStep cfg ps st r ok).1.down then
      firstStep cfg ps st r ok
    else ((clientData cfg ps (firstStep cfg ps st r ok).1 rest more).1,
          (firstStep cfg ps st r ok).2 ++ (clientData cfg ps (firstStep cfg ps st r ok).1 rest more).2)
  | .first400 =>
    if st.down || st.closing || st.dispatched then (st, [])
    else tearReq { st with clBuf := st.clBuf ++ [Px.Gen.pkt_BAD_REQUEST_RESPONSE_PKT] }
           [.clQ Px.Gen.pkt_BAD_REQUEST_RESPONSE_PKT]
  | .cdata raw more =>
    if st.down || st.closing || !st.dispatched then (st, [])
    else clientData cfg ps st raw more
  | .udata raw =>
    if st.down || !st.upstream then (st, [])
    else upstreamData ps st raw
  | .ueof => if st.down || !st.upstream then (st, []) else drain st
  | .ceof => if st.down || st.closing then (st, []) else drain st
  | .cabort => if st.down then (st, []) else ({ st with clBuf := [], down := true }, [.teardown])
  | .flush =>
    if st.down then (st, [])
    else match st.clBuf with
      | [] => (st, [])
      | x :: rest =>
        if st.closing && rest.isEmpty then ({ st with clBuf := rest, down := true }, [.clSent x, .teardown])
        else ({ st with clBuf := rest }, [.clSent x])

/-- all events of a connection, in order -/
def run (cfg : Cfg) (ps : List Plugin) : St → List Ev → St × Log
  | st, [] => (st, [])
  | st, e :: es =>
    ((run cfg ps (step cfg ps st e).1 es).1, (step cfg ps st e).2 ++ (run cfg ps (step cfg ps st e).1 es).2)

def upCloseAll : Nat → List Plugin → Log
  | _, [] => []
  | i, _ :: ps => Eff.call i .upClose .unit :: upCloseAll (i + 1) ps

/-- `HttpProtocolHandler.shutdown()` → `plugin.on_client_connection_close()` -/
def shutdownLog (ps : List Plugin) (st : St) : Log :=
  if st.dispatched then
    let c := chain .accessLog (fun p x => optRes (p.accessLog x)) Arg.ctx 0 ps []
    match c.2 with
    | .done x => c.1 ++ [.defaultLog x] ++ upCloseAll 0 ps
    | _ => c.1 ++ upCloseAll 0 ps
  else []

/-- a whole connection: its events, then `n` calls of `shutdown()` (the
    executor's contract, C10, is `n = 1`) -/
def conn (cfg : Cfg) (ps : List Plugin) (evs : List Ev) (n : Nat) : Log :=
  (run cfg ps {} evs).2 ++ (List.replicate n (shutdownLog ps (run cfg ps {} evs).1)).flatten

/-! ### plugin load order (flag.py + plugins.py) -/

/-- `Plugins.load` for one bucket: classes of that bucket in list order, a class
    already present is not appended again -/
def loadBucket (bucket : Bytes) : List (Bytes × Bytes) → List Bytes → List Bytes
  | [], acc => acc
  | (name, bk) :: rest, acc =>
    if bk == bucket && !acc.contains name then loadBucket bucket rest (acc ++ [name])
    else loadBucket bucket rest acc

def HPB : Bytes := b "HttpProxyBasePlugin"

end Px.Chain
