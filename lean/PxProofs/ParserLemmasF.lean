import PxProofs.ParserLemmasE
/-!
# Lemmas about the HTTP parser model for C03, part F: exact completion

Start line (`StartLine`, `go_line`), header block (`hdrFold`,
`processHeaders_block`, clean fields `FieldOk`), the grammar `Msg` of
self-delimiting messages, `go_msg` (complete with exactly the tail left),
`no_prefix_complete` ("never earlier"), header-less status lines.
-/
namespace Px.Parser
open Px.Chunk (ChunkedStream)

/-! ### start line -/

theorem go_line (cfg : Cfg) {P Q1 : Parser} {line rest : Bytes} (hi : Inv P) (hst : P.state = .initialized)
    (hl : splitCRLF line = none) (hls : lineStep cfg P line = .ok Q1) (hr : rest ≠ []) :
    go cfg P (line ++ CRLF ++ rest) = go cfg Q1 rest := by
  have hnc : P.state ≠ .complete := by simp [hst]
  obtain ⟨hs1, hf1⟩ := lineStep_spec hls
  have hi1 := invCore_lineRcvd hi.1 hst hs1 hf1
  rw [go_unfold cfg _ hi hnc, stepOnce_eq, core_line _ hst, processLine_eq, splitCRLF_render hl rest]
  have : rest.isEmpty = false := by simp [hr]
  simp only [hls, Except.map, this, Bool.not_false]
  exact next_post_lineRcvd cfg hs1 hi1 rest

/-- request line `method SP target SP version` / status line `version SP code SP reason` -/
def StartLine (cfg : Cfg) (ty : PType) (line : Bytes) : Prop :=
  splitCRLF line = none ∧ ∃ x y z, line = x ++ SP :: (y ++ SP :: z) ∧ SP ∉ x ∧ SP ∉ y ∧
    (ty = .request → x ≠ [] ∧ ∃ u, Px.Url.fromBytes cfg.allowedSchemes y = .ok u)

theorem lineStep_startLine {cfg : Cfg} {ty : PType} {line : Bytes} (h : StartLine cfg ty line) (p : Parser)
    (hty : p.ty = ty) : ∃ Q1, lineStep cfg p line = .ok Q1 := by
  obtain ⟨_, x, y, z, rfl, hx, hy, hu⟩ := h
  unfold lineStep
  rw [hty]
  cases ty with
  | request =>
    obtain ⟨hxne, u, hu⟩ := hu rfl
    have hxe : x.isEmpty = false := by cases x with
      | nil => exact absurd rfl hxne
      | cons _ _ => rfl
    simp only [splitN1_three SP x y z hx hy, hxe, Bool.false_eq_true, if_false, hu]
    exact ⟨_, rfl⟩
  | response =>
    simp only [splitN1_three SP x y z hx hy]
    exact ⟨_, rfl⟩

/-! ### header block -/

def renderLines (ls : List Bytes) : Bytes := (ls.map (· ++ CRLF)).flatten

/-- `_process_header` applied to the lines in order -/
def hdrFold (p : Parser) : List Bytes → Except Err Parser
  | [] => .ok p
  | l :: ls => match processHeader { p with state := .rcvingHeaders } l with
    | .error e => .error e
    | .ok p' => hdrFold p' ls

def LineOk (l : Bytes) : Prop := splitCRLF l = none ∧ (strip l).isEmpty = false

theorem hdrStep_blank {p : Parser} (hs : p.state = .lineRcvd ∨ p.state = .rcvingHeaders) :
    hdrStep p [] = .ok { p with state := .headersComplete } := by
  unfold hdrStep
  rcases hs with h | h <;> simp [h, strip, rstrip, lstrip]

theorem hdrStep_line {p : Parser} {l : Bytes} (hs : p.state = .lineRcvd ∨ p.state = .rcvingHeaders)
    (hl : (strip l).isEmpty = false) : hdrStep p l = processHeader { p with state := .rcvingHeaders } l := by
  unfold hdrStep
  rcases hs with h | h <;> simp [h, hl]

theorem processHeaders_block (f : Nat) {p p' : Parser} (ls : List Bytes) (rest : Bytes)
    (hs : p.state = .lineRcvd ∨ p.state = .rcvingHeaders) (hok : ∀ l ∈ ls, LineOk l)
    (hf : hdrFold p ls = .ok p') (hfuel : (renderLines ls ++ CRLF ++ rest).length < f) :
    processHeaders f p (renderLines ls ++ CRLF ++ rest) =
      .ok ({ p' with state := .headersComplete }, !rest.isEmpty, rest) := by
  induction ls generalizing p f with
  | nil =>
    cases f with
    | zero => omega
    | succ f =>
      simp only [hdrFold, Except.ok.injEq] at hf; subst hf
      have hsp : splitCRLF (renderLines [] ++ CRLF ++ rest) = some ([], rest) :=
        splitCRLF_render (l := []) rfl rest
      rw [processHeaders_succ, hsp]
      simp only [hdrStep_blank hs, beq_self_eq_true, Bool.or_true, if_true]
  | cons l ls ih =>
    cases f with
    | zero => omega
    | succ f =>
      obtain ⟨hl1, hl2⟩ := hok l (by simp)
      have hr : renderLines (l :: ls) ++ CRLF ++ rest = l ++ CRLF ++ (renderLines ls ++ CRLF ++ rest) := by
        simp [renderLines]
      rw [hr] at hfuel ⊢
      rw [processHeaders_succ, splitCRLF_render hl1]
      simp only [hdrFold] at hf
      cases hp : processHeader { p with state := .rcvingHeaders } l with
      | error e => simp [hp] at hf
      | ok p1 =>
        simp only [hp] at hf
        have hs1 : p1.state = .rcvingHeaders := (processHeader_spec hp).1
        have hne : (renderLines ls ++ CRLF ++ rest).isEmpty = false := by simp [CRLF]
        have hnh : (p1.state == .headersComplete) = false := by simp [hs1]
        simp only [hdrStep_line hs hl2, hp, hne, hnh, Bool.or_self, Bool.false_eq_true, if_false]
        apply ih f (.inr hs1) (fun l' hl' => hok l' (List.mem_cons_of_mem _ hl')) hf
        have hc2 : CRLF.length = 2 := rfl
        simp only [List.length_append, hc2] at hfuel ⊢
        omega

theorem hdrFold_append (p : Parser) (l1 l2 : List Bytes) :
    hdrFold p (l1 ++ l2) = (hdrFold p l1).bind (fun p' => hdrFold p' l2) := by
  induction l1 generalizing p with
  | nil => rfl
  | cons l ls ih =>
    simp only [List.cons_append, hdrFold]
    cases processHeader { p with state := .rcvingHeaders } l with
    | error e => rfl
    | ok p1 => exact ih p1

/-- the whole header block in one loop round -/
theorem go_head (cfg : Cfg) {Q1 p' : Parser} (ls : List Bytes) (rest : Bytes) (hi : Inv Q1)
    (hs : Q1.state = .lineRcvd ∨ Q1.state = .rcvingHeaders) (hok : ∀ l ∈ ls, LineOk l)
    (hf : hdrFold Q1 ls = .ok p') :
    go cfg Q1 (renderLines ls ++ CRLF ++ rest) =
      next cfg (post ({ p' with state := .headersComplete }, !rest.isEmpty, rest)) ∧
    stepOnce cfg Q1 (renderLines ls ++ CRLF ++ rest) =
      .ok (post ({ p' with state := .headersComplete }, !rest.isEmpty, rest)) := by
  have hnc : Q1.state ≠ .complete := by rcases hs with h | h <;> simp [h]
  have hst : stepOnce cfg Q1 (renderLines ls ++ CRLF ++ rest) =
      .ok (post ({ p' with state := .headersComplete }, !rest.isEmpty, rest)) := by
    rw [stepOnce_eq, core_hdr _ hs, processHeaders_block _ ls rest hs hok hf (by omega)]
    rfl
  refine ⟨?_, hst⟩
  rw [go_unfold cfg _ hi hnc, hst]

/-! ### clean header fields -/

/-- `name: value` -/
def hdrLine (k v : Bytes) : Bytes := k ++ COLON :: SP :: v

/-- a clean header field: non-empty name without colon, no surrounding whitespace in name and value,
    no CR / LF anywhere -/
structure FieldOk (k v : Bytes) : Prop where
  kne : k ≠ []
  kstrip : strip k = k
  vstrip : strip v = v
  nocolon : COLON ∉ k
  nocrlf : ∀ c ∈ k ++ v, c ≠ CR ∧ c ≠ LF

theorem lineOk_hdrLine {k v : Bytes} (h : FieldOk k v) : LineOk (hdrLine k v) := by
  constructor
  · apply splitCRLF_none_of_noLF
    intro c hc
    simp only [hdrLine, List.mem_append, List.mem_cons] at hc
    rcases hc with hc | rfl | rfl | hc
    · exact (h.nocrlf c (by simp [hc])).2
    · decide
    · decide
    · exact (h.nocrlf c (by simp [hc])).2
  · cases hb : (strip (hdrLine k v)).isEmpty with
    | false => rfl
    | true =>
      exfalso
      have hall := (strip_isEmpty_iff _).1 hb
      have hk : strip k = [] := (strip_eq_nil_iff k).2 (fun c hc => hall c (by simp [hdrLine, hc]))
      rw [h.kstrip] at hk
      exact h.kne hk

/-- `_process_header` on a clean field: key and value are exactly the name and the value -/
theorem processHeader_field {k v : Bytes} (h : FieldOk k v) (p : Parser) :
    processHeader p (hdrLine k v) =
      (if lower k == b "content-length" then
        match pyInt 10 v with
        | none => .error .valueError
        | some n => .ok { addHeader p k v with contentExpected := decide (n > 0) }
      else if lower k == b "transfer-encoding" && lower v == b "chunked" then
        .ok { addHeader p k v with isChunked := true }
      else .ok (addHeader p k v)) := by
  unfold processHeader
  have hsp : splitOnce1 COLON (hdrLine k v) = some (k, SP :: v) := splitOnce1_render COLON k _ h.nocolon
  have hv : strip (SP :: v) = v := by rw [strip_cons_ws v (by decide), h.vstrip]
  simp only [hsp, h.kstrip, hv]
  rfl

theorem K_CL : lower (b "Content-Length") = b "content-length" := by decide +kernel
theorem K_TE : lower (b "Transfer-Encoding") = b "transfer-encoding" := by decide +kernel
theorem K_TE_ne : (b "transfer-encoding" == b "content-length") = false := by decide +kernel
theorem K_CHK : lower (b "chunked") = b "chunked" := by decide +kernel
theorem fieldOk_TE : FieldOk (b "Transfer-Encoding") (b "chunked") := by
  refine ⟨by decide +kernel, by decide +kernel, by decide +kernel, by decide +kernel, by decide +kernel⟩

theorem hasHeader_addHeader_ne (p : Parser) (key value k' : Bytes) (h : lower key ≠ lower k') :
    hasHeader (addHeader p key value) k' = hasHeader p k' := by
  unfold hasHeader addHeader
  simp only [any_iff_hdrGet, hdrGet_hdrSet_ne _ _ _ _ (Ne.symm h)]
  cases p.headers with
  | none => simp [hdrGet]
  | some hs => simp

theorem hasHeader_addHeader_same (p : Parser) (key value k' : Bytes) (h : lower key = lower k') :
    hasHeader (addHeader p key value) k' = true := by
  unfold hasHeader addHeader
  simp only [any_iff_hdrGet, ← h, hdrGet_hdrSet_same, Option.isSome_some]

/-- fields other than the two framing headers leave the framing alone -/
theorem hdrFold_fields (p : Parser) (fields : List (Bytes × Bytes))
    (hok : ∀ kv ∈ fields, FieldOk kv.1 kv.2 ∧ lower kv.1 ≠ b "content-length" ∧
      lower kv.1 ≠ b "transfer-encoding") :
    ∃ p1, hdrFold p (fields.map (fun kv => hdrLine kv.1 kv.2)) = .ok p1 ∧ p1.ty = p.ty ∧
      p1.chunk = p.chunk ∧ p1.body = p.body ∧ p1.isChunked = p.isChunked ∧
      p1.contentExpected = p.contentExpected ∧
      hasHeader p1 (b "content-length") = hasHeader p (b "content-length") := by
  induction fields generalizing p with
  | nil => exact ⟨p, rfl, rfl, rfl, rfl, rfl, rfl, rfl⟩
  | cons kv rest ih =>
    obtain ⟨hf, h1, h2⟩ := hok kv (by simp)
    have hk1 : (lower kv.1 == b "content-length") = false := by simp [h1]
    have hk2 : (lower kv.1 == b "transfer-encoding") = false := by simp [h2]
    have hstep : processHeader { p with state := .rcvingHeaders } (hdrLine kv.1 kv.2) =
        .ok (addHeader { p with state := .rcvingHeaders } kv.1 kv.2) := by
      rw [processHeader_field hf]; simp [hk1, hk2]
    obtain ⟨p1, e0, e1, e2, e3, e4, e5, e6⟩ := ih (addHeader { p with state := .rcvingHeaders } kv.1 kv.2)
      (fun kv' h' => hok kv' (List.mem_cons_of_mem _ h'))
    refine ⟨p1, ?_, e1, e2, e3, e4, e5, ?_⟩
    · simp only [List.map_cons, hdrFold, hstep]; exact e0
    · rw [e6, hasHeader_addHeader_ne _ _ _ _ (by rw [CLK]; exact h1)]; rfl

/-! ### grammar of self-delimiting messages -/

inductive Body
  | none
  | cl (txt : Bytes) (body : Bytes)
  | chunked (s : ChunkedStream)

/-- start line, extra header fields, framing -/
structure Msg where
  ty : PType
  line : Bytes
  fields : List (Bytes × Bytes)
  body : Body

def Body.lines : Body → List Bytes
  | .none => []
  | .cl txt _ => [hdrLine (b "Content-Length") txt]
  | .chunked _ => [hdrLine (b "Transfer-Encoding") (b "chunked")]

def Body.bytes : Body → Bytes
  | .none => []
  | .cl _ body => body
  | .chunked s => s.render

/-- what `HttpParser.body` holds after the message -/
def Body.decoded : Body → Option Bytes
  | .none => Option.none
  | .cl _ body => if body = [] then Option.none else some body
  | .chunked s => some s.decoded

def Msg.lines (m : Msg) : List Bytes := m.fields.map (fun kv => hdrLine kv.1 kv.2) ++ m.body.lines

def Msg.render (m : Msg) : Bytes :=
  m.line ++ CRLF ++ (renderLines m.lines ++ CRLF ++ m.body.bytes)

/-- well-formed self-delimiting message: a start line the parser accepts, clean extra fields
    that are not framing headers, and one of: no body (requests only), `Content-Length: txt`
    with `int(txt) = len(body)` and the body, `Transfer-Encoding: chunked` and a valid
    chunked stream -/
def Msg.Valid (cfg : Cfg) (m : Msg) : Prop :=
  StartLine cfg m.ty m.line ∧
  (∀ kv ∈ m.fields, FieldOk kv.1 kv.2 ∧ lower kv.1 ≠ b "content-length" ∧
    lower kv.1 ≠ b "transfer-encoding") ∧
  (match m.body with
   | .none => m.ty = .request
   | .cl txt body => FieldOk (b "Content-Length") txt ∧ pyInt 10 txt = some (Int.ofNat body.length)
   | .chunked s => s.Valid)

theorem renderLines_nonempty_tail (ls : List Bytes) (x : Bytes) : renderLines ls ++ CRLF ++ x ≠ [] := by
  simp [CRLF]

theorem post_complete {q : Parser} (m : Bool) (r : Bytes) (hs : q.state = .headersComplete)
    (hce : q.contentExpected = false) (hch : q.isChunked = false)
    (h : r.isEmpty = true ∨ q.ty = .request ∨ hasHeader q (b "content-length") = true) :
    post (q, m, r) = ({ q with state := .complete }, m, r) := by
  unfold post
  rcases h with h | h | h <;> simp [hs, hce, hch, h]

/-- the loop on a well-formed message followed by `t` stops complete, with exactly `t` left -/
theorem go_msg (cfg : Cfg) (m : Msg) (hv : m.Valid cfg) (t : Bytes) :
    ∃ Q, go cfg (init m.ty) (m.render ++ t) = .ok (Q, t) ∧ Q.state = .complete ∧
      Q.body = m.body.decoded := by
  obtain ⟨ty, line, fields, body⟩ := m
  obtain ⟨hsl, hfields, hbody⟩ := hv
  simp only at hsl hfields hbody ⊢
  obtain ⟨Q1, hQ1⟩ := lineStep_startLine hsl (init ty) rfl
  obtain ⟨hs1, hfr1⟩ := lineStep_spec hQ1
  have hic1 := invCore_lineRcvd (inv_init ty).1 rfl hs1 hfr1
  have hI1 : Inv Q1 := ⟨hic1, fun h => by rcases h with h | h <;> simp [hs1] at h⟩
  obtain ⟨hce1, hch1, hh1⟩ := hic1.line (by simp [hs1, PState.num])
  obtain ⟨f1, f2, f3, f4, _, _⟩ := hfr1
  have f1' : Q1.ty = ty := f1
  have f3' : Q1.body = none := f3
  have f4' : Q1.chunk = none := f4
  obtain ⟨p1, e0, e1, e2, e3, e4, e5, e6⟩ := hdrFold_fields Q1 fields hfields
  have hlokF : ∀ l ∈ fields.map (fun kv => hdrLine kv.1 kv.2), LineOk l := by
    intro l hl
    simp only [List.mem_map] at hl
    obtain ⟨kv, hkv, rfl⟩ := hl
    exact lineOk_hdrLine (hfields kv hkv).1
  cases body with
  | none =>
    have hrender : (Msg.mk ty line fields .none).render ++ t =
        line ++ CRLF ++ (renderLines (fields.map (fun kv => hdrLine kv.1 kv.2)) ++ CRLF ++ t) := by
      simp [Msg.render, Msg.lines, Body.lines, Body.bytes, List.append_assoc]
    rw [hrender, go_line cfg (inv_init ty) rfl hsl.1 hQ1 (renderLines_nonempty_tail _ _)]
    obtain ⟨hgo, _⟩ := go_head cfg _ t hI1 (.inl hs1) hlokF e0
    rw [hgo]
    rw [post_complete (q := { p1 with state := .headersComplete }) _ _ rfl (e5.trans hce1) (e4.trans hch1)
      (.inr (.inl ((e1.trans f1').trans hbody))), next_stop cfg _ (.inr rfl)]
    exact ⟨_, rfl, rfl, by simp [Body.decoded, e3, f3']⟩
  | cl txt bd =>
    obtain ⟨hfo, hpy⟩ := hbody
    have hrender : (Msg.mk ty line fields (.cl txt bd)).render ++ t =
        line ++ CRLF ++ (renderLines (fields.map (fun kv => hdrLine kv.1 kv.2) ++
          [hdrLine (b "Content-Length") txt]) ++ CRLF ++ (bd ++ t)) := by
      simp [Msg.render, Msg.lines, Body.lines, Body.bytes, List.append_assoc]
    rw [hrender, go_line cfg (inv_init ty) rfl hsl.1 hQ1 (renderLines_nonempty_tail _ _)]
    obtain ⟨P2, hP2⟩ : ∃ P2 : Parser, P2 = { addHeader { p1 with state := .rcvingHeaders } (b "Content-Length") txt with
        contentExpected := decide (Int.ofNat bd.length > 0) } := ⟨_, rfl⟩
    have hstep : processHeader { p1 with state := .rcvingHeaders } (hdrLine (b "Content-Length") txt) =
        .ok P2 := by
      rw [processHeader_field hfo, hP2]; simp [K_CL, hpy]
    have hfold : hdrFold Q1 (fields.map (fun kv => hdrLine kv.1 kv.2) ++ [hdrLine (b "Content-Length") txt]) =
        .ok P2 := by
      rw [hdrFold_append, e0]
      simp only [Except.bind, hdrFold, hstep]
    have hlok : ∀ l ∈ fields.map (fun kv => hdrLine kv.1 kv.2) ++ [hdrLine (b "Content-Length") txt],
        LineOk l := by
      intro l hl
      simp only [List.mem_append, List.mem_singleton] at hl
      rcases hl with hl | rfl
      · exact hlokF l hl
      · exact lineOk_hdrLine hfo
    obtain ⟨hgo, hstp⟩ := go_head cfg _ (bd ++ t) hI1 (.inl hs1) hlok hfold
    rw [hgo]
    have g1 : P2.isChunked = false := by rw [hP2]; exact e4.trans hch1
    have g2 : P2.contentExpected = decide (Int.ofNat bd.length > 0) := by rw [hP2]
    have g3 : P2.body = none := by rw [hP2]; exact e3.trans f3'
    have g4 : hasHeader { P2 with state := .headersComplete } (b "content-length") = true := by
      rw [hP2]
      exact hasHeader_addHeader_same { p1 with state := .rcvingHeaders } _ txt _ (by rw [K_CL, CLK])
    have g5 : header { P2 with state := .headersComplete } (b "content-length") = .ok txt := by
      rw [hP2]
      exact header_addHeader_same { p1 with state := .rcvingHeaders } _ txt _ (by rw [K_CL, CLK])
    by_cases hbe : bd = []
    · subst hbe
      rw [post_complete (q := { P2 with state := .headersComplete }) _ _ rfl (by simp [g2]) g1
        (.inr (.inr g4)), next_stop cfg _ (.inr rfl)]
      refine ⟨{ P2 with state := .complete }, rfl, rfl, ?_⟩
      simp only [Body.decoded, if_true]; exact g3
    · have hpos : 0 < bd.length := List.length_pos_iff.2 hbe
      have hce2 : P2.contentExpected = true := by
        rw [g2]; simp only [Int.ofNat_eq_natCast, gt_iff_lt, decide_eq_true_eq]; omega
      have hne : (bd ++ t).isEmpty = false := by simp [hbe]
      have hQ1nc : Q1.state ≠ .complete := by simp [hs1]
      rw [post_expected (q := { P2 with state := .headersComplete }) _ _ hce2 (by simp)] at hstp ⊢
      simp only [hne, Bool.not_false] at hstp ⊢
      have hI2 : Inv { P2 with state := .headersComplete } := (stepOnce_inv cfg hI1 hQ1nc hstp).1
      have hb0 : ({ P2 with state := .headersComplete } : Parser).body.getD [] = [] := by
        simp only [g3, Option.getD_none]
      have hlt : Int.ofNat (({ P2 with state := .headersComplete } : Parser).body.getD []).length <
          Int.ofNat bd.length := by
        rw [hb0]; simp only [List.length_nil, Int.ofNat_eq_natCast]; omega
      rw [next_go cfg _ (by simp), go_unfold cfg _ hI2 (by simp), stepOnce_eq, core_body _ (.inl rfl),
        processBody_cl (p := { P2 with state := .headersComplete }) g1 hce2 g5 hpy hlt]
      have hk : (Int.ofNat bd.length - Int.ofNat (([] : Bytes)).length).toNat = bd.length := by
        simp
      simp only [hb0, hk, Except.map, List.take_left', List.drop_left', List.nil_append, hne,
        Bool.not_false]
      have hcomp : (!bd.isEmpty && Int.ofNat bd.length == Int.ofNat bd.length) = true := by simp [hbe]
      simp only [hcomp, if_true]
      rw [post_other (q := { P2 with state := .complete, body := some bd }) _ _ (by simp) (by simp),
        next_stop cfg _ (.inr rfl)]
      refine ⟨{ P2 with state := .complete, body := some bd }, rfl, rfl, ?_⟩
      simp [Body.decoded, hbe]
  | chunked s =>
    have hrender : (Msg.mk ty line fields (.chunked s)).render ++ t =
        line ++ CRLF ++ (renderLines (fields.map (fun kv => hdrLine kv.1 kv.2) ++
          [hdrLine (b "Transfer-Encoding") (b "chunked")]) ++ CRLF ++ (s.render ++ t)) := by
      simp [Msg.render, Msg.lines, Body.lines, Body.bytes, List.append_assoc]
    rw [hrender, go_line cfg (inv_init ty) rfl hsl.1 hQ1 (renderLines_nonempty_tail _ _)]
    obtain ⟨P2, hP2⟩ : ∃ P2 : Parser, P2 = { addHeader { p1 with state := .rcvingHeaders }
        (b "Transfer-Encoding") (b "chunked") with isChunked := true } := ⟨_, rfl⟩
    have hstep : processHeader { p1 with state := .rcvingHeaders }
        (hdrLine (b "Transfer-Encoding") (b "chunked")) = .ok P2 := by
      rw [processHeader_field fieldOk_TE, hP2]; simp [K_TE, K_TE_ne, K_CHK]
    have hfold : hdrFold Q1 (fields.map (fun kv => hdrLine kv.1 kv.2) ++
        [hdrLine (b "Transfer-Encoding") (b "chunked")]) = .ok P2 := by
      rw [hdrFold_append, e0]
      simp only [Except.bind, hdrFold, hstep]
    have hlok : ∀ l ∈ fields.map (fun kv => hdrLine kv.1 kv.2) ++
        [hdrLine (b "Transfer-Encoding") (b "chunked")], LineOk l := by
      intro l hl
      simp only [List.mem_append, List.mem_singleton] at hl
      rcases hl with hl | rfl
      · exact hlokF l hl
      · exact lineOk_hdrLine fieldOk_TE
    obtain ⟨hgo, hstp⟩ := go_head cfg _ (s.render ++ t) hI1 (.inl hs1) hlok hfold
    rw [hgo]
    have g1 : P2.isChunked = true := by rw [hP2]
    have g6 : ({ P2 with state := .headersComplete } : Parser).chunk.getD Px.Chunk.init = Px.Chunk.init := by
      have : P2.chunk = none := by rw [hP2]; exact e2.trans f4'
      simp only [this, Option.getD_none]
    have hne : (s.render ++ t).isEmpty = false := by
      have := Px.Chunk.render_ne_nil s
      simp [this]
    have hQ1nc : Q1.state ≠ .complete := by simp [hs1]
    rw [post_chunked (q := { P2 with state := .headersComplete }) _ _ g1 (by simp)] at hstp ⊢
    simp only [hne, Bool.not_false] at hstp ⊢
    have hI2 : Inv { P2 with state := .headersComplete } := (stepOnce_inv cfg hI1 hQ1nc hstp).1
    rw [next_go cfg _ (by simp), go_unfold cfg _ hI2 (by simp), stepOnce_eq, core_body _ (.inl rfl),
      processBody_chunked (p := { P2 with state := .headersComplete }) g1, g6,
      Px.Chunk.parse_stream s hbody Px.Chunk.init rfl rfl t]
    simp only [beq_self_eq_true, if_true, Except.map]
    rw [post_other (q := { P2 with state := .complete, chunk := _, body := _ }) _ _ (by simp) (by simp),
      next_stop cfg _ (.inl rfl)]
    exact ⟨_, rfl, rfl, by simp [Body.decoded, Px.Chunk.init]⟩

/-! ### from the loop to `parse`; "never earlier" -/

theorem parse_init_nonempty (cfg : Cfg) (ty : PType) {x : Bytes} (hx : x ≠ []) :
    parse cfg (init ty) x = (go cfg (init ty) x).map (fun R => finish (setTB x.length none R.1, R.2)) := by
  rw [parse_nonempty cfg _ hx]
  have h1 : setTB 0 none (init ty) = init ty := rfl
  have h2 : bufBytes (init ty) = [] := rfl
  have h3 : (init ty).totalSize + x.length = x.length := by simp [init]
  rw [h1, h2, h3, List.nil_append]

/-- a complete parser only accumulates further input in its buffer -/
theorem parse_complete (cfg : Cfg) {q : Parser} (hc : q.state = .complete) {s : Bytes} (hs : s ≠ []) :
    ∃ q', parse cfg q s = .ok q' ∧ q'.buffer = some (bufBytes q ++ s) := by
  rw [parse_eq, loop_done (p := { q with totalSize := q.totalSize + s.length, buffer := none }) cfg _ (.inr hc)]
  refine ⟨_, rfl, ?_⟩
  simp only [finish]
  have : (bufBytes q ++ s).isEmpty = false := by simp [hs]
  simp [this]

/-- if the whole input leaves the parser complete with nothing buffered, no strict prefix
    of it does (and no strict prefix raises) -/
theorem no_prefix_complete (cfg : Cfg) {p0 q : Parser} {x : Bytes} (hw : WF p0)
    (h : parse cfg p0 x = .ok q) (hc : q.state = .complete) (hb : q.buffer = none) :
    ∀ p s, x = p ++ s → s ≠ [] → ∃ q', parse cfg p0 p = .ok q' ∧ q'.state ≠ .complete := by
  intro p s hx hs
  subst hx
  have hg : ∀ q', parse cfg p0 (p ++ s) = .ok q' → closeDelimited q' = false := by
    intro q' hq'
    rw [h] at hq'
    simp only [Except.ok.injEq] at hq'; subst hq'
    simp [closeDelimited, hc]
  rw [parse_append cfg p s hw hg] at h
  cases hp : parse cfg p0 p with
  | error e => simp [hp, Except.bind] at h
  | ok q' =>
    refine ⟨q', rfl, fun hcq => ?_⟩
    simp only [hp, Except.bind] at h
    obtain ⟨q2, h2, hb2⟩ := parse_complete cfg hcq hs
    rw [h2] at h
    simp only [Except.ok.injEq] at h; subst h
    rw [hb] at hb2; simp at hb2

theorem go_statusLine (cfg : Cfg) {line : Bytes} (hsl : StartLine cfg .response line) :
    ∃ Q, go cfg (init .response) (line ++ CRLF ++ CRLF) = .ok (Q, []) ∧ Q.state = .complete := by
  obtain ⟨Q1, hQ1⟩ := lineStep_startLine hsl (init .response) rfl
  obtain ⟨hs1, hfr1⟩ := lineStep_spec hQ1
  have hic1 := invCore_lineRcvd (inv_init .response).1 rfl hs1 hfr1
  have hty : Q1.ty = .response := hfr1.1
  rw [go_line cfg (inv_init .response) rfl hsl.1 hQ1 (by simp [CRLF]),
    ← next_post_lineRcvd cfg hs1 hic1]
  have ep : post (Q1, true, CRLF) = ({ Q1 with state := .complete }, true, []) := by
    unfold post; simp [hs1, hty]
  rw [ep, next_stop cfg _ (.inr rfl)]
  exact ⟨_, rfl, rfl⟩
end Px.Parser
