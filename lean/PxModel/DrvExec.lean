import PxModel.Exec
import PxModel.ExecRemote
/-
  Driver glue for the executor model.

  `sel <op>…`   selector/kernel sub-model alone:
      sp            socketpair(): two descriptors, lowest free first
      cl:<fd>       close
      reg:<fd>:<ev>:<data>  mod:<fd>:<ev>:<data>  unr:<fd>
      sel:<fd>.<truth>,…    select() with the given readiness
  `exec <op>…`  executor history (descriptors below `base` are permanently open):
      conn:<0|1>    socketpair(); the first end is queued as a new connection (1 = initialize() raises)
      connat:<fd>:<0|1>  a connection whose socket the kernel installed at <fd> is queued
      pc:<fd> / oa:<fd>  a descriptor is closed / installed outside the executor
      nop
      rnd/<ready>/<prio>/<beh>;<beh>…     one `_run_once`
      reap/<ids>/<beh>;…                  one `_cleanup_inactive`
      beh = <w>~<events|x|->~<f|t|x>~<ops|->~<closes|->[!]     ops: o (socketpair, lowest free) c<fd> a<fd> (open at fd)
-/
namespace Px.Exec
open Px.Sel

def sortInts (l : List Int) : List Int := l.mergeSort (fun a b => decide (a ≤ b))

def joinWith (sep : String) (l : List String) : String := sep.intercalate l

def dash (s : String) : String := if s.isEmpty then "-" else s

def intsStr (l : List Int) : String := dash (joinWith "," (l.map toString))

def excStr : Exc → String
  | .keyError => "keyError" | .valueError => "valueError"
  | .ebadf => "ebadf" | .enoent => "enoent" | .eexist => "eexist"

def splitList (s : String) (sep : String) : List String :=
  if s == "-" || s.isEmpty then [] else s.splitOn sep

def parseInts (s : String) (sep : String) : Option (List Int) := (splitList s sep).mapM (·.toInt?)

/-- `<fd>.<n>` -/
def parsePair (s : String) : Option (Int × Nat) :=
  match s.splitOn "." with
  | [a, b] => do some (← a.toInt?, ← b.toNat?)
  | _ => none

def parsePairs (s : String) (sep : String) : Option (List (Int × Nat)) := (splitList s sep).mapM parsePair

def mapStr (m : List (Fd × (Mask × WorkId))) : String :=
  let keys := sortInts (m.map (·.1))
  dash (joinWith "," (keys.map fun fd =>
    match aget m fd with
    | some (ev, d) => s!"{fd}.{ev}.{d}"
    | none => s!"{fd}.?"))

def evsStr (l : List (WorkId × Fd × Mask)) : String :=
  dash (joinWith "," (l.map fun e => s!"{e.1}.{e.2.1}.{e.2.2}"))

/-! ### selector sub-model -/

def selStep (s : SK) (tok : String) : SK × String :=
  match tok.splitOn ":" with
  | ["sp"] =>
    let (k1, a) := s.k.openNew
    let (k2, b) := k1.openNew
    ({ s with k := k2 }, s!"sp {a} {b}")
  | ["cl", fd] =>
    match fd.toInt? with
    | some fd => ({ s with k := s.k.close fd }, "ok")
    | none => (s, "bad-op")
  | ["wr", _] => (s, "ok")
  | ["reg", fd, ev, d] =>
    match fd.toInt?, ev.toNat?, d.toInt? with
    | some fd, some ev, some d =>
      let (s', e) := register s fd ev d
      (s', match e with | none => "ok" | some e => "exc " ++ excStr e)
    | _, _, _ => (s, "bad-op")
  | ["mod", fd, ev, d] =>
    match fd.toInt?, ev.toNat?, d.toInt? with
    | some fd, some ev, some d =>
      let (s', e) := modify s fd ev d
      (s', match e with | none => "ok" | some e => "exc " ++ excStr e)
    | _, _, _ => (s, "bad-op")
  | ["unr", fd] =>
    match fd.toInt? with
    | some fd =>
      let (s', e) := unregister s fd
      (s', match e with | none => "ok" | some e => "exc " ++ excStr e)
    | none => (s, "bad-op")
  | ["sel", r] =>
    match parsePairs r "," with
    | some r => (s, "ev " ++ evsStr (select s r))
    | none => (s, "bad-op")
  | _ => (s, "bad-op")

def selRun : SK → List String → List String
  | s, [] => ["map " ++ mapStr s.map]
  | s, t :: r => let (s', o) := selStep s t; o :: selRun s' r

def baseOpen (base : Nat) : List Fd := (List.range base).map (fun (n : Nat) => Int.ofNat n)

def selDrv (args : List String) : String :=
  match args with
  | base :: toks =>
    match base.toNat? with
    | some base => joinWith "|" (selRun { map := [], k := { open_ := baseOpen base, epoll := [] } } toks)
    | none => "bad-op"
  | _ => "bad-op"

/-! ### executor histories -/

def defaultBeh : Beh := { events := .ok [], task := .fls, ops := [], sd := { closes := [], raises := false } }

def parseOps (s : String) : Option (List FdOp) :=
  (splitList s "+").foldr (fun t acc => do
    let acc ← acc
    if t == "o" then some (.openNew :: .openNew :: acc)
    else if t.startsWith "c" then do some (.close (← (t.drop 1).toString.toInt?) :: acc)
    else if t.startsWith "a" then do some (.openAt (← (t.drop 1).toString.toInt?) :: acc)
    else none) (some [])

def parseSd (s : String) : Option Shutdown :=
  let raises := s.endsWith "!"
  let body := if raises then (s.dropEnd 1).toString else s
  do some { closes := ← parseInts body "+", raises := raises }

def parseBeh (s : String) : Option (WorkId × Beh) :=
  match s.splitOn "~" with
  | [w, ev, t, ops, sd] => do
    let w ← w.toInt?
    let ev ← if ev == "x" then some EvRes.exc else (parsePairs ev "+").map EvRes.ok
    let t ← match t with | "f" => some TaskRes.fls | "t" => some .tru | "x" => some .exc | _ => none
    some (w, { events := ev, task := t, ops := ← parseOps ops, sd := ← parseSd sd })
  | _ => none

def behFun (l : List (WorkId × Beh)) (w : WorkId) : Beh := (aget l w).getD defaultBeh

structure HState where
  x : Exec
  queue : List Arrive
  dead : Bool

def regStr (x : Exec) : String :=
  let ws := sortInts (x.registered.map (·.1))
  dash (joinWith ";" (ws.map fun w =>
    let r := (aget x.registered w).getD []
    let fds := sortInts (r.map (·.1))
    s!"{w}:" ++ joinWith "+" (fds.map fun fd => s!"{fd}.{(aget r fd).getD 0}")))

def tasksStr (t : List (WorkId × List Fd × List Fd)) : String :=
  dash (joinWith ";" (t.map fun e => s!"{e.1}:{joinWith "+" (e.2.1.map toString)}:{joinWith "+" (e.2.2.map toString)}"))

def stateStr (base : Nat) (x : Exec) : String :=
  let op := sortInts (x.sk.k.open_.filter (fun fd => decide ((base : Int) ≤ fd)))
  s!"w={intsStr x.works} r={regStr x} m={mapStr x.sk.map} o={intsStr op} n={x.sk.k.alloc}"

def deadStr : Dead → String
  | .worksKeyError _ => "dead keyError"
  | .assertPool => "dead assertion"

def hStep (base : Nat) (h : HState) (tok : String) : HState × String :=
  if h.dead then (h, "dead") else
  match tok.splitOn "/" with
  | ["rnd", ready, prio, behs] =>
    match parsePairs ready ",", parseInts prio ",", (splitList behs ";").mapM parseBeh with
    | some ready, some prio, some behs =>
      let env : RoundEnv := { beh := behFun behs, ready := ready, arrive := h.queue.head?, prio := prio }
      match runOnce h.x env with
      | .error d => ({ h with dead := true }, deadStr d)
      | .ok (x', log) =>
        ({ h with x := x', queue := h.queue.drop 1 }, s!"t={tasksStr log.tasks} " ++ stateStr base x')
    | _, _, _ => (h, "bad-op")
  | ["reap", ids, behs] =>
    match parseInts ids ",", (splitList behs ";").mapM parseBeh with
    | some ids, some behs =>
      match reap h.x (fun w => decide (w ∈ ids)) (fun w => (behFun behs w).sd) with
      | .error d => ({ h with dead := true }, deadStr d)
      | .ok x' => ({ h with x := x' }, stateStr base x')
    | _, _ => (h, "bad-op")
  | [one] =>
    match one.splitOn ":" with
    | ["conn", i] =>
      let (k1, a) := h.x.sk.k.openNew
      let (k2, b) := k1.openNew
      ({ h with x := { h.x with sk := { h.x.sk with k := k2 } },
                queue := h.queue ++ [{ fd := a, initRaises := i == "1" }] }, s!"conn {a} {b}")
    | ["pc", fd] =>
      match fd.toInt? with
      | some fd => ({ h with x := { h.x with sk := { h.x.sk with k := h.x.sk.k.close fd } } }, "ok")
      | none => (h, "bad-op")
    | ["oa", fd] =>
      match fd.toInt? with
      | some fd => ({ h with x := { h.x with sk := { h.x.sk with k := h.x.sk.k.openAt fd } } }, "ok")
      | none => (h, "bad-op")
    | ["connat", fd, i] =>
      match fd.toInt? with
      | some fd => ({ h with x := { h.x with sk := { h.x.sk with k := h.x.sk.k.openAt fd } },
                             queue := h.queue ++ [{ fd := fd, initRaises := i == "1" }] }, "ok")
      | none => (h, "bad-op")
    | ["nop"] => (h, "ok")
    | _ => (h, "bad-op")
  | _ => (h, "bad-op")

def hRun (base : Nat) : HState → List String → List String
  | _, [] => []
  | h, t :: r => let (h', o) := hStep base h t; o :: hRun base h' r

def csvInts (l : List Int) : String := if l.isEmpty then "-" else ",".intercalate (l.map toString)

/-- `exec remote <op>…`: `a<fd>` arrival, `f<fd>` arrival whose initialize() raises, `c<fd>` clean-up,
    `p` print (owned raw descriptors and works, sorted).  Remote executor model (`ExecRemote.lean`). -/
def remoteRun : RExec → List String → List String → Option (List String)
  | _, [], acc => some acc.reverse
  | x, t :: r, acc =>
    if t == "p" then
      remoteRun x r (s!"raw={csvInts (sortInts x.raw)} works={csvInts (sortInts x.ex.works)}" :: acc)
    else
      let kind := t.take 1
      match (t.drop 1).toInt? with
      | none => none
      | some fd =>
        let res : Option (Except Dead RExec) :=
          if kind == "a" then some (acceptR x ⟨fd, false⟩ ⟨[], false⟩)
          else if kind == "f" then some (acceptR x ⟨fd, true⟩ ⟨[], false⟩)
          else if kind == "c" then some (cleanupR x fd ⟨[], false⟩)
          else none
        match res with
        | none => none
        | some (.error _) => some ("dead" :: acc).reverse
        | some (.ok y) => remoteRun y r acc

def execDrv (args : List String) : String :=
  match args with
  | "remote" :: ops =>
    let x0 : Exec := { works := [], registered := [], sk := { map := [], k := { open_ := [], epoll := [] } } }
    match remoteRun ⟨x0, []⟩ ops [] with
    | none => "bad-op"
    | some outs => joinWith "|" outs
  | base :: toks =>
    match base.toNat? with
    | some base =>
      let x0 : Exec := { works := [], registered := [], sk := { map := [], k := { open_ := baseOpen base, epoll := [] } } }
      joinWith "|" (hRun base { x := x0, queue := [], dead := false } toks)
    | none => "bad-op"
  | _ => "bad-op"

end Px.Exec
