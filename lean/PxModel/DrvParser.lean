import PxModel.Parser
import PxModel.Build
namespace Px.Parser

def b01 (x : Bool) : String := if x then "1" else "0"

def intOptStr : Option Int → String
  | none => "None"
  | some v => toString v

def natOptStr : Option Nat → String
  | none => "None"
  | some v => toString v

def errStr : Err → String
  | .valueError => "valueError" | .indexError => "indexError"
  | .httpProtocol => "httpProtocol" | .keyError => "keyError"

def hdrsStr : Option Headers → String
  | none => "None"
  | some h => "[" ++ ",".intercalate (h.map (fun (k, (n, v)) => s!"{hex k}={hex n}:{hex v}")) ++ "]"

def chunkStr : Option Px.Chunk.Chunk → String
  | none => "None"
  | some c => s!"({c.state.num},{hex c.body},{hex c.chunk},{natOptStr c.size})"

def urlStr : Option Px.Url.Url → String
  | none => "None"
  | some u => s!"({hexOpt u.scheme},{hexOpt u.username},{hexOpt u.password},{hexOpt u.hostname},{intOptStr u.port},{hexOpt u.remainder})"

/-- the observable projection compared with the implementation -/
def obs (p : Parser) : String :=
  s!"st={p.state.num} m={hexOpt p.method} host={hexOpt p.host} port={intOptStr p.port} path={hexOpt p.path} " ++
  s!"ver={hexOpt p.version} code={hexOpt p.code} reason={hexOpt p.reason} hdrs={hdrsStr p.headers} " ++
  s!"body={hexOpt p.body} buf={hexOpt p.buffer} chunked={b01 p.isChunked} ce={b01 p.contentExpected} " ++
  s!"tunnel={b01 p.isTunnel} total={p.totalSize} chunk={chunkStr p.chunk} url={urlStr p.url}"

def unhexAll (xs : List String) : Option (List Bytes) := xs.mapM unhex

def parseTy (s : String) : Option PType :=
  if s == "REQ" then some .request else if s == "RES" then some .response else none

/-- standalone ChunkParser fed piecewise; remainder = concatenation of what each call returned -/
def chunkFeed (c : Px.Chunk.Chunk) (acc : Bytes) : List Bytes → Except Px.Chunk.Err (Px.Chunk.Chunk × Bytes)
  | [] => .ok (c, acc)
  | x :: xs => match Px.Chunk.parse c x with
    | .error e => .error e
    | .ok (c, r) => chunkFeed c (acc ++ r) xs

/-- header list transport: `k:v,k:v` in hex, `-` for the empty list -/
def parseHdrList (s : String) : Option Px.Build.HDict :=
  if s == "-" then some []
  else (s.splitOn ",").mapM (fun kv => match kv.splitOn ":" with
    | [k, v] => do let k ← unhex k; let v ← unhex v; some (k, v)
    | _ => none)

def optBytes (s : String) : Option (Option Bytes) :=
  if s == "None" then some none else (unhex s).map some

def buildErrStr : Px.Build.Err → String
  | .assertion => "assertion" | .valueError => "valueError"

def drv (args : List String) : String :=
  let cfg : Cfg := {}
  match args with
  | "parse" :: ty :: segs =>
    match parseTy ty, unhexAll segs with
    | some ty, some segs =>
      match parseAll cfg (init ty) segs with
      | .ok p => "ok " ++ obs p
      | .error e => "exc " ++ errStr e
    | _, _ => "bad-op"
  | "chunk" :: segs =>
    match unhexAll segs with
    | some segs =>
      match chunkFeed Px.Chunk.init [] segs with
      | .ok (c, r) => s!"ok {chunkStr (some c)} rem={hex r}"
      | .error _ => "exc valueError"
    | none => "bad-op"
  | ["url", raw] =>
    match unhex raw with
    | some raw =>
      match Px.Url.fromBytes cfg.allowedSchemes raw with
      | .ok u => "ok " ++ urlStr (some u)
      | .error e => "exc " ++ errStr (urlErr e)
    | none => "bad-op"
  | ["int", base, raw] =>
    match base.toNat?, unhex raw with
    | some bs, some raw =>
      match pyInt bs raw with
      | some v => s!"ok {v}"
      | none => "exc valueError"
    | _, _ => "bad-op"
  | ["tochunks", size, raw] =>
    match size.toNat?, unhex raw with
    | some n, some raw =>
      match Px.Chunk.toChunks raw n with
      | .ok x => "ok " ++ hex x
      | .error _ => "exc valueError"
    | _, _ => "bad-op"
  | "rebuild" :: ty :: host :: disable :: segs =>
    -- parse the segments, then HttpParser.build(disable_headers, host=…) / build_response()
    match parseTy ty, optBytes host, unhexAll segs with
    | some ty, some host, some segs =>
      let dis : Option (Option (List Bytes)) :=
        if disable == "None" then some none
        else if disable == "-" then some (some [])
        else ((disable.splitOn ",").mapM unhex).map some
      match dis with
      | none => "bad-op"
      | some dis =>
        match parseAll cfg (init ty) segs with
        | .error e => "exc parse " ++ errStr e
        | .ok p =>
          let r := match ty with
            | .request => Px.Build.build Px.Gen.defaultBufferSize Px.Gen.defaultDisableHeaders p dis host
            | .response => Px.Build.buildResponseOf Px.Gen.defaultBufferSize p
          match r with
          | .ok x => "ok " ++ hex x
          | .error e => "exc build " ++ buildErrStr e
    | _, _, _ => "bad-op"
  | ["mkreq", m, u, v, ct, hdrs, body, cc, noUa] =>
    match unhex m, unhex u, unhex v, optBytes ct, parseHdrList hdrs, optBytes body with
    | some m, some u, some v, some ct, some hdrs, some body =>
      "ok " ++ hex (Px.Build.buildRequest Px.Gen.proxyAgentHeaderValue m u v ct hdrs body (cc == "1") (noUa == "1"))
    | _, _, _, _, _, _ => "bad-op"
  | ["mkres", status, v, reason, hdrs, body, cc, noCl] =>
    match status.toInt?, unhex v, optBytes reason, parseHdrList hdrs, optBytes body with
    | some st, some v, some reason, some hdrs, some body =>
      "ok " ++ hex (Px.Build.buildResponse st v reason hdrs body (cc == "1") (noCl == "1"))
    | _, _, _, _, _ => "bad-op"
  | _ => "bad-op"

end Px.Parser
