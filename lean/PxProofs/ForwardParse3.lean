import PxProofs.ForwardParse2
/-!
# C02 helper lemmas, part 6: request line, chunk layout, and the assembled `parse (render r)`
-/
namespace Px.Forward

open Px.Parser Px.Build
open Px.Codec (hdrApply foldHdrs bodyPhase afterHeaders)

/-! ### the chunk layout as a stream of the decoder's grammar -/

def toStream : List ChunkSpec → Bytes → Bytes → Px.Chunk.ChunkedStream
  | [], lsz, lext => .last lsz lext
  | c :: cs, lsz, lext => .chunk c.sz c.ext c.data (toStream cs lsz lext)

theorem toStream_render (cs : List ChunkSpec) (lsz lext : Bytes) :
    (toStream cs lsz lext).render = renderChunks cs ++ (lsz ++ lext ++ CRLF ++ CRLF) := by
  induction cs with
  | nil => simp [toStream, Px.Chunk.ChunkedStream.render, renderChunks]
  | cons c cs ih => simp [toStream, Px.Chunk.ChunkedStream.render, renderChunks, ih]

theorem toStream_decoded (cs : List ChunkSpec) (lsz lext : Bytes) :
    (toStream cs lsz lext).decoded = (cs.map (·.data)).flatten := by
  induction cs with
  | nil => simp [toStream, Px.Chunk.ChunkedStream.decoded]
  | cons c cs ih => simp [toStream, Px.Chunk.ChunkedStream.decoded, ih]

theorem sizeLine_of_ok {sz ext : Bytes} {n : Nat} (h : sizeLineOk sz ext n = true) :
    Px.Chunk.SizeLine sz ext n := by
  simp only [sizeLineOk, Bool.and_eq_true, Bool.not_eq_true', List.all_eq_true, beq_iff_eq,
    Bool.or_eq_true, List.isEmpty_iff, bne_iff_ne, ne_eq] at h
  obtain ⟨⟨⟨⟨_, hhex⟩, hint⟩, hext⟩, hnl⟩ := h
  refine ⟨hint, ?_, ?_, hext⟩
  · intro hc; exact (hexDigit_facts _ (hhex _ hc)).1 rfl
  · apply splitCRLF_none_of_noLF
    intro c hc
    simp only [List.mem_append] at hc
    rcases hc with hc | hc
    · exact (hexDigit_facts _ (hhex _ hc)).2.1
    · exact (hnl c hc).2

theorem toStream_valid (cs : List ChunkSpec) (lsz lext : Bytes)
    (hcs : cs.all (fun c => sizeLineOk c.sz c.ext c.data.length && !c.data.isEmpty) = true)
    (hl : sizeLineOk lsz lext 0 = true) : (toStream cs lsz lext).Valid := by
  induction cs with
  | nil => exact sizeLine_of_ok hl
  | cons c cs ih =>
    simp only [List.all_cons, Bool.and_eq_true, Bool.not_eq_true', List.isEmpty_eq_false_iff] at hcs
    exact ⟨sizeLine_of_ok hcs.1.1, hcs.1.2, ih (by simpa using hcs.2)⟩

/-! ### the request line -/

theorem all_mem {p : UInt8 → Bool} {x : Bytes} (h : x.all p = true) : ∀ c ∈ x, p c = true :=
  List.all_eq_true.1 h

/-- `host[:port]` of an absolute-form target -/
def authorityOf (host : Bytes) (port : Option Bytes) : Bytes := host ++ portPart port

theorem renderTarget_absolute (host : Bytes) (port : Option Bytes) (pq : Bytes) :
    renderTarget (.absolute host port pq) = httpScheme ++ b "://" ++ authorityOf host port ++ pq := by
  rw [Px.UrlL.sep_eq]
  simp [renderTarget, authorityOf, schemeSep, COLON, SLASH]

structure TargetFacts (host : Bytes) (port : Option Bytes) (pq : Bytes) : Prop where
  noSP : SP ∉ renderTarget (.absolute host port pq)
  noLF : ∀ c ∈ renderTarget (.absolute host port pq), c ≠ LF
  url : ∃ url, Px.Url.fromBytes pcfg.allowedSchemes (renderTarget (.absolute host port pq)) = .ok url ∧
    url.hostname = some host ∧ url.remainder = (if pq.isEmpty then none else some pq)
  hostAscii : ∀ c ∈ host, c.toNat < 128

theorem targetFacts {host : Bytes} {port : Option Bytes} {pq : Bytes}
    (h : targetOk (.absolute host port pq) = true) : TargetFacts host port pq := by
  simp only [targetOk, Bool.and_eq_true, Bool.not_eq_true', pathqOk, Bool.or_eq_true, beq_iff_eq] at h
  obtain ⟨⟨⟨_, hhost⟩, hport⟩, hpqb, hpqh⟩ := h
  have hhost' := all_mem hhost
  have hpq' := all_mem hpqb
  -- facts about the authority bytes
  have hauth : ∀ c ∈ authorityOf host port, isTargetByte c = true ∧ c ≠ Px.Url.AT ∧ c ≠ SLASH := by
    intro c hc
    simp only [authorityOf, List.mem_append] at hc
    rcases hc with hc | hc
    · have := hostByte_facts c (hhost' c hc); exact ⟨this.1, this.2.2.1, this.2.2.2.1⟩
    · cases port with
      | none => simp [portPart] at hc
      | some p =>
        simp only [Bool.and_eq_true, Bool.not_eq_true'] at hport
        simp only [portPart, List.mem_cons] at hc
        rcases hc with rfl | hc
        · decide
        · have := digit_facts c (all_mem hport.1.2 c hc); exact ⟨this.1, this.2.2.1, this.2.2.2.1⟩
  have hmem : ∀ c ∈ renderTarget (.absolute host port pq), isTargetByte c = true := by
    intro c hc
    simp only [renderTarget, List.mem_append] at hc
    rcases hc with (((hc | hc) | hc) | hc) | hc
    · have : ∀ c ∈ httpScheme, isTargetByte c = true := by decide
      exact this c hc
    · have : ∀ c ∈ schemeSep, isTargetByte c = true := by decide
      exact this c hc
    · exact (hauth c (by simp [authorityOf, hc])).1
    · exact (hauth c (by simp [authorityOf, hc])).1
    · exact hpq' c hc
  refine ⟨fun hc => (targetByte_facts _ (hmem _ hc)).1 rfl, fun c hc => (targetByte_facts _ (hmem c hc)).2.1,
    ?_, fun c hc => (hostByte_facts c (hhost' c hc)).2.2.2.2⟩
  have hcolh : COLON ∉ host := fun hc => (hostByte_facts _ (hhost' _ hc)).2.1 rfl
  have hsl : SLASH ∉ authorityOf host port := fun hc => (hauth _ hc).2.2 rfl
  have hat : Px.Url.AT ∉ authorityOf host port := fun hc => (hauth _ hc).2.1 rfl
  have hpa : ∃ v, Px.Url.parseAuthority (authorityOf host port) = .ok (none, none, host, v) := by
    rw [Px.UrlL.parseAuthority_no_userinfo _ hat]
    cases port with
    | none =>
      exact ⟨none, by simpa [authorityOf, portPart] using Px.UrlL.hostPort_plain host none none host hcolh⟩
    | some p =>
      simp only [Bool.and_eq_true, Bool.not_eq_true'] at hport
      have hcolp : COLON ∉ p := fun hc => (digit_facts _ (all_mem hport.1.2 _ hc)).2.1 rfl
      obtain ⟨v, hv⟩ := Option.isSome_iff_exists.1 hport.2
      exact ⟨some v, Px.UrlL.hostPort_plain_port _ none none host p v hcolh hcolp hv⟩
  obtain ⟨v, hv⟩ := hpa
  have hpq2 : pq = [] ∨ pq.head? = some SLASH := by
    rcases hpqh with h | h
    · exact .inl (by simpa using h)
    · exact .inr h
  have hfb := Px.UrlL.fromBytes_absolute pcfg.allowedSchemes httpScheme (authorityOf host port) pq
    (by decide) (by decide) (by decide) hsl hpq2
  rw [← renderTarget_absolute, hv] at hfb
  exact ⟨_, hfb, rfl, rfl⟩

theorem version_facts {v : Bytes} (h : v = Px.Gen.http11 ∨ v = Px.Gen.http10) :
    v ≠ [] ∧ ∀ c ∈ v, c ≠ LF := by
  rcases h with rfl | rfl <;> exact ⟨by decide, by decide⟩

end Px.Forward
