import PxModel.ExecRemote
import PxProofs.ExecLemmas
/-! Lemmas for the remote executor's raw-descriptor ownership (`PxModel/ExecRemote.lean`). -/
namespace Px.Exec
open Px.Sel

/-- the raw descriptors owned are exactly the ids of the works in `works`, each once -/
def RInv (x : RExec) : Prop := x.raw.Nodup ∧ ∀ f, f ∈ x.raw ↔ f ∈ x.ex.works

theorem cleanup_works (x y : Exec) (w : WorkId) (sd : Shutdown) (h : cleanup x w sd = .ok y) :
    w ∈ x.works ∧ y.works = x.works.filter (fun v => decide (v ≠ w)) := by
  have hs := cleanup_spec x w sd
  by_cases hw : w ∈ x.works
  · obtain ⟨y', hy, hwk, _⟩ := hs.2 hw
    rw [hy] at h; injection h with h; subst h
    exact ⟨hw, hwk⟩
  · rw [hs.1 hw] at h; cases h

theorem cleanupR_inv (x y : RExec) (w : WorkId) (sd : Shutdown) (hi : RInv x)
    (h : cleanupR x w sd = .ok y) : RInv y ∧ w ∉ y.raw ∧ y.raw = x.raw.erase w := by
  unfold cleanupR at h
  split at h
  · cases h
  · rename_i y' hc
    injection h with h; subst h
    obtain ⟨_, hwk⟩ := cleanup_works _ _ _ _ hc
    refine ⟨⟨hi.1.erase w, ?_⟩, ?_, rfl⟩
    · intro f
      simp only [hwk, List.mem_filter, decide_eq_true_eq, hi.1.mem_erase_iff, hi.2 f]
      constructor
      · intro ⟨a, b⟩; exact ⟨b, a⟩
      · intro ⟨a, b⟩; exact ⟨b, a⟩
    · simp only [hi.1.mem_erase_iff]; intro hh; exact hh.1 rfl

theorem acceptR_inv (x y : RExec) (a : Arrive) (sd : Shutdown) (hi : RInv x) (hnew : a.fd ∉ x.ex.works)
    (h : acceptR x a sd = .ok y) :
    RInv y ∧ (a.initRaises = true → y.raw = x.raw) ∧ (a.initRaises = false → y.raw = a.fd :: x.raw) := by
  unfold acceptR at h
  split at h
  · cases h
  · rename_i y' hc
    injection h with h; subst h
    unfold accept at hc
    simp only [hnew, if_false] at hc
    cases hr : a.initRaises with
    | false =>
      simp only [hr, Bool.false_eq_true, if_false] at hc ⊢
      injection hc with hc; subst hc
      have hnr : a.fd ∉ x.raw := fun hh => hnew ((hi.2 _).1 hh)
      refine ⟨⟨List.nodup_cons.2 ⟨hnr, hi.1⟩, ?_⟩, by simp, by simp⟩
      intro f
      simp only [List.mem_cons, List.mem_append, List.not_mem_nil, or_false, hi.2 f]
      constructor
      · rintro (h | h); exact Or.inr h; exact Or.inl h
      · rintro (h | h); exact Or.inr h; exact Or.inl h
    | true =>
      simp only [hr, if_true] at hc ⊢
      obtain ⟨_, hwk⟩ := cleanup_works _ _ _ _ hc
      refine ⟨⟨hi.1, ?_⟩, by simp, by simp⟩
      intro f
      simp only [hwk, List.mem_filter, List.mem_append, List.mem_cons, List.not_mem_nil, or_false, decide_eq_true_eq, hi.2 f]
      constructor
      · intro hf; exact ⟨Or.inl hf, fun e => hnew (e ▸ hf)⟩
      · rintro ⟨hf | hf, hne⟩
        · exact hf
        · exact absurd hf hne

/-- arrivals never reuse the id of a work that is still alive (C05's `ArriveOk`) -/
def ROpsOk : RExec → List ROp → Prop
  | _, [] => True
  | x, o :: r =>
    (match o with | .arrive a _ => a.fd ∉ x.ex.works | .clean _ _ => True) ∧
    ∀ y, stepR x o = .ok y → ROpsOk y r

theorem runR_inv : ∀ (ops : List ROp) (x y : RExec), RInv x → ROpsOk x ops → runR x ops = .ok y → RInv y := by
  intro ops
  induction ops with
  | nil => intro x y hi _ h; simp only [runR] at h; injection h with h; subst h; exact hi
  | cons o r ih =>
    intro x y hi hok h
    simp only [runR] at h
    split at h
    · cases h
    · rename_i x' hs
      have hi' : RInv x' := by
        cases o with
        | arrive a sd => exact (acceptR_inv x x' a sd hi hok.1 hs).1
        | clean w sd => exact (cleanupR_inv x x' w sd hi hs).1
      exact ih x' y hi' (hok.2 x' hs) h

end Px.Exec
