import PxModel.Intercept
/-! Helper lemmas for C11 (TLS interception decision logic, certificate cache, relay after a refused upstream). -/
namespace Px.Intercept
open Px Px.Pki

/-! ### shape of the effect log -/

/-- a `do_intercept` question -/
def Eff.isAsk : Eff → Bool
  | .ask _ => true
  | _ => false

/-- an effect of certificate generation / the client-side wrap -/
def Eff.isGen : Eff → Bool
  | .isfile _ _ | .openssl _ _ | .wrapClient _ _ _ _ => true
  | _ => false

/-- a cache probe or an openssl invocation -/
def Eff.isCache : Eff → Bool
  | .isfile _ _ | .openssl _ _ => true
  | _ => false

theorem Eff.isCache_isGen (e : Eff) (h : e.isCache = true) : e.isGen = true := by
  cases e <;> simp_all [Eff.isCache, Eff.isGen]

def Eff.isOpenssl : Eff → Bool
  | .openssl _ _ => true
  | _ => false

theorem chainAux_asks (l : List (Option Bool)) (i : Nat) (cur : Option Bool) :
    ∀ e ∈ (chainAux i cur l).2, e.isAsk = true := by
  induction l generalizing i cur with
  | nil => simp [chainAux]
  | cons a rest ih =>
    unfold chainAux
    split
    · simp [Eff.isAsk]
    · intro e he
      simp only [List.mem_cons] at he
      rcases he with rfl | he
      · rfl
      · exact ih _ _ e he

/-- the value the loop ends with: `False` as soon as one answer is `False`, else the last answer
    (the initial value for an empty chain) -/
theorem chainAux_val (l : List (Option Bool)) (i : Nat) (cur : Option Bool) :
    (chainAux i cur l).1 = if some false ∈ l then some false else l.getLast?.getD cur := by
  induction l generalizing i cur with
  | nil => simp [chainAux]
  | cons a rest ih =>
    unfold chainAux
    by_cases ha : a = some false
    · simp [ha]
    · rw [if_neg ha]
      simp only [ih]
      have hne : ¬ (some false = a) := fun h => ha h.symm
      by_cases hr : some false ∈ rest
      · simp [hr]
      · simp only [hr, List.mem_cons, hne, or_self, if_false]
        cases rest with
        | nil => simp
        | cons b rest' =>
          rw [List.getLast?_cons_cons]
          cases hl : (b :: rest').getLast? with
          | none => simp [List.getLast?_eq_none_iff] at hl
          | some x => simp

theorem tlsInterceptEnabled_asks (cfg : Cfg) (answers : List (Option Bool)) :
    ∀ e ∈ (tlsInterceptEnabled cfg answers).2, e.isAsk = true := by
  unfold tlsInterceptEnabled
  split
  · simp
  · exact chainAux_asks answers 0 (some true)

theorem genStep_gen (env : Env) (fs : List Str) (k : Nat) (path : Str) (call : Str → Call) :
    ∀ e ∈ (genStep env fs k path call).1, e.isCache = true := by
  unfold genStep
  split
  · simp [Eff.isCache]
  · cases env.cmd k <;> simp [Eff.isCache]

/-- a step that ends `done` leaves its file present -/
theorem genStep_done (env : Env) (fs : List Str) (k : Nat) (path : Str) (call : Str → Call)
    (hout : ∀ tmp, (call tmp).out = path)
    (h : (genStep env fs k path call).2.2.2 = .done) :
    path ∈ (genStep env fs k path call).2.1 := by
  unfold genStep at h ⊢
  by_cases hc : fs.contains path = true
  · simp only [hc, if_true]; simpa using hc
  · simp only [hc] at h ⊢
    cases hk : env.cmd k <;> simp [hk] at h ⊢
    simp [hout]

/-- a step only ever adds files -/
theorem genStep_mono (env : Env) (fs : List Str) (k : Nat) (path : Str) (call : Str → Call) (p : Str)
    (hp : p ∈ fs) : p ∈ (genStep env fs k path call).2.1 := by
  unfold genStep
  split
  · exact hp
  · cases env.cmd k <;> simp [hp]

/-- the only invocation a step makes is `call (env.tmp k)` -/
theorem genStep_calls (env : Env) (fs : List Str) (k : Nat) (path : Str) (call : Str → Call) (c : Call) (o : CmdOut)
    (h : Eff.openssl c o ∈ (genStep env fs k path call).1) : c = call (env.tmp k) := by
  unfold genStep at h
  split at h
  · simp at h
  · cases hk : env.cmd k <;> simp [hk] at h <;> exact h.1

/-- a step whose file is present makes no invocation -/
theorem genStep_present (env : Env) (fs : List Str) (k : Nat) (path : Str) (call : Str → Call)
    (hp : path ∈ fs) : genStep env fs k path call = ([.isfile path true], fs, k, .done) := by
  unfold genStep
  simp [hp]

theorem andThen_mem (r : List Eff × List Str × Nat × GenEnd)
    (next : List Str → Nat → List Eff × List Str × Nat × GenEnd) (e : Eff)
    (h : e ∈ (andThen r next).1) : e ∈ r.1 ∨ e ∈ (next r.2.1 r.2.2.1).1 := by
  unfold andThen at h
  split at h
  · simpa using h
  · exact Or.inl h

theorem andThen_done (r : List Eff × List Str × Nat × GenEnd)
    (next : List Str → Nat → List Eff × List Str × Nat × GenEnd)
    (h : (andThen r next).2.2.2 = .done) :
    r.2.2.2 = .done ∧ (next r.2.1 r.2.2.1).2.2.2 = .done ∧ (andThen r next).2.1 = (next r.2.1 r.2.2.1).2.1 := by
  unfold andThen at h ⊢
  split
  · rename_i hd
    simp only [hd] at h
    exact ⟨hd, h, rfl⟩
  · rename_i hd
    split at h
    · rename_i hd'; exact absurd hd' (by simpa using hd)
    · exact absurd h (by simpa using hd)

/-! the three invocations of `gen_ca_signed_certificate`, named -/

def pubCall (cfg : Cfg) (env : Env) (host : Str) (tmp : Str) : Call :=
  genPublicKey env.isIp cfg.openssl (pubKeyPath (cfg.caCertDir.getD []) host) (cfg.caSigningKeyFile.getD []) []
    (buildSubject env.subject) (some [stripBrackets host]) none validityDays tmp

def csrCall (cfg : Cfg) (host : Str) : Call :=
  genCsr cfg.openssl (csrPath (cfg.caCertDir.getD []) host) (cfg.caSigningKeyFile.getD []) []
    (pubKeyPath (cfg.caCertDir.getD []) host)

def signCall (cfg : Cfg) (env : Env) (host : Str) (tmp : Str) : Call :=
  signCsr env.isIp cfg.openssl (csrPath (cfg.caCertDir.getD []) host) (certFilePath (cfg.caCertDir.getD []) host)
    (cfg.caKeyFile.getD []) [] (cfg.caCertFile.getD []) env.serial (some [stripBrackets host]) none validityDays tmp

/-- one of the three invocations, with some temp name -/
def IsCertCall (cfg : Cfg) (env : Env) (host : Str) (c : Call) : Prop :=
  (∃ tmp, c = pubCall cfg env host tmp) ∨ c = csrCall cfg host ∨ (∃ tmp, c = signCall cfg env host tmp)

theorem genCaSigned_gen (cfg : Cfg) (env : Env) (host : Str) (fs : List Str) :
    ∀ e ∈ (genCaSigned cfg env host fs).1, e.isCache = true := by
  intro e he
  unfold genCaSigned at he
  rcases andThen_mem _ _ e he with he | he
  · rcases andThen_mem _ _ e he with he | he
    · exact genStep_gen _ _ _ _ _ e he
    · exact genStep_gen _ _ _ _ _ e he
  · exact genStep_gen _ _ _ _ _ e he

theorem genCaSigned_calls (cfg : Cfg) (env : Env) (host : Str) (fs : List Str) (c : Call) (o : CmdOut)
    (h : Eff.openssl c o ∈ (genCaSigned cfg env host fs).1) : IsCertCall cfg env host c := by
  unfold genCaSigned at h
  rcases andThen_mem _ _ _ h with h | h
  · rcases andThen_mem _ _ _ h with h | h
    · exact Or.inl ⟨_, genStep_calls _ _ _ _ _ _ _ h⟩
    · exact Or.inr (Or.inl (genStep_calls _ _ _ _ _ _ _ h))
  · exact Or.inr (Or.inr ⟨_, genStep_calls _ _ _ _ _ _ _ h⟩)

/-- generation that ends normally leaves the leaf in the cache -/
theorem genCaSigned_done (cfg : Cfg) (env : Env) (host : Str) (fs : List Str)
    (h : (genCaSigned cfg env host fs).2.2.2 = .done) :
    certFilePath (cfg.caCertDir.getD []) host ∈ (genCaSigned cfg env host fs).2.1 := by
  unfold genCaSigned at h ⊢
  obtain ⟨_, h3, heq⟩ := andThen_done _ _ h
  rw [heq]
  exact genStep_done _ _ _ _ _ (fun _ => rfl) h3

/-! ### `generate_upstream_certificate` / `wrap_client` -/

theorem generate_gen (cfg : Cfg) (env : Env) (host : Str) (effs : List Eff) (fs : List Str) (g : GenEnd)
    (h : generateUpstreamCertificate cfg env host = some (effs, fs, g)) : ∀ e ∈ effs, e.isCache = true := by
  unfold generateUpstreamCertificate at h
  split at h
  · simp at h
  · dsimp only at h
    split at h
    · simp only [Option.some.injEq, Prod.mk.injEq] at h
      obtain ⟨rfl, _, _⟩ := h
      simp [Eff.isCache]
    · simp only [Option.some.injEq, Prod.mk.injEq] at h
      obtain ⟨rfl, _, _⟩ := h
      intro e he
      simp only [List.mem_cons] at he
      rcases he with rfl | he
      · rfl
      · exact genCaSigned_gen _ _ _ _ e he

theorem generate_calls (cfg : Cfg) (env : Env) (host : Str) (effs : List Eff) (fs : List Str) (g : GenEnd)
    (h : generateUpstreamCertificate cfg env host = some (effs, fs, g)) (c : Call) (o : CmdOut)
    (hc : Eff.openssl c o ∈ effs) : IsCertCall cfg env host c := by
  unfold generateUpstreamCertificate at h
  split at h
  · simp at h
  · dsimp only at h
    split at h
    · simp only [Option.some.injEq, Prod.mk.injEq] at h
      obtain ⟨rfl, _, _⟩ := h
      simp at hc
    · simp only [Option.some.injEq, Prod.mk.injEq] at h
      obtain ⟨rfl, _, _⟩ := h
      simp only [List.mem_cons, reduceCtorEq, false_or] at hc
      exact genCaSigned_calls _ _ _ _ _ _ hc

/-- warm cache: the leaf is there ⇒ one `isfile` probe, no invocation, nothing changes -/
theorem generate_warm (cfg : Cfg) (env : Env) (host : Str)
    (hflags : (truthy cfg.caCertDir && truthy cfg.caSigningKeyFile && truthy cfg.caCertFile && truthy cfg.caKeyFile) = true)
    (hw : certFilePath (cfg.caCertDir.getD []) host ∈ env.fs) :
    generateUpstreamCertificate cfg env host =
      some ([.isfile (certFilePath (cfg.caCertDir.getD []) host) true], env.fs, .done) := by
  unfold generateUpstreamCertificate
  simp [hflags, hw]

/-- normal end ⇒ the leaf is in the cache afterwards -/
theorem generate_done (cfg : Cfg) (env : Env) (host : Str) (effs : List Eff) (fs : List Str)
    (h : generateUpstreamCertificate cfg env host = some (effs, fs, .done)) :
    certFilePath (cfg.caCertDir.getD []) host ∈ fs := by
  unfold generateUpstreamCertificate at h
  split at h
  · simp at h
  · dsimp only at h
    split at h
    · rename_i hc
      simp only [Option.some.injEq, Prod.mk.injEq] at h
      obtain ⟨_, rfl, _⟩ := h
      simpa using hc
    · simp only [Option.some.injEq, Prod.mk.injEq] at h
      obtain ⟨_, rfl, hd⟩ := h
      exact genCaSigned_done _ _ _ _ hd

/-- `wrap_client()` in terms of `generate_upstream_certificate`: either the flags check raises, or the
    generation effects come first and — only when generation ended normally — the client-side wrap
    with the cache path of the host follows; the files afterwards are those generation left -/
theorem wrapClient_spec (cfg : Cfg) (env : Env) (host : Str) :
    (generateUpstreamCertificate cfg env host = none ∧ (wrapClient cfg env host).1 = [] ∧
      (wrapClient cfg env host).2.fs = env.fs ∧ (wrapClient cfg env host).2.res = .raised .httpProtocol) ∨
    ∃ effs fs g, generateUpstreamCertificate cfg env host = some (effs, fs, g) ∧
      (wrapClient cfg env host).2.fs = fs ∧
      ((g ≠ .done ∧ (wrapClient cfg env host).1 = effs ∧ (wrapClient cfg env host).2.res ≠ .sslSocket) ∨
       (g = .done ∧ (wrapClient cfg env host).1 = effs ++
          [.wrapClient (cfg.caSigningKeyFile.getD []) (certFilePath (cfg.caCertDir.getD []) host) [ack]
            env.clientWrap])) := by
  unfold wrapClient
  cases hg : generateUpstreamCertificate cfg env host with
  | none => exact Or.inl ⟨rfl, rfl, rfl, rfl⟩
  | some r =>
    obtain ⟨effs, fs, g⟩ := r
    refine Or.inr ⟨effs, fs, g, rfl, ?_⟩
    cases g with
    | assertion => exact ⟨rfl, Or.inl ⟨by simp, rfl, by simp⟩⟩
    | timeout => exact ⟨rfl, Or.inl ⟨by simp, rfl, by simp⟩⟩
    | done =>
      cases env.clientWrap <;> exact ⟨rfl, Or.inr ⟨rfl, rfl⟩⟩

/-- `on_request_complete` with interception on and the upstream handshake done -/
theorem onConnect_ok (cfg : Cfg) (answers : List (Option Bool)) (env : Env) (host : Str)
    (hon : (tlsInterceptEnabled cfg answers).1 = true)
    (hh : env.handshake (upstreamParams cfg host) = .ok) :
    onConnect cfg answers env host =
      (.queueClient ack :: ((tlsInterceptEnabled cfg answers).2 ++
          .wrapUpstream (upstreamParams cfg host) .ok :: (wrapClient cfg env host).1),
       (wrapClient cfg env host).2) := by
  simp [onConnect, hon, intercept, hh]

/-- … and with the upstream handshake failed: nothing after the upstream wrap -/
theorem onConnect_fail (cfg : Cfg) (answers : List (Option Bool)) (env : Env) (host : Str)
    (hon : (tlsInterceptEnabled cfg answers).1 = true)
    (hh : env.handshake (upstreamParams cfg host) ≠ .ok) :
    (onConnect cfg answers env host).1 =
      .queueClient ack :: ((tlsInterceptEnabled cfg answers).2 ++
          [.wrapUpstream (upstreamParams cfg host) (env.handshake (upstreamParams cfg host))]) ∧
    (onConnect cfg answers env host).2.fs = env.fs ∧
    (onConnect cfg answers env host).2.clientBuf = [ack] ∧
    (onConnect cfg answers env host).2.clientTls = false ∧
    (onConnect cfg answers env host).2.upstreamTls = false ∧
    (onConnect cfg answers env host).2.upstreamDetached = true ∧
    ((onConnect cfg answers env host).2.res = .teardown ∨ (onConnect cfg answers env host).2.res = .raised .osError) ∧
    (env.handshake (upstreamParams cfg host) ≠ .osError → (onConnect cfg answers env host).2.res = .teardown) := by
  simp only [onConnect, hon, if_true, intercept]
  cases h : env.handshake (upstreamParams cfg host) <;> simp_all

/-- … and with interception off -/
theorem onConnect_off (cfg : Cfg) (answers : List (Option Bool)) (env : Env) (host : Str)
    (hoff : (tlsInterceptEnabled cfg answers).1 = false) :
    onConnect cfg answers env host =
      (.queueClient ack :: (tlsInterceptEnabled cfg answers).2,
       { res := .plain, clientTls := false, upstreamTls := false, upstreamDetached := false,
         clientBuf := [ack], fs := env.fs }) := by
  simp [onConnect, hoff]

end Px.Intercept
