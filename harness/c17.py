"""C17 — threaded, local-threadless and remote-threadless modes behave identically.

Three kinds of case.

`h`    handler level, model vs code: one conversation script (readiness + syscall outcomes per
       round, `is_inactive()` clock outcomes, `_flush` select/send outcomes) is run on the REAL
       HttpProtocolHandler (+ HttpProxyPlugin / web / auth plugin) twice —
         * executor style: get_events → ready ⊆ events → handle_events only when something is
           ready, reaper after the round, `shutdown()` as `Threadless._cleanup` does;
         * through its real threaded `run()` (real `_run_once` / `_selected_events` / `shutdown` /
           `_flush`) with a scripted selector —
       and compared with `Modes.localRun` / `Modes.threadedRun` of PxModel/Modes.lean.
`fd`   descriptor bookkeeping of the three dispatch paths on real descriptors: real
       `LocalFdExecutor.work`, real `delegate_work_to_pool` + `RemoteFdExecutor.receive_from_work_queue`
       (send_handle / recv_handle / dup / os.close(work_id)), real `start_threaded_work`.
`ho`   the (address, descriptor) hand-off of an accepted connection to a remote worker: REAL
       `delegate_work_to_pool` in k threads on one real Pipe + Lock with an instrumented lock /
       connection / send_handle that let a turn-based scheduler force any interleaving (a thread that
       finds the lock held just loses its turn), REAL `RemoteFdExecutor.receive_from_work_queue`
       on the other end; vs `Modes.hrun lockedProg`; oracle: every hand-off's address and descriptor
       arrive as a pair, in order, no exception.
`hf`   framing of that hand-off under the configuration dimension: unix-socket flag set or not x
       connections accepted on a TCP listener (--ports) or on the unix listener; sender and receiver
       must agree on whether an address precedes the descriptor; vs `Modes.framedPipe` / `recvFramed`.
`q`    the acceptor -> local executor hand-off queue: REAL `NonBlockingQueue`, N puts (N in {0, 1, 99,
       100, 101, 250, 1000} and mixed put/get sequences) then gets: all back, in order, then Empty;
       vs `Modes.qrun`.
`live` LIVE differential run: one scenario of the corpus against real `proxy.Proxy(...)` instances
       in the three modes (acceptors = workers = nw) on loopback with in-process origin servers;
       per mode the canonical transcript (per client: bytes received then EOF/RST; per origin
       connection: bytes received then how it ended; descriptor leak; processes alive) — the
       oracle requires the three to be equal.  Runtime behaviour no Lean model exhibits (process
       creation, send_handle, thread scheduling, load balancing) is exercised only here.

Each Proxy start costs a few 100 ms: the live cases of a run are observed once per
(mode, nw, flag set) in a private pool of forked, non-daemonic worker processes (NO_FORK for the
engine), and `impl` / `model_lines` / `oracle` read that one observation.
"""
import os
import re
import sys
import json
import time
import zlib
import errno
import shutil
import signal
import socket
import logging
import tempfile
import threading
import selectors
import multiprocessing

from harness.common import hx, VERIF
from harness import sim
from harness import c01 as R

PROPERTY = 'C17'
LEAN_TARGETS = ['PxProofs.C17']
THEOREMS = [
    'Px.Modes.C17_same_step', 'Px.Modes.C17_C01_in_all_modes', 'Px.Modes.C17_fd_bookkeeping',
    'Px.Modes.C17_local_remote_identical', 'Px.Modes.C17_same_transcript_partial',
    'Px.Modes.C17_flush_vs_deferral', 'Px.Modes.C17_raised_pending_differs', 'Px.Modes.C17_raised_difference',
    'Px.Modes.C17_handoff_atomic', 'Px.Modes.C17_handoff_needs_lock',
    'Px.Modes.C17_handoff_framing', 'Px.Modes.C17_handoff_framing_mismatch', 'Px.Idle.C17_idle_reaping_bounded',
    'Px.Modes.C17_handoff_queue_lossless', 'Px.Modes.C17_handoff_queue_bounded_loses',
]
NO_FORK = True
RULE = ('h: conversation script (rounds of readiness + recv/send outcomes, is_inactive clock outcomes, _flush '
        'script) after a real CONNECT / GET / 400 / 404 / 407 / 502 establishment, run executor-style and through '
        'the real threaded run() vs Modes.localRun / Modes.threadedRun; fd: dispatch path x finished; ho: every '
        'schedule of 2 delegate threads up to length 6 (8 thorough), of 3 up to length 3 (5), random schedules of '
        '3-5 threads, each completed deterministically; live: '
        'scenario x nw, each observed under the three modes with real Proxy processes; distinct by canonical '
        'JSON; non-trivial = h case that makes at least one handle_events call / every live case')
ASSUMPTIONS = [
    'default configuration at handler level: no HttpProxyBasePlugin chain, no connection pool, no TLS',
    'corresponding scripts: the executor script has the same ticks as the threaded one and the reaper outcome '
    'after round i is the is_inactive() clock outcome of threaded iteration i+1 (Modes.shiftRounds); the first '
    'threaded check is negative (fresh handler)',
    'PARTIAL by design: process creation, send_handle/recv_handle descriptor passing, thread scheduling and '
    'acceptor load balancing are not modelled; they are exercised by the live differential runs only, for the '
    'scenario corpus run',
    'live runs: loopback, plain-socket origin servers in the harness process, response compression off '
    '(--min-compression-length huge: gzip embeds the wall-clock second), Via header identical across modes; '
    'read chunk boundaries are not compared, only concatenated bytes and data-before-close order',
    'live scenarios avoid conversations whose outcome depends on a race in every mode alike (client aborting '
    'mid-transfer, pipelined requests: findings D13/D12 under C04)',
    'an exception escaping handle_events while client output is pending (finding D30: threaded _flush() delivers '
    'it, threadless drops it) is outside the proved theorem (hypothesis hx of C17_same_transcript_partial); the '
    'handler-level comparison checks that model and code agree on that difference, the cross-mode oracle judges '
    'it only when known_findings.json lists D30',
]
TRUSTED_EXTRA = [
    'live differential harness: scenario corpus, origin servers, transcript canonicaliser, /proc scans',
]
EXHAUSTIVE = {}
EXPLANATION = ('PARTIAL: theorems cover the handler-level equivalence of the three drivers over the common '
               'Relay model; the runtime part of the property (processes, descriptor passing, scheduling) is '
               'only observed on the live differential runs')

logging.disable(logging.CRITICAL)

MODES = {
    'threaded': ['--threaded'],
    'local': ['--threadless', '--local-executor', '1'],
    'remote': ['--threadless', '--local-executor', '0'],
}
MODE_ORDER = ['threaded', 'local', 'remote']


def _finding_listed(fid):
    try:
        with open(os.path.join(VERIF, 'known_findings.json')) as f:
            return any(x.get('id') == fid and x.get('property') == PROPERTY and x.get('status') == 'open'
                       for x in json.load(f)['findings'])
    except Exception:
        return False


D17_LISTED = _finding_listed('D30')
D17_SIG = 'exception-with-pending-output: threaded delivers it, threadless drops it'


def _key(case):
    return json.dumps(case, sort_keys=True)


# ==========================================================================
# h: handler level
# ==========================================================================

class _ScriptEnd(Exception):
    pass


def _reaps(case):
    exp = case['exp']
    n = len(case['ticks'])
    return [exp[i + 1] if i + 1 < n else None for i in range(n)]


def _set_scripts(cs, us, t):
    fl, cr, cso, ur, uso = t
    cs.clear_scripts()
    cs.script_recv(R.recv_outcome(cr))
    cs.script_send(R.send_outcome(cso))
    if us is not None:
        us.clear_scripts()
        us.script_recv(R.recv_outcome(ur))
        us.script_send(R.send_outcome(uso))


def _recv_bytes(log):
    return b''.join(e[2] for e in log if e[0] == 'recv' and e[1] == 'data')


def _final(end, calls, shut, closed, rel, toc, tou, frc, fru, lost, fds):
    return ('end=%s calls=%d shut=%s closed=%d rel=%d toC=%s toU=%s frC=%s frU=%s lost=%s fds=%d' % (
        end, calls, shut, closed, rel, R.digest(toc), R.digest(tou), R.digest(frc), R.digest(fru),
        R.digest(lost), fds))


def run_local(case):
    """executor style: what Threadless._run_once / _run_forever / _cleanup do with one work"""
    args, opts, req, kind = R._args(case)
    with sim.World(args=args, **opts) as w:
        h, cs, cp, us = R.establish(w, case)
        timeout = float(w.flags.timeout)
        shadow = R.Shadow(w.flags)
        nc0 = len(cs.log)
        nu0 = len(us.log) if us is not None else 0
        c0 = len(cs.sent)
        u0 = len(us.sent) if us is not None else 0
        obs = ['init ' + R.st_str(w, h, cs, us, 'None', 'None')]
        apps, calls, end = [], 0, 'script'
        reaps = _reaps(case)
        for i, t in enumerate(case['ticks']):
            fl = t[0]
            bits = [c == '1' for c in fl[1:5]]
            bits = [a and b for a, b in zip(bits, w.interest(h, cs, us))]
            app = 'a/None/None/0'
            if any(bits):
                Rd, Wr = [], []
                if bits[0]:
                    Rd.append(cs.fileno())
                if bits[1]:
                    Wr.append(cs.fileno())
                if us is not None and not us.closed_by_proxy:
                    if bits[2]:
                        Rd.append(us.fileno())
                    if bits[3]:
                        Wr.append(us.fileno())
                _set_scripts(cs, us, t)
                nc = len(cs.log)
                nu = len(us.log) if us is not None else 0
                r = w.tick(h, Rd, Wr)
                calls += 1
                clog = cs.log[nc:]
                if kind == 'http' and any(e[0] == 'recv' and e[1] == 'data' for e in clog):
                    app = shadow.feed([e for e in clog if e[0] == 'recv'][0][2])
                ret = 'c' if r is False else 't' if r is True else 'x'
                obs.append('ret=%s %s' % (ret, R.st_str(w, h, cs, us, R._trace(cs, nc),
                                                        R._trace(us, nu) if us is not None else 'None')))
                if ret != 'c':
                    apps.append(app)
                    end = 'teardown' if ret == 't' else 'raised'
                    break
            apps.append(app)
            if reaps[i] is not None:
                w.clock.now = h.last_activity + (timeout + 1.0 if reaps[i] else 0.0)
                if h.is_inactive():
                    end = 'inactive'
                    break
        pending = sim.flat(h.work)
        shut = '-'
        if end != 'script':
            cs.clear_scripts()
            h.shutdown()            # what Threadless._cleanup does next
            shut = 'None'
        closed = cs.closed_by_proxy
        cp.pump()
        upeer = b''
        if us is not None:
            w.upstreams[0][1].pump()
            upeer = bytes(w.upstreams[0][1].inbox)
        res = {
            'apps': apps, 'end': end, 'calls': calls, 'pending': pending,
            'toC': bytes(cs.sent)[c0:], 'toU': bytes(us.sent)[u0:] if us is not None else b'',
            'cpeer': bytes(cp.inbox), 'cpeer_eof': cp.eof, 'upeer': upeer, 'closed': closed,
            'lost': sim.flat(h.work) if end != 'script' else b'',
            'client_send_failed': any(e[0] == 'send' and not isinstance(e[2], int) and e[2] != 'blocking'
                                      for e in cs.log[nc0:]),
        }
        res['line'] = ' | '.join(obs) + ' || ' + _final(
            end, calls, shut, closed, bool(cs.shutdown_calls) and end != 'script', res['toC'], res['toU'],
            _recv_bytes(cs.log[nc0:]), _recv_bytes(us.log[nu0:]) if us is not None else b'', res['lost'], closed)
        return res


class _Sel(sim.ScriptedSelector):
    """handler.selector in threaded mode: every select() is answered by the runner"""

    def __init__(self, runner):
        super().__init__([])
        self.runner = runner

    def select(self, timeout=None):
        self.selects += 1
        return self.runner.on_select(self)


class _Threaded:
    def __init__(self, case):
        self.case = case

    def on_select(self, sel):
        cs, us = self.cs, self.us
        if self.in_flush:
            if self.frozen or not self.flush:
                self.looping = True
                raise AssertionError('flush script exhausted')
            e = self.flush.pop(0)
            if e == 't':
                return []
            cs.clear_scripts()
            cs.script_send(R.send_outcome(e[1]))
            return [(k, k.events) for k in sel.map.values()]
        i = self.pos
        assert i < len(self.case['ticks'])      # is_inactive() ends the script first
        self.pos += 1
        t = self.case['ticks'][i]
        _set_scripts(cs, us, t)
        bits = [c == '1' for c in t[0][1:5]]
        out = []
        for fd, k in sel.map.items():
            mask = 0
            if fd == cs.fileno():
                if bits[0]:
                    mask |= k.events & selectors.EVENT_READ
                if bits[1]:
                    mask |= k.events & selectors.EVENT_WRITE
            elif us is not None and fd == self.ufd:
                if bits[2]:
                    mask |= k.events & selectors.EVENT_READ
                if bits[3]:
                    mask |= k.events & selectors.EVENT_WRITE
            if mask:
                out.append((k, mask))
        return out

    def freeze(self, end):
        """the loop is over for the comparison: remember what the peers have got so far"""
        cs, us = self.cs, self.us
        self.frozen = True
        self.end = end
        self.snap = {'toC': bytes(cs.sent)[self.c0:], 'toU': bytes(us.sent)[self.u0:] if us is not None else b'',
                     'frC': _recv_bytes(cs.log[self.nc0:]),
                     'frU': _recv_bytes(us.log[self.nu0:]) if us is not None else b''}

    def go(self):
        case = self.case
        args, opts, req, kind = R._args(case)
        with sim.World(args=args, threadless=False, **opts) as w:
            h, cs, cp, us = R.establish(w, case)
            assert h.selector is not None
            h.selector.close()
            self.cs, self.us = cs, us
            self.ufd = us.fileno() if us is not None else None
            self.pos = 0
            self.in_flush = False
            self.flush_entered = False
            self.looping = False
            self.frozen = False
            self.end = None
            self.flush = [e if e == 't' else list(e) for e in case['flush']]
            self.nc0, self.nu0 = len(cs.log), (len(us.log) if us is not None else 0)
            self.c0, self.u0 = len(cs.sent), (len(us.sent) if us is not None else 0)
            h.selector = _Sel(self)
            timeout = float(w.flags.timeout)
            shadow = R.Shadow(w.flags)
            obs = ['init ' + R.st_str(w, h, cs, us, 'None', 'None')]
            apps = []
            calls = [0]
            orig_ii, orig_he, orig_fl = h.is_inactive, h.handle_events, h._flush

            def ii():
                i = self.pos
                if i >= len(case['ticks']):
                    self.freeze('script')
                    raise _ScriptEnd()
                w.clock.now = h.last_activity + (timeout + 1.0 if case['exp'][i] else 0.0)
                r = orig_ii()
                if r:
                    self.end = 'inactive'
                return r

            async def interest():
                ev = await h.get_events()
                c = ev.get(cs.fileno(), 0)
                u = ev.get(us.fileno(), 0) if us is not None and not us.closed_by_proxy else 0
                return (bool(c & selectors.EVENT_READ), bool(c & selectors.EVENT_WRITE),
                        bool(u & selectors.EVENT_READ), bool(u & selectors.EVENT_WRITE))

            async def he(readables, writables):
                nc = len(cs.log)
                nu = len(us.log) if us is not None else 0
                exc = None
                r = None
                try:
                    r = await orig_he(readables, writables)
                    ret = 't' if r else 'c'
                except Exception as e:      # noqa: BLE001
                    ret, exc = 'x', e
                calls[0] += 1
                clog = cs.log[nc:]
                app = 'a/None/None/0'
                if kind == 'http' and any(e[0] == 'recv' and e[1] == 'data' for e in clog):
                    app = shadow.feed([e for e in clog if e[0] == 'recv'][0][2])
                while len(apps) < self.pos - 1:
                    apps.append('a/None/None/0')
                apps.append(app)
                it = await interest()
                obs.append('ret=%s mf=%d rt=%d wt=%d cs=%s us=%s cb=%s ub=%s ev=%s' % (
                    ret, h.must_flush_before_shutdown, h.reads_teared, h.writes_teared, R._trace(cs, nc),
                    R._trace(us, nu) if us is not None else 'None', R.buf_str(sim.elems(h.work)),
                    R.buf_str(R._up_elems(h)), ''.join('1' if x else '0' for x in it)))
                if exc is not None:
                    self.end = 'raised'
                    raise exc
                if r:
                    self.end = 'teardown'
                return r

            def fl():
                self.in_flush = True
                self.flush_entered = True
                return orig_fl()

            h.is_inactive = ii
            h.handle_events = he
            h._flush = fl
            pending = [None]
            orig_sd = h.shutdown

            def sd():
                pending[0] = sim.flat(h.work)
                cs.clear_scripts()
                return orig_sd()
            h.shutdown = sd
            try:
                h.run()                     # the real threaded loop, real shutdown
            except AssertionError:
                self.looping = True
            end = self.end
            last = [e for e in cs.log if e[0] == 'send']
            if end == 'script':
                snap = self.snap
                shut, closed, rel, lost, fds = '-', False, False, b'', False
            else:
                snap = {'toC': bytes(cs.sent)[self.c0:], 'toU': bytes(us.sent)[self.u0:] if us is not None else b'',
                        'frC': _recv_bytes(cs.log[self.nc0:]),
                        'frU': _recv_bytes(us.log[self.nu0:]) if us is not None else b''}
                shut = 'None'
                if self.flush_entered:
                    shut = 'drained'
                    if self.looping:
                        shut = 'looping'
                    elif last and last[-1][2] == 'brokenPipe':
                        shut = 'brokenPipe'
                    elif last and last[-1][2] in ('oserror', 'wantWrite'):
                        shut = 'osError'
                closed = cs.closed_by_proxy and shut != 'looping'
                rel = bool(cs.shutdown_calls) and shut != 'looping'
                lost = sim.flat(h.work)
                fds = closed
            cp.pump()
            upeer = b''
            if us is not None:
                w.upstreams[0][1].pump()
                upeer = bytes(w.upstreams[0][1].inbox)
            while len(apps) < len(case['ticks']):
                apps.append('a/None/None/0')
            res = {'apps': apps, 'end': end, 'calls': calls[0], 'pending': pending[0], 'toC': snap['toC'],
                   'toU': snap['toU'], 'cpeer': bytes(cp.inbox), 'cpeer_eof': cp.eof, 'upeer': upeer,
                   'closed': closed, 'lost': lost, 'shut': shut,
                   'client_send_failed': any(e[0] == 'send' and not isinstance(e[2], int) and e[2] != 'blocking'
                                             for e in cs.log[self.nc0:])}
            res['line'] = ' | '.join(obs) + ' || ' + _final(
                end, calls[0], shut, closed, rel, snap['toC'], snap['toU'], snap['frC'], snap['frU'], lost, fds)
            return res


def run_threaded(case):
    return _Threaded(case).go()


_HCACHE = {}


def _h(case):
    k = _key(case)
    if k not in _HCACHE:
        if len(_HCACHE) > 20000:
            _HCACHE.clear()
        out = []
        for fn, name in ((run_local, 'local'), (run_threaded, 'threaded')):
            try:
                out.append(fn(case))
            except Exception as e:      # noqa: BLE001 - a crash of the code under test is an observation
                import traceback
                where = traceback.format_exc().strip().split('\n')[-3].strip()[:160]
                out.append({'line': 'harness-exc %s: %s @ %s' % (type(e).__name__, str(e)[:120], where),
                            'apps': [], 'end': 'exc', 'calls': 0, 'pending': b'', 'toC': b'', 'toU': b'',
                            'cpeer': b'', 'cpeer_eof': False, 'upeer': b'', 'closed': False, 'lost': b'',
                            'shut': 'exc', 'client_send_failed': False, 'crashed': True})
        _HCACHE[k] = tuple(out)
    return _HCACHE[k]


def _h_model_line(case, mode, apps):
    kind, cb, ub, mf, rt = R._init_state(case['setup'], case.get('max'), R._key(case.get('extra', [])))
    mx = case.get('max')
    if mx is None:
        from proxy.common.constants import DEFAULT_MAX_SEND_SIZE
        mx = DEFAULT_MAX_SEND_SIZE
    reaps = _reaps(case)
    toks = []
    for i, t in enumerate(case['ticks']):
        fl, cr, cso, ur, uso = t
        app = apps[i] if i < len(apps) else 'a/None/None/0'
        tick = ':'.join([fl, R.recv_tok(cr), R.send_tok(cso), R.recv_tok(ur), R.send_tok(uso), app])
        if mode == 'threaded':
            pre = str(int(case['exp'][i]))
        else:
            pre = 'n' if reaps[i] is None else str(int(reaps[i]))
        toks.append(pre + '@' + tick)
    fl = '.' if not case['flush'] else ','.join('t' if e == 't' else 'y' + R.send_tok(e[1]) for e in case['flush'])

    def b(elements):
        return '.' if not elements else ','.join(hx(e) for e in elements)
    return 'modes run %s %s %d %d %d %s %s %s %s' % (mode, kind, mx, mf, rt, b(cb), b(ub), fl, ' '.join(toks))


def _h_oracle(case):
    """Cross-mode equality on the implementation only: what the far ends really read
    (client peer, upstream peer), EOF at the client, and how the loop ended."""
    lo, th = _h(case)
    for name, x in (('local', lo), ('threaded', th)):
        if x.get('crashed'):
            return '%s run crashed: %s' % (name, x['line'][:120])
    if lo['client_send_failed'] or th['client_send_failed']:
        return None                 # the client stopped accepting: outside the quantifier
    if th.get('shut') == 'looping':
        return None
    raised_pending = (lo['end'] == 'raised' and lo['pending']) or (th['end'] == 'raised' and th['pending'])
    if raised_pending and not D17_LISTED:
        return None                 # finding D30 (see ASSUMPTIONS); judged when listed
    if lo['end'] != th['end']:
        return 'loop-ends-differ: local=%s threaded=%s' % (lo['end'], th['end'])
    if raised_pending:
        if lo['cpeer'] != th['cpeer']:
            return D17_SIG
        return None
    if lo['cpeer'] != th['cpeer']:
        return 'client-bytes-differ: local=%d threaded=%d' % (len(lo['cpeer']), len(th['cpeer']))
    if lo['upeer'] != th['upeer']:
        return 'upstream-bytes-differ: local=%d threaded=%d' % (len(lo['upeer']), len(th['upeer']))
    if lo['end'] != 'script' and (lo['cpeer_eof'] != th['cpeer_eof'] or not lo['cpeer_eof']):
        return 'client-close-differs: local eof=%s threaded eof=%s' % (lo['cpeer_eof'], th['cpeer_eof'])
    if lo['lost'] or th['lost']:
        return 'output-lost-at-close: local=%d threaded=%d' % (len(lo['lost']), len(th['lost']))
    return None


# ==========================================================================
# fd: descriptor bookkeeping on real descriptors
# ==========================================================================

def _fd_open(fd):
    try:
        os.fstat(fd)
        return True
    except OSError:
        return False


_FLAGS = {}


def _flags(mode):
    if mode not in _FLAGS:
        from proxy.common.flag import FlagParser
        if mode == 'threaded':
            _FLAGS[mode] = FlagParser.initialize(['--threaded'], threadless=False, threaded=True)
        elif mode == 'local':
            _FLAGS[mode] = FlagParser.initialize(['--threadless', '--local-executor', '1'], threadless=True)
        elif mode == 'remote-unix':
            _FLAGS[mode] = FlagParser.initialize(
                ['--threadless', '--local-executor', '0', '--unix-socket-path', '/tmp/c17-never-bound.sock',
                 '--ports', '0'], threadless=True)
        else:
            _FLAGS[mode] = FlagParser.initialize(['--threadless', '--local-executor', '0'], threadless=True)
    return _FLAGS[mode]


def _preload():
    """import and initialise in the parent what the forked observers need (fork is cheap, importing is not)"""
    import proxy.core.work.delegate     # noqa: F401
    import proxy.core.work.fd           # noqa: F401
    import proxy.proxy                  # noqa: F401
    for m in MODE_ORDER + ['remote-unix']:
        _flags(m)


_preload()


def _peer_eof(b, wait=2.0):
    b.settimeout(wait)
    try:
        return b.recv(65536) == b''
    except (socket.timeout, BlockingIOError):
        return False
    except OSError:
        return True


_FDCACHE = {}


def run_fd(case):
    """(line, peer_saw_eof), observed in a forked child: a wrong close() in the code under test must not be
    able to hit a descriptor of the harness process"""
    k = _key(case)
    if k in _FDCACHE:
        return _FDCACHE[k]
    rd, wr = os.pipe()
    pid = os.fork()
    if pid == 0:
        try:
            os.close(rd)
            signal.alarm(40)
            try:
                res = _run_fd_inner(case)
            except BaseException as e:      # noqa
                res = ('fds harness-exc %s' % type(e).__name__, False)
            os.write(wr, json.dumps(res).encode())
        finally:
            os._exit(0)
    os.close(wr)
    data = b''
    sel = selectors.DefaultSelector()
    sel.register(rd, selectors.EVENT_READ)
    t_end = time.time() + 45
    while time.time() < t_end:
        if sel.select(0.5):
            d = os.read(rd, 65536)
            if not d:
                break
            data += d
    sel.close()
    os.close(rd)
    try:
        os.kill(pid, signal.SIGKILL)
    except OSError:
        pass
    try:
        os.waitpid(pid, 0)
    except OSError:
        pass
    try:
        res = tuple(json.loads(data.decode()))
    except ValueError:
        res = ('fds crashed', False)
    _FDCACHE[k] = res
    return res


def _run_fd_inner(case):
    """returns (line, peer_saw_eof).  Descriptor names as in Modes.Desc."""
    mode, fin = case['mode'], bool(case['finished'])
    flags = _flags(mode)
    a, b = socket.socketpair()
    addr = ('127.0.0.1', 54321)
    opened = []
    extra = []
    try:
        if mode == 'local':
            from proxy.core.work.fd import LocalFdExecutor
            from proxy.common.backports import NonBlockingQueue
            q = NonBlockingQueue()
            ex = LocalFdExecutor('1', q, flags)
            ex.selector = selectors.DefaultSelector()
            q.put((a, addr))
            ex.receive_from_work_queue()            # real: initialize(work) -> work(fileno, addr, conn)
            wid = a.fileno()
            assert wid in ex.works and ex.works[wid].work.connection is a
            if fin:
                ex._cleanup(wid)
            if a.fileno() != -1:
                opened.append('accepted')
            ex.selector.close()
            ex.loop.close()
        elif mode == 'remote':
            from proxy.core.work.fd import RemoteFdExecutor
            from proxy.core.work import delegate_work_to_pool
            pr, pw = multiprocessing.Pipe(duplex=True)
            extra += [pr, pw]
            lock = multiprocessing.Lock()
            delegate_work_to_pool(os.getpid(), pw, lock, a, addr, None)     # real: send addr, send_handle, conn.close()
            ex = RemoteFdExecutor('1', pr, flags)
            ex.selector = selectors.DefaultSelector()
            ex.receive_from_work_queue()            # real: recv addr, recv_handle, work(fileno, addr, None) -> dup
            wid = list(ex.works)[0]
            dup = ex.works[wid].work.connection.fileno()
            if fin:
                ex._cleanup(wid)                    # real: shutdown() closes the dup, then os.close(work_id)
            if a.fileno() != -1:
                opened.append('accepted')
            if _fd_open(wid) and not (fin and False):
                opened.append('received')
            if dup != wid and _fd_open(dup):
                opened.append('dup')
            if not fin:
                for fd in (dup, wid):
                    try:
                        os.close(fd)
                    except OSError:
                        pass
            ex.selector.close()
        else:
            from proxy.core.work import start_threaded_work
            work, th = start_threaded_work(flags, a, addr)      # real thread running work.run()
            if fin:
                b.shutdown(socket.SHUT_WR)          # client half-close -> teardown -> shutdown()
                th.join(10)
                if th.is_alive():
                    return 'fds hang', False
            else:
                time.sleep(0.05)
            if a.fileno() != -1:
                opened.append('accepted')
            if not fin:
                b.shutdown(socket.SHUT_WR)
                th.join(10)
        eof = _peer_eof(b) if fin else None
        return 'fds open=%s bad=0' % (','.join(opened) if opened else '.'), eof
    finally:
        for s in (a, b):
            try:
                s.close()
            except OSError:
                pass
        for c in extra:
            try:
                c.close()
            except OSError:
                pass


# ==========================================================================
# ho: the (address, descriptor) hand-off to a remote worker under a forced interleaving
# ==========================================================================

def ho_full_sched(case):
    """the case's schedule followed by a completion suffix (two rounds of five steps per thread:
    the lock holder finishes in its block, then everybody else does)"""
    k = case['k']
    return list(case['sched']) + [t for _ in range(2) for t in range(k) for _ in range(5)]


class _Turns:
    """turn-based scheduler: every instrumented operation of delegate thread `tid` (lock acquire attempt,
    conn.send, send_handle, lock release) consumes the next schedule entry naming `tid`"""

    def __init__(self, sched, k):
        self.sched = list(sched)
        self.pos = 0
        self.cond = threading.Condition()
        self.done = set()
        self.log = []
        self.k = k

    def turn(self, tid):
        with self.cond:
            t_end = time.time() + 20
            while True:
                while self.pos < len(self.sched) and self.sched[self.pos] in self.done:
                    self.pos += 1
                    self.cond.notify_all()
                if self.pos >= len(self.sched):
                    return False            # schedule exhausted: free run
                if self.sched[self.pos] == tid:
                    return True             # caller performs its op and then calls step()
                if time.time() > t_end:
                    raise TimeoutError('turn never came')
                self.cond.wait(0.2)

    def step(self, tid, what):
        with self.cond:
            if what is not None:
                self.log.append((tid, what))
            if self.pos < len(self.sched) and self.sched[self.pos] == tid:
                self.pos += 1
            self.cond.notify_all()

    def finish(self, tid):
        with self.cond:
            self.done.add(tid)
            self.cond.notify_all()


class _HoLock:
    def __init__(self, real, turns, tid):
        self.real, self.turns, self.tid = real, turns, tid

    def __enter__(self):
        while True:
            scheduled = self.turns.turn(self.tid)
            if not scheduled:
                self.real.acquire()
                self.turns.step(self.tid, 'acq')
                return self
            if self.real.acquire(False):
                self.turns.step(self.tid, 'acq')
                return self
            self.turns.step(self.tid, None)     # blocked: the step is a no-op

    def __exit__(self, *a):
        self.turns.turn(self.tid)
        self.real.release()
        self.turns.step(self.tid, 'rel')
        return False

    def acquire(self, *a, **kw):
        self.__enter__()
        return True

    def release(self):
        self.__exit__()


class _HoConn:
    def __init__(self, real, turns, tid):
        self.real, self.turns, self.tid = real, turns, tid

    def send(self, obj):
        self.turns.turn(self.tid)
        self.real.send(obj)
        self.turns.step(self.tid, 'a')

    def fileno(self):
        return self.real.fileno()

    def __getattr__(self, name):
        return getattr(self.real, name)


_HOCACHE = {}


def run_ho(case):
    k_ = _key(case)
    if k_ not in _HOCACHE:
        _HOCACHE[k_] = _forked(_run_ho_inner, case, ('handoff crashed', 'crashed'))
    return _HOCACHE[k_]


def _ho_batch(cases):
    return [list(_run_ho_inner(c)) for c in cases]


def _prefetch_ho(cases, chunk=40):
    """observe many hand-off cases per forked child (a fork of the engine process costs more than a case)"""
    for kind, batch in (('ho', _ho_batch), ('hf', _hf_batch)):
        _prefetch_kind(cases, kind, batch, chunk)


def _prefetch_kind(cases, kind, batch, chunk):
    todo = [c for c in cases if c.get('kind') == kind and _key(c) not in _HOCACHE]
    for i in range(0, len(todo), chunk):
        part = todo[i:i + chunk]
        res = _forked(batch, part, None, budget=40 + 2 * len(part))
        if res is not None and len(res) == len(part):
            for c, r in zip(part, res):
                _HOCACHE[_key(c)] = tuple(r)
        # else: observed one by one on demand (run_ho)


def _forked(fn, case, crashed, budget=40):
    rd, wr = os.pipe()
    pid = os.fork()
    if pid == 0:
        try:
            os.close(rd)
            signal.alarm(budget)
            try:
                res = fn(case)
            except BaseException as e:      # noqa
                res = ('harness-exc %s: %s' % (type(e).__name__, str(e)[:100]), 'harness-exc')
            os.write(wr, json.dumps(res).encode())
        finally:
            os._exit(0)
    os.close(wr)
    data = b''
    sel = selectors.DefaultSelector()
    sel.register(rd, selectors.EVENT_READ)
    t_end = time.time() + budget + 5
    while time.time() < t_end:
        if sel.select(0.5):
            d = os.read(rd, 65536)
            if not d:
                break
            data += d
    sel.close()
    os.close(rd)
    try:
        os.kill(pid, signal.SIGKILL)
    except OSError:
        pass
    try:
        os.waitpid(pid, 0)
    except OSError:
        pass
    try:
        return tuple(json.loads(data.decode()))
    except ValueError:
        return crashed


def _run_ho_inner(case):
    """REAL delegate_work_to_pool in k threads on one real Pipe + Lock, REAL
    RemoteFdExecutor.receive_from_work_queue on the other end.  -> (line, failure or None)"""
    import proxy.core.work.delegate as D
    from proxy.core.work.fd import RemoteFdExecutor
    k = case['k']
    turns = _Turns(ho_full_sched(case), k)
    pr, pw = multiprocessing.Pipe(duplex=True)
    lock = multiprocessing.Lock()
    listener = socket.socket()
    listener.bind(('127.0.0.1', 0))
    listener.listen(16)
    clients, accepted = [], []
    for _ in range(k):
        clients.append(socket.create_connection(listener.getsockname()))
        accepted.append(listener.accept())
    inode = {os.fstat(c.fileno()).st_ino: i for i, (c, _) in enumerate(accepted)}
    addr_ix = {tuple(a): i for i, (_, a) in enumerate(accepted)}
    tls = threading.local()
    real_send_handle = D.send_handle

    def send_handle(conn, handle, pid):
        turns.turn(tls.tid)
        real_send_handle(conn, handle, pid)
        turns.step(tls.tid, 'f')
    D.send_handle = send_handle
    errors = []

    def body(i):
        tls.tid = i
        try:
            D.delegate_work_to_pool(os.getpid(), _HoConn(pw, turns, i), _HoLock(lock, turns, i),
                                    accepted[i][0], accepted[i][1], None)
        except BaseException as e:      # noqa
            errors.append('%d:%s' % (i, type(e).__name__))
        finally:
            turns.finish(i)
    ths = [threading.Thread(target=body, args=(i,), daemon=True) for i in range(k)]
    for t in ths:
        t.start()
    for t in ths:
        t.join(25)
    D.send_handle = real_send_handle
    if any(t.is_alive() for t in ths):
        return ('handoff hang', 'delegate thread hung')
    pipe = ['%s%d' % (w, t) for t, w in turns.log if w in ('a', 'f')]
    acq = [str(t) for t, w in turns.log if w == 'acq']
    held = not lock.acquire(False)
    if not held:
        lock.release()
    # the worker side
    ex = RemoteFdExecutor('1', pr, _flags('remote'))
    got = []
    ex.work = lambda fileno, addr, conn: got.append((addr, fileno))
    exc = None
    for _ in range(k):
        if not pr.poll(3):
            exc = 'nothing-to-receive'
            break
        try:
            ex.receive_from_work_queue()        # real: addr = recv(); fileno = recv_handle(); work(fileno, addr, None)
        except BaseException as e:      # noqa
            exc = type(e).__name__
            break
    pairs = []
    for addr, fileno in got:
        a = addr_ix.get(tuple(addr), -1) if isinstance(addr, (tuple, list)) else -1
        try:
            f = inode.get(os.fstat(fileno).st_ino, -1)
        except OSError:
            f = -1
        pairs.append((a, f))
    csv = lambda l: ','.join(l) if l else '.'      # noqa: E731
    recv = 'exc' if (exc or errors) else csv(['%d:%d' % p for p in pairs])
    line = 'handoff pipe=%s acq=%s lock=%d recv=%s' % (csv(pipe), csv(acq), held, recv)
    fail = None
    if errors:
        fail = 'handoff: delegate raised %s' % errors[0]
    elif exc:
        fail = 'handoff: worker receive side raised %s (pipe order %s)' % (exc, csv(pipe))
    elif any(a != f or a < 0 for a, f in pairs) or len(pairs) != k:
        fail = 'handoff: address and descriptor not received as a pair (%s)' % csv(['%d:%d' % p for p in pairs])
    return (line, fail)


def _run_hf_inner(case):
    """framing of the hand-off under a configuration: REAL delegate_work_to_pool called the way Acceptor._work
    calls it (unix_socket_path = flags.unix_socket_path) for connections accepted on a TCP listener ('t') or on
    a unix listener ('u'), REAL RemoteFdExecutor.receive_from_work_queue with the same flags.
    -> (line, failure or None)"""
    import proxy.core.work.delegate as D
    from proxy.core.work.fd import RemoteFdExecutor
    flags = _flags('remote-unix' if case['unix'] else 'remote')
    kinds = case['kinds']
    d = tempfile.mkdtemp(prefix='c17hf-')
    try:
        tl = socket.socket()
        tl.bind(('127.0.0.1', 0))
        tl.listen(16)
        ul = socket.socket(socket.AF_UNIX, socket.SOCK_STREAM)
        ul.bind(os.path.join(d, 'l.sock'))
        ul.listen(16)
        clients, accepted = [], []
        for kd in kinds:
            if kd == 't':
                clients.append(socket.create_connection(tl.getsockname()))
                conn, addr = tl.accept()
            else:
                c = socket.socket(socket.AF_UNIX, socket.SOCK_STREAM)
                c.connect(os.path.join(d, 'l.sock'))
                clients.append(c)
                conn, addr = ul.accept()
            accepted.append((conn, addr or None))       # Acceptor.accept: `works.append((conn, addr or None))`
        inode = {os.fstat(c.fileno()).st_ino: i for i, (c, _) in enumerate(accepted)}
        pr, pw = multiprocessing.Pipe(duplex=True)
        lock = multiprocessing.Lock()
        log = []
        cur = [0]

        class Conn:
            def send(self, obj):
                pw.send(obj)
                log.append('a%d' % cur[0])

            def fileno(self):
                return pw.fileno()

            def __getattr__(self, name):
                return getattr(pw, name)
        real_send_handle = D.send_handle

        def send_handle(conn, handle, pid):
            real_send_handle(conn, handle, pid)
            log.append('f%d' % cur[0])
        D.send_handle = send_handle
        err = None
        try:
            for i, (conn, addr) in enumerate(accepted):
                cur[0] = i
                D.delegate_work_to_pool(os.getpid(), Conn(), lock, conn, addr, flags.unix_socket_path)
        except BaseException as e:      # noqa
            err = type(e).__name__
        finally:
            D.send_handle = real_send_handle
        ex = RemoteFdExecutor('1', pr, flags)
        got = []
        ex.work = lambda fileno, addr, conn: got.append((addr, fileno))
        exc = None
        for _ in range(len(kinds)):
            if not pr.poll(2):
                exc = 'nothing-to-receive'
                break
            try:
                ex.receive_from_work_queue()
            except BaseException as e:      # noqa
                exc = type(e).__name__
                break
        want_addr = {i: (tuple(a) if a else None) for i, (_, a) in enumerate(accepted)}
        pairs, wrong = [], False
        for addr, fileno in got:
            try:
                f = inode.get(os.fstat(fileno).st_ino, -1)
            except OSError:
                f = -1
            if addr is None:
                pairs.append('-:%d' % f)
            else:
                a = [i for i, w in want_addr.items() if w == tuple(addr)]
                pairs.append('%d:%d' % (a[0] if a else -1, f))
                wrong = wrong or not a or a[0] != f
            wrong = wrong or f < 0
        csv = lambda l: ','.join(l) if l else '.'      # noqa: E731
        line = 'framing pipe=%s recv=%s' % (csv(log), 'exc' if (exc or err) else csv(pairs))
        fail = None
        if err:
            fail = 'framing: delegate raised %s' % err
        elif exc:
            fail = 'framing: worker receive side raised %s (unix flag %d, connections %s, pipe %s)' % (
                exc, case['unix'], kinds, csv(log))
        elif wrong or len(got) != len(kinds) or [p.split(':')[1] for p in pairs] != [str(i) for i in range(len(kinds))]:
            fail = 'framing: descriptors / addresses not received in order as sent (%s)' % csv(pairs)
        return (line, fail)
    finally:
        shutil.rmtree(d, ignore_errors=True)


def _hf_batch(cases):
    return [list(_run_hf_inner(c)) for c in cases]


def run_hf(case):
    k_ = _key(case)
    if k_ not in _HOCACHE:
        _HOCACHE[k_] = _forked(_run_hf_inner, case, ('framing crashed', 'crashed'))
    return _HOCACHE[k_]


# ==========================================================================
# q: the acceptor -> local executor hand-off queue (NonBlockingQueue)
# ==========================================================================

def run_q(case):
    """REAL proxy.common.backports.NonBlockingQueue: the case's puts (numbered consecutively) and gets"""
    import queue as _q
    from proxy.common.backports import NonBlockingQueue
    nq = NonBlockingQueue()
    nxt, got, empty = 0, [], 0
    for op, n in case['ops']:
        for _ in range(n):
            if op == 'p':
                nq.put(nxt)
                nxt += 1
            else:
                try:
                    got.append(nq.get())
                except _q.Empty:
                    empty += 1
    left = 0
    while True:
        try:
            nq.get()
            left += 1
        except _q.Empty:
            break
    inorder = got == list(range(len(got)))
    line = 'queue got=%d inorder=%d empty=%d left=%d' % (len(got), inorder, empty, left)
    fail = None
    if not inorder:
        fail = 'queue: works not taken in the order they were put (first taken %r)' % (got[:3],)
    elif len(got) + left != nxt:
        fail = 'queue: %d of %d works put were never handed over' % (nxt - len(got) - left, nxt)
    return line, fail


def q_cases(rng, big):
    out = [{'kind': 'q', 'ops': [['p', n], ['g', n + 1]]} for n in (0, 1, 99, 100, 101, 250, 1000)]
    out.append({'kind': 'q', 'ops': [['p', 150], ['g', 60], ['p', 150], ['g', 300]]})
    for _ in range(10 if not big else 60):
        ops = []
        for _ in range(rng.randint(1, 6)):
            ops.append([rng.choice('ppg'), rng.choice([0, 1, 2, 50, 99, 100, 101, 102, 199, 200, 201, 333])])
        out.append({'kind': 'q', 'ops': ops + [['g', 1500]]})
    return out


# ==========================================================================
# live: real Proxy processes in the three modes
# ==========================================================================

IO_TIMEOUT = 12.0
SCN_TIMEOUT = 40.0
ORIGIN = {'http': 0, 'echo': 0, 'dead': 0}      # ports, set before the Proxy forks its processes
STATIC_NAME = 'c17-static.bin'
STATIC_SIZE = 1536 * 1024 + 17
WEB_BIG = 1024 * 1024 + 3


def pattern(n, a=7, b=3):
    """deterministic, incompressible-enough payload of n bytes"""
    unit = bytes(((a * i + b) ^ (i >> 8)) & 0xff for i in range(4096))
    return (unit * (n // 4096 + 1))[:n]


from proxy.http.server import HttpWebServerBasePlugin, ReverseProxyBasePlugin, httpProtocolTypes   # noqa: E402
from proxy.http.responses import okResponse     # noqa: E402


class C17WebPlugin(HttpWebServerBasePlugin):
    """web server routes of the scenario corpus"""

    def routes(self):
        return [(httpProtocolTypes.HTTP, r'/c17/hello$'), (httpProtocolTypes.HTTP, r'/c17/big$')]

    def handle_request(self, request):
        if request.path == b'/c17/hello':
            self.client.queue(okResponse(content=b'hello from the web route', compress=False,
                                         headers={b'Content-Type': b'text/plain'}))
        else:
            self.client.queue(okResponse(content=pattern(WEB_BIG, 11, 5), compress=False,
                                         headers={b'Content-Type': b'application/octet-stream'},
                                         conn_close=True))


class C17ReversePlugin(ReverseProxyBasePlugin):
    """reverse proxy routes /rev/... -> the local HTTP origin (the route's URL replaces the path)"""

    def routes(self):
        o = ORIGIN['http']
        return [(r'/rev/small$', [b'http://127.0.0.1:%d/len/5000' % o]),
                (r'/rev/big$', [b'http://127.0.0.1:%d/len/1048576' % o]),
                (r'/rev/close$', [b'http://127.0.0.1:%d/close/70000' % o])]


def _ensure_plugins():
    pass


class Origin:
    """plain-socket origin: thread per connection; `http` understands a handful of paths,
    `echo` echoes until EOF.  Transcript per accepted connection: bytes received + how it ended."""

    def __init__(self, kind):
        self.kind = kind
        self.sock = socket.socket(socket.AF_INET, socket.SOCK_STREAM)
        self.sock.setsockopt(socket.SOL_SOCKET, socket.SO_REUSEADDR, 1)
        self.sock.bind(('127.0.0.1', 0))
        self.sock.listen(64)
        self.port = self.sock.getsockname()[1]
        self.lock = threading.Lock()
        self.conns = []
        self.stopping = False
        self.thread = None

    def start(self):
        self.thread = threading.Thread(target=self._accept, daemon=True)
        self.thread.start()

    def stop(self):
        self.stopping = True
        try:
            self.sock.close()
        except OSError:
            pass

    def reset(self):
        with self.lock:
            self.conns = []

    def _accept(self):
        self.sock.settimeout(0.2)
        while not self.stopping:
            try:
                c, _ = self.sock.accept()
            except socket.timeout:
                continue
            except OSError:
                return
            rec = {'data': bytearray(), 'end': None}
            with self.lock:
                self.conns.append(rec)
            threading.Thread(target=self._serve, args=(c, rec), daemon=True).start()

    def _serve(self, c, rec):
        c.settimeout(IO_TIMEOUT)
        try:
            if self.kind == 'echo':
                while True:
                    d = c.recv(65536)
                    if not d:
                        rec['end'] = 'eof'
                        break
                    rec['data'] += d
                    c.sendall(d)
            else:
                self._http(c, rec)
        except socket.timeout:
            rec['end'] = 'hang'
        except ConnectionResetError:
            rec['end'] = 'rst'
        except OSError as e:
            rec['end'] = 'oserror-%s' % errno.errorcode.get(e.errno, e.errno)
        finally:
            if rec['end'] is None:
                rec['end'] = '?'
            try:
                c.close()
            except OSError:
                pass

    def _http(self, c, rec):
        buf = bytearray()
        while True:
            while b'\r\n\r\n' not in buf:
                d = c.recv(65536)
                if not d:
                    rec['end'] = 'eof' if not buf else 'eof-mid-request'
                    return
                rec['data'] += d
                buf += d
            head, _, rest = bytes(buf).partition(b'\r\n\r\n')
            lines = head.split(b'\r\n')
            parts = lines[0].split(b' ')
            path = parts[1] if len(parts) > 1 else b'/'
            hdrs = {}
            for ln in lines[1:]:
                k, _, v = ln.partition(b':')
                hdrs[k.strip().lower()] = v.strip()
            n = int(hdrs.get(b'content-length', b'0') or b'0')
            body = bytearray(rest)
            while len(body) < n:
                d = c.recv(65536)
                if not d:
                    rec['end'] = 'eof-mid-body'
                    return
                rec['data'] += d
                body += d
            buf = bytearray(body[n:])
            body = bytes(body[:n])
            close = hdrs.get(b'connection', b'').lower() == b'close'
            m = re.match(rb'^/(len|close|chunked|status|trickle)/(\d+)', path)
            if path.startswith(b'/echo'):
                c.sendall(b'HTTP/1.1 200 OK\r\nContent-Type: application/octet-stream\r\nContent-Length: %d\r\n\r\n'
                          % len(body) + body)
            elif m and m.group(1) == b'len':
                k = int(m.group(2))
                c.sendall(b'HTTP/1.1 200 OK\r\nContent-Length: %d\r\n\r\n' % k + pattern(k))
            elif m and m.group(1) == b'close':
                k = int(m.group(2))
                c.sendall(b'HTTP/1.1 200 OK\r\nConnection: close\r\n\r\n' + pattern(k, 5, 1))
                close = True
            elif m and m.group(1) == b'chunked':
                k = int(m.group(2))
                out = b'HTTP/1.1 200 OK\r\nTransfer-Encoding: chunked\r\n\r\n'
                data = pattern(k, 3, 9)
                for i in range(0, len(data), 1000):
                    piece = data[i:i + 1000]
                    out += b'%x\r\n' % len(piece) + piece + b'\r\n'
                c.sendall(out + b'0\r\n\r\n')
            elif m and m.group(1) == b'trickle':
                # a steady trickle for <k> ms, then close (timing-dependent length: background traffic only)
                c.sendall(b'HTTP/1.1 200 OK\r\nConnection: close\r\n\r\n')
                t_stop = time.time() + int(m.group(2)) / 1000.0
                while time.time() < t_stop:
                    c.sendall(b'trickle-' * 8)
                    time.sleep(0.004)
                close = True
            elif m and m.group(1) == b'status':
                k = int(m.group(2))
                c.sendall(b'HTTP/1.1 %d Status\r\nContent-Length: 6\r\n\r\nstatus' % k)
            else:
                c.sendall(b'HTTP/1.1 404 Not Found\r\nContent-Length: 0\r\n\r\n')
            if close:
                try:
                    c.shutdown(socket.SHUT_WR)
                except OSError:
                    pass
                # drain until the peer closes as well, so that no RST is provoked
                c.settimeout(5.0)
                try:
                    while True:
                        d = c.recv(65536)
                        if not d:
                            break
                        rec['data'] += d
                except OSError:
                    pass
                rec['end'] = 'closed-by-origin'
                return


class _Conv:
    """one client conversation: steps -> transcript (bytes received, then eof / rst / open / hang)"""

    def __init__(self, addr, steps, targets=None):
        self.addr = addr
        self.steps = steps
        self.bg = False             # background traffic: its byte count is timing, not compared
        self.lenient = False        # closed-before-served may show as EOF, RST or EPIPE: one event
        for st in steps:
            if st[0] == 'to' and targets:
                self.addr = targets[st[1]]
            elif st[0] == 'bg':
                self.bg = True
            elif st[0] == 'lenient':
                self.lenient = True
        self.data = bytearray()
        self.buf = bytearray()
        self.end = None

    def _more(self, s):
        d = s.recv(262144)
        if d:
            self.data += d
            self.buf += d
        return d

    def _until(self, s, marker):
        while marker not in self.buf:
            if not self._more(s):
                raise EOFError()
        i = self.buf.index(marker) + len(marker)
        out = bytes(self.buf[:i])
        del self.buf[:i]
        return out

    def _exactly(self, s, n):
        while len(self.buf) < n:
            if not self._more(s):
                raise EOFError()
        del self.buf[:n]

    def _http(self, s):
        head = self._until(s, b'\r\n\r\n')
        lines = head.split(b'\r\n')
        status = int(lines[0].split(b' ')[1])
        hdrs = {}
        for ln in lines[1:]:
            k, _, v = ln.partition(b':')
            hdrs[k.strip().lower()] = v.strip()
        if hdrs.get(b'transfer-encoding', b'').lower() == b'chunked':
            while True:
                ln = self._until(s, b'\r\n')
                k = int(ln.strip().split(b';')[0], 16)
                if k == 0:
                    self._until(s, b'\r\n')
                    return
                self._exactly(s, k + 2)
        elif b'content-length' in hdrs:
            self._exactly(s, int(hdrs[b'content-length']))
        elif status in (204, 304) or status < 200:
            return
        else:
            while self._more(s):
                pass
            self.buf.clear()
            raise EOFError()

    def connect(self):
        """connect now; run() then starts with the first step (scenarios that connect everybody first)"""
        try:
            self.pre = socket.create_connection(self.addr, timeout=IO_TIMEOUT)
        except OSError as e:
            self.pre = None
            self.end = 'connect-%s' % errno.errorcode.get(e.errno, e.errno)

    def run(self):
        s = getattr(self, 'pre', None)
        if self.end is not None:
            return
        try:
            if s is not None:
                pass
            elif isinstance(self.addr, str):
                s = socket.socket(socket.AF_UNIX, socket.SOCK_STREAM)
                s.settimeout(IO_TIMEOUT)
                s.connect(self.addr)
            else:
                s = socket.create_connection(self.addr, timeout=IO_TIMEOUT)
            s.settimeout(IO_TIMEOUT)
            for st in self.steps:
                op = st[0]
                if op == 'send':
                    s.sendall(st[1])
                elif op == 'http':
                    self._http(s)
                elif op == 'until':
                    self._until(s, st[1])
                elif op == 'n':
                    self._exactly(s, st[1])
                elif op == 'shut':
                    s.shutdown(socket.SHUT_WR)
                elif op == 'eof':
                    while self._more(s):
                        pass
                    self.end = 'eof'
                    break
                elif op == 'sleep':
                    time.sleep(st[1])
            if self.end is None:
                self.end = 'open'
        except EOFError:
            self.end = 'eof-early'
        except socket.timeout:
            self.end = 'hang'
        except ConnectionResetError:
            self.end = 'rst'
        except (BrokenPipeError, OSError) as e:
            self.end = 'oserror-%s' % errno.errorcode.get(getattr(e, 'errno', 0), getattr(e, 'errno', 0))
        finally:
            if s is not None:
                try:
                    s.close()
                except OSError:
                    pass


def _canon(x):
    """the only canonicalisation: the harness-chosen origin ports (they differ per Proxy instance)"""
    x = bytes(x)
    for name in ('http', 'echo', 'dead'):
        x = x.replace(b':%d' % ORIGIN[name], b':<%s>' % name.encode())
    return x


def _dg(x):
    x = _canon(x)
    return '%d:%08x' % (len(x), zlib.crc32(x) & 0xffffffff)


# ---- scenario corpus -------------------------------------------------------------

FLAGSETS = {
    'A': [],
    'B': ['--basic-auth', 'user:pass'],
    # with hundreds of connections waiting (pre_backlog) a loaded machine may need more than the default
    # 10 s idle timeout before the first request is sent
    'L': ['--timeout', '60'],
    'T': ['--timeout', '1'],                                    # idle reaping
    'U': ['--unix-socket-path', '@SOCK@', '--ports', '0'],      # unix listener + one extra TCP listener
}
IDLE_TIMEOUT = 1.0
IDLE_SILENCE = 3.3          # silence exceeds the timeout by > 2 s: beyond the bounded delay of either mode


def scenario_flagset(scn):
    return 'B' if scn.startswith('auth') else 'T' if scn.startswith('idle') else 'L' if scn.startswith('pre_') else \
        'U' if scn.startswith('seq_unix') else 'A'


def build_convs(case, pport):
    """the client conversations of a scenario: list of step lists"""
    scn = case['scn']
    size = int(case.get('size', 1000))
    nconc = int(case.get('conc', 1))
    oh, oe, od = ORIGIN['http'], ORIGIN['echo'], ORIGIN['dead']
    host = b'127.0.0.1:%d' % oh

    def get(path, extra=b''):
        return (b'GET http://' + host + path + b' HTTP/1.1\r\nHost: ' + host + b'\r\nUser-Agent: c17\r\n' +
                extra + b'\r\n')

    def post(path, body, extra=b''):
        return (b'POST http://' + host + path + b' HTTP/1.1\r\nHost: ' + host +
                b'\r\nContent-Type: application/octet-stream\r\nContent-Length: %d\r\n' % len(body) +
                extra + b'\r\n' + body)

    def one(i):
        sz = size + 137 * i
        if scn == 'fwd_get_close':
            return [('send', get(b'/len/%d' % sz, b'Connection: close\r\n')), ('http',), ('eof',)]
        if scn == 'fwd_get_keep':
            return [('send', get(b'/len/%d' % sz)), ('http',), ('shut',), ('eof',)]
        if scn == 'fwd_post':
            return [('send', post(b'/echo', pattern(sz, 13 + i, i))), ('http',), ('shut',), ('eof',)]
        if scn == 'fwd_persistent':
            steps = []
            for j in range(3):
                steps += [('send', post(b'/echo?%d' % j, pattern(sz // (j + 1), 3 + j, i)) if j % 2 else
                           get(b'/len/%d' % (sz + j))), ('http',)]
            return steps + [('shut',), ('eof',)]
        if scn == 'fwd_close_delim':
            return [('send', get(b'/close/%d' % sz)), ('eof',)]
        if scn == 'fwd_chunked':
            return [('send', get(b'/chunked/%d' % sz)), ('http',), ('shut',), ('eof',)]
        if scn == 'fwd_origin_error':
            return [('send', get(b'/status/503')), ('http',), ('shut',), ('eof',)]
        if scn == 'tunnel_echo':
            data = pattern(sz, 17 + i, 2 * i)
            return [('send', b'CONNECT 127.0.0.1:%d HTTP/1.1\r\nHost: 127.0.0.1:%d\r\n\r\n' % (oe, oe)),
                    ('until', b'\r\n\r\n'), ('send', data), ('n', len(data)),
                    ('send', b'second' * 10), ('n', 60), ('shut',), ('eof',)]
        if scn == 'web_404':
            return [('send', b'GET /no-such-route-%d HTTP/1.1\r\nHost: px\r\n\r\n' % i), ('eof',)]
        if scn == 'web_route':
            return [('send', b'GET /c17/hello HTTP/1.1\r\nHost: px\r\n\r\n'), ('http',),
                    ('send', b'GET /c17/hello HTTP/1.1\r\nHost: px\r\n\r\n'), ('http',), ('shut',), ('eof',)]
        if scn == 'web_big':
            return [('send', b'GET /c17/big HTTP/1.1\r\nHost: px\r\n\r\n'), ('http',), ('shut',), ('eof',)]
        if scn == 'web_static':
            return [('send', b'GET /%s HTTP/1.1\r\nHost: px\r\n\r\n' % STATIC_NAME.encode()), ('http',), ('shut',),
                    ('eof',)]
        if scn == 'web_static_slow_reader':
            return [('send', b'GET /%s HTTP/1.1\r\nHost: px\r\n\r\n' % STATIC_NAME.encode()), ('sleep', 0.4),
                    ('http',), ('shut',), ('eof',)]
        if scn == 'reverse':
            which = b'small' if size < 100000 else b'big'
            return [('send', b'GET /rev/' + which + b' HTTP/1.1\r\nHost: px\r\n\r\n'), ('http',), ('shut',),
                    ('eof',)]
        if scn == 'reverse_close':
            return [('send', b'GET /rev/close HTTP/1.1\r\nHost: px\r\n\r\n'), ('eof',)]
        if scn == 'reject_400':
            return [('send', b'THIS-IS-NOT-HTTP-%d\r\n\r\n' % i), ('eof',)]
        if scn == 'reject_400_bad_version':
            return [('send', b'GET\r\n\r\n'), ('eof',)]
        if scn == 'refused_502':
            return [('send', b'GET http://127.0.0.1:%d/x HTTP/1.1\r\nHost: 127.0.0.1:%d\r\n\r\n' % (od, od)),
                    ('eof',)]
        if scn == 'refused_connect_502':
            return [('send', b'CONNECT 127.0.0.1:%d HTTP/1.1\r\nHost: 127.0.0.1:%d\r\n\r\n' % (od, od)),
                    ('eof',)]
        if scn == 'auth_407':
            return [('send', get(b'/len/%d' % sz)), ('eof',)]
        if scn == 'auth_407_connect':
            return [('send', b'CONNECT 127.0.0.1:%d HTTP/1.1\r\nHost: 127.0.0.1:%d\r\n\r\n' % (oe, oe)),
                    ('eof',)]
        if scn == 'auth_ok':
            return [('send', get(b'/len/%d' % sz, b'Proxy-Authorization: Basic dXNlcjpwYXNz\r\n')), ('http',),
                    ('shut',), ('eof',)]
        if scn == 'raised_pending':
            # finding D30, live form (NOT in the corpus: byte counts depend on kernel buffer sizes): the client
            # does not read a large response, then sends a follow-up request that makes the pipeline parser raise
            return [('send', get(b'/len/%d' % sz)), ('sleep', 1.0),
                    ('send', get(b'/len/1', b'Content-Length: x\r\n')), ('sleep', 0.3), ('eof',)]
        if scn in ('idle_busy_neighbours', 'idle_alone', 'idle_active_kept'):
            # --timeout 1.  Conversation 0 is silent for IDLE_SILENCE s and only then sends a request: every
            # mode must have dropped it by then (C20 bounds) - it is closed without being served.  Meanwhile
            # (idle_busy_neighbours) two CONNECT tunnels carry a steady trickle on the same executor.
            late = get(b'/len/%d' % sz)
            trickle = [('bg',), ('send', b'CONNECT 127.0.0.1:%d HTTP/1.1\r\nHost: 127.0.0.1:%d\r\n\r\n' % (oh, oh)),
                       ('until', b'\r\n\r\n'),
                       ('send', b'GET /trickle/%d HTTP/1.1\r\nHost: o\r\n\r\n' % int((IDLE_SILENCE + 1.2) * 1000)),
                       ('eof',)]
            if scn == 'idle_active_kept':
                # a client that keeps talking (a request every 0.4 s, well inside the timeout) is never dropped
                if i > 0:
                    return trickle
                steps = []
                for j in range(8):
                    steps += [('send', get(b'/len/%d' % (sz + j))), ('http',), ('sleep', 0.4)]
                return steps + [('shut',), ('eof',)]
            if i == 0:
                return [('lenient',), ('sleep', IDLE_SILENCE), ('send', late), ('eof',)]
            return trickle
        if scn == 'seq_unix_tcp':
            # --unix-socket-path + --ports: a TCP client on the extra port, then a unix-socket client, then TCP again
            via = ['tcp', 'unix', 'tcp', 'unix'][i % 4]
            return [('to', via), ('send', get(b'/len/%d' % (sz + i), b'Connection: close\r\n')), ('http',), ('eof',)]
        if scn == 'pre_backlog':
            # >= 250 connections accepted before the first request: more works pending for one executor than
            # the listen backlog (100); every client must still get its response
            return [('send', b'GET /c17/hello HTTP/1.1\r\nHost: px\r\n\r\n'), ('http',), ('shut',), ('eof',)]
        if scn == 'burst':
            # many connections at the same moment (several acceptors handing off to one worker)
            return [('send', b'GET /burst-%d HTTP/1.1\r\nHost: px\r\n\r\n' % i), ('eof',)]
        if scn == 'burst_fwd':
            return [('send', get(b'/len/%d' % (100 + i), b'Connection: close\r\n')), ('http',), ('eof',)]
        if scn == 'client_closes_idle':
            return [('shut',), ('eof',)]
        if scn == 'mixed':
            kinds = ['fwd_post', 'tunnel_echo', 'web_big', 'fwd_persistent']
            sub = dict(case, scn=kinds[i % len(kinds)], conc=1, size=size + 1000 * i)
            return build_convs(sub, pport)[0]
        raise ValueError(scn)
    return [one(i) for i in range(nconc)]


QUICK_SCENARIOS = [
    ('fwd_get_close', 1000, 1), ('fwd_get_keep', 70000, 1), ('fwd_post', 30000, 1),
    ('fwd_persistent', 5000, 1), ('fwd_close_delim', 200000, 1), ('fwd_chunked', 4500, 1),
    ('fwd_origin_error', 1, 1), ('tunnel_echo', 3000, 1), ('tunnel_echo', 1048576, 1),
    ('web_404', 1, 1), ('web_route', 1, 1), ('web_big', 1, 1), ('web_static', 1, 1), ('reverse', 5000, 1),
    ('reverse', 1048576, 1), ('reverse_close', 1, 1),
    ('reject_400', 1, 1), ('reject_400_bad_version', 1, 1), ('refused_502', 1, 1), ('refused_connect_502', 1, 1),
    ('auth_407', 10, 1), ('auth_407_connect', 1, 1), ('auth_ok', 2000, 1), ('client_closes_idle', 1, 1),
    ('fwd_post', 1048576, 1), ('fwd_post', 20000, 3), ('mixed', 40000, 4),
]


# --timeout 1 (idle reaping next to busy connections) and --unix-socket-path + --ports
BACKLOG = [('pre_backlog', 1, 260)]      # 1 acceptor, 1 worker
IDLES = [('idle_busy_neighbours', 1000, 3), ('idle_alone', 1000, 1), ('idle_active_kept', 500, 2),
         ('seq_unix_tcp', 3000, 2), ('seq_unix_tcp', 3001, 4)]

# 4 acceptors x 1 worker, 16-50 clients at once (every hand-off goes to the same worker pipe)
BURSTS = [('burst', 1, 16), ('burst', 2, 48), ('burst_fwd', 1, 24)]


def live_case(scn, size, conc, nw, na=None):
    c = {'kind': 'live', 'scn': scn, 'size': size, 'conc': conc, 'nw': nw}
    if na is not None and na != nw:
        c['na'] = na            # acceptors (default: as many as workers)
    return c


# ---- one configuration = one Proxy instance, all its scenarios ---------------------

def _descendants(root):
    from harness.c19 import _descendants as d
    return d(root)


def _unix_inodes():
    out = set()
    try:
        for row in open('/proc/net/unix').read().split('\n')[1:]:
            f = row.split()
            if len(f) > 6:
                out.add(f[6])
    except OSError:
        pass
    return out


def _listener_refs(pids, ports):
    """descriptors in `pids` that refer to a TCP socket listening on one of `ports` (minimum over the ports)"""
    by_port = {}
    for fn in ('/proc/net/tcp', '/proc/net/tcp6'):
        try:
            for row in open(fn).read().split('\n')[1:]:
                f = row.split()
                if len(f) > 9 and f[3] == '0A':
                    port = int(f[1].rsplit(':', 1)[1], 16)
                    if port in ports:
                        by_port.setdefault(port, set()).add(f[9])
        except OSError:
            pass
    if not by_port:
        return 0
    counts = []
    for port, inodes in by_port.items():
        n = 0
        for p_ in pids:
            try:
                for fd in os.listdir('/proc/%d/fd' % p_):
                    try:
                        l = os.readlink('/proc/%d/fd/%s' % (p_, fd))
                    except OSError:
                        continue
                    if l.startswith('socket:[') and l[8:-1] in inodes:
                        n += 1
            except OSError:
                pass
        counts.append(n)
    return min(counts)


def _listen_inodes():
    """TCP sockets in LISTEN state: an acceptor's descriptors of the listeners are not connections either
    (an acceptor that starts late acquires them after its siblings have served the warm-up)"""
    out = set()
    for fn in ('/proc/net/tcp', '/proc/net/tcp6'):
        try:
            for row in open(fn).read().split('\n')[1:]:
                f = row.split()
                if len(f) > 9 and f[3] == '0A':
                    out.add(f[9])
        except OSError:
            pass
    return out


def _socket_fds(pids):
    """number of descriptors of connection sockets held by the proxy's processes (client / upstream
    connections, also fully closed ones that only a leaked descriptor keeps alive).  AF_UNIX
    sockets (work-queue pipes, asyncio self-pipes, created whenever a process gets round to it) are not
    connections and are not counted."""
    unix = _unix_inodes() | _listen_inodes()
    n = 0
    for p in pids:
        try:
            for fd in os.listdir('/proc/%d/fd' % p):
                try:
                    l = os.readlink('/proc/%d/fd/%s' % (p, fd))
                except OSError:
                    continue
                if l.startswith('socket:[') and l[8:-1] not in unix:
                    n += 1
        except OSError:
            pass
    return n


def _run_scenario(case, pport, origins, targets=None):
    for o in origins.values():
        o.reset()
    targets = targets or {'main': ('127.0.0.1', pport)}
    convs = [_Conv(targets['main'], st, targets) for st in build_convs(case, pport)]
    if case['scn'].startswith('seq_'):
        # one conversation after the other
        for c in convs:
            t = threading.Thread(target=c.run, daemon=True)
            t.start()
            t.join(SCN_TIMEOUT)
        return _scenario_lines(convs, origins)
    if case['scn'].startswith('pre_'):
        # everybody connects, back to back, before anybody sends: the accepted connections pile up in
        # front of the executor
        for c in convs:
            c.connect()
    gate = threading.Barrier(len(convs))

    def go(c):
        try:
            gate.wait(5)            # all conversations connect at the same moment
        except threading.BrokenBarrierError:
            pass
        c.run()
    ths = [threading.Thread(target=go, args=(c,), daemon=True) for c in convs]
    t0 = time.time()
    for t in ths:
        t.start()
    for t in ths:
        t.join(max(0.1, SCN_TIMEOUT - (time.time() - t0)))
    return _scenario_lines(convs, origins)


def _scenario_lines(convs, origins):
    lines = []
    for i, c in enumerate(convs):
        end = c.end if c.end is not None else 'hang'
        if c.lenient and not c.data and end in ('eof', 'rst', 'eof-early', 'oserror-EPIPE', 'oserror-ECONNRESET'):
            end = 'closed-unserved'
        if c.bg:
            lines.append('C%d background %s' % (i, 'hang' if end == 'hang' else 'done'))
        else:
            lines.append('C%d %s %s' % (i, _dg(c.data), end))
    # origin connections end when the proxy closes them
    t_end = time.time() + 5.0
    while time.time() < t_end:
        if all(r['end'] is not None for o in origins.values() for r in list(o.conns)):
            break
        time.sleep(0.01)
    ol = []
    for name, o in origins.items():
        for r in list(o.conns):
            ol.append('O %s %s %s' % (name, _dg(r['data']), r['end'] if r['end'] is not None else 'open'))
    return lines + sorted(ol)


def _run_config(mode, nw, fs, cases, na=None):
    """start the real Proxy once, run the scenarios, stop it.  -> {case key: [lines]}"""
    from proxy.proxy import Proxy
    _ensure_plugins()
    out = {}
    d = tempfile.mkdtemp(prefix='c17-')
    with open(os.path.join(d, STATIC_NAME), 'wb') as f:
        f.write(pattern(STATIC_SIZE, 29, 1))
    origins = {'http': Origin('http'), 'echo': Origin('echo')}
    dead = socket.socket(socket.AF_INET, socket.SOCK_STREAM)
    dead.bind(('127.0.0.1', 0))         # bound, never listening: connect() is refused
    ORIGIN['http'], ORIGIN['echo'], ORIGIN['dead'] = origins['http'].port, origins['echo'].port, dead.getsockname()[1]
    args = list(MODES[mode]) + [
        '--num-workers', str(nw), '--num-acceptors', str(na or nw), '--log-level', 'CRITICAL',
        '--hostname', '127.0.0.1', '--port', '0', '--enable-web-server', '--enable-reverse-proxy',
        '--enable-static-server', '--static-server-dir', d, '--min-compression-length', '1000000000',
        '--plugins', 'harness.c17.C17WebPlugin,harness.c17.C17ReversePlugin',
    ] + [x.replace('@SOCK@', os.path.join(d, 'px.sock')) for x in FLAGSETS[fs]]
    saved = {}
    main_thread = threading.current_thread() is threading.main_thread()
    if main_thread:
        for s in (signal.SIGINT, signal.SIGTERM, signal.SIGHUP, signal.SIGQUIT):
            saved[s] = signal.getsignal(s)
    before = set(_descendants(os.getpid()))
    p = None
    started = False
    try:
        p = Proxy(args)
        p.setup()                       # forks acceptors / workers: no harness thread exists yet
        started = True
        pport = p.flags.port
        targets = {'main': ('127.0.0.1', pport)}
        if fs == 'U':
            sock_path = os.path.join(d, 'px.sock')
            targets = {'main': sock_path, 'unix': sock_path, 'tcp': ('127.0.0.1', p.flags.ports[0])}
        for o in origins.values():
            o.start()
        procs = sorted(set(_descendants(os.getpid())) - before)
        # warm-up conversation (not recorded): every process has served or at least started
        for _ in range(2 * max(nw, na or nw) + 1):
            w = _Conv(targets['main'], [('send', b'GET /c17/hello HTTP/1.1\r\nHost: px\r\n\r\n'), ('http',)])
            w.run()
        # every acceptor holds two descriptors of each listener (the received one and its dup) once it is
        # up: under load an acceptor may get there seconds after its siblings served the warm-up
        ports = [pport] + ([p.flags.ports[0]] if fs == 'U' else [])
        t_end = time.time() + 30.0
        while time.time() < t_end and _listener_refs(procs, ports) < 2 * (na or nw) * (1 if fs != 'U' else 1):
            time.sleep(0.05)
        # baseline once every process has finished starting (event loops, queues): stable for 0.4 s
        base, same, t_end = _socket_fds(procs), 0, time.time() + 10.0
        while same < 8 and time.time() < t_end:
            time.sleep(0.05)
            cur = _socket_fds(procs)
            same = same + 1 if cur == base else 0
            base = cur
        hangs = 0
        for c in cases:
            if hangs >= 2:
                # this mode no longer serves connections: do not wait out every remaining scenario
                out[_key(c)] = ['hang (skipped: the two scenarios before it hung)']
                continue
            lines = _run_scenario(c, pport, origins, targets)
            hangs = hangs + 1 if any(ln.endswith(' hang') for ln in lines) else 0
            # descriptor hygiene: every socket of the scenario is closed again in every proxy process
            t_end = time.time() + 12.0        # only waited out when something is still open (loaded machine)
            leak = _socket_fds(procs) - base
            while leak > 0 and time.time() < t_end:
                time.sleep(0.02)
                leak = _socket_fds(procs) - base
            alive = sorted(set(_descendants(os.getpid())) - before)
            lines.append('P leak=%d procs=%s' % (max(leak, 0), 'all' if alive == procs else
                                                 '%d-of-%d' % (len(alive), len(procs))))
            out[_key(c)] = lines
    except BaseException as e:      # noqa
        for c in cases:
            out.setdefault(_key(c), ['harness-exc %s: %s' % (type(e).__name__, str(e)[:160])])
    finally:
        try:
            if started and p is not None:
                p.shutdown()
        except BaseException:
            pass
        for o in origins.values():
            o.stop()
        dead.close()
        for ch in multiprocessing.active_children():
            try:
                ch.terminate()
                ch.join(2)
            except Exception:
                pass
        for pid in set(_descendants(os.getpid())) - before:
            try:
                os.kill(pid, signal.SIGKILL)
            except OSError:
                pass
        if main_thread:
            for s, hdl in saved.items():
                try:
                    signal.signal(s, hdl)
                except Exception:
                    pass
        shutil.rmtree(d, ignore_errors=True)
    return out


def _cfg_worker(jobs, out_path):
    try:
        os.setsid()
    except OSError:
        pass
    logging.disable(logging.CRITICAL)
    with open(out_path, 'w') as f:
        for mode, nw, na, fs, cases in jobs:
            def on_alarm(signum, frame):
                raise TimeoutError('configuration timed out')
            signal.signal(signal.SIGALRM, on_alarm)
            signal.alarm(int(30 + SCN_TIMEOUT + 8 * len(cases)))
            try:
                res = _run_config(mode, nw, fs, cases, na)
            except BaseException as e:      # noqa
                res = {_key(c): ['hang' if isinstance(e, TimeoutError) else 'harness-exc %s' % type(e).__name__]
                       for c in cases}
            finally:
                signal.alarm(0)
            for k, lines in res.items():
                f.write(json.dumps([mode, k, lines]) + '\n')
            f.flush()
    os._exit(0)


_LIVE = {}       # case key -> {mode: [lines]}


def _prefetch(cases, retry=True):
    todo, seen = [], set()
    for c in cases:
        k = _key(c)
        if c.get('kind') == 'live' and k not in _LIVE and k not in seen:
            seen.add(k)
            todo.append(c)
    if not todo:
        return
    groups = {}
    for c in todo:
        groups.setdefault((c['nw'], c.get('na', c['nw']), scenario_flagset(c['scn'])), []).append(c)
    jobs = []
    for (nw, na, fs), cs in sorted(groups.items()):
        for mode in MODE_ORDER:
            jobs.append((mode, nw, na, fs, cs))
    n = int(os.environ.get('VERIF_C17_PROCS', str(max(1, min(8, (os.cpu_count() or 2) // 2)))))
    n = max(1, min(n, len(jobs)))
    d = tempfile.mkdtemp(prefix='c17-batch-')
    ctx = multiprocessing.get_context('fork')
    procs = []
    # heavier jobs first, round-robin
    jobs.sort(key=lambda j: -len(j[4]))
    for i in range(n):
        path = os.path.join(d, 'w%d.jsonl' % i)
        pr = ctx.Process(target=_cfg_worker, args=(jobs[i::n], path))
        pr.daemon = False
        pr.start()
        procs.append((pr, path))
    per = max(len(j[4]) for j in jobs)
    deadline = time.time() + (len(jobs) / n + 1) * (40 + 10 * per)
    for pr, path in procs:
        pr.join(max(0.1, deadline - time.time()))
        if pr.is_alive():
            try:
                os.killpg(pr.pid, signal.SIGKILL)
            except Exception:
                pass
            pr.kill()
            pr.join(5)
        try:
            for line in open(path):
                try:
                    mode, k, lines = json.loads(line)
                except ValueError:
                    continue
                _LIVE.setdefault(k, {})[mode] = lines
        except OSError:
            pass
    shutil.rmtree(d, ignore_errors=True)
    for c in todo:
        e = _LIVE.setdefault(_key(c), {})
        for mode in MODE_ORDER:
            e.setdefault(mode, ['hang'])
    _kill_strays()
    if retry:
        # a transcript difference that only reflects an overloaded machine does not show again
        again = [c for c in todo if _live_sig(c) is not None]
        if again and len(again) <= max(3, len(todo) // 3):
            first = {_key(c): _LIVE.pop(_key(c)) for c in again}
            _prefetch(again, retry=False)
            for c in again:
                k = _key(c)
                if _live_sig(c) is None:
                    _LIVE[k]['retried'] = ['first observation differed: %s' % json.dumps(first[k])[:300]]


def _kill_strays():
    """nothing started by this module may outlive it"""
    for ch in multiprocessing.active_children():
        try:
            ch.terminate()
            ch.join(1)
        except Exception:
            pass
    try:
        for pid in _descendants(os.getpid()):       # /proc scan: acceptors / workers of a killed batch worker
            try:
                os.kill(pid, signal.SIGKILL)
            except OSError:
                pass
    except Exception:
        pass


def _observe_live(case):
    k = _key(case)
    if k not in _LIVE:
        _prefetch([case])
    return _LIVE[k]


def _live_sig(case):
    o = _LIVE.get(_key(case))
    if o is None:
        return 'not-observed'
    t, l, r = o['threaded'], o['local'], o['remote']
    for name, x in (('threaded', t), ('local', l), ('remote', r)):
        if x and (x[0] == 'hang' or x[0].startswith('harness-exc')):
            return '%s-mode: %s' % (name, x[0][:80])
    if t == l == r:
        bad = [ln for ln in t if ln.endswith(' hang') or ' hang' in ln]
        if bad:
            return 'hang in every mode: %s' % bad[0]
        leak = [ln for ln in t if ln.startswith('P ') and ln != 'P leak=0 procs=all']
        if leak:
            return 'every mode: %s' % leak[0]
        return None
    odd = 'threaded' if l == r else 'local' if t == r else 'remote' if t == l else 'all-three'
    ref = l if odd == 'threaded' else t
    mine = {'threaded': t, 'local': l, 'remote': r}.get(odd, l)
    diff = [(a, b) for a, b in zip(mine, ref) if a != b] or [('%d lines' % len(mine), '%d lines' % len(ref))]
    a, b = diff[0]
    what = 'client-transcript' if a.startswith('C') else 'origin-transcript' if a.startswith('O') else \
        'descriptors/processes' if a.startswith('P') else 'transcript'
    return '%s differs in %s mode: [%s] vs [%s]' % (what, odd, a, b)


# ==========================================================================
# engine interface
# ==========================================================================

def impl(case):
    k = case['kind']
    if k == 'h':
        lo, th = _h(case)
        return ['local ' + lo['line'], 'threaded ' + th['line']]
    if k == 'fd':
        return [run_fd(case)[0]]
    if k == 'ho':
        return [run_ho(case)[0]]
    if k == 'hf':
        return [run_hf(case)[0]]
    if k == 'q':
        return [run_q(case)[0]]
    _observe_live(case)
    return ['live modes-equal=%d' % (1 if _live_sig(case) is None else 0)]


def model_lines(case):
    k = case['kind']
    if k == 'h':
        lo, th = _h(case)
        return [_h_model_line(case, 'local', lo['apps']), _h_model_line(case, 'threaded', th['apps'])]
    if k == 'fd':
        return ['modes fds %s %d' % (case['mode'], case['finished'])]
    if k == 'ho':
        return ['modes handoff ' + ','.join(str(t) for t in ho_full_sched(case))]
    if k == 'hf':
        return ['modes framing %d %s' % (case['unix'], case['kinds'] or '.')]
    if k == 'q':
        return ['modes queue ' + ','.join('%s%d' % (o, n) for o, n in case['ops'])]
    return ['modes live']


def oracle(case):
    k = case['kind']
    if k == 'h':
        return _h_oracle(case)
    if k == 'fd':
        line, eof = run_fd(case)
        if case['finished'] and not eof:
            return 'fd: peer sees no EOF after the work was cleaned up (%s mode)' % case['mode']
        if case['finished'] and 'open=.' not in line:
            return 'fd: descriptor left open after cleanup (%s mode): %s' % (case['mode'], line)
        return None
    if k == 'ho':
        return run_ho(case)[1]
    if k == 'hf':
        return run_hf(case)[1]
    if k == 'q':
        return run_q(case)[1]
    _observe_live(case)
    return _live_sig(case)


def classify(case, sig):
    if case.get('kind') == 'h' and sig == D17_SIG:
        return 'D30'
    return None


def d17_witness():
    """plain-HTTP exchange, response bytes pending for a client that is not writable yet, follow-up
    request with `Content-Length: x` -> ValueError out of handle_events"""
    bad = b'GET http://example.org/b HTTP/1.1\r\nHost: example.org\r\nContent-Length: x\r\n\r\n'
    resp = b'HTTP/1.1 200 OK\r\nContent-Length: 10\r\n\r\n0123456789'
    ticks = [
        ['m0001', 'b', 'b', 'b', ['s', 10 ** 6]],
        ['m0010', 'b', 'b', ['d', {'hex': resp.hex()}], 'b'],
        ['m1000', ['d', {'hex': bad.hex()}], 'b', 'b', 'b'],
    ]
    return h_case('http', ticks, None, [], [0, 0, 0], [['y', ['s', 10 ** 6]]] * 3)


def finding_witnesses():
    return {'D30': d17_witness()}


# -- cases -------------------------------------------------------------------------

def h_case(setup, ticks, mx=None, extra=None, exp=None, flush=None):
    for t in ticks:
        assert t[0][0] == 'm'
    c = {'kind': 'h', 'setup': setup, 'max': mx, 'ticks': ticks,
         'exp': list(exp) if exp is not None else [0] * len(ticks),
         'flush': flush if flush is not None else []}
    if extra:
        c['extra'] = extra
    assert len(c['exp']) == len(ticks) and (not ticks or not c['exp'][0])
    return c


GOOD_FLUSH = [['y', ['s', 10 ** 6]]]


def _flush_script(rng, pfail=0.0, room=8):
    out = []
    for _ in range(rng.randint(0, 5)):
        out.append('t' if rng.random() < 0.3 else ['y', R.gen_send(rng, pfail)])
    return out + GOOD_FLUSH * room


def _mask_ticks(ticks):
    return [['m' + t[0][1:]] + list(t[1:]) for t in ticks]


def _exp(rng, n, p):
    return [0] + [1 if rng.random() < p else 0 for _ in range(n - 1)] if n else []


def gen_h(rng, big=False):
    k = rng.random()
    pfail = rng.choice([0.0, 0.0, 0.0, 0.05])
    mx = rng.choice([None, None, 1, 7, 50, 0, 65536])
    extra = []
    if k < 0.40:
        setup = rng.choice(['tunnel', 'tunnel', 'http'])
        n = rng.randint(1, 14)
        ticks = R.gen_ticks(rng, n, pfail, lambda: R.small_spec(rng), lambda: R.small_spec(rng), raw_p=0.0,
                            client_data=(setup == 'tunnel') or rng.random() < 0.3)
        if rng.random() < 0.6:
            # upstream closes at some point, then the client drains
            i = rng.randint(0, len(ticks))
            ticks = ticks[:i] + [['m' + rng.choice('01') + rng.choice('01') + '1' + rng.choice('01'), 'b',
                                  R.gen_send(rng, pfail), rng.choice(['e', 'e', 'r']), R.gen_send(rng, pfail)]]
            ticks += [['m0100', 'b', R.gen_send(rng, pfail), 'b', 'b'] for _ in range(rng.randint(1, 12))]
    elif k < 0.75:
        setup = rng.choice(['400', '404', '407', '502'])
        if rng.random() < 0.5:
            extra = [R.small_spec(rng, 0, 30) for _ in range(rng.randint(1, 3))]
        if big:
            extra.append(R.big_spec(rng, rng.choice([65535, 65537, 70000])))
        n = rng.randint(1, 30 if mx in (1, 7) else 10)
        ticks = []
        for _ in range(n):
            fl = 'm0' + ('1' if rng.random() < 0.75 else '0') + rng.choice('01') + rng.choice('01')
            ticks.append([fl, 'b', R.gen_send(rng, pfail), 'b', 'b'])
    elif k < 0.9:
        # plain-HTTP exchange with follow-up client data (well-formed, protocol error, raising)
        setup = 'http'
        follow = rng.choice([
            b'GET http://example.org/b HTTP/1.1\r\nHost: example.org\r\n\r\n',
            b'GARBAGE\r\n\r\n',
            b'GET http://example.org/b HTTP/1.1\r\nHost: example.org\r\nContent-Length: x\r\n\r\n',
            b'GET  HTTP/1.1\r\n\r\n',
            b'POST http://example.org/c HTTP/1.1\r\nHost: example.org\r\nContent-Length: 3\r\n\r\nabc',
        ])
        ticks = [['m0001', 'b', 'b', 'b', ['s', 10 ** 6]]]
        if rng.random() < 0.8:
            ticks.append(['m0010', 'b', 'b', ['d', R.small_spec(rng, 5, 40)], 'b'])
        if rng.random() < 0.4:
            ticks.append(['m0100', 'b', R.gen_send(rng, 0.0), 'b', 'b'])
        ticks.append(['m1' + rng.choice('01') + '00', ['d', {'hex': follow.hex()}], R.gen_send(rng, 0.0), 'b', 'b'])
        ticks += [['m0101', 'b', R.gen_send(rng, 0.0), 'b', R.gen_send(rng, 0.0)] for _ in range(rng.randint(0, 6))]
    else:
        # select timeouts / nothing ready, then inactivity
        setup = rng.choice(['tunnel', 'http', '404'])
        n = rng.randint(1, 8)
        ticks = [[rng.choice(['m0000', 'm0000', 'm0100', 'm1000', 'm0010']), 'b', R.gen_send(rng, 0.0),
                  'b', R.gen_send(rng, 0.0)] for _ in range(n)]
    if rng.random() < 0.6:
        # bring the conversation to an end: the client half-closes (or the final flush goes on), then drains
        if setup in ('tunnel', 'http') and rng.random() < 0.7:
            ticks.append(['m1' + rng.choice('01') + '00', rng.choice(['e', 'e', 'r']), R.gen_send(rng, 0.0), 'b', 'b'])
        room = 6 if mx not in (1, 7) else 60
        ticks += [['m0100', 'b', ['s', 10 ** 6], 'b', 'b'] for _ in range(rng.randint(1, room))]
    ticks = _mask_ticks(ticks)
    pexp = rng.choice([0.0, 0.0, 0.1, 0.4])
    room = (8 if not big else 40) * (1 if mx not in (1, 7) else 25)
    return h_case(setup, ticks, mx, extra, _exp(rng, len(ticks), pexp), _flush_script(rng, pfail, room))


def h_systematic(depth):
    import itertools
    menu = [
        ['m0100', 'b', ['s', 1], 'b', 'b'], ['m0100', 'b', ['s', 10 ** 6], 'b', 'b'], ['m0000', 'b', 'b', 'b', 'b'],
        ['m1100', 'e', ['s', 2], 'b', 'b'], ['m0010', 'b', 'b', ['d', {'hex': 'a1a2'}], 'b'],
        ['m0010', 'b', 'b', 'e', 'b'], ['m1000', ['d', {'hex': 'c1'}], 'b', 'b', 'b'],
    ]
    for setup, extra, mx in (('tunnel', [], 30), ('404', [{'hex': 'a1a2a3'}], 2)):
        for d in range(1, depth + 1):
            for combo in itertools.product(range(len(menu)), repeat=d):
                for last_exp in (0, 1):
                    exp = [0] * d
                    if d > 1:
                        exp[-1] = last_exp
                    elif last_exp:
                        continue
                    yield h_case(setup, [list(menu[i]) for i in combo], mx, extra, exp, GOOD_FLUSH * 6)


def ho_case(k, sched):
    return {'kind': 'ho', 'k': k, 'sched': list(sched)}


def hf_cases(big):
    """unix flag x every sequence of connection kinds up to length 4 (6): TCP only without the unix listener"""
    import itertools
    out = []
    for n in range(0, 5 if not big else 7):
        out.append({'kind': 'hf', 'unix': 0, 'kinds': 't' * n})
        for ks in itertools.product('tu', repeat=n):
            out.append({'kind': 'hf', 'unix': 1, 'kinds': ''.join(ks)})
    return out


def ho_cases(rng, big):
    import itertools
    out = hf_cases(big)
    for n in range(0, (7 if not big else 9)):
        for sch in itertools.product(range(2), repeat=n):
            out.append(ho_case(2, sch))
    for n in range(1, (4 if not big else 6)):
        for sch in itertools.product(range(3), repeat=n):
            out.append(ho_case(3, sch))
    for _ in range(40 if not big else 300):
        k = rng.choice([3, 4, 5])
        out.append(ho_case(k, [rng.randrange(k) for _ in range(rng.randint(4, 14))]))
    return out


def corpus():
    cs = [d17_witness()]
    # the interleaving that breaks a hand-off whose address is sent outside the lock
    cs.append(ho_case(2, [0, 1, 0, 0, 0, 1, 1, 1]))
    cs.append(ho_case(2, [0, 1]))
    cs.append({'kind': 'hf', 'unix': 1, 'kinds': 'tu'})        # --unix-socket-path + --ports: TCP client first
    cs.append({'kind': 'hf', 'unix': 0, 'kinds': 'tt'})
    cs.append({'kind': 'q', 'ops': [['p', 101], ['g', 102]]})       # one more pending than the listen backlog
    cs.append(ho_case(3, [0, 1, 2, 0, 1, 2, 2, 1, 0]))
    # CONNECT, upstream data, select timeout, short write, upstream EOF, drain (the example of C17.lean)
    cs.append(h_case('tunnel', [
        ['m0010', 'b', 'b', ['d', {'hex': '010203'}], 'b'], ['m0000', 'b', 'b', 'b', 'b'],
        ['m1111', ['d', {'hex': '0909'}], ['s', 2], 'e', ['s', 5]],
        ['m0101', 'b', ['s', 100], 'b', ['s', 5]]] + [['m0100', 'b', ['s', 100], 'b', 'b']] * 14,
        4, [], [0, 0, 0, 1] + [1] * 14, []))
    cs.append(h_case('404', [['m0100', 'b', ['s', 10], 'b', 'b'], ['m0000', 'b', 'b', 'b', 'b'],
                             ['m0100', 'b', ['s', 10 ** 6], 'b', 'b']], None, [{'hex': 'aabb'}], [0, 1, 1], []))
    cs.append(h_case('http', [['m0001', 'b', 'b', 'b', ['s', 10 ** 6]], ['m0000', 'b', 'b', 'b', 'b'],
                              ['m0010', 'b', 'b', ['d', {'hex': '05'}], 'b']], None, [], [0, 0, 1], []))
    cs.append(h_case('502', [['m0100', 'b', 'p', 'b', 'b']], None, [], [0], GOOD_FLUSH))
    cs.append(h_case('400', [['m0100', 'b', 'o', 'b', 'b']], None, [], [0], [['y', 'p']]))
    for mode in MODE_ORDER:
        for fin in (0, 1):
            cs.append({'kind': 'fd', 'mode': mode, 'finished': fin})
    return cs


def live_cases(tier, rng):
    out = []
    if tier == 'quick':
        for scn, size, conc in QUICK_SCENARIOS:
            out.append(live_case(scn, size, conc, 1))
        for scn, size, conc in (('fwd_post', 50000, 3), ('mixed', 30000, 4), ('tunnel_echo', 20000, 2)):
            out.append(live_case(scn, size, conc, 2))
        for scn, size, conc in BURSTS:
            out.append(live_case(scn, size, conc, 1, 4))
        for scn, size, conc in IDLES:
            out.append(live_case(scn, size, conc, 1))
        for scn, size, conc in BACKLOG:
            out.append(live_case(scn, size, conc, 1))
    else:
        for nw in (1, 2, 4):
            for scn, size, conc in QUICK_SCENARIOS:
                out.append(live_case(scn, size, conc, nw))
            for scn, size, conc in (('fwd_post', 4 * 1048576, 1), ('tunnel_echo', 4 * 1048576, 1),
                                    ('fwd_post', 2 * 1048576 + 11, 2), ('mixed', 300000, 4),
                                    ('fwd_persistent', 1048576, 2), ('web_static_slow_reader', 1, 2),
                                    ('web_big', 1, 3), ('fwd_close_delim', 3 * 1048576, 2)):
                out.append(live_case(scn, size, conc, nw))
            for scn, size, conc in BURSTS + [('burst', 3, 64), ('burst_fwd', 2, 40)]:
                out.append(live_case(scn, size, conc, nw, 4))
            for scn, size, conc in IDLES + [('idle_busy_neighbours', 2000, 5), ('seq_unix_tcp', 70000, 4)]:
                out.append(live_case(scn, size, conc, nw))
            if nw == 1:
                for scn, size, conc in BACKLOG + [('pre_backlog', 2, 400)]:
                    out.append(live_case(scn, size, conc, 1))
            for _ in range(3):
                scn = rng.choice(['fwd_post', 'fwd_get_keep', 'fwd_persistent', 'tunnel_echo', 'fwd_chunked',
                                  'fwd_close_delim', 'mixed'])
                out.append(live_case(scn, rng.choice([1, 17, 4095, 65536, 65537, 131073, 700001]),
                                     rng.choice([1, 2, 3, 4]), nw))
    return out


def generate(rng, tier):
    big = tier == 'thorough'
    cases = list(h_systematic(3 if not big else 4))
    for _ in range(1500 if not big else 10000):
        cases.append(gen_h(rng))
    for _ in range(6 if not big else 40):
        cases.append(gen_h(rng, big=True))
    cases += ho_cases(rng, big)
    cases += q_cases(rng, big)
    _prefetch_ho(cases)
    live = live_cases(tier, rng)
    _prefetch(live)
    return cases + live


def neighbours(case):
    if case['kind'] == 'h':
        t = case['ticks']
        for i in range(len(t)):
            if len(t) > 1:
                e = case['exp'][:i] + case['exp'][i + 1:]
                e[0] = 0
                yield dict(case, ticks=t[:i] + t[i + 1:], exp=e)
    # live cases have no neighbours: every observation costs three Proxy starts, and the quick live
    # corpus is part of search() (observed in one batch, cached)


def search(rng):
    out = list(h_systematic(3)) + ho_cases(rng, False) + q_cases(rng, False)
    _prefetch_ho(out)
    out += [gen_h(rng) for _ in range(1500)]
    live = live_cases('quick', rng)
    _prefetch(live)
    return out + live


def describe(case):
    k = case['kind']
    if k == 'h':
        lo, th = _h(case)
        n = len(case['ticks'])
        return ['h ' + case['setup'], 'h end=' + str(th['end']), 'h flush=' + str(th.get('shut')),
                'h rounds ' + ('<=3' if n <= 3 else '<=10' if n <= 10 else '>10'),
                'h idle-skipped=%d' % min(3, th['calls'] - lo['calls'])]
    if k == 'fd':
        return ['fd ' + case['mode']]
    if k == 'ho':
        return ['ho k=%d' % case['k']]
    if k == 'hf':
        return ['hf unix=%d' % case['unix'], 'hf n=%d' % len(case['kinds'])]
    if k == 'q':
        return ['q puts=%s' % ('<=100' if sum(n for o, n in case['ops'] if o == 'p') <= 100 else '>100')]
    return ['live ' + case['scn'], 'live nw=%d na=%d' % (case['nw'], case.get('na', case['nw'])), 'live conc=%d' % case['conc'],
            'live size ' + ('<64K' if case['size'] < 65536 else '<1M' if case['size'] < 1048576 else '>=1M')]


def nontrivial(case):
    if case['kind'] == 'h':
        return _h(case)[1]['calls'] > 0
    return True
