import PxModel.Parser
import PxModel.Build
import PxProofs.BytesLemmas
import PxProofs.HexLemmas
/-!
# The builders' output read back by the parser, part 1: header block (C15)

* literals (`b "…"` evaluated), `dSet` facts;
* `HdrOK k v` : what a header needs for `name ": " value CRLF` to be read back as `(name, value)`;
  `wfName` / `wfValue` : the decidable, user-facing sufficient condition;
* `processHeader_render`, `processHeaders_render` : the parser's header loop on a rendered header
  block is `foldHdrs` (one `hdrApply` per header, in order), then the blank line;
* `foldHdrs_*` : what `foldHdrs` does to each field (`hdrFold` = Python dict of
  lower-case key ↦ (name, value); `Content-Length` / `Transfer-Encoding` deductions).
-/
namespace Px.Codec

open Px.Parser Px.Build

/-! ### literals -/

theorem b_eval (s : String) : b s = s.toByteArray.data.toList := by
  unfold b; rw [byteArray_toList_eq]; rfl

theorem b_content_length : b "content-length" = [99, 111, 110, 116, 101, 110, 116, 45, 108, 101, 110, 103, 116, 104] := by
  rw [b_eval]; rfl
theorem b_Content_Length : b "Content-Length" = [67, 111, 110, 116, 101, 110, 116, 45, 76, 101, 110, 103, 116, 104] := by
  rw [b_eval]; rfl
theorem b_transfer_encoding : b "transfer-encoding" =
    [116, 114, 97, 110, 115, 102, 101, 114, 45, 101, 110, 99, 111, 100, 105, 110, 103] := by
  rw [b_eval]; rfl
theorem b_chunked : b "chunked" = [99, 104, 117, 110, 107, 101, 100] := by rw [b_eval]; rfl
theorem b_user_agent : b "user-agent" = [117, 115, 101, 114, 45, 97, 103, 101, 110, 116] := by rw [b_eval]; rfl
theorem b_User_Agent : b "User-Agent" = [85, 115, 101, 114, 45, 65, 103, 101, 110, 116] := by rw [b_eval]; rfl
theorem b_Content_Type : b "Content-Type" = [67, 111, 110, 116, 101, 110, 116, 45, 84, 121, 112, 101] := by
  rw [b_eval]; rfl
theorem b_Connection : b "Connection" = [67, 111, 110, 110, 101, 99, 116, 105, 111, 110] := by rw [b_eval]; rfl
theorem b_close : b "close" = [99, 108, 111, 115, 101] := by rw [b_eval]; rfl
theorem b_0 : b "0" = [48] := by rw [b_eval]; rfl
theorem b_host : b "host" = [104, 111, 115, 116] := by rw [b_eval]; rfl
theorem b_content_encoding : b "content-encoding" =
    [99, 111, 110, 116, 101, 110, 116, 45, 101, 110, 99, 111, 100, 105, 110, 103] := by rw [b_eval]; rfl
theorem b_gzip : b "gzip" = [103, 122, 105, 112] := by rw [b_eval]; rfl

/-- the lower-case header names the parser looks for -/
def kCL : Bytes := [99, 111, 110, 116, 101, 110, 116, 45, 108, 101, 110, 103, 116, 104]
def kTE : Bytes := [116, 114, 97, 110, 115, 102, 101, 114, 45, 101, 110, 99, 111, 100, 105, 110, 103]
def kUA : Bytes := [117, 115, 101, 114, 45, 97, 103, 101, 110, 116]
def vChunked : Bytes := [99, 104, 117, 110, 107, 101, 100]
/-- the names the builders write -/
def nCL : Bytes := [67, 111, 110, 116, 101, 110, 116, 45, 76, 101, 110, 103, 116, 104]
def nCT : Bytes := [67, 111, 110, 116, 101, 110, 116, 45, 84, 121, 112, 101]
def nUA : Bytes := [85, 115, 101, 114, 45, 65, 103, 101, 110, 116]
def nConn : Bytes := [67, 111, 110, 110, 101, 99, 116, 105, 111, 110]
def vClose : Bytes := [99, 108, 111, 115, 101]

theorem lower_nCL : lower nCL = kCL := by decide
theorem lower_nUA : lower nUA = kUA := by decide
theorem lower_kCL : lower kCL = kCL := by decide

/-! ### `dSet` (Python `d[k] = v` on an insertion-ordered dict) -/

theorem dSet_of_not_mem (h : HDict) (k v : Bytes) (hk : ∀ e ∈ h, e.1 ≠ k) : dSet h k v = h ++ [(k, v)] := by
  unfold dSet
  have : h.any (·.1 == k) = false := by
    rw [List.any_eq_false]; intro e he; simpa using hk e he
  simp [this]

theorem mem_dSet {h : HDict} {k v : Bytes} {e : Bytes × Bytes} (he : e ∈ dSet h k v) :
    e = (k, v) ∨ (e ∈ h ∧ e.1 ≠ k) := by
  unfold dSet at he
  split at he
  · simp only [List.mem_map] at he
    obtain ⟨a, ha, rfl⟩ := he
    by_cases hak : a.1 == k
    · simp [hak]
    · simp only [hak, Bool.false_eq_true, if_false]
      exact .inr ⟨ha, by simpa using hak⟩
  · rename_i hn
    simp only [List.mem_append, List.mem_singleton] at he
    rcases he with he | he
    · refine .inr ⟨he, ?_⟩
      intro hk
      apply hn
      exact List.any_eq_true.2 ⟨e, he, by simp [hk]⟩
    · exact .inl he

theorem mem_dSet_self (h : HDict) (k v : Bytes) : (k, v) ∈ dSet h k v := by
  unfold dSet
  split
  · rename_i ha
    obtain ⟨a, ham, hak⟩ := List.any_eq_true.1 ha
    simp only [List.mem_map]
    exact ⟨a, ham, by simp [hak]⟩
  · simp

/-! ### well-formed header fields -/

/-- what the parser needs to read `name ": " value CRLF` back as `(name, value)` -/
def HdrOK (k v : Bytes) : Prop :=
  COLON ∉ k ∧ strip k = k ∧ strip v = v ∧ splitCRLF (buildHeader k v) = none

/-- header name of the theorems' guard: non-empty, no `:`, no whitespace (SP, HT, CR, LF, VT, FF) -/
def wfName (k : Bytes) : Bool := !k.isEmpty && k.all (fun c => c != 58 && !isWs c)

/-- header value of the guard: no CR, no LF, already stripped -/
def wfValue (v : Bytes) : Bool := v.all (fun c => c != 13 && c != 10) && strip v == v

def wfHeaders (h : HDict) : Bool := h.all (fun e => wfName e.1 && wfValue e.2)

theorem strip_noWs {k : Bytes} (h : ∀ c ∈ k, isWs c = false) : strip k = k := by
  apply strip_eq_self
  · intro c hc; exact h c (List.mem_of_mem_head? hc)
  · intro c hc; exact h c (List.mem_of_mem_getLast? hc)

theorem hdrOK_of_wf {k v : Bytes} (hk : wfName k = true) (hv : wfValue v = true) : HdrOK k v := by
  simp only [wfName, Bool.and_eq_true, Bool.not_eq_true', List.all_eq_true, bne_iff_ne, ne_eq] at hk
  simp only [wfValue, Bool.and_eq_true, List.all_eq_true, bne_iff_ne, ne_eq, beq_iff_eq] at hv
  refine ⟨?_, strip_noWs (fun c hc => (hk.2 c hc).2), hv.2, ?_⟩
  · intro hc; exact (hk.2 _ hc).1 rfl
  · apply splitCRLF_none_of_noCR
    intro c hc
    simp only [buildHeader, List.mem_append, List.mem_singleton] at hc
    rcases hc with ((hc | hc) | hc) | hc
    · intro e; subst e; have := (hk.2 _ hc).2; simp [isWs, CR] at this
    · subst hc; decide
    · subst hc; decide
    · intro e; subst e; exact (hv.1 _ hc).1 rfl

theorem lstrip_sp_cons (v : Bytes) : lstrip (SP :: v) = lstrip v := by
  simp [lstrip, isWs, SP]

theorem strip_sp_cons {v : Bytes} (h : strip v = v) : strip (SP :: v) = v := by
  unfold strip at h ⊢; rw [lstrip_sp_cons]; exact h

/-! ### one header line -/

/-- effect of one received header `(k, v)`: `add_header`, then the Content-Length /
    Transfer-Encoding deductions of `_process_header` -/
def hdrApply (p : Parser) (k v : Bytes) : Except Px.Parser.Err Parser :=
  let p := addHeader p k v
  if lower k == b "content-length" then
    match pyInt 10 v with
    | none => .error .valueError
    | some n => .ok { p with contentExpected := decide (n > 0) }
  else if lower k == b "transfer-encoding" && lower v == b "chunked" then .ok { p with isChunked := true }
  else .ok p

theorem processHeader_render (p : Parser) {k v : Bytes} (h : HdrOK k v) :
    processHeader p (buildHeader k v) = hdrApply p k v := by
  have hs : splitOnce1 COLON (buildHeader k v) = some (k, SP :: v) := by
    have : buildHeader k v = k ++ COLON :: (SP :: v) := by simp [buildHeader]
    rw [this]; exact splitOnce1_render _ _ _ h.1
  unfold processHeader hdrApply
  simp only [hs, h.2.1, strip_sp_cons h.2.2.1]
  rfl

theorem buildHeader_not_blank (k v : Bytes) : (strip (buildHeader k v)).isEmpty = false := by
  have : strip (buildHeader k v) ≠ [] :=
    strip_ne_nil (c := COLON) (by simp [buildHeader]) (by decide)
  simpa using this

/-- the header lines of `build_http_pkt` -/
def renderHdrs (H : HDict) : Bytes := (H.map (fun (k, v) => buildHeader k v ++ CRLF)).flatten

theorem renderHdrs_cons (k v : Bytes) (H : HDict) :
    renderHdrs ((k, v) :: H) = buildHeader k v ++ CRLF ++ renderHdrs H := by
  simp [renderHdrs]

/-- the parser's header loop as a fold -/
def foldHdrs (p : Parser) : HDict → Except Px.Parser.Err Parser
  | [] => .ok p
  | (k, v) :: H =>
    match hdrApply { p with state := .rcvingHeaders } k v with
    | .error e => .error e
    | .ok q => foldHdrs q H

theorem hdrApply_state {p q : Parser} {k v : Bytes} (h : hdrApply p k v = .ok q) : q.state = p.state := by
  unfold hdrApply at h
  split at h
  · split at h
    · simp at h
    · simp only [Except.ok.injEq] at h; subst h; rfl
  · split at h <;> (simp only [Except.ok.injEq] at h; subst h; rfl)

/-- **header block**: the header loop run on `render H ++ CRLF ++ B` consumes exactly the block,
    applies the headers in order and hands `B` on -/
theorem processHeaders_render (H : HDict) (hH : ∀ e ∈ H, HdrOK e.1 e.2) (p : Parser)
    (hp : p.state = .lineRcvd ∨ p.state = .rcvingHeaders) (B : Bytes) (fuel : Nat) (hf : H.length < fuel) :
    processHeaders fuel p (renderHdrs H ++ CRLF ++ B) =
      match foldHdrs p H with
      | .error e => .error e
      | .ok q => .ok ({ q with state := .headersComplete }, !B.isEmpty, B) := by
  induction H generalizing p fuel with
  | nil =>
    obtain ⟨fuel, rfl⟩ : ∃ f, fuel = f + 1 := ⟨fuel - 1, by omega⟩
    have hs : splitCRLF (renderHdrs [] ++ CRLF ++ B) = some ([], B) := by
      simpa [renderHdrs] using splitCRLF_render (l := []) rfl B
    have hst : (p.state == .lineRcvd || p.state == .rcvingHeaders) = true := by
      rcases hp with h | h <;> simp [h]
    rw [processHeaders]
    simp only [hs, hst, if_true, strip_nil, List.isEmpty_nil, foldHdrs, beq_self_eq_true, Bool.or_true]
  | cons e H ih =>
    obtain ⟨k, v⟩ := e
    obtain ⟨fuel, rfl⟩ : ∃ f, fuel = f + 1 := ⟨fuel - 1, by omega⟩
    have hok := hH (k, v) (by simp)
    have hs : splitCRLF (renderHdrs ((k, v) :: H) ++ CRLF ++ B) =
        some (buildHeader k v, renderHdrs H ++ CRLF ++ B) := by
      rw [renderHdrs_cons]
      have : buildHeader k v ++ CRLF ++ renderHdrs H ++ CRLF ++ B =
          buildHeader k v ++ CRLF ++ (renderHdrs H ++ CRLF ++ B) := by simp
      rw [this]; exact splitCRLF_render hok.2.2.2 _
    have hst : (p.state == .lineRcvd || p.state == .rcvingHeaders) = true := by
      rcases hp with h | h <;> simp [h]
    rw [processHeaders]
    simp only [hs, hst, if_true, buildHeader_not_blank, Bool.false_eq_true, if_false,
      processHeader_render _ hok, foldHdrs]
    cases hq : hdrApply { p with state := .rcvingHeaders } k v with
    | error e => rfl
    | ok q =>
      have hqs : q.state = .rcvingHeaders := hdrApply_state hq
      have hne : (renderHdrs H ++ CRLF ++ B).isEmpty = false := by simp [CRLF]
      simp only [hne, hqs, Bool.false_or]
      have : (PState.rcvingHeaders == PState.headersComplete) = false := by decide
      simp only [this, Bool.false_eq_true, if_false]
      exact ih (fun e he => hH e (List.mem_cons_of_mem _ he)) q (.inr hqs) fuel (by simp at hf; omega)

/-! ### what the fold does to each field -/

/-- Python dict of lower-case key ↦ (name, value): a repeated key keeps its position and
    takes the last (name, value) -/
def hdrFold (h0 : Headers) (H : HDict) : Headers :=
  H.foldl (fun acc e => hdrSet acc (lower e.1) (e.1, e.2)) h0

/-- is this header `Transfer-Encoding: chunked` (both compared case-insensitively)? -/
def isTEChunked (e : Bytes × Bytes) : Bool := lower e.1 == kTE && lower e.2 == vChunked

def isCL (e : Bytes × Bytes) : Bool := lower e.1 == kCL

/-- the parser fields the header loop never touches -/
def sameLine (p q : Parser) : Prop :=
  q.ty = p.ty ∧ q.method = p.method ∧ q.version = p.version ∧ q.code = p.code ∧ q.reason = p.reason ∧
  q.url = p.url ∧ q.host = p.host ∧ q.port = p.port ∧ q.path = p.path ∧ q.isTunnel = p.isTunnel ∧
  q.body = p.body ∧ q.chunk = p.chunk ∧ q.totalSize = p.totalSize ∧ q.buffer = p.buffer

theorem sameLine_refl (p : Parser) : sameLine p p := by simp [sameLine]

theorem sameLine_trans {p q r : Parser} (h1 : sameLine p q) (h2 : sameLine q r) : sameLine p r := by
  simp only [sameLine] at *
  obtain ⟨a1, a2, a3, a4, a5, a6, a7, a8, a9, a10, a11, a12, a13, a14⟩ := h1
  obtain ⟨b1, b2, b3, b4, b5, b6, b7, b8, b9, b10, b11, b12, b13, b14⟩ := h2
  exact ⟨b1.trans a1, b2.trans a2, b3.trans a3, b4.trans a4, b5.trans a5, b6.trans a6, b7.trans a7,
    b8.trans a8, b9.trans a9, b10.trans a10, b11.trans a11, b12.trans a12, b13.trans a13, b14.trans a14⟩

theorem hdrApply_spec {p q : Parser} {k v : Bytes} (h : hdrApply p k v = .ok q) :
    sameLine p q ∧ q.headers = some (hdrSet (p.headers.getD []) (lower k) (k, v)) ∧
    q.isChunked = (p.isChunked || isTEChunked (k, v)) ∧
    (isCL (k, v) = false → q.contentExpected = p.contentExpected) ∧
    (isCL (k, v) = true → ∃ n, pyInt 10 v = some n ∧ q.contentExpected = decide (n > 0)) := by
  unfold hdrApply at h
  simp only [b_content_length, b_transfer_encoding, b_chunked] at h
  by_cases hcl : lower k = kCL
  · have hte : isTEChunked (k, v) = false := by
      have : (kCL == kTE) = false := by decide
      simp only [isTEChunked, hcl, this, Bool.false_and]
    simp only [hcl, kCL, beq_self_eq_true, if_true] at h
    cases hn : pyInt 10 v with
    | none => simp [hn] at h
    | some n =>
      simp only [hn, Except.ok.injEq] at h; subst h
      refine ⟨by simp [sameLine, addHeader], rfl, by simp [addHeader, hte], ?_, ?_⟩
      · intro hc; simp [isCL, hcl] at hc
      · intro _; exact ⟨n, rfl, rfl⟩
  · have hcl' : (lower k == kCL) = false := by simpa using hcl
    have hcl2 : isCL (k, v) = false := hcl'
    simp only [kCL] at hcl'
    simp only [hcl', Bool.false_eq_true, if_false] at h
    by_cases hte : (lower k == kTE && lower v == vChunked) = true
    · simp only [kTE, vChunked] at hte
      simp only [hte, if_true, Except.ok.injEq] at h; subst h
      refine ⟨by simp [sameLine, addHeader], rfl, ?_, fun _ => rfl, fun hc => by simp [hcl2] at hc⟩
      simp [isTEChunked, kTE, vChunked, hte]
    · have hte' : isTEChunked (k, v) = false := by simpa [isTEChunked] using hte
      simp only [kTE, vChunked] at hte
      simp only [hte, Bool.false_eq_true, if_false, Except.ok.injEq] at h; subst h
      exact ⟨by simp [sameLine, addHeader], rfl, by simp [addHeader, hte'], fun _ => rfl,
        fun hc => by simp [hcl2] at hc⟩

/-- the header loop succeeds iff every `content-length` value is an `int()` literal -/
def clValuesOK (H : HDict) : Prop := ∀ e ∈ H, isCL e = true → ∃ n, pyInt 10 e.2 = some n

theorem foldHdrs_ok (H : HDict) (hcl : clValuesOK H) (p : Parser) : ∃ q, foldHdrs p H = .ok q := by
  induction H generalizing p with
  | nil => exact ⟨p, rfl⟩
  | cons e H ih =>
    obtain ⟨k, v⟩ := e
    simp only [foldHdrs]
    have hq : ∃ q, hdrApply { p with state := .rcvingHeaders } k v = .ok q := by
      unfold hdrApply
      simp only [b_content_length, b_transfer_encoding, b_chunked]
      by_cases hc : lower k = kCL
      · obtain ⟨n, hn⟩ := hcl (k, v) (by simp) (by simp [isCL, hc])
        simp only [hc, kCL, beq_self_eq_true, if_true, hn]; exact ⟨_, rfl⟩
      · have hc' : (lower k == kCL) = false := by simpa using hc
        simp only [kCL] at hc'
        simp only [hc', Bool.false_eq_true, if_false]
        split <;> exact ⟨_, rfl⟩
    obtain ⟨q, hq⟩ := hq
    rw [hq]
    exact ih (fun e he => hcl e (List.mem_cons_of_mem _ he)) q

theorem foldHdrs_spec (H : HDict) {p q : Parser} (h : foldHdrs p H = .ok q) :
    sameLine p q ∧
    q.headers = (if H = [] then p.headers else some (hdrFold (p.headers.getD []) H)) ∧
    q.isChunked = (p.isChunked || H.any isTEChunked) := by
  induction H generalizing p with
  | nil =>
    simp only [foldHdrs, Except.ok.injEq] at h; subst h
    simp [sameLine_refl]
  | cons e H ih =>
    obtain ⟨k, v⟩ := e
    simp only [foldHdrs] at h
    cases hq : hdrApply { p with state := .rcvingHeaders } k v with
    | error e => simp [hq] at h
    | ok q1 =>
      simp only [hq] at h
      obtain ⟨s1, hh1, hc1, -, -⟩ := hdrApply_spec hq
      obtain ⟨s2, hh2, hc2⟩ := ih h
      refine ⟨sameLine_trans (by simpa [sameLine] using s1) s2, ?_, ?_⟩
      · rw [hh2, hh1]
        by_cases hH : H = []
        · subst hH; simp [hdrFold]
        · simp [hH, hdrFold]
      · rw [hc2, hc1]; simp [Bool.or_assoc]

/-- no `content-length` header: the body expectation is untouched -/
theorem foldHdrs_ce_none (H : HDict) (hn : ∀ e ∈ H, isCL e = false) {p q : Parser}
    (h : foldHdrs p H = .ok q) : q.contentExpected = p.contentExpected := by
  induction H generalizing p with
  | nil => simp only [foldHdrs, Except.ok.injEq] at h; subst h; rfl
  | cons e H ih =>
    obtain ⟨k, v⟩ := e
    simp only [foldHdrs] at h
    cases hq : hdrApply { p with state := .rcvingHeaders } k v with
    | error e => simp [hq] at h
    | ok q1 =>
      simp only [hq] at h
      have := (hdrApply_spec hq).2.2.2.1 (hn (k, v) (by simp))
      rw [ih (fun e he => hn e (List.mem_cons_of_mem _ he)) h, this]

/-- every `content-length` header (however its name is spelled) carries a value that reads as
    `n`, and there is at least one: the body expectation is `n > 0` -/
theorem foldHdrs_ce_some (H : HDict) (n : Int) (hall : ∀ e ∈ H, isCL e = true → pyInt 10 e.2 = some n)
    (hex : ∃ e ∈ H, isCL e = true) {p q : Parser} (h : foldHdrs p H = .ok q) :
    q.contentExpected = decide (n > 0) := by
  induction H generalizing p with
  | nil => obtain ⟨e, he, -⟩ := hex; simp at he
  | cons e H ih =>
    obtain ⟨k, v⟩ := e
    simp only [foldHdrs] at h
    cases hq : hdrApply { p with state := .rcvingHeaders } k v with
    | error e => simp [hq] at h
    | ok q1 =>
      simp only [hq] at h
      have hall' : ∀ e ∈ H, isCL e = true → pyInt 10 e.2 = some n :=
        fun e he => hall e (List.mem_cons_of_mem _ he)
      by_cases hex' : ∃ e ∈ H, isCL e = true
      · exact ih hall' hex' h
      · have hnone : ∀ e ∈ H, isCL e = false := by
          intro e he
          cases hc : isCL e with
          | false => rfl
          | true => exact absurd ⟨e, he, hc⟩ hex'
        rw [foldHdrs_ce_none H hnone h]
        have hk : isCL (k, v) = true := by
          obtain ⟨e, he, hc⟩ := hex
          simp only [List.mem_cons] at he
          rcases he with rfl | he
          · exact hc
          · exact absurd hc (by simp [hnone e he])
        obtain ⟨n', hn', hce⟩ := (hdrApply_spec hq).2.2.2.2 hk
        have := hall (k, v) (by simp) hk
        simp only at this
        rw [this] at hn'; cases hn'; exact hce

/-! ### looking a key up in the header map -/

theorem hdrGet_nil (k : Bytes) : hdrGet [] k = none := rfl

theorem hdrGet_cons (a : Bytes × (Bytes × Bytes)) (t : Headers) (k : Bytes) :
    hdrGet (a :: t) k = if a.1 == k then some a.2 else hdrGet t k := by
  unfold hdrGet
  rw [List.find?_cons]
  split <;> simp_all

theorem hdrGet_none_of_no_key (h : Headers) (k : Bytes) (hk : h.any (·.1 == k) = false) : hdrGet h k = none := by
  induction h with
  | nil => rfl
  | cons a t ih =>
    simp only [List.any_cons, Bool.or_eq_false_iff] at hk
    rw [hdrGet_cons, hk.1]; simpa using ih hk.2

theorem hdrGet_map_replace (h : Headers) (k k' : Bytes) (x : Bytes × Bytes) :
    hdrGet (h.map (fun e => if e.1 == k then (k, x) else e)) k' =
      if k = k' then (if h.any (·.1 == k) then some x else none) else hdrGet h k' := by
  induction h with
  | nil => simp [hdrGet_nil]
  | cons a t ih =>
    simp only [List.map_cons, List.any_cons]
    rw [hdrGet_cons, hdrGet_cons, ih]
    by_cases hak : (a.1 == k) = true
    · have hak' : a.1 = k := by simpa using hak
      by_cases hkk : k = k'
      · subst hkk; simp [hak]
      · have : (k == k') = false := by simpa using hkk
        simp [hak, hkk, this, hak']
    · have hak0 : (a.1 == k) = false := by simpa using hak
      simp only [hak0, Bool.false_eq_true, if_false, Bool.false_or]
      by_cases hkk : k = k'
      · subst hkk; simp [hak0]
      · simp [hkk]

theorem hdrGet_append_single (h : Headers) (k k' : Bytes) (x : Bytes × Bytes) :
    hdrGet (h ++ [(k, x)]) k' = match hdrGet h k' with
      | some v => some v
      | none => if k = k' then some x else none := by
  induction h with
  | nil => simp [hdrGet_cons, hdrGet_nil]
  | cons a t ih =>
    simp only [List.cons_append]
    rw [hdrGet_cons, hdrGet_cons, ih]
    split <;> rfl

/-- `d[k] = x; d.get(k')` -/
theorem hdrGet_hdrSet (h : Headers) (k k' : Bytes) (x : Bytes × Bytes) :
    hdrGet (hdrSet h k x) k' = if k = k' then some x else hdrGet h k' := by
  unfold hdrSet
  by_cases hany : h.any (·.1 == k) = true
  · simp only [hany, if_true, hdrGet_map_replace]
  · have hany' : h.any (·.1 == k) = false := by
      cases hb : h.any (·.1 == k) with
      | false => rfl
      | true => exact absurd hb hany
    simp only [hany', Bool.false_eq_true, if_false, hdrGet_append_single]
    by_cases hkk : k = k'
    · subst hkk; simp [hdrGet_none_of_no_key h k hany']
    · simp only [hkk, if_false]; split <;> simp_all

theorem hdrFold_cons (h0 : Headers) (e : Bytes × Bytes) (H : HDict) :
    hdrFold h0 (e :: H) = hdrFold (hdrSet h0 (lower e.1) (e.1, e.2)) H := rfl

theorem hdrFold_append (h0 : Headers) (H1 H2 : HDict) : hdrFold h0 (H1 ++ H2) = hdrFold (hdrFold h0 H1) H2 := by
  simp [hdrFold]

/-- headers that are not `content-length` leave that key alone -/
theorem hdrGet_hdrFold_noCL (H : HDict) (h0 : Headers) (hn : ∀ e ∈ H, isCL e = false) :
    hdrGet (hdrFold h0 H) kCL = hdrGet h0 kCL := by
  induction H generalizing h0 with
  | nil => rfl
  | cons e H ih =>
    rw [hdrFold_cons, ih _ (fun e he => hn e (List.mem_cons_of_mem _ he)), hdrGet_hdrSet]
    have : lower e.1 ≠ kCL := by
      have := hn e (by simp); simpa [isCL] using this
    simp [this]

/-- the `content-length` entry of the header map is (the last) one of the `content-length` headers received -/
theorem hdrGet_hdrFold_cl (H : HDict) (h0 : Headers) (hex : ∃ e ∈ H, isCL e = true) :
    ∃ nv, hdrGet (hdrFold h0 H) kCL = some nv ∧ ∃ e ∈ H, isCL e = true ∧ nv.2 = e.2 := by
  induction H generalizing h0 with
  | nil => obtain ⟨e, he, -⟩ := hex; simp at he
  | cons e H ih =>
    rw [hdrFold_cons]
    by_cases hex' : ∃ e ∈ H, isCL e = true
    · obtain ⟨nv, h1, e', he', hc', hv⟩ := ih (hdrSet h0 (lower e.1) (e.1, e.2)) hex'
      exact ⟨nv, h1, e', List.mem_cons_of_mem _ he', hc', hv⟩
    · have hnone : ∀ e ∈ H, isCL e = false := by
        intro e he
        cases hc : isCL e with
        | false => rfl
        | true => exact absurd ⟨e, he, hc⟩ hex'
      have hk : isCL e = true := by
        obtain ⟨e', he', hc⟩ := hex
        simp only [List.mem_cons] at he'
        rcases he' with rfl | he'
        · exact hc
        · exact absurd hc (by simp [hnone e' he'])
      have hl : lower e.1 = kCL := by simpa [isCL] using hk
      refine ⟨(e.1, e.2), ?_, e, by simp, hk, rfl⟩
      rw [hdrGet_hdrFold_noCL H _ hnone, hdrGet_hdrSet, if_pos hl]

end Px.Codec
