"""C15 — HTTP message and chunked codecs round-trip and agree with a reference.

Correspondence of PxModel/Build.lean, Chunk.lean (toChunks / decoder), Parser.lean and
UpdateBody.lean with proxy/common/utils.py (build_http_request / build_http_response /
build_http_pkt), proxy/http/parser/parser.py (build / build_response / update_body /
_get_body_or_chunks) and proxy/http/parser/chunk.py, and the property oracle.

Case kinds
  mkreq    build_http_request argument tuple            vs  `hp mkreq`
  mkres    build_http_response argument tuple           vs  `hp mkres`
  mkpkt    build_http_pkt argument tuple                vs  `codec pkt`
  rebuild  message (pieces) parsed by the real HttpParser, then build(disable_headers, host) /
           build_response()                             vs  `hp rebuild`
  tochunks ChunkParser.to_chunks(raw, size) and decode(to_chunks(raw, size))
                                                        vs  `hp tochunks`, `codec rt`
  chunk    chunked stream (+ tail) into a fresh ChunkParser   vs  `hp chunk`
  seq      2-4 consecutive builder calls in ONE process (okResponse / build_http_response /
           build_http_request / HttpRequestRejected.response / redirect builders) whose `headers`
           argument is None, a fresh dict, or ONE dict object reused by the calls of the sequence;
           every call's output                          vs  `hp mkres` / `hp mkreq` fed with the
                                                            caller's dict as the previous calls left it
  upd      message parsed, update_body(body, content_type), observable + rebuild
                                                        vs  `codec upd` (gzip output handed to the
                                                            model as the value of `gz body`)
Oracles (implementation only): builder -> parser round trip; rebuild -> reparse gives the same
message and h11 accepts it with the same decoded body; decode(to_chunks(b, n)) == b; an
independent RFC 7230 §4.1 chunked decoder agrees with ChunkParser on every valid stream;
update_body keeps the message well-formed and decodable to the new body.
Open findings D22 (trailers) and D24 ('//' path does not survive rebuild + reparse) are judged only
while known_findings.json lists them as open for C15 (checked at import time).  D23 (update_body on
a chunked message was chunk-encoded twice by build()) is fixed (4312341): that class is inside the
oracle's domain unconditionally.
"""
import os
import re
import gzip
import json

from harness import httpgen as G
from harness import parser_obs as P
from harness.common import hx, exc_name, VERIF

PROPERTY = 'C15'
LEAN_TARGETS = ['PxProofs.C15']
THEOREMS = [
    'Px.Codec.C15_hex_roundtrip',
    'Px.Codec.C15_dec_roundtrip',
    'Px.Codec.C15_chunk_inverse',
    'Px.Codec.C15_chunk_inverse_sizes',
    'Px.Codec.C15_chunk_size_zero',
    'Px.Codec.C15_chunk_reference',
    'Px.Codec.C15_toChunks_in_grammar',
    'Px.Codec.C15_parse_pkt',
    'Px.Codec.C15_req_headers',
    'Px.Codec.C15_req_headers_suppressed',
    'Px.Codec.C15_parse_build_req',
    'Px.Codec.C15_parse_build_req_chunked',
    'Px.Codec.C15_res_headers',
    'Px.Codec.C15_parse_build_resp',
    'Px.Codec.C15_parse_build_resp_headerless',
    'Px.Codec.C15_build_parse_req',
    'Px.Codec.C15_parse_keys_inv',
    'Px.Codec.C15_build_parse_headers_same',
    'Px.Codec.C15_build_parse_other_case_cl',
    'Px.Codec.C15_build_parse_resp',
    'Px.Codec.C15_update_body_plain',
    'Px.Codec.C15_update_body_plain_resp',
    'Px.Codec.C15_update_body_headers',
    'Px.Codec.C15_update_body_gzip',
    'Px.Codec.C15_update_body_chunked',
    'Px.Codec.C15_update_body_chunked_resp',
    'Px.Codec.C15_update_body_chunked_example',
    'Px.Codec.C15_wf_pkt',
    'Px.Codec.C15_wf_toChunks',
    'Px.Codec.C15_rebuild_wf',
    'Px.Codec.C15_witness_D22',
    'Px.Codec.C15_witness_D24',
]
RULE = ('mkreq/mkres/mkpkt: argument tuples (methods, targets, versions, status codes, reasons None/empty/text, '
        'content_type, header dicts with mixed casings incl. user supplied transfer-encoding / user-agent / '
        'content-length / connection, bodies None / empty / binary / up to ~300 KB, conn_close, no_ua, no_cl); '
        'rebuild/upd: messages from the HTTP grammar harness/httpgen.py (requests/responses x Content-Length / '
        'chunked with extensions and empty body / Content-Length: 0 / body-less / header-less), fed whole or in '
        'pieces, damaged variants for the correspondence only; tochunks: every body length 0..k x chunk size '
        '1..k+1 (k by tier) plus sampled large ones; chunk: streams of the RFC 7230 grammar with upper/lower '
        'case sizes, leading zeros, extensions, tails (and trailers while D22 is open); distinct by canonical '
        'JSON; non-trivial = inside the property quantifier (see in_quantifier)')
ASSUMPTIONS = [
    'the builders write Content-Length / Connection / Content-Type / User-Agent into a non-empty dict handed in by '
    'the caller (current behaviour); in sequences the model is fed that dict as the previous calls left it, '
    'mirrored in the harness (_mirror_res / _mirror_req)',
    'gzip.compress is an uninterpreted function of the model; the real output (clock fixed so that it is '
    'reproducible) is handed to the model and gunzip(gzip(x)) == x is checked on every case',
    'h11 0.16 is the independent parser; it is applied only to messages whose method / target / header names / '
    'values / version / status code are in h11\'s grammar (others are counted under describe h11=skip)',
    '--enable-proxy-protocol (off by default) is not modelled; HttpParser.build(for_proxy=True) is not modelled',
    'theorems take Url.from_bytes accepting the target as a hypothesis (its output is not constrained)',
]
EXHAUSTIVE = {}
EXPLANATION = ('to_chunks/decode is exhaustive over body lengths and chunk sizes up to the tier bound for one body '
               'pattern per pair and sampled otherwise; everything else is a seeded random sample of the grammars')

CRLF = b'\r\n'


def _open_findings():
    try:
        fs = json.load(open(os.path.join(VERIF, 'known_findings.json')))['findings']
    except Exception:
        return set()
    return {f['id'] for f in fs if f.get('property') == 'C15' and f.get('status') == 'open'}


OPEN = _open_findings()

# ----------------------------------------------------------------------------------------------
# transport helpers


def payload(spec):
    """bodies are carried as a spec so that large ones keep the case small"""
    if spec is None:
        return None
    if 'hex' in spec:
        return bytes.fromhex(spec['hex'])
    n, a, c = spec['n'], spec['a'], spec['b']
    return bytes((a * i + c) & 0xff for i in range(n))


def _spec(x):
    return None if x is None else {'hex': bytes(x).hex()}


def _uh(s):
    return None if s is None else bytes.fromhex(s)


def _hdrs(case):
    return None if case['hdrs'] is None else [(bytes.fromhex(k), bytes.fromhex(v)) for k, v in case['hdrs']]


def _hdr_tok(hdrs):
    if not hdrs:
        return '-'
    return ','.join('%s:%s' % (hx(k), hx(v)) for k, v in hdrs)


class _FixedClock:
    """gzip.compress() stamps time.time() into the header: fix it so that impl() and
    model_lines() (separate processes) see the same bytes.  The real gzip code path is untouched."""

    def __enter__(self):
        self._orig = gzip.time.time
        gzip.time.time = lambda: 1700000000
        return self

    def __exit__(self, *a):
        gzip.time.time = self._orig


# ----------------------------------------------------------------------------------------------
# implementation side


def _build_req(case):
    from proxy.common.utils import build_http_request
    h = _hdrs(case)
    return build_http_request(
        _uh(case['m']), _uh(case['u']), _uh(case['v']), content_type=_uh(case['ct']),
        headers=None if h is None else dict(h), body=payload(case['body']),
        conn_close=bool(case['cc']), no_ua=bool(case['noua']))


def _build_res(case):
    from proxy.common.utils import build_http_response
    h = _hdrs(case)
    return build_http_response(
        case['status'], _uh(case['v']), reason=_uh(case['reason']),
        headers=None if h is None else dict(h), body=payload(case['body']),
        conn_close=bool(case['cc']), no_cl=bool(case['nocl']))


def _rebuild(case):
    """('exc parse', name) | ('exc build', name) | ('ok', parser, bytes)"""
    segs = [bytes.fromhex(s) for s in case['segs']]
    k, p = P.feed(case['ty'], segs)
    if k != 'ok':
        return ('exc parse', p)
    try:
        if case['ty'] == 'REQ':
            dis = None if case['disable'] is None else [bytes.fromhex(d) for d in case['disable']]
            out = p.build(disable_headers=dis, host=_uh(case['host']))
        else:
            out = p.build_response()
    except Exception as e:
        return ('exc build', exc_name(e))
    return ('ok', p, out)


def _update(case):
    """('exc parse', name) | ('exc update', name) | ('ok', parser, built | 'exc-name')"""
    segs = [bytes.fromhex(s) for s in case['segs']]
    k, p = P.feed(case['ty'], segs)
    if k != 'ok':
        return ('exc parse', p)
    try:
        with _FixedClock():
            p.update_body(payload(case['body']), _uh(case['ct']))
    except Exception as e:
        return ('exc update', exc_name(e))
    try:
        out = p.build() if case['ty'] == 'REQ' else p.build_response()
    except Exception as e:
        out = 'exc-' + exc_name(e)
    return ('ok', p, out)


def impl(case):
    k = case['kind']
    if k == 'mkreq':
        return ['ok ' + hx(_build_req(case))]
    if k == 'mkres':
        return ['ok ' + hx(_build_res(case))]
    if k == 'mkpkt':
        from proxy.common.utils import build_http_pkt
        h = _hdrs(case)
        return ['ok ' + hx(build_http_pkt([bytes.fromhex(x) for x in case['line']],
                                          None if h is None else dict(h), payload(case['body']), bool(case['cc'])))]
    if k == 'rebuild':
        r = _rebuild(case)
        if r[0] != 'ok':
            return ['%s %s' % (r[0], r[1])]
        return ['ok ' + hx(r[2])]
    if k == 'tochunks':
        from proxy.http.parser.chunk import ChunkParser
        raw = payload(case['raw'])
        try:
            enc = ChunkParser.to_chunks(raw, case['size'])
        except ValueError:
            return ['exc valueError', 'exc valueError']
        return ['ok ' + hx(enc), P.chunk_feed_line([enc])]
    if k == 'chunk':
        return [P.chunk_feed_line([bytes.fromhex(case['stream']) + bytes.fromhex(case['tail'])])]
    if k == 'seq':
        return ['ok ' + hx(x) for x in _seq_run(case)]
    if k == 'upd':
        r = _update(case)
        if r[0] != 'ok':
            return ['%s %s' % (r[0], r[1])]
        out = r[2]
        return ['ok %s build=%s' % (P.obs(r[1]), out if isinstance(out, str) else hx(out))]
    raise ValueError(k)


def model_lines(case):
    k = case['kind']
    if k == 'mkreq':
        return ['hp mkreq %s %s %s %s %s %s %d %d' % (
            hx(_uh(case['m'])), hx(_uh(case['u'])), hx(_uh(case['v'])), hx(_uh(case['ct'])),
            _hdr_tok(_hdrs(case)), hx(payload(case['body'])), case['cc'], case['noua'])]
    if k == 'mkres':
        return ['hp mkres %d %s %s %s %s %d %d' % (
            case['status'], hx(_uh(case['v'])), hx(_uh(case['reason'])), _hdr_tok(_hdrs(case)),
            hx(payload(case['body'])), case['cc'], case['nocl'])]
    if k == 'mkpkt':
        parts = ','.join(hx(bytes.fromhex(x)) for x in case['line']) or '-'
        return ['codec pkt %s %s %s %d' % (parts, _hdr_tok(_hdrs(case)), hx(payload(case['body'])), case['cc'])]
    if k == 'rebuild':
        dis = 'None' if case['disable'] is None else (','.join(hx(bytes.fromhex(d)) for d in case['disable']) or '-')
        return ['hp rebuild %s %s %s %s' % (case['ty'], hx(_uh(case['host'])), dis,
                                            ' '.join((s or '-') for s in case['segs']))]
    if k == 'tochunks':
        raw = hx(payload(case['raw']))
        return ['hp tochunks %d %s' % (case['size'], raw), 'codec rt %d %s' % (case['size'], raw)]
    if k == 'chunk':
        return ['hp chunk ' + hx(bytes.fromhex(case['stream']) + bytes.fromhex(case['tail']))]
    if k == 'seq':
        return [t['line'] for t in _seq_trace(case)]
    if k == 'upd':
        body = payload(case['body'])
        with _FixedClock():
            gz = gzip.compress(body)
        return ['codec upd %s %s %s %s %s' % (case['ty'], hx(gz), hx(body), hx(_uh(case['ct'])),
                                              ' '.join((s or '-') for s in case['segs']))]
    raise ValueError(k)



# ----------------------------------------------------------------------------------------------
# sequences of builder calls (state that survives a call: the caller's dict, module-level objects)

CE_KEY, CE_GZIP = b'Content-Encoding', b'gzip'


def _seq_headers_arg(call, shared):
    """the object handed over as `headers`: None, a fresh dict, or the sequence's shared dict"""
    h = call['h']
    if h == 'none':
        return None
    if h == 'shared':
        return shared
    return {bytes.fromhex(k): bytes.fromhex(v) for k, v in h}


def _mirror_res(hobj, body, cc, nocl):
    """What build_http_response / build_http_pkt do to the dict they are given (current behaviour:
    they write into the caller's dict unless it is None or empty).  Returns (headers on entry,
    headers sent)."""
    entry = list(hobj.items()) if hobj else []
    h = hobj or {}
    if not any(k.lower() == b'transfer-encoding' for k in h) and not nocl:
        h[b'Content-Length'] = str(len(body)).encode() if body else b'0'
    if cc:
        h[b'Connection'] = b'close'
    return entry, list(h.items())


def _mirror_req(hobj, ct, body, cc, noua):
    from proxy.common.constants import PROXY_AGENT_HEADER_VALUE
    entry = list(hobj.items()) if hobj else []
    h = hobj or {}
    if ct is not None:
        h[b'Content-Type'] = ct
    lows = [k.lower() for k in h]
    if body and b'transfer-encoding' not in lows:
        h[b'Content-Length'] = str(len(body)).encode()
    if b'user-agent' not in lows and not noua:
        h[b'User-Agent'] = PROXY_AGENT_HEADER_VALUE
    if cc:
        h[b'Connection'] = b'close'
    return entry, list(h.items())


def _seq_trace(case):
    """Per call, computed from the case alone: the model line, and what the specification expects
    on the wire: {'ty', 'sent': header list, 'wire': payload, 'plain': bytes to recover, 'gz': bool}."""
    shared = {bytes.fromhex(k): bytes.fromhex(v) for k, v in case['shared']}
    out = []
    for call in case['calls']:
        fn = call['fn']
        hobj = _seq_headers_arg(call, shared) if 'h' in call else None
        if fn == 'req':
            m, u, v, ct = _uh(call['m']), _uh(call['u']), _uh(call['v']), _uh(call['ct'])
            body = payload(call['body'])
            entry, sent = _mirror_req(hobj, ct, body, call['cc'], call['noua'])
            line = 'hp mkreq %s %s %s %s %s %s %d %d' % (hx(m), hx(u), hx(v), hx(ct), _hdr_tok(entry), hx(body),
                                                      call['cc'], call['noua'])
            out.append({'line': line, 'ty': 'REQ', 'sent': sent, 'wire': body or b'', 'plain': body or b'',
                        'gz': False, 'm': m, 'v': v, 'entry': entry, 'nocl': 0})
            continue
        gz = False
        if fn == 'ok':
            content = payload(call['content'])
            plain = content or b''
            body = content
            if call['compress'] and content and len(content) > call['mcl']:
                gz = True
                if not hobj:
                    hobj = {}
                hobj.update({CE_KEY: CE_GZIP})
                with _FixedClock():
                    body = gzip.compress(content)
            status, v, reason, cc, nocl = 200, b'HTTP/1.1', b'OK', call['cc'], call['nocl']
        elif fn == 'res':
            status, v, reason = call['status'], _uh(call['v']), _uh(call['reason'])
            body, cc, nocl = payload(call['body']), call['cc'], call['nocl']
            plain = body or b''
        elif fn == 'rej':
            status, v, reason = call['status'], b'HTTP/1.1', _uh(call['reason'])
            body, cc, nocl = payload(call['body']), 1, 0
            plain = body or b''
        else:   # perm / see
            status = 308 if fn == 'perm' else 303
            v, reason = b'HTTP/1.1', (b'Permanent Redirect' if fn == 'perm' else b'See Other')
            hobj = {b'Location': _uh(call['loc']), b'Content-Length': b'0'}
            body, cc, nocl, plain = None, 1, 0, b''
        entry, sent = _mirror_res(hobj, body, cc, nocl)
        line = 'hp mkres %d %s %s %s %s %d %d' % (status, hx(v), hx(reason), _hdr_tok(entry), hx(body), cc, nocl)
        out.append({'line': line, 'ty': 'RES', 'sent': sent, 'wire': body or b'', 'plain': plain, 'gz': gz,
                    'v': v, 'code': str(status).encode(), 'reason': reason or None, 'entry': entry, 'nocl': nocl})
    return out


def _seq_run(case):
    """the real builders, one after another in this process, with real dict objects"""
    from proxy.common.utils import build_http_request, build_http_response
    from proxy.http.responses import okResponse, seeOthersResponse, permanentRedirectResponse
    from proxy.http.exception import HttpRequestRejected
    shared = {bytes.fromhex(k): bytes.fromhex(v) for k, v in case['shared']}
    outs = []
    with _FixedClock():
        for call in case['calls']:
            fn = call['fn']
            hobj = _seq_headers_arg(call, shared) if 'h' in call else None
            if fn == 'req':
                r = build_http_request(_uh(call['m']), _uh(call['u']), _uh(call['v']), content_type=_uh(call['ct']),
                                       headers=hobj, body=payload(call['body']), conn_close=bool(call['cc']),
                                       no_ua=bool(call['noua']))
            elif fn == 'ok':
                kw = {}
                if call['cc']:
                    kw['conn_close'] = True
                if call['nocl']:
                    kw['no_cl'] = True
                r = okResponse(content=payload(call['content']), headers=hobj, compress=bool(call['compress']),
                               min_compression_length=call['mcl'], **kw)
            elif fn == 'res':
                r = build_http_response(call['status'], _uh(call['v']), reason=_uh(call['reason']), headers=hobj,
                                        body=payload(call['body']), conn_close=bool(call['cc']),
                                        no_cl=bool(call['nocl']))
            elif fn == 'rej':
                r = HttpRequestRejected(status_code=call['status'], reason=_uh(call['reason']), headers=hobj,
                                        body=payload(call['body'])).response(None)
            elif fn == 'perm':
                r = permanentRedirectResponse(_uh(call['loc']))
            else:
                r = seeOthersResponse(_uh(call['loc']))
            outs.append(bytes(r))
    return outs


def _seq_call_in_quantifier(t):
    """Same guard as for single builder calls: the headers handed in carry no framing header that
    contradicts the body.  (A dict reused by the caller keeps the Content-Length the previous call
    wrote into it: with no_cl, or for a request without body, that stale value is the caller's
    framing header and the message is outside the quantifier - it is still compared with the model.)"""
    if any(k.lower() == b'transfer-encoding' for k, _ in t['entry']):
        return False
    n = len(t['wire'])
    for k, v in t['entry']:
        if k.lower() != b'content-length':
            continue
        overwritten = k == b'Content-Length' and ((t['ty'] == 'RES' and not t['nocl']) or (t['ty'] == 'REQ' and n))
        if not overwritten and v != str(n).encode():
            return False
    return True


def _oracle_seq(case):
    """every output of the sequence, judged on its own by the round-trip property: it parses back to
    the start line, exactly the headers this call is specified to send, and its body"""
    outs = _seq_run(case)
    for i, (raw, t) in enumerate(zip(outs, _seq_trace(case))):
        tag = 'call-%d-%s: ' % (i + 1, case['calls'][i]['fn'])
        if not _seq_call_in_quantifier(t):
            continue
        k, p = P.feed(t['ty'], [raw])
        if k != 'ok':
            return tag + 'own-parser-raises-' + p
        want = _expected_map(t['sent'])
        if (p.headers or {}) != want or list((p.headers or {}).keys()) != list(want.keys()):
            return tag + 'headers-differ-from-what-this-call-asked-for'
        if t['ty'] == 'REQ':
            if p.method != t['m'] or p.version != t['v']:
                return tag + 'start-line-differs'
        elif (p.version, p.code, p.reason) != (t['v'], t['code'], t['reason']):
            return tag + 'start-line-differs'
        framed = _framed(t['sent'])
        if t['ty'] == 'RES' and not framed and t['wire']:
            if p.state != 5 or p.buffer is not None:
                return tag + 'close-delimited-response-misread'
        elif p.state != 6 or p.buffer is not None:
            return tag + 'own-parser-not-complete'
        got = p.body or b''
        if got != t['wire']:
            return tag + 'body-differs'
        if t['gz']:
            try:
                if gzip.decompress(got) != t['plain']:
                    return tag + 'gunzip-of-body-differs'
            except Exception:
                return tag + 'body-not-gzip'
        elif got != t['plain']:
            return tag + 'body-differs'
    return None

# ----------------------------------------------------------------------------------------------
# specification side: grammar predicates, reference decoder, h11

TOKEN = re.compile(rb"[!#$%&'*+\-.^_`|~0-9A-Za-z]+\Z")
VCHARS = re.compile(rb'[\x21-\x7e]+\Z')
FIELD_VALUE = re.compile(rb'(?:[\x21-\x7e\x80-\xff](?:[ \t\x21-\x7e\x80-\xff]*[\x21-\x7e\x80-\xff])?)?\Z')
WS = b' \t\n\r\x0b\x0c'


def _no(x, chars):
    return not any(c in x for c in chars)


def wf_name(k):
    """header name accepted by the theorems' guard: non-empty, no ':' / whitespace / CR / LF"""
    return len(k) > 0 and _no(k, b': \t\r\n\x0b\x0c')


def wf_value(v):
    return _no(v, b'\r\n') and v == v.strip()


def wf_headers(h):
    h = h or []
    lows = [k.lower() for k, _ in h]
    return all(wf_name(k) and wf_value(v) for k, v in h) and len(set(lows)) == len(lows)


def _url_ok(u):
    from proxy.http.url import Url
    try:
        Url.from_bytes(u)
        return True
    except Exception:
        return False


def _hget(h, name):
    for k, v in (h or []):
        if k.lower() == name:
            return v
    return None


def ref_decode(data):
    """Independent chunked-body decoder written from RFC 7230 §4.1.
    Returns (body, rest, trailers, chunks) or raises ValueError if `data` does not start with a
    complete chunked-body."""
    pos, body, nchunks = 0, b'', 0
    while True:
        eol = data.find(CRLF, pos)
        if eol < 0:
            raise ValueError('no chunk-size line')
        line = data[pos:eol]
        size_s, _, _ext = line.partition(b';')
        if not re.match(rb'[0-9A-Fa-f]+\Z', size_s):
            raise ValueError('bad chunk-size')
        size = 0
        for c in size_s:                       # 1*HEXDIG, most significant digit first
            size = size * 16 + b'0123456789abcdef'.index(bytes([c]).lower())
        pos = eol + 2
        if size == 0:
            break
        if len(data) < pos + size + 2 or data[pos + size:pos + size + 2] != CRLF:
            raise ValueError('chunk-data not followed by CRLF')
        body += data[pos:pos + size]
        pos += size + 2
        nchunks += 1
    trailers = []
    while True:
        eol = data.find(CRLF, pos)
        if eol < 0:
            raise ValueError('no final CRLF')
        line = data[pos:eol]
        pos = eol + 2
        if line == b'':
            break
        name, colon, _ = line.partition(b':')
        if not colon or not TOKEN.match(name):
            raise ValueError('bad trailer field')
        trailers.append(line)
    return body, data[pos:], trailers, nchunks


def h11_valid_request(method, target, version, headers):
    if not TOKEN.match(method) or not VCHARS.match(target) or version not in (b'HTTP/1.1', b'HTTP/1.0'):
        return False
    for k, v in headers:
        if not TOKEN.match(k) or not FIELD_VALUE.match(v):
            return False
    hosts = [v for k, v in headers if k.lower() == b'host']
    if len(hosts) > 1 or (version == b'HTTP/1.1' and not hosts):
        return False
    return True


def h11_valid_response(version, code, reason, headers):
    if version not in (b'HTTP/1.1', b'HTTP/1.0') or not re.match(rb'[1-9][0-9][0-9]\Z', code):
        return False
    if reason is not None and not re.match(rb'[\t \x21-\x7e\x80-\xff]*\Z', reason):
        return False
    for k, v in headers:
        if not TOKEN.match(k) or not FIELD_VALUE.match(v):
            return False
    return True


def h11_read(role, raw):
    """Feed one message to h11; returns (head event, body bytes) or a failure string."""
    import h11
    if role == 'REQ':
        conn = h11.Connection(our_role=h11.SERVER, max_incomplete_event_size=4 * 1024 * 1024)
    else:
        conn = h11.Connection(our_role=h11.CLIENT, max_incomplete_event_size=4 * 1024 * 1024)
        conn.send(h11.Request(method='GET', target='/', headers=[('Host', 'h')]))
        conn.send(h11.EndOfMessage())
    conn.receive_data(raw)
    head, body = None, b''
    try:
        while True:
            ev = conn.next_event()
            if ev is h11.NEED_DATA:
                return 'h11-needs-more-data'
            if ev is h11.PAUSED:
                return 'h11-paused-before-end-of-message'
            if isinstance(ev, (h11.Request, h11.Response, h11.InformationalResponse)):
                head = ev
                if isinstance(ev, h11.InformationalResponse):
                    return head, b''
            elif isinstance(ev, h11.Data):
                body += bytes(ev.data)
            elif isinstance(ev, h11.EndOfMessage):
                break
            else:
                return 'h11-unexpected-event-' + type(ev).__name__
    except h11.ProtocolError as e:
        return 'h11-rejects: ' + str(e)[:60]
    if conn.trailing_data[0]:
        return 'h11-trailing-data'
    return head, body


def _h11_headers_agree(head, expect_map):
    got = {}
    for k, v in head.headers:
        got.setdefault(bytes(k), []).append(bytes(v))
    for k, (_, v) in expect_map.items():
        if k == b'transfer-encoding':
            if [x.lower() for x in got.get(k, [])] != [v.lower()]:
                return False
        elif k == b'content-length':
            if len(got.get(k, [])) != 1 or int(got[k][0]) != int(v):
                return False
        elif got.get(k) != [v]:
            return False
    return set(got) == set(expect_map)


# ----------------------------------------------------------------------------------------------
# the quantifier


def _req_line_path(raw):
    """path of the request target, computed from the raw bytes alone (class predicate of D24)"""
    line = raw.split(CRLF, 1)[0]
    parts = line.split(b' ', 2)
    if len(parts) != 3:
        return None
    t = parts[1]
    if t.startswith(b'/'):
        return t
    if b'://' in t:
        rest = t.split(b'://', 1)[1]
        i = rest.find(b'/')
        return rest[i:] if i >= 0 else None
    return None


def is_d24_class(case):
    if case['kind'] != 'rebuild' or case['ty'] != 'REQ':
        return False
    path = _req_line_path(b''.join(bytes.fromhex(s) for s in case['segs']))
    return path is not None and path.startswith(b'//')


def _raw_is_chunked(raw):
    head = raw.split(CRLF + CRLF, 1)[0]
    for line in head.split(CRLF)[1:]:
        k, _, v = line.partition(b':')
        if k.strip().lower() == b'transfer-encoding' and v.strip().lower() == b'chunked':
            return True
    return False


def is_chunked_upd(case):
    return case['kind'] == 'upd' and _raw_is_chunked(b''.join(bytes.fromhex(s) for s in case['segs']))


def is_d22_class(case):
    if case['kind'] != 'chunk':
        return False
    try:
        return bool(ref_decode(bytes.fromhex(case['stream']))[2])
    except ValueError:
        return False


def in_quantifier(case):
    k = case['kind']
    if k == 'mkreq':
        m, u, v = _uh(case['m']), _uh(case['u']), _uh(case['v'])
        h = _hdrs(case) or []
        body = payload(case['body']) or b''
        ct = _uh(case['ct'])
        if not (m and v and u and _no(m, b' \r\n') and _no(v, b' \r\n') and _no(u, b' \r\n') and _url_ok(u)):
            return False
        if not wf_headers(h) or (ct is not None and not wf_value(ct)):
            return False
        te, cl = _hget(h, b'transfer-encoding'), _hget(h, b'content-length')
        if te is not None:
            return bool(case.get('chunked_body')) and te.lower() == b'chunked'
        if cl is not None and not body:
            return cl == b'0'
        return True
    if k == 'mkres':
        v, reason = _uh(case['v']), _uh(case['reason'])
        h = _hdrs(case) or []
        body = payload(case['body']) or b''
        if not (v and _no(v, b' \r\n')) or (reason is not None and not _no(reason, b'\r\n')):
            return False
        if not wf_headers(h):
            return False
        te, cl = _hget(h, b'transfer-encoding'), _hget(h, b'content-length')
        if te is not None:
            return bool(case.get('chunked_body')) and te.lower() == b'chunked'
        if case['nocl']:
            # no framing added: header-less / empty only (a close-delimited body never completes)
            if cl is not None:
                return bool((cl == b'0' and not body) or (body and cl == str(len(body)).encode()))
            return not body
        return True
    if k == 'rebuild':
        if not case.get('inq') or case['host'] is not None or case['disable']:
            return False
        if is_d24_class(case):
            return 'D24' in OPEN
        return True
    if k == 'tochunks':
        return case['size'] > 0
    if k == 'seq':
        return True
    if k == 'chunk':
        try:
            tr = ref_decode(bytes.fromhex(case['stream']))[2]
        except ValueError:
            return False
        return 'D22' in OPEN if tr else True
    if k == 'upd':
        if not case.get('inq'):
            return False
        return True
    return False


# ----------------------------------------------------------------------------------------------
# oracle


def _expected_map(hlist):
    """lower-case key -> (name, value); a repeated key keeps its position and takes the last entry"""
    out = {}
    for k, v in hlist:
        out[k.lower()] = (k, v)
    return out


def _dset(h, k, v):
    for i, (kk, _) in enumerate(h):
        if kk == k:
            h[i] = (k, v)
            return
    h.append((k, v))


def _spec_req_headers(case):
    """what the request builder is specified to send (independent restatement)"""
    from proxy.common.constants import PROXY_AGENT_HEADER_VALUE
    h = list(_hdrs(case) or [])
    body = payload(case['body']) or b''
    if case['ct'] is not None:
        _dset(h, b'Content-Type', _uh(case['ct']))
    lows = [k.lower() for k, _ in h]
    if body and b'transfer-encoding' not in lows:
        _dset(h, b'Content-Length', str(len(body)).encode())
    if b'user-agent' not in lows and not case['noua']:
        _dset(h, b'User-Agent', PROXY_AGENT_HEADER_VALUE)
    if case['cc']:
        _dset(h, b'Connection', b'close')
    return h


def _spec_res_headers(case):
    h = list(_hdrs(case) or [])
    body = payload(case['body']) or b''
    lows = [k.lower() for k, _ in h]
    if b'transfer-encoding' not in lows and not case['nocl']:
        _dset(h, b'Content-Length', str(len(body)).encode())
    if case['cc']:
        _dset(h, b'Connection', b'close')
    return h


def _parse_whole(ty, raw):
    k, p = P.feed(ty, [raw])
    if k != 'ok':
        return 'own-parser-raises-' + p, None
    if p.state != 6:
        return 'own-parser-not-complete', None
    if p.buffer is not None:
        return 'own-parser-leaves-remainder', None
    return None, p


def _oracle_mkreq(case):
    from proxy.http.url import Url
    raw = _build_req(case)
    err, p = _parse_whole('REQ', raw)
    if err:
        return 'built-request: ' + err
    if p.method != _uh(case['m']) or p.version != _uh(case['v']):
        return 'built-request-start-line-differs'
    if P.url_str(p._url) != P.url_str(Url.from_bytes(_uh(case['u']))):
        return 'built-request-target-differs'
    want = _expected_map(_spec_req_headers(case))
    if (p.headers or {}) != want or list((p.headers or {}).keys()) != list(want.keys()):
        return 'built-request-headers-differ'
    body = payload(case['body']) or b''
    if case.get('chunked_body'):
        body = payload(case['chunked_body'])
    if (p.body or b'') != body:
        return 'built-request-body-differs'
    hl = _spec_req_headers(case)
    if h11_valid_request(p.method, _uh(case['u']), p.version, hl) and _cl_consistent(hl):
        r = h11_read('REQ', raw)
        if isinstance(r, str):
            return 'built-request: ' + r
        head, hb = r
        if bytes(head.method) != p.method or bytes(head.target) != _uh(case['u']) or hb != body:
            return 'built-request-h11-reads-different-message'
    return None


def _oracle_mkres(case):
    raw = _build_res(case)
    err, p = _parse_whole('RES', raw)
    if err:
        return 'built-response: ' + err
    reason = _uh(case['reason'])
    if p.version != _uh(case['v']) or p.code != str(case['status']).encode() or p.reason != (reason or None):
        return 'built-response-start-line-differs'
    want = _expected_map(_spec_res_headers(case))
    if (p.headers or {}) != want or list((p.headers or {}).keys()) != list(want.keys()):
        return 'built-response-headers-differ'
    body = payload(case['body']) or b''
    if case.get('chunked_body'):
        body = payload(case['chunked_body'])
    if (p.body or b'') != body:
        return 'built-response-body-differs'
    hl = _spec_res_headers(case)
    if h11_valid_response(p.version, p.code, p.reason, hl) and _body_allowed(p.code, raw) and _framed(hl) and _cl_consistent(hl):
        r = h11_read('RES', raw)
        if isinstance(r, str):
            return 'built-response: ' + r
        head, hb = r
        if head.status_code != case['status'] or hb != body:
            return 'built-response-h11-reads-different-message'
    return None


def _body_allowed(code, raw):
    """h11 knows that 1xx / 204 / 304 responses carry no payload whatever the headers say (and treats 1xx as
    interim): the independent parser is consulted for those only when nothing follows the header block"""
    c = int(code)
    if 100 <= c < 200:
        return False
    return c not in (204, 304) or not raw.split(CRLF + CRLF, 1)[1]


def _hdr_list(p):
    return [(n, v) for _, (n, v) in (p.headers or {}).items()]


def _oracle_rebuild(case):
    r = _rebuild(case)
    if r[0] == 'exc parse':
        return 'valid-message-raises-' + r[1]
    ty = case['ty']
    segs = [bytes.fromhex(s) for s in case['segs']]
    if r[0] == 'exc build':
        return 'rebuild-raises-' + r[1]
    _, p, out = r
    if p.state != 6:
        return 'valid-message-not-complete'
    err, q = _parse_whole(ty, out)
    if err:
        return 'rebuilt-message: ' + err
    same_line = (q.method, q.path, q.version) == (p.method, p.path or b'/', p.version) if ty == 'REQ' else \
        (q.version, q.code, q.reason) == (p.version, str(int(p.code)).encode(), p.reason or None)
    if not same_line:
        return 'rebuilt-request-reparses-differently' if ty == 'REQ' else 'rebuilt-response-reparses-differently'
    if (q.body or b'') != (p.body or b'') or q._is_chunked_encoded != p._is_chunked_encoded:
        return 'rebuilt-body-differs'
    # headers: the same map, except what the builder is specified to add (Content-Length)
    ph, qh = p.headers or {}, q.headers or {}
    body = p.body or b''
    want = dict(ph)
    if not p._is_chunked_encoded and (body or ty == 'RES'):
        want[b'content-length'] = (b'Content-Length', str(len(body)).encode())
    if list(qh.keys()) != list(want.keys()):
        return 'rebuilt-header-set-differs'
    for k in want:
        if k == b'content-length':
            if int(qh[k][1]) != int(want[k][1]):
                return 'rebuilt-content-length-differs'
        elif qh[k] != want[k]:
            return 'rebuilt-header-differs'
    # rebuilding is a fixpoint after one normalisation (a differently spelled content-length is merged)
    out2 = q.build() if ty == 'REQ' else q.build_response()
    k3, q3 = P.feed(ty, [out2])
    if k3 != 'ok' or (q3.build() if ty == 'REQ' else q3.build_response()) != out2:
        return 'rebuild-not-a-fixpoint'
    # independent parser
    hl = [(n, v) for n, v in _wire_headers(out)]
    if ty == 'REQ':
        ok = h11_valid_request(q.method, q.path, q.version, hl)
    else:
        ok = h11_valid_response(q.version, q.code, q.reason, hl) and _body_allowed(q.code, out) and _framed(hl)
    if ok and _cl_consistent(hl):
        r = h11_read(ty, out)
        if isinstance(r, str):
            return 'rebuilt-message: ' + r
        head, hb = r
        if hb != body:
            return 'rebuilt-message-h11-decodes-different-body'
        if ty == 'REQ' and (bytes(head.method) != q.method or bytes(head.target) != q.path):
            return 'rebuilt-message-h11-reads-different-start-line'
        if ty == 'RES' and head.status_code != int(q.code):
            return 'rebuilt-message-h11-reads-different-start-line'
        if not _h11_headers_agree(head, qh):
            return 'rebuilt-message-h11-reads-different-headers'
    return None


def _wire_headers(raw):
    head = raw.split(CRLF + CRLF, 1)[0]
    out = []
    for line in head.split(CRLF)[1:]:
        k, _, v = line.partition(b':')
        out.append((k, v.strip()))
    return out


def _framed(hl):
    """a response without Content-Length / chunked is delimited by connection close: h11 (rightly) waits for EOF"""
    return any(k.lower() == b'content-length' or (k.lower() == b'transfer-encoding' and v.lower() == b'chunked')
               for k, v in hl)


def _cl_consistent(hl):
    """h11 compares repeated Content-Length fields as text: `05` next to the builder's `5` is a
    conflict for it (the theorem's guard: the received value is the canonical decimal)"""
    vals = {v for k, v in hl if k.lower() == b'content-length'}
    return len(vals) <= 1 and all(re.match(rb'[0-9]+\Z', v) for v in vals)


def h11_applicable(case):
    """describe(): was the independent parser applicable to the rebuilt message?"""
    r = _rebuild(case)
    if r[0] != 'ok' or r[1].state != 6:
        return False
    ty, out = case['ty'], r[2]
    k, q = P.feed(ty, [out])
    if k != 'ok':
        return False
    hl = _wire_headers(out)
    if ty == 'REQ':
        return bool(q.method and q.path and h11_valid_request(q.method, q.path, q.version, hl) and _cl_consistent(hl))
    return bool(q.code and h11_valid_response(q.version, q.code, q.reason, hl) and
                _body_allowed(q.code, out) and _cl_consistent(hl) and _framed(hl))


def _oracle_tochunks(case):
    from proxy.http.parser.chunk import ChunkParser
    raw = payload(case['raw'])
    enc = ChunkParser.to_chunks(raw, case['size'])
    for tail in (b'', b'TAIL\r\n'):
        k, v = P.chunk_feed([enc + tail])
        if k != 'ok':
            return 'decode-of-to_chunks-raises'
        c, rem = v
        if c.state != 3:
            return 'decode-of-to_chunks-not-complete'
        if c.body != raw:
            return 'decode-of-to_chunks-differs'
        if rem != tail:
            return 'decode-of-to_chunks-remainder'
    try:
        body, rest, trailers, n = ref_decode(enc)
    except ValueError:
        return 'to_chunks-output-not-in-rfc-grammar'
    if body != raw or rest or trailers:
        return 'to_chunks-output-decodes-differently-by-reference'
    if n != (len(raw) + case['size'] - 1) // case['size']:
        return 'to_chunks-wrong-number-of-chunks'
    return None


def _oracle_chunk(case):
    stream, tail = bytes.fromhex(case['stream']), bytes.fromhex(case['tail'])
    body, rest, trailers, _ = ref_decode(stream + tail)
    if ref_decode(stream)[1] != b'':
        return None     # stream + junk: generator error, outside the quantifier
    suffix = '-on-trailers' if trailers else ''
    k, v = P.chunk_feed([stream + tail])
    if k != 'ok':
        return 'decoder-raises-on-valid-stream' + suffix
    c, rem = v
    if c.state != 3 or c.body != body or rem != tail:
        return 'decoder-disagrees-with-reference' + suffix
    return None


def _oracle_upd(case):
    r = _update(case)
    if r[0] != 'ok':
        return 'update_body-%s-%s' % (r[0].replace(' ', '-'), r[1])
    _, p, out = r
    if isinstance(out, str):
        return 'rebuild-after-update_body-raises'
    ty = case['ty']
    new = payload(case['body'])
    segs = [bytes.fromhex(s) for s in case['segs']]
    k0, p0 = P.feed(ty, segs)
    if p0.state != 6:
        return 'valid-message-not-complete'
    gz = p0.has_header(b'content-encoding') and p0.header(b'content-encoding') == b'gzip'
    err, q = _parse_whole(ty, out)
    if err:
        return 'updated-message: ' + err
    wire = q.body or b''
    if gz:
        try:
            plain = gzip.decompress(wire)
        except Exception:
            if p0._is_chunked_encoded and wire == p.body and ref_ok(wire):
                return 'rebuilt-body-doubly-chunk-encoded'
            return 'updated-body-not-gzip-though-content-encoding-says-gzip'
    else:
        plain = wire
    if plain != new:
        if p0._is_chunked_encoded and wire == p.body and ref_ok(wire):
            return 'rebuilt-body-doubly-chunk-encoded'
        return 'updated-body-differs'
    qh = q.headers or {}
    if qh.get(b'content-type', (None, None))[1] != _uh(case['ct']):
        return 'updated-content-type-differs'
    if (b'content-encoding' in qh) != gz:
        return 'updated-content-encoding-header-wrong'
    if p0._is_chunked_encoded:
        if not q._is_chunked_encoded or b'content-length' in qh:
            return 'updated-chunked-framing-wrong'
    elif int(qh[b'content-length'][1]) != len(wire):
        return 'updated-content-length-wrong'
    hl = _wire_headers(out)
    if ty == 'REQ':
        ok = h11_valid_request(q.method, q.path, q.version, hl)
    else:
        ok = h11_valid_response(q.version, q.code, q.reason, hl) and _body_allowed(q.code, out) and _framed(hl)
    if ok and _cl_consistent(hl):
        r = h11_read(ty, out)
        if isinstance(r, str):
            return 'updated-message: ' + r
        if r[1] != wire:
            return 'updated-message-h11-decodes-different-body'
    return None


def _to_chunks(x):
    from proxy.http.parser.chunk import ChunkParser
    return ChunkParser.to_chunks(x)


def ref_ok(x):
    try:
        return ref_decode(x)[1] == b''
    except ValueError:
        return False


def oracle(case):
    """The property itself, evaluated on the implementation only."""
    if not in_quantifier(case):
        return None
    k = case['kind']
    if k == 'mkreq':
        return _oracle_mkreq(case)
    if k == 'mkres':
        return _oracle_mkres(case)
    if k == 'rebuild':
        return _oracle_rebuild(case)
    if k == 'tochunks':
        return _oracle_tochunks(case)
    if k == 'chunk':
        return _oracle_chunk(case)
    if k == 'upd':
        return _oracle_upd(case)
    if k == 'seq':
        return _oracle_seq(case)
    return None


def classify(case, sig):
    """id of the open finding that covers exactly this failing class"""
    if sig == 'decoder-disagrees-with-reference-on-trailers' and is_d22_class(case):
        return 'D22'
    if sig == 'rebuilt-request-reparses-differently' and is_d24_class(case):
        return 'D24'
    return None


def finding_witnesses():
    return {
        'D22': _chunk_case(b'5\r\nhello\r\n0\r\nTrailer: v\r\n\r\n', b''),
        'D24': _rebuild_case('REQ', [b'GET http://h//x HTTP/1.1\r\n\r\n'], True),
    }


# ----------------------------------------------------------------------------------------------
# case constructors and generators


def _mkreq(m, u, v, ct, hdrs, body, cc, noua, chunked_body=None):
    c = {'kind': 'mkreq', 'm': m.hex(), 'u': u.hex(), 'v': v.hex(), 'ct': None if ct is None else ct.hex(),
         'hdrs': None if hdrs is None else [[k.hex(), x.hex()] for k, x in hdrs], 'body': body,
         'cc': int(cc), 'noua': int(noua)}
    if chunked_body is not None:
        c['chunked_body'] = chunked_body
    return c


def _mkres(status, v, reason, hdrs, body, cc, nocl, chunked_body=None):
    c = {'kind': 'mkres', 'status': status, 'v': v.hex(), 'reason': None if reason is None else reason.hex(),
         'hdrs': None if hdrs is None else [[k.hex(), x.hex()] for k, x in hdrs], 'body': body,
         'cc': int(cc), 'nocl': int(nocl)}
    if chunked_body is not None:
        c['chunked_body'] = chunked_body
    return c


def _mkpkt(line, hdrs, body, cc):
    return {'kind': 'mkpkt', 'line': [x.hex() for x in line],
            'hdrs': None if hdrs is None else [[k.hex(), x.hex()] for k, x in hdrs], 'body': body, 'cc': int(cc)}


def _rebuild_case(ty, segs, inq, host=None, disable=None):
    return {'kind': 'rebuild', 'ty': ty, 'segs': [s.hex() for s in segs], 'inq': bool(inq),
            'host': None if host is None else host.hex(),
            'disable': None if disable is None else [d.hex() for d in disable]}


def _tochunks(raw_spec, size):
    return {'kind': 'tochunks', 'raw': raw_spec, 'size': size}


def _chunk_case(stream, tail):
    return {'kind': 'chunk', 'stream': stream.hex(), 'tail': tail.hex()}


def _upd_case(ty, segs, body, ct, inq):
    return {'kind': 'upd', 'ty': ty, 'segs': [s.hex() for s in segs], 'body': _spec(body), 'ct': ct.hex(),
            'inq': bool(inq)}


VERSIONS = [b'HTTP/1.1', b'HTTP/1.1', b'HTTP/1.0', b'HTTP/2', b'X']
CTYPES = [None, None, b'text/plain', b'application/json', b'', b'a/b; charset=utf-8']
USER_HDR_POOL = [
    (b'Host', b'example.com'), (b'host', b'h:8080'), (b'Accept', b'*/*'), (b'X-A', b''), (b'x-b', b'1'),
    (b'User-Agent', b'curl/8'), (b'user-agent', b'ua2'), (b'USER-AGENT', b'ua3'),
    (b'Content-Type', b'text/html'), (b'content-type', b'x/y'),
    (b'Content-Length', b'3'), (b'content-length', b'7'), (b'CONTENT-LENGTH', b'0'), (b'Content-Length', b'0'),
    (b'Transfer-Encoding', b'chunked'), (b'transfer-encoding', b'ChUnKeD'), (b'Transfer-Encoding', b'gzip'),
    (b'Connection', b'keep-alive'), (b'connection', b'upgrade'), (b'Cookie', b'a=b; c=d'),
    (b'X-Bin', b'\xc3\xa9\xff'), (b'X_Under', b'v w'), (b'x~tok!', b'"q"'),
]
BAD_HDR_POOL = [(b'', b'v'), (b'A B', b'v'), (b'A:B', b'v'), (b'K', b' v '), (b'K', b'a\r\nb'), (b'K\r\n', b'v'),
                (b'K', b'a\nb'), (b' K', b'v'), (b'K', b'\tv')]


def _rbody_spec(rng, big=False):
    m = rng.randrange(10)
    if m == 0:
        return None
    if m == 1:
        return {'hex': ''}
    if big:
        return {'n': rng.choice([65536, 131072, 131073, 300000]), 'a': rng.randrange(256), 'b': rng.randrange(256)}
    n = rng.choice([1, 2, 3, 9, 10, 11, 99, 100, 255, 256, 1000])
    if m < 6:
        return {'hex': G.rbody(rng, min(n, 64)).hex()}
    return {'n': n, 'a': rng.randrange(256), 'b': rng.randrange(256)}


def _user_headers(rng, allow_bad=False):
    m = rng.randrange(8)
    if m == 0:
        return None
    if m == 1:
        return []
    k = rng.randrange(1, 6)
    picks = rng.sample(USER_HDR_POOL, k)
    seen, out = set(), []
    dup_ok = rng.random() < 0.15        # case-insensitive duplicates: outside the guard, correspondence only
    for name, v in picks:
        if name in seen or (not dup_ok and name.lower() in {s.lower() for s in seen}):
            continue
        seen.add(name)
        out.append((name, v))
    if allow_bad and rng.random() < 0.1:
        out.insert(rng.randrange(len(out) + 1), rng.choice(BAD_HDR_POOL))
    return out


def _gen_mkreq(rng, big):
    m = rng.choice(G.METHODS + [b'CONNECT'])
    u = G.gen_target(rng, m)[0]
    if rng.random() < 0.06:
        u = rng.choice([b'', b'/a b', b'ftp://h/', b'http://a@b@c/', b'*', b'http://h:x/', b'/\r\n'])
    if rng.random() < 0.04:
        m = rng.choice([b'', b'G T', b'G\rT'])
    v = rng.choice(VERSIONS)
    hdrs = _user_headers(rng, allow_bad=True)
    body = _rbody_spec(rng, big)
    chunked_body = None
    te = _hget(hdrs, b'transfer-encoding')
    if te is not None and te.lower() == b'chunked' and rng.random() < 0.8:
        from proxy.http.parser.chunk import ChunkParser
        plain = payload(body) or b''
        if len(plain) <= 2000:
            chunked_body = _spec(plain)
            body = _spec(ChunkParser.to_chunks(plain, rng.choice([1, 2, 7, 16, 4096])))
    return _mkreq(m, u, v, rng.choice(CTYPES), hdrs, body, rng.random() < 0.3, rng.random() < 0.4, chunked_body)


def _gen_mkres(rng, big):
    status = rng.choice([200, 200, 204, 301, 304, 404, 500, 100, 101, 999, 0, 7, 1000, -1])
    v = rng.choice(VERSIONS)
    reason = rng.choice([None, b'', b'OK', b'Not Found', b'A  B', b'Connection established', b'\xc3\xa9'])
    hdrs = _user_headers(rng, allow_bad=True)
    body = _rbody_spec(rng, big)
    chunked_body = None
    te = _hget(hdrs, b'transfer-encoding')
    if te is not None and te.lower() == b'chunked' and rng.random() < 0.8:
        from proxy.http.parser.chunk import ChunkParser
        plain = payload(body) or b''
        if len(plain) <= 2000:
            chunked_body = _spec(plain)
            body = _spec(ChunkParser.to_chunks(plain, rng.choice([1, 3, 16, 4096])))
    return _mkres(status, v, reason, hdrs, body, rng.random() < 0.3, rng.random() < 0.25, chunked_body)


def _gen_message(rng, thorough, framing=None):
    ext = rng.random() < 0.3
    maxbody = rng.choice([40, 200, 3000]) if thorough else rng.choice([40, 200])
    if rng.random() < 0.5:
        m = G.gen_request(rng, maxbody=maxbody, ext=ext, framing=framing)
        return 'REQ', m
    fr = framing if framing in ('cl', 'chunked', 'cl0') else None
    m = G.gen_response(rng, maxbody=maxbody, ext=ext, framing=fr)
    return 'RES', m


def _segs(rng, raw):
    if rng.random() < 0.6:
        return [raw]
    return G.split_at(raw, G.cuts(rng, len(raw), rng.choice([1, 2, 3, 6])))


def _with_header(raw, line):
    head, rest = raw.split(CRLF, 1)
    return head + CRLF + line + CRLF + rest


def _gen_rebuild(rng, thorough):
    ty, m = _gen_message(rng, thorough)
    raw = m['raw']
    yield _rebuild_case(ty, _segs(rng, raw), True)
    r = rng.random()
    if r < 0.15 and ty == 'REQ':
        # host override / disabled headers: correspondence only
        dis = rng.choice([None, [], [b'accept'], [b'host', b'user-agent'], [b'Cookie'], [b'content-length']])
        yield _rebuild_case(ty, [raw], False, host=rng.choice([None, b'other.example', b'']), disable=dis)
    elif r < 0.35:
        bad = G.mutate(rng, raw)
        yield _rebuild_case(ty, _segs(rng, bad), False)
    elif r < 0.42:
        yield _rebuild_case(ty, [raw[:rng.randrange(len(raw))]], False)       # incomplete message


def _gen_d24(rng):
    host = rng.choice(G.HOSTS)
    path = rng.choice([b'//x', b'//x/y', b'//', b'///a', b'//a//b?q=1'])
    target = rng.choice([b'http://' + host + path, path])
    hs = G.render_headers(rng, G.rheaders(rng, rng.randrange(0, 3), exclude=(b'content-length', b'transfer-encoding')))
    return _rebuild_case('REQ', [rng.choice([b'GET', b'POST']) + b' ' + target + b' HTTP/1.1\r\n' + hs + CRLF], True)


CE_LINES = [b'Content-Encoding: gzip', b'content-encoding: gzip', b'Content-Encoding:gzip  ', b'Content-Encoding: GZIP',
            b'Content-Encoding: deflate', b'Content-Encoding: identity', b'Content-Encoding: gzip, br',
            b'Content-Encoding:']


def _magic_bodies(rng):
    """new bodies that look like already-encoded data: update_body must treat them as any other body
    (a .gz upload under `Content-Encoding: gzip` is compressed once more; the receiver undoes the
    advertised coding exactly once and must hold exactly what was passed in)"""
    import zlib
    inner = G.rbody(rng, rng.choice([0, 1, 30, 400]))
    return [
        gzip.compress(inner, mtime=0), gzip.compress(gzip.compress(inner, mtime=0), mtime=0),
        b'\x1f\x8b', b'\x1f\x8b' + G.rbody(rng, rng.choice([1, 8, 50])), b'\x1f\x8b\x08\x00',
        b'\x1f', b'\x8b\x1f' + inner, b'\x1f\x8c' + inner,
        zlib.compress(inner), b'\x78\x9c', b'\x78\x01' + inner, b'\x28\xb5\x2f\xfd' + inner,   # zlib, zstd
        b'\xce\xb2\xcf\x81' + inner, b'BZh9' + inner, b'\xfd7zXZ\x00' + inner, b'',
    ]


def _gen_upd(rng, thorough):
    ty, m = _gen_message(rng, thorough)
    raw = m['raw']
    magic = rng.random() < 0.3
    if m['framing'] != 'headerless' and rng.random() < (0.9 if magic else 0.6):
        raw = _with_header(raw, rng.choice(CE_LINES[:3] if magic and rng.random() < 0.7 else CE_LINES))
    if magic:
        body = rng.choice(_magic_bodies(rng))
    else:
        body = rng.choice([b'', b'x', b'NEWBODY', b'{"key": "modify"}', G.rbody(rng, rng.choice([1, 5, 60, 700]))])
    ct = rng.choice([b'application/json', b'text/plain', b''])
    inq = True
    if rng.random() < 0.1:
        raw = G.mutate(rng, raw)
        inq = False
    return _upd_case(ty, _segs(rng, raw), body, ct, inq)


def _gen_stream(rng, trailers=False):
    n = rng.choice([0, 1, 2, 5, 17, 60, 300])
    body = G.rbody(rng, n)
    s = G.render_chunked(rng, body, G.chunk_layout(rng, n), ext=rng.random() < 0.4)
    if trailers:
        assert s.endswith(CRLF + CRLF)
        tr = b''.join(rng.choice([b'Trailer: v', b'X-Checksum: abc', b'a:', b'Expires: 0']) + CRLF
                      for _ in range(rng.randrange(1, 3)))
        s = s[:-2] + tr + CRLF
    return s


SEQ_HDRS = [(b'Server', b'proxy.py'), (b'X-A', b'1'), (b'Cache-Control', b'no-cache'), (b'Content-Type', b'text/html'),
            (b'Connection', b'keep-alive'), (b'content-length', b'3'), (b'Content-Length', b'7'), (b'x-b', b'')]


def _seq_h(rng):
    m = rng.randrange(6)
    if m <= 1:
        return 'none'
    if m <= 3:
        return 'shared'
    return [[k.hex(), v.hex()] for k, v in rng.sample(SEQ_HDRS, rng.randrange(0, 3))]


def _seq_content(rng):
    m = rng.randrange(6)
    if m == 0:
        return None
    if m == 1:
        return {'hex': ''}
    if m == 2:
        return {'hex': G.rbody(rng, rng.randrange(1, 20)).hex()}
    return {'n': rng.choice([21, 40, 160, 500]), 'a': rng.randrange(8), 'b': rng.randrange(256)}


def _gen_seq(rng):
    shared = [[k.hex(), v.hex()] for k, v in rng.sample(SEQ_HDRS, rng.choice([0, 0, 1, 2]))]
    calls = []
    for _ in range(rng.randrange(2, 5)):
        fn = rng.choice(['ok', 'ok', 'ok', 'ok', 'res', 'res', 'req', 'rej', 'perm', 'see'])
        if fn == 'ok':
            calls.append({'fn': 'ok', 'content': _seq_content(rng), 'h': _seq_h(rng),
                          'compress': int(rng.random() < 0.85), 'mcl': rng.choice([20, 20, 20, 0, 100]),
                          'cc': int(rng.random() < 0.35), 'nocl': int(rng.random() < 0.3)})
        elif fn == 'res':
            calls.append({'fn': 'res', 'status': rng.choice([200, 404, 500, 204]), 'v': b'HTTP/1.1'.hex(),
                          'reason': rng.choice([None, b'OK'.hex(), b'Not Found'.hex()]), 'h': _seq_h(rng),
                          'body': _seq_content(rng), 'cc': int(rng.random() < 0.35), 'nocl': int(rng.random() < 0.3)})
        elif fn == 'req':
            calls.append({'fn': 'req', 'm': rng.choice([b'GET', b'POST']).hex(), 'u': rng.choice(G.PATHS).hex(),
                          'v': b'HTTP/1.1'.hex(), 'ct': rng.choice([None, b'text/plain'.hex()]), 'h': _seq_h(rng),
                          'body': _seq_content(rng), 'cc': int(rng.random() < 0.35), 'noua': int(rng.random() < 0.5)})
        elif fn == 'rej':
            calls.append({'fn': 'rej', 'status': rng.choice([400, 403, 418, 502]),
                          'reason': rng.choice([None, b'Blocked'.hex()]), 'h': _seq_h(rng), 'body': _seq_content(rng)})
        else:
            calls.append({'fn': fn, 'loc': rng.choice([b'/new', b'http://example.com/x?y=1']).hex()})
    return {'kind': 'seq', 'shared': shared, 'calls': calls}


def corpus():
    cs = []
    ua = None
    # builders: the unit-test literals and the corner cases of each branch
    cs.append(_mkreq(b'GET', b'http://localhost:12345', b'HTTP/1.1', None, None, None, False, False))
    cs.append(_mkreq(b'GET', b'/', b'HTTP/1.1', None, [(b'key', b'value')], None, False, True))
    cs.append(_mkreq(b'POST', b'/p', b'HTTP/1.1', b'text/plain', [(b'content-type', b'x/y')], _spec(b'hello'), True, False))
    cs.append(_mkreq(b'POST', b'/p', b'HTTP/1.1', None, [(b'content-length', b'3')], _spec(b'hello'), False, True))
    cs.append(_mkreq(b'POST', b'/p', b'HTTP/1.1', None, [(b'Content-Length', b'3')], _spec(b'hello'), False, True))
    cs.append(_mkreq(b'POST', b'/p', b'HTTP/1.1', None, [(b'Transfer-Encoding', b'chunked')],
                     _spec(b'5\r\nhello\r\n0\r\n\r\n'), False, True, _spec(b'hello')))
    cs.append(_mkreq(b'POST', b'/p', b'HTTP/1.1', None, [(b'transfer-encoding', b'gzip')], _spec(b'hello'), False, True))
    cs.append(_mkreq(b'GET', b'/', b'HTTP/1.1', None, [(b'USER-AGENT', b'me')], _spec(b''), True, False))
    cs.append(_mkreq(b'GET', b'/', b'HTTP/1.1', None, [(b'connection', b'keep-alive')], None, True, False))
    cs.append(_mkres(200, b'HTTP/1.1', b'OK', None, None, False, False))
    cs.append(_mkres(200, b'HTTP/1.1', None, None, None, False, True))
    cs.append(_mkres(200, b'HTTP/1.1', b'', [(b'key', b'value')], _spec(b'Hello world'), True, False))
    cs.append(_mkres(404, b'HTTP/1.1', b'NOT FOUND', [(b'content-length', b'99')], _spec(b'x'), False, False))
    cs.append(_mkres(200, b'HTTP/1.1', b'OK', [(b'Transfer-Encoding', b'chunked')], _spec(b'0\r\n\r\n'), False, False,
                     _spec(b'')))
    cs.append(_mkres(204, b'HTTP/1.0', b'No Content', [], _spec(b''), False, False))
    cs.append(_mkres(-1, b'HTTP/1.1', b'neg', [], None, False, False))
    cs.append(_mkpkt([b'GET', b'/', b'HTTP/1.1'], None, None, False))
    cs.append(_mkpkt([b'HTTP/1.1', b'200'], [(b'A', b'b')], _spec(b''), True))
    cs.append(_mkpkt([], [(b'connection', b'x'), (b'Connection', b'y')], _spec(b'\x00\xff'), True))
    cs.append(_mkpkt([b'one'], [], _spec(b'body'), False))
    # rebuild: one of each framing, plus the once-lost terminator (D4) and the guard's edge cases
    msgs = [
        ('REQ', b'GET / HTTP/1.1\r\nHost: a\r\n\r\n'),
        ('REQ', b'GET http://example.com:8080/a?b=c HTTP/1.1\r\nHost:  example.com \r\nAccept:*/*\r\n\r\n'),
        ('REQ', b'POST /p HTTP/1.1\r\nHost: h\r\nContent-Length: 5\r\n\r\nhello'),
        ('REQ', b'POST /p HTTP/1.1\r\nHost: h\r\ncontent-length: 5\r\n\r\nhello'),
        ('REQ', b'POST /p HTTP/1.1\r\nHost: h\r\nContent-Length: +5\r\n\r\nhello'),
        ('REQ', b'POST / HTTP/1.1\r\nHost: h\r\nTransfer-Encoding: chunked\r\n\r\n5\r\nhello\r\n0\r\n\r\n'),
        ('REQ', b'POST / HTTP/1.1\r\nHost: h\r\nTransfer-Encoding: chunked\r\n\r\n0\r\n\r\n'),
        ('REQ', b'POST / HTTP/1.1\r\nHost: h\r\ntransfer-encoding: CHUNKED\r\n\r\n5;x=1\r\nhello\r\n0;l\r\n\r\n'),
        ('REQ', b'CONNECT example.com:443 HTTP/1.1\r\nHost: example.com:443\r\n\r\n'),
        ('REQ', b'GET / HTTP/1.1\r\nHost: h\r\nContent-Length: 0\r\n\r\n'),
        ('REQ', b'GET http://h HTTP/1.0\r\n\r\n'),
        ('RES', b'HTTP/1.1 200 Connection established\r\n\r\n'),
        ('RES', b'HTTP/1.1 200\r\n\r\n'),
        ('RES', b'HTTP/1.1 200 \r\nContent-Length: 0\r\n\r\n'),
        ('RES', b'HTTP/1.1 200 OK\r\nContent-Length: 5\r\n\r\nhello'),
        ('RES', b'HTTP/1.1 200 OK\r\ncontent-length: 05\r\n\r\nhello'),
        ('RES', b'HTTP/1.1 0200 OK\r\nContent-Length: 1\r\n\r\nx'),
        ('RES', b'HTTP/1.1 200 OK\r\nTransfer-Encoding: chunked\r\n\r\n4\r\nWiki\r\n5\r\npedia\r\n0\r\n\r\n'),
        ('RES', b'HTTP/1.1 200 OK\r\nTransfer-Encoding: chunked\r\n\r\n0\r\n\r\n'),
        ('RES', b'HTTP/1.1 204 No Content\r\nX: y\r\n\r\n'),
    ]
    for ty, m in msgs:
        cs.append(_rebuild_case(ty, [m], True))
        cs.append(_rebuild_case(ty, [m[:len(m) // 2], m[len(m) // 2:]], True))
    cs.append(_rebuild_case('REQ', [b'GET / HTTP/1.1\r\nHost: a\r\nAccept: x\r\nCookie: c\r\n\r\n'], False,
                            host=b'other', disable=[b'cookie']))
    cs.append(_rebuild_case('REQ', [b' / HTTP/1.1\r\n\r\n'], False))                     # empty method: assertion
    cs.append(_rebuild_case('RES', [b'HTTP/1.1 abc OK\r\n\r\n'], False))                 # int(code) fails
    cs.append(_rebuild_case('RES', [b'HTTP/1.0 200 OK\r\n\r\nclose-delimited'], False))  # never complete
    cs.append(_rebuild_case('REQ', [b'GET / HTTP/1.1\r\nA: 1\r\na: 2\r\n\r\n'], False))
    # to_chunks / decoder
    for n, size in [(0, 1), (1, 1), (5, 1), (5, 2), (5, 5), (5, 6), (16, 16), (17, 16), (255, 15), (256, 16), (0, 0), (3, 0)]:
        cs.append(_tochunks({'n': n, 'a': 7, 'b': 13}, size))
    cs.append(_tochunks({'hex': b'\r\n0\r\n\r\n'.hex()}, 3))
    for s, t in [(b'4\r\nWiki\r\n5\r\npedia\r\n0\r\n\r\n', b''), (b'0\r\n\r\n', b'X'), (b'000\r\n\r\n', b''),
                 (b'A\r\n0123456789\r\n00a;x=y\r\nabcdefghij\r\n0;l\r\n\r\n', b'\r\n'),
                 (b'1\r\n\r\r\n2\r\n\r\n\r\n0\r\n\r\n', b'0\r\n\r\n')]:
        cs.append(_chunk_case(s, t))
    cs.append(_chunk_case(b'5\r\nhel', b''))           # incomplete / invalid: correspondence only
    cs.append(_chunk_case(b'zz\r\nhello\r\n0\r\n\r\n', b''))
    # update_body
    for ty, m in msgs:
        if m.count(CRLF) >= 3:
            cs.append(_upd_case(ty, [m], b'NEWBODY', b'text/plain', True))
            cs.append(_upd_case(ty, [_with_header(m, b'Content-Encoding: gzip')], b'NEWBODY' * 9, b'application/json',
                                True))
            cs.append(_upd_case(ty, [_with_header(m, b'Content-Encoding: br')], b'', b'', True))
    # the former D23 witness (fixed by 4312341): must decode to NEWBODY after rebuild
    cs.append(_upd_case('REQ', [b'POST / HTTP/1.1\r\nTransfer-Encoding: chunked\r\n\r\n5\r\nhello\r\n0\r\n\r\n'],
                        b'NEWBODY', b'text/plain', True))
    cs.append(_upd_case('RES', [b'HTTP/1.1 200 OK\r\nContent-Encoding: gzip\r\nTransfer-Encoding: chunked\r\n\r\n0\r\n\r\n'],
                        b'NEWBODY' * 30, b'text/plain', True))
    # new bodies that are themselves gzip data / start with the gzip magic (or other codecs' magics),
    # both parser types, Content-Length and chunked framing, with and without Content-Encoding: gzip
    gzb = gzip.compress(b'an uploaded .gz file ' * 4, mtime=0)
    for nb in (gzb, b'\x1f\x8b', b'\x1f\x8b' + b'junk\x00\xff', b'\x78\x9c\x03\x00', b'\x28\xb5\x2f\xfd\x00', b''):
        for ty, m in (('REQ', b'POST /u HTTP/1.1\r\nHost: h\r\nContent-Encoding: gzip\r\nContent-Length: 2\r\n\r\nhi'),
                      ('REQ', b'POST /u HTTP/1.1\r\nHost: h\r\ncontent-encoding: gzip\r\nTransfer-Encoding: chunked\r\n\r\n2\r\nhi\r\n0\r\n\r\n'),
                      ('RES', b'HTTP/1.1 200 OK\r\nContent-Encoding: gzip\r\nContent-Length: 2\r\n\r\nhi'),
                      ('RES', b'HTTP/1.1 200 OK\r\nContent-Encoding: gzip\r\nTransfer-Encoding: chunked\r\n\r\n2\r\nhi\r\n0\r\n\r\n'),
                      ('REQ', b'POST /u HTTP/1.1\r\nHost: h\r\nContent-Length: 2\r\n\r\nhi')):
            cs.append(_upd_case(ty, [m], nb, b'application/gzip', True))
    cs.append(_upd_case('RES', [b'HTTP/1.1 200 OK\r\n\r\n'], b'x', b'a/b', True))
    cs.append(_upd_case('REQ', [b'GET / HTTP/1.1\r\nConte'], b'x', b'a/b', False))
    # sequences: compressed okResponse with conn_close, then default, then no_cl (headers None throughout);
    # one caller dict reused by three builders; rejected responses sharing their dict
    big = {'n': 160, 'a': 3, 'b': 65}
    cs.append({'kind': 'seq', 'shared': [], 'calls': [
        {'fn': 'ok', 'content': big, 'h': 'none', 'compress': 1, 'mcl': 20, 'cc': 1, 'nocl': 0},
        {'fn': 'ok', 'content': {'n': 120, 'a': 5, 'b': 66}, 'h': 'none', 'compress': 1, 'mcl': 20, 'cc': 0, 'nocl': 0},
        {'fn': 'ok', 'content': {'n': 800, 'a': 7, 'b': 1}, 'h': 'none', 'compress': 1, 'mcl': 20, 'cc': 0, 'nocl': 1}]})
    cs.append({'kind': 'seq', 'shared': [[b'Server'.hex(), b'px'.hex()]], 'calls': [
        {'fn': 'res', 'status': 200, 'v': b'HTTP/1.1'.hex(), 'reason': b'OK'.hex(), 'h': 'shared', 'body': big, 'cc': 1, 'nocl': 0},
        {'fn': 'ok', 'content': big, 'h': 'shared', 'compress': 1, 'mcl': 20, 'cc': 0, 'nocl': 0},
        {'fn': 'req', 'm': b'POST'.hex(), 'u': b'/p'.hex(), 'v': b'HTTP/1.1'.hex(), 'ct': None, 'h': 'shared',
         'body': {'hex': '6869'}, 'cc': 0, 'noua': 0},
        {'fn': 'res', 'status': 204, 'v': b'HTTP/1.1'.hex(), 'reason': None, 'h': 'shared', 'body': None, 'cc': 0, 'nocl': 1}]})
    cs.append({'kind': 'seq', 'shared': [], 'calls': [
        {'fn': 'rej', 'status': 403, 'reason': b'Blocked'.hex(), 'h': 'shared', 'body': {'hex': '6e6f'}},
        {'fn': 'perm', 'loc': b'/new'.hex()}, {'fn': 'see', 'loc': b'/new'.hex()},
        {'fn': 'ok', 'content': {'hex': '6869'}, 'h': 'shared', 'compress': 1, 'mcl': 20, 'cc': 0, 'nocl': 0}]})
    for fid, w in sorted(finding_witnesses().items()):
        if fid in OPEN:
            cs.append(w)
    return cs


def generate(rng, tier):
    thorough = tier == 'thorough'
    for _ in range(10000 if thorough else 700):
        yield _gen_mkreq(rng, False)
        yield _gen_mkres(rng, False)
    for _ in range(8 if thorough else 1):          # a handful of large bodies (hex lines get long)
        yield _gen_mkreq(rng, True)
        yield _gen_mkres(rng, True)
    for _ in range(300 if thorough else 60):
        parts = [rng.choice([b'GET', b'HTTP/1.1', b'/', b'', b'a b', b'200', b'OK']) for _ in range(rng.randrange(0, 5))]
        yield _mkpkt(parts, _user_headers(rng, allow_bad=True), _rbody_spec(rng), rng.random() < 0.5)
    for _ in range(12000 if thorough else 700):
        yield from _gen_rebuild(rng, thorough)
    if 'D24' in OPEN:
        for _ in range(60 if thorough else 12):
            yield _gen_d24(rng)
    # to_chunks: all (length, size) pairs of a small scope, then sampled
    kmax = 64 if thorough else 14
    for n in range(0, kmax + 1):
        for size in range(1, n + 2):
            yield _tochunks({'n': n, 'a': rng.randrange(256), 'b': rng.randrange(256)}, size)
    for _ in range(1500 if thorough else 150):
        n = rng.choice([0, 1, 15, 16, 17, 255, 256, 257, 1000, 4095, 4096, 4097])
        size = rng.choice([1, 2, 3, 15, 16, 17, 255, 256, 4096, 65536, n or 1, n + 1])
        if n // size > 5000:
            size = 16
        spec = {'hex': G.rbody(rng, n).hex()} if n <= 300 else {'n': n, 'a': rng.randrange(256), 'b': rng.randrange(256)}
        yield _tochunks(spec, size)
    for n, size in ([(65536, 4096), (131072, 131072), (131073, 131072), (300000, 65536), (300000, 1000)] if thorough
                    else [(131073, 131072), (300000, 65536)]):
        yield _tochunks({'n': n, 'a': rng.randrange(1, 256), 'b': rng.randrange(256)}, size)
    for _ in range(8000 if thorough else 500):
        s = _gen_stream(rng)
        yield _chunk_case(s, rng.choice([b'', b'', b'X', b'\r\n', b'0\r\n\r\n', b'GET / HTTP/1.1\r\n\r\n', b'\x00\xff']))
        if rng.random() < 0.3:
            yield _chunk_case(G.mutate(rng, s), b'')
    if 'D22' in OPEN:
        for _ in range(200 if thorough else 30):
            yield _chunk_case(_gen_stream(rng, trailers=True), rng.choice([b'', b'X', b'\r\n']))
    for _ in range(10000 if thorough else 600):
        yield _gen_upd(rng, thorough)
    for _ in range(8000 if thorough else 700):
        yield _gen_seq(rng)


def neighbours(case):
    k = case['kind']
    if k in ('mkreq', 'mkres'):
        for body in (None, {'hex': ''}, {'hex': '00'}, {'n': 300, 'a': 1, 'b': 0}):
            yield dict(case, body=body, chunked_body=None)
        for h in (None, [], [[b'Content-Length'.hex(), b'1'.hex()]]):
            yield dict(case, hdrs=h, chunked_body=None)
    elif k == 'tochunks':
        for size in (1, 2, 9, 10, 15, 16, 17, 255, 256):
            yield dict(case, size=size)
            yield _tochunks({'n': size, 'a': 1, 'b': 1}, size)
            yield _tochunks({'n': size + 1, 'a': 1, 'b': 1}, size)
    elif k in ('rebuild', 'upd'):
        raw = b''.join(bytes.fromhex(s) for s in case['segs'])
        yield dict(case, segs=[raw.hex()])


def search(rng):
    return list(generate(rng, 'quick'))


def describe(case):
    k = case['kind']
    out = ['%s inq=%d' % (k, in_quantifier(case))]
    if k in ('mkreq', 'mkres'):
        b_ = payload(case['body'])
        n = -1 if b_ is None else len(b_)
        out.append('%s body=%s' % (k, 'None' if n < 0 else '0' if n == 0 else '<=1000' if n <= 1000 else '>1000'))
    elif k == 'rebuild' and case.get('inq'):
        raw = b''.join(bytes.fromhex(s) for s in case['segs'])
        fr = 'chunked' if _raw_is_chunked(raw) else 'other'
        out.append('rebuild %s %s pieces=%d' % (case['ty'], fr, min(len(case['segs']), 3)))
        out.append('rebuild h11=%s' % ('checked' if h11_applicable(case) else 'skip'))
    elif k == 'tochunks':
        n = len(payload(case['raw']))
        out.append('tochunks chunks=%s' % ('err' if case['size'] == 0 else min((n + case['size'] - 1) // case['size'], 10)))
    elif k == 'chunk':
        out.append('chunk d22class=%d' % is_d22_class(case))
    elif k == 'upd':
        out.append('upd chunked=%d' % is_chunked_upd(case))
        out.append('upd new-body-magic=%s' % (payload(case['body'])[:2].hex() if payload(case['body'])[:2] in
                                             (b'\x1f\x8b', b'\x78\x9c', b'\x78\x01', b'\x28\xb5') else 'other'))
    elif k == 'seq':
        out.append('seq calls=%d shared=%d' % (len(case['calls']), sum(c.get('h') == 'shared' for c in case['calls'])))
        out.append('seq fns=' + '+'.join(sorted({c['fn'] for c in case['calls']})))
    return out


def nontrivial(case):
    return in_quantifier(case)
