"""HTTP/1.x message grammar for the parser-family harnesses (C02, C03, C06, C14, C15).

Everything is derived from the `rng` handed in.  A generated message is a dict
    {'raw': bytes, 'kind': 'req'|'res', 'framing': 'none'|'cl'|'chunked'|'headerless',
     'method', 'target', 'version', 'code', 'reason', 'headers': [(name, value)], 'body': bytes,
     'layout': [chunk sizes]}
so that oracles can compare against what was meant, not against what some parser says.
"""

CRLF = b'\r\n'
METHODS = [b'GET', b'POST', b'PUT', b'DELETE', b'OPTIONS', b'PATCH', b'HEAD', b'M-SEARCH', b'FOO', b'get']
HEADER_POOL = [
    b'Host', b'User-Agent', b'Accept', b'Accept-Encoding', b'Cookie', b'X-Forwarded-For', b'Connection',
    b'Cache-Control', b'Content-Type', b'X-A', b'X-B-C', b'Authorization', b'Proxy-Connection',
    b'Proxy-Authorization', b'Upgrade', b'Via', b'Expect', b'Range', b'If-None-Match', b'X_Under', b'x~tok!',
]
VALUE_POOL = [
    b'example.com', b'curl/7.88', b'*/*', b'gzip, deflate', b'a=b; c=d', b'10.0.0.1', b'keep-alive', b'close',
    b'no-cache', b'text/plain; charset=utf-8', b'1', b'', b'x' * 40, b'Basic dXNlcjpwYXNz', b'a:b:c', b'"q"',
    b'\xc3\xa9\xc3\xa8', b'val with  spaces', b'=?utf-8?', b'0', b'bytes=0-10',
]
HOSTS = [b'example.com', b'a.b-c.example', b'localhost', b'10.1.2.3', b'[::1]', b'[2001:db8::1]', b'xn--bcher-kva.example',
         b'h']
PATHS = [b'/', b'/a', b'/a/b.txt', b'/get?x=1&y=2', b'/p%20q', b'/a;b=c', b'/\xc3\xa9', b'/a//b/', b'/?', b'/a#frag']


def rcase(rng, name):
    m = rng.randrange(4)
    if m == 0:
        return name
    if m == 1:
        return name.lower()
    if m == 2:
        return name.upper()
    return bytes((c ^ 0x20) if (65 <= c <= 90 or 97 <= c <= 122) and rng.random() < 0.5 else c for c in name)


def rbody(rng, n):
    m = rng.randrange(4)
    if m == 0:
        return bytes(rng.randrange(256) for _ in range(n))
    if m == 1:
        return bytes(rng.choice(b'abc \r\n0123456789:;') for _ in range(n))
    if m == 2:
        return (b'\r\n0\r\n\r\n' * (n // 7 + 1))[:n]
    return bytes((7 * i + 3) & 0xff for i in range(n))


def rheaders(rng, k, exclude=()):
    names = [h for h in HEADER_POOL if h.lower() not in exclude]
    rng.shuffle(names)
    out = []
    for nm in names[:k]:
        v = rng.choice(VALUE_POOL)
        out.append((rcase(rng, nm), v))
    return out


def render_headers(rng, headers):
    out = b''
    for k, v in headers:
        sp1 = rng.choice([b' ', b' ', b'', b'  ', b'\t'])
        sp2 = rng.choice([b'', b'', b' ', b'\t '])
        out += k + b':' + sp1 + v + sp2 + CRLF
    return out


def chunk_layout(rng, n):
    if n == 0:
        return []
    sizes = []
    left = n
    while left:
        s = min(left, rng.choice([1, 1, 2, 3, 5, 9, 16, 17, 255, 256, 1000, left]))
        sizes.append(s)
        left -= s
    return sizes


def render_chunked(rng, body, layout, ext=False):
    out = b''
    i = 0
    for s in layout:
        size = ('%x' % s if rng.random() < 0.8 else '%X' % s).encode()
        if rng.random() < 0.1:
            size = b'0' * rng.randrange(1, 3) + size
        if ext and rng.random() < 0.4:
            size += rng.choice([b';ext', b';a=b', b'; q="x"', b';'])
        out += size + CRLF + body[i:i + s] + CRLF
        i += s
    last = b'0'
    if ext and rng.random() < 0.3:
        last += b';last'
    return out + last + CRLF + CRLF


def gen_target(rng, method=None):
    """(target bytes, form) — form in origin|absolute|authority"""
    if method == b'CONNECT':
        h = rng.choice(HOSTS)
        return h + b':' + str(rng.choice([443, 80, 8443, 1, 65535])).encode(), 'authority'
    if rng.random() < 0.5:
        return rng.choice(PATHS), 'origin'
    h = rng.choice(HOSTS)
    port = rng.choice([b'', b'', b':80', b':8080', b':1', b':65535'])
    path = rng.choice(PATHS + [b''])
    return b'http://' + h + port + path, 'absolute'


def gen_request(rng, framing=None, maxbody=200, ext=False, method=None):
    method = method or rng.choice(METHODS)
    target, form = gen_target(rng, method)
    version = rng.choice([b'HTTP/1.1', b'HTTP/1.1', b'HTTP/1.0'])
    framing = framing or rng.choice(['none', 'cl', 'chunked', 'cl0'])
    headers = rheaders(rng, rng.randrange(0, 7), exclude=(b'content-length', b'transfer-encoding'))
    n = rng.choice([0, 1, 2, 5, 17, 100, maxbody]) if framing in ('cl', 'chunked') else 0
    if framing == 'cl' and n == 0:
        n = 1
    body = rbody(rng, n)
    layout = []
    payload = b''
    if framing == 'cl':
        headers.insert(rng.randrange(len(headers) + 1), (rcase(rng, b'Content-Length'), str(n).encode()))
        payload = body
    elif framing == 'cl0':
        headers.insert(rng.randrange(len(headers) + 1), (rcase(rng, b'Content-Length'), b'0'))
    elif framing == 'chunked':
        headers.insert(rng.randrange(len(headers) + 1),
                       (rcase(rng, b'Transfer-Encoding'), rcase(rng, b'chunked')))
        layout = chunk_layout(rng, n)
        payload = render_chunked(rng, body, layout, ext)
    raw = method + b' ' + target + b' ' + version + CRLF + render_headers(rng, headers) + CRLF + payload
    return {'raw': raw, 'kind': 'req', 'framing': framing, 'method': method, 'target': target, 'form': form,
            'version': version, 'headers': headers, 'body': body, 'layout': layout}


def gen_response(rng, framing=None, maxbody=200, ext=False):
    version = rng.choice([b'HTTP/1.1', b'HTTP/1.0'])
    code = rng.choice([b'200', b'204', b'301', b'404', b'500', b'100', b'999'])
    reason = rng.choice([b'OK', b'Not Found', b'Connection established', b'', None, b'A  B'])
    framing = framing or rng.choice(['cl', 'chunked', 'cl0', 'headerless'])
    line = version + b' ' + code + (b'' if reason is None else b' ' + reason) + CRLF
    if framing == 'headerless':
        return {'raw': line + CRLF, 'kind': 'res', 'framing': framing, 'version': version, 'code': code,
                'reason': reason, 'headers': [], 'body': b'', 'layout': []}
    headers = rheaders(rng, rng.randrange(0, 6), exclude=(b'content-length', b'transfer-encoding'))
    n = rng.choice([0, 1, 2, 5, 17, 100, maxbody]) if framing in ('cl', 'chunked') else 0
    if framing == 'cl' and n == 0:
        n = 1
    body = rbody(rng, n)
    layout = []
    payload = b''
    if framing == 'cl':
        headers.insert(rng.randrange(len(headers) + 1), (rcase(rng, b'Content-Length'), str(n).encode()))
        payload = body
    elif framing == 'cl0':
        headers.insert(rng.randrange(len(headers) + 1), (rcase(rng, b'Content-Length'), b'0'))
    elif framing == 'chunked':
        headers.insert(rng.randrange(len(headers) + 1), (rcase(rng, b'Transfer-Encoding'), rcase(rng, b'chunked')))
        layout = chunk_layout(rng, n)
        payload = render_chunked(rng, body, layout, ext)
    raw = line + render_headers(rng, headers) + CRLF + payload
    return {'raw': raw, 'kind': 'res', 'framing': framing, 'version': version, 'code': code, 'reason': reason,
            'headers': headers, 'body': body, 'layout': layout}


def cuts(rng, n, k):
    """k random cut positions in 1..n-1 (sorted, distinct)"""
    if n <= 1:
        return []
    k = min(k, n - 1)
    return sorted(rng.sample(range(1, n), k))


def split_at(raw, positions):
    out = []
    prev = 0
    for p in positions:
        out.append(raw[prev:p])
        prev = p
    out.append(raw[prev:])
    return out


def mutate(rng, raw):
    """damaged variants for the malformed stream"""
    raw = bytearray(raw)
    m = rng.randrange(8)
    if m == 0 and raw:
        del raw[rng.randrange(len(raw)):]
    elif m == 1 and raw:
        i = rng.randrange(len(raw))
        raw[i] = rng.randrange(256)
    elif m == 2 and raw:
        i = rng.randrange(len(raw))
        del raw[i:i + rng.randrange(1, 4)]
    elif m == 3:
        i = rng.randrange(len(raw) + 1)
        raw[i:i] = rng.choice([b'\r\n', b'\r', b'\n', b' ', b':', b'\x00', b'\xff', b'0', b'-1', b'_', b'+'])
    elif m == 4 and raw:
        i = rng.randrange(len(raw))
        j = rng.randrange(i, len(raw))
        raw[i:i] = raw[i:j]
    elif m == 5:
        raw = raw.replace(b'\r\n', b'\n', 1)
    elif m == 6:
        raw = raw.replace(b'Content-Length', b'Content-Length: 7\r\nContent-Length', 1)
    else:
        raw = raw.replace(b' ', b'  ', 1)
    return bytes(raw)
