"""C10 — every connection's resources are released exactly once, however it ends.

Same model and worlds as C05 (harness/simexec.py).  Correspondence: scripted
histories on the real LocalFdExecutor vs. lean/PxModel/Exec.lean (works keys,
registry, selector map, open descriptors, next free descriptor after every round)
and the selector/kernel sub-model vs. the real DefaultSelector.  Oracle
(implementation only): after a connection is over — in every proxy role, for every
prefix of its script followed by every kind of abort, connect failure, injected
I/O error, idle reaping — every socket created for it is closed and
`ex.works`, `ex.registered_events_by_work_ids`, `ex.selector.get_map()` are back to
their values before the connection; repeating a history does not grow /proc/self/fd.
"""
from harness import simexec as S
from harness.common import exc_name

PROPERTY = 'C10'
LEAN_TARGETS = ['PxProofs.C10']
THEOREMS = [
    'Px.Exec.C10_remote_release', 'Px.Exec.C10_remote_init_failure', 'Px.Exec.C10_remote_no_leak',
    'Px.Exec.C10_release', 'Px.Exec.C10_no_residue', 'Px.Exec.C10_release_round', 'Px.Exec.C10_reap',
    'Px.Exec.C10_return_to_start', 'Px.Exec.C10_footprint_before_after', 'Px.Exec.C10_alloc_lowest_free',
    'Px.Exec.C05_reach_inv',
]
RULE = ('hist / sel as in C05; real: multi-connection scenarios with the real handlers in every role (every script '
        'prefix x every abort kind, connect failures, injected socket errors, idle reaping), end state and socket '
        'closure checked (descriptor closed, and close() called exactly once on every proxy-side socket); repeat: one connection history repeated n times on one executor with /proc/self/fd '
        'counted before and after; distinct by canonical JSON; non-trivial = a connection ends in the case')
ASSUMPTIONS = [
    'which descriptors a work\'s shutdown() closes is an input of the model (Shutdown.closes); that the real '
    'HttpProtocolHandler closes every socket it opened is established by the implementation-level oracle on the scenarios run',
    'a socket the proxy drops without close() (reverse proxy replacing its upstream) is closed by CPython reference counting',
    'works raise Exception subclasses only; handle_events never suspends; --enable-conn-pool off; LocalFdExecutor in the model and its correspondence; the RemoteFdExecutor-only step (os.close of the raw descriptor received from the acceptor) is judged by the implementation-level oracle of the `remote` cases (real RemoteFdExecutor driven in-process, descriptor counts from /proc)',
    'ArriveOk (see C05) for the round-level theorems',
]
EXHAUSTIVE = {}
EXPLANATION = ('Release is proved for the cleanup path itself and for every cause that reaches it (task result, task '
               'exception, get_events / selector failure, initialize failure, idle reaping), for all behaviours of all '
               'works; socket closure by the real handlers is checked on the implementation.')


def impl(case):
    k = case['kind']
    if k == 'hist':
        return S.hist_impl(case)
    if k == 'sel':
        return S.sel_impl(case)
    if k == 'real':
        # refinement: the real handlers, recorded as abstract works, fed to the model (returns 'ok')
        return [S.refine_real(case)]
    if k == 'remote':
        return [_remote_run(case)['obs']]
    if k == 'repeat':
        return ['']
    raise ValueError(k)


def model_lines(case):
    k = case['kind']
    if k == 'hist':
        return S.hist_model_lines(case)
    if k == 'sel':
        return S.sel_model_lines(case)
    if k == 'real':
        return ['exec 0 nop']
    if k == 'remote':
        # arrival (a = initialises, f = initialize() raises); a work whose client closed / sent something that
        # ends the connection is cleaned up within the rounds that follow; idle ones when their peers close at the end
        toks, idle = [], []
        for i, (init, end) in enumerate(case['conns']):
            fd = 500 + 10 * i
            toks.append(('f' if init == 'raise' else 'a') + str(fd))
            if init != 'raise':
                if end == 'idle':
                    idle.append(fd)
                else:
                    toks.append('c%d' % fd)
            toks.append('p')
        toks += ['c%d' % fd for fd in idle] + ['p']
        return ['exec remote ' + ' '.join(toks)]
    return ['exec %d' % S.BASE]


_REMOTE = {}


def _remote_run(case):
    """A real RemoteFdExecutor driven in-process the way receive_from_work_queue drives it after recv_handle():
    work(fileno, addr, None) with a RAW descriptor the worker owns (a remote worker must os.close() it itself,
    a local one never sees such a descriptor).  Returns (works left, growth of the process's descriptor count),
    counted with the cycle collector off."""
    import os
    import gc
    import fcntl
    import socket
    import asyncio
    import selectors
    import threading
    import multiprocessing
    import logging
    logging.disable(logging.CRITICAL)
    from proxy.common.flag import FlagParser
    from proxy.core.work.fd.remote import RemoteFdExecutor
    from proxy.http.handler import HttpProtocolHandler
    import proxy.core.work.threadless as TL
    if 'klass' not in _REMOTE:
        class W(HttpProtocolHandler):
            boom = False

            def initialize(self):
                if W.boom:
                    raise RuntimeError('scripted initialize failure')
                return super().initialize()
        _REMOTE['klass'] = W
        _REMOTE['flags'] = FlagParser.initialize(['--enable-web-server'], threadless=True, work_klass=W)
    W = _REMOTE['klass']
    real_event = TL.multiprocessing.Event
    TL.multiprocessing.Event = threading.Event
    try:
        q1, q2 = multiprocessing.Pipe()
        ex = RemoteFdExecutor('1', q1, _REMOTE['flags'])
    finally:
        TL.multiprocessing.Event = real_event
    ex._loop = asyncio.new_event_loop()
    ex.selector = selectors.DefaultSelector()
    gc.collect()
    gc.disable()
    dead = None
    try:
        base = len(os.listdir('/proc/self/fd'))
        peers = []
        handed = []
        obs = []

        def snap():
            still = []
            for f in handed:
                try:
                    os.fstat(f)
                    still.append(f)
                except OSError:
                    pass
            obs.append('raw=%s works=%s' % (','.join(map(str, sorted(still))) or '-',
                                            ','.join(map(str, sorted(ex.works))) or '-'))
        for i, (init, end) in enumerate(case['conns']):
            a, b = socket.socketpair()
            # a number nothing else will ever get (lowest-free allocation stays far below): no reuse confusion
            fileno = fcntl.fcntl(a.fileno(), fcntl.F_DUPFD, 500 + 10 * i)
            handed.append(fileno)
            a.close()
            b.setblocking(False)
            W.boom = init == 'raise'
            try:
                ex.work(fileno, ('127.0.0.1', 1000 + i), None)
            except Exception as e:      # noqa: BLE001
                dead = e
                break
            finally:
                W.boom = False
            try:
                if end == 'close':
                    b.close()
                elif end == 'garbage':
                    b.send(b'\x00\x01garbage\r\n\r\n')
                elif end == 'get':
                    b.send(b'GET /nope HTTP/1.0\r\n\r\n')
            except OSError:
                pass
            if end != 'close':
                peers.append(b)
            try:
                for _ in range(case.get('iters', 6)):
                    ex.loop.run_until_complete(ex._run_once())
            except Exception as e:      # noqa: BLE001
                dead = e
                break
            snap()
        for b in peers:
            b.close()
        if dead is None:
            try:
                for _ in range(6):
                    ex.loop.run_until_complete(ex._run_once())
            except Exception as e:      # noqa: BLE001
                dead = e
        snap()
        works = len(ex.works)
        for wk in list(ex.works):       # leave nothing behind for the next case
            try:
                ex._cleanup(wk)
            except Exception:           # noqa: BLE001
                pass
        after = len(os.listdir('/proc/self/fd'))
    finally:
        gc.enable()
        try:
            ex.selector.close()
            ex._loop.close()
            q1.close()
            q2.close()
        except Exception:               # noqa: BLE001
            pass
    return {'dead': dead, 'works': works, 'growth': after - base, 'obs': 'dead' if dead is not None else '|'.join(obs)}


def _hist_oracle(case):
    """nothing of a work that is over remains in the bookkeeping; a cleaned-up work's sockets listed for
    closing are closed"""
    w = S.scripted_world()
    try:
        for tok in case['ops']:
            out = S.hist_apply(w, tok)
            if out.startswith('dead'):
                return None          # aliveness is C05's subject
            snap = w.snapshot()
            works = set(snap['works'])
            for wid in snap['registered']:
                if wid not in works:
                    return 'registry-entry-of-finished-work'
            for fd, (ev, data) in snap['map'].items():
                if data not in works:
                    return 'selector-key-of-finished-work'
        return None
    finally:
        w.close()


def _closes_sig(r):
    """every socket opened for a connection is close()d exactly once through the connection objects; the one
    tolerated exception is an upstream socket the reverse proxy replaced (dropped, closed by the interpreter)"""
    for kind, addr, n, replaced in r.get('closes', []):
        if n == 1 or (replaced and n == 0):
            continue
        return '%s-socket-%s' % (kind, 'never-closed' if n == 0 else 'closed-%d-times' % n)
    return None


def oracle(case):
    k = case['kind']
    if k == 'sel':
        return None
    if k == 'hist':
        return _hist_oracle(case)
    if k == 'remote':
        r = _remote_run(case)
        if r['dead'] is not None:
            return 'remote-executor-raised-' + exc_name(r['dead'])
        if r['works']:
            return 'remote-executor-work-not-forgotten'
        if r['growth'] > 0:
            return 'remote-executor-descriptor-left-open'
        if r['growth'] < 0:
            return 'remote-executor-descriptor-closed-twice-or-foreign'
        return None
    if k == 'repeat':
        r = S.run_repeat(case)
        if r['dead'] is not None:
            return 'run-once-raised-' + exc_name(r['dead'])
        e = r['end']
        if e['works'] or e['registered'] or e['map']:
            return 'bookkeeping-not-back-to-start'
        if r['leaked']:
            return 'socket-left-open'
        if r['fds_after'] != r['fds_before']:
            return 'descriptor-count-grew' if r['fds_after'] > r['fds_before'] else 'descriptor-count-shrank'
        return _closes_sig(r)
    r = S.run_real(case)
    if r['dead'] is not None:
        return 'run-once-raised-' + exc_name(r['dead'])
    e = r['end']
    if e['works']:
        return 'work-not-forgotten'
    if e['registered']:
        return 'registry-not-empty'
    if e['map']:
        return 'selector-key-left'
    if r['leaked']:
        return 'socket-left-open'
    if r.get('fd_growth', 0) > 0:
        # counted with the cycle collector switched off: release may not wait for it
        return 'descriptor-left-open-until-gc'
    if r.get('late'):
        return 'not-torn-down-after-upstream-close'
    return _closes_sig(r)


def _conn(role, i, steps=None, **kw):
    d = {'role': role, 'i': i, 'steps': steps if steps is not None else S.good_script(role, i)}
    d.update(kw)
    return d


def all_abort_cases():
    """every role x every prefix of its script x every kind of abort (plus connect failures)"""
    out = []
    for role in S.ROLES:
        good = S.good_script(role, 0)
        for cut in range(len(good) + 1):
            for ab in S.ABORTS:
                out.append({'kind': 'real', 'conns': [_conn(role, 0, [list(s) for s in good[:cut]] + [[ab]], adv=1, kind='abort')],
                            'sched': []})
        for oc in S.CONNECT_OUTCOMES:
            out.append({'kind': 'real', 'conns': [_conn(role, 0, connect=[oc], adv=1, kind='connect')], 'sched': []})
        for v in S.prompt_variants(role, 0):
            # every web-plugin order: the reverse proxy first / last among the web plugins
            out.append({'kind': 'real', 'conns': [v], 'sched': []})
            out.append({'kind': 'real', 'conns': [v], 'sched': [], 'order': 'rp-last'})
        for v in S.backlog_variants(role, 0):
            out.append({'kind': 'real', 'conns': [v], 'sched': []})
            if v.get('noread'):
                out.append({'kind': 'real', 'conns': [v], 'sched': [], 'tcp': 1})
                # (no idle-reaping variant: a work with output still queued is never `inactive`)
                out.append({'kind': 'real', 'conns': [v], 'sched': [], 'final': 'reset'})
        for final in ('idle', 'reset'):
            for cut in range(len(good)):
                out.append({'kind': 'real', 'conns': [_conn(role, 0, [list(s) for s in good[:cut]], adv=1, kind='abort')],
                            'sched': [], 'final': final})
    return out


def corpus():
    from harness import c05
    cs = [c for c in c05.corpus()]
    cs.append({'kind': 'repeat', 'conn': _conn('revka', 0), 'n': 30})
    cs.append({'kind': 'repeat', 'conn': _conn('tun', 0), 'n': 30})
    return cs


def _remote_cases(rng, n):
    inits = ['ok', 'ok', 'raise']
    ends = ['close', 'garbage', 'get', 'idle']
    out = [{'kind': 'remote', 'conns': [[i, e]] * k} for i in ('ok', 'raise') for e in ends for k in (1, 3)]
    for _ in range(n):
        out.append({'kind': 'remote',
                    'conns': [[rng.choice(inits), rng.choice(ends)] for _k in range(rng.choice([2, 3, 5, 8]))]})
    return out


def generate(rng, tier):
    big = tier == 'thorough'
    for c in all_abort_cases():
        k0 = c['conns'][0]
        backlog = k0.get('kind') in ('backlog', 'prompt') or k0['role'][:3] in ('rc:', 'upg')
        if big or backlog or rng.random() < 0.5:
            yield c
        if big and not backlog:
            yield dict(c, tcp=1)
    for _ in range(300 if not big else 4000):
        yield S.gen_hist(rng, nrounds=rng.choice([4, 8, 8, 14]), adversarial=rng.choice([0.1, 0.3, 0.6]))
    for _ in range(100 if not big else 1500):
        yield S.gen_sel(rng, nops=rng.choice([12, 30, 50]))
    # a remote executor owns the raw descriptor it was handed and has to close it, however the work ends
    for c in _remote_cases(rng, 40 if not big else 600):
        yield c
    for _ in range(500 if not big else 10000):
        yield S.gen_real(rng)
    # repetition: fd count stable
    for _ in range(12 if not big else 150):
        c = S.gen_adversary(rng, 0) if rng.random() < 0.7 else _conn(rng.choice(S.ROLES), 0)
        yield {'kind': 'repeat', 'conn': c, 'n': 20 if not big else rng.choice([100, 120, 200]),
               'final': rng.choice([None, None, 'reset', 'idle'])}
    for role in S.REALCONN_ROLES:
        yield {'kind': 'repeat', 'conn': _conn(role, 0), 'n': 12 if not big else 100}
    if big:
        for role in S.ROLES:
            yield {'kind': 'repeat', 'conn': _conn(role, 0), 'n': 200}
            yield {'kind': 'repeat', 'conn': _conn(role, 0), 'n': 50, 'order': 'rp-last'}


def classify(case, sig):
    """D11c: a user plugin raising from on_upstream_connection_close / on_access_log makes
    HttpProxyPlugin.on_client_connection_close skip upstream.close() (socket left to the interpreter)"""
    if sig == 'up-socket-never-closed' and case['kind'] in ('real', 'repeat'):
        conns = case['conns'] if case['kind'] == 'real' else [case['conn']]
        if any(c['role'] in ('p:boom-close', 'p:boom-log') for c in conns):
            return 'D11c'
    return None


def finding_witnesses():
    return {'D11c': {'kind': 'real', 'conns': [_conn('p:boom-close', 0, adv=1, kind='plugin')], 'sched': []}}


def neighbours(case):
    if case['kind'] == 'hist':
        ops = case['ops']
        for n in range(1, len(ops)):
            yield {'kind': 'hist', 'ops': ops[:n]}


def search(rng):
    out = all_abort_cases()
    out += [S.gen_real(rng) for _ in range(1500)]
    out += [{'kind': 'repeat', 'conn': _conn(role, 0), 'n': 40} for role in S.ROLES]
    return out


def describe(case):
    from harness import c05
    if case['kind'] == 'remote':
        return ['remote executor conns=%d' % len(case['conns'])] + sorted(set('remote init=%s' % c[0] for c in case['conns']))
    if case['kind'] == 'repeat':
        return ['repeat %s n=%d' % (case['conn']['role'], case['n'])]
    return c05.describe(case)


def nontrivial(case):
    if case['kind'] == 'hist':
        return any('~t~' in t or '~x~' in t or t.startswith('reap') or t == 'conn:1' for t in case['ops'])
    return case['kind'] in ('real', 'repeat', 'remote')
