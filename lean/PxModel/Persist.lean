import PxModel.Forward
import PxModel.Relay
import PxModel.Connect
import PxModel.Reverse
/-
  C04 — persistent connections: what happens to the 2nd … nth request of one
  client connection, for the three servers inside proxy.py.

  Forward proxy (default flags: `HttpProxyPlugin` only, no `HttpProxyBasePlugin`
  chain, no pool, no TLS interception) — a *connection-level* model, tick by tick:

    proxy/http/handler.py       HttpProtocolHandler.handle_data / _parse_first_request
                                (first request: `self.request` is fed every client segment
                                until it is COMPLETE; afterwards every segment goes to
                                `plugin.on_client_data`)
    proxy/http/proxy/server.py  HttpProxyPlugin.on_request_complete (connect, Via, build,
                                queue), HttpProxyPlugin.on_client_data / _handle_pipeline_data
                                (a fresh `pipeline_request` parser per follow-up request; the
                                bytes left in its buffer after a complete request are fed to the
                                next parser in a loop; connection-upgrade requests keep the
                                parser and switch to raw passthrough); the bytes left in
                                `handler.request.buffer` after the FIRST request are handed to
                                `plugin.on_client_data` (fix 84c574d)

  It is the relay state machine of `PxModel/Relay.lean` (C01/C07) whose abstract
  input `Tick.app` — "what the application did with this client segment" — is
  *computed* here from the parser / builder models (`Parser.parse`,
  `Forward.treatFirst/treatLater/buildFor`, `Connect.connectUpstream`).

  Built-in web server and reverse proxy — *segment/event-level* models:

    proxy/http/server/web.py      HttpWebServerPlugin.on_request_complete / _try_route
                                  (route chosen ONCE, for the first request),
                                  on_client_data (keep-alive pipeline parser, every
                                  follow-up goes to `self.route.handle_request`)
    proxy/http/server/reverse.py  ReverseProxy.handle_request (per request: routing and a
                                  NEW `TcpServerConnection` that replaces `self.upstream`),
                                  over `PxModel/Reverse.lean` (C12)
    proxy/core/base/tcp_upstream.py  only `self.upstream` is polled, flushed and read
-/
namespace Px.Persist
open Px Px.Parser

/-! ## shared: request predicates of proxy/http/parser/parser.py -/

def connectionName : Bytes := [67, 111, 110, 110, 101, 99, 116, 105, 111, 110]   -- b'Connection'
def upgradeName : Bytes := [85, 112, 103, 114, 97, 100, 101]                     -- b'Upgrade'
def keepAliveTok : Bytes := [107, 101, 101, 112, 45, 97, 108, 105, 118, 101]     -- b'keep-alive'
def websocketTok : Bytes := [119, 101, 98, 115, 111, 99, 107, 101, 116]          -- b'websocket'
def derpTok : Bytes := [100, 101, 114, 112]                                      -- b'derp'

/-- `is_connection_upgrade` -/
def isUpgrade (p : Parser) : Bool :=
  p.version == some Px.Gen.http11 && hasHeader p connectionName && hasHeader p upgradeName

/-- `is_websocket_upgrade` -/
def isWebsocketUpgrade (p : Parser) : Bool :=
  isUpgrade p && (match header p upgradeName with
    | .ok v => lower v == websocketTok || lower v == derpTok
    | .error _ => false)

/-- `is_http_1_1_keep_alive` -/
def isKeepAlive (p : Parser) : Bool :=
  p.version == some Px.Gen.http11 &&
    (!hasHeader p connectionName ||
      (match header p connectionName with
       | .ok v => lower v == keepAliveTok
       | .error _ => false))

/-! ## forward proxy -/

/-! ### the follow-up loop shared by the three servers (fix 84c574d)

    ```
    remaining = raw
    while remaining is not None and len(remaining) > 0:
        [bypass: upgraded connection]
        if self.pipeline_request is None: self.pipeline_request = HttpParser(REQUEST_PARSER)
        self.pipeline_request.parse(remaining); remaining = None
        if self.pipeline_request.is_complete:
            remaining = self.pipeline_request.buffer; self.pipeline_request.buffer = None
            <server specific: forward / handle_request>          -- may raise
            self.pipeline_request = None                          -- (forward: kept after an upgrade request)
    ```
-/

/-- how `on_client_data` ended: returned; raised an `HttpProtocolException` (caught by
    `handle_data`, whose `response()` is `None`: nothing queued, `handle_data` returns `True`);
    let another exception escape `handle_events` -/
inductive LoopEnd | ok | close | raised
  deriving DecidableEq, Repr

/-- an exception raised by `HttpParser.parse` -/
def parseErrEnd : Px.Parser.Err → LoopEnd
  | .httpProtocol => .close
  | _ => .raised

/-- what the server did with one completed follow-up request -/
inductive Act (σ : Type)
  /-- went on; `keep` = what `pipeline_request` is left as -/
  | next (s : σ) (keep : Option Parser)
  /-- an exception ended `on_client_data` -/
  | stop (s : σ) (keep : Option Parser) (e : LoopEnd)

structure Hooks (σ : Type) where
  /-- before parsing: the data bypasses the parser (upgraded connection); the loop ends -/
  bypass : σ → Option Parser → Bytes → Option σ
  /-- a completed request (its leftover already taken out of `buffer`) -/
  complete : σ → Parser → Act σ

/-- the loop; fuel: every round consumes at least the request line of one request -/
def pipeLoop {σ : Type} (h : Hooks σ) : Nat → σ → Option Parser → Bytes → σ × Option Parser × LoopEnd
  | 0, s, pl, _ => (s, pl, .ok)
  | fuel + 1, s, pl, raw =>
    if raw.isEmpty then (s, pl, .ok)
    else match h.bypass s pl raw with
      | some s' => (s', pl, .ok)
      | none =>
        match parse Forward.pcfg (pl.getD (init .request)) raw with
        | .error e => (s, some (pl.getD (init .request)), parseErrEnd e)
        | .ok p' =>
          if p'.state == .complete then
            match h.complete s { p' with buffer := none } with
            | .stop s' keep e => (s', keep, e)
            | .next s' keep =>
              match p'.buffer with
              | none => (s', keep, .ok)
              | some rest => pipeLoop h fuel s' keep rest
          else (s, some p', .ok)

/-- `HttpProxyPlugin._handle_pipeline_data`: state = the elements queued for the upstream -/
def fwdHooks (cfg : Forward.Cfg) : Hooks (List Bytes) where
  bypass := fun s pl raw =>
    match pl with
    | some p => if p.state == .complete && isUpgrade p then some (s ++ [raw]) else none
    | none => none
  complete := fun s p =>
    -- (no plugins) del_headers([PROXY_AUTHORIZATION, PROXY_CONNECTION]); upstream.queue(build(...))
    let q := Forward.treatLater cfg p
    match Forward.buildFor cfg q with
    | .error _ => .stop s (some q) .raised
    | .ok x => .next (s ++ [x]) (if isUpgrade q then some q else none)

/-- `HttpProxyPlugin.on_client_data(raw)` on an established plain-HTTP exchange
    (`self.upstream` set and not closed, `self.request.is_complete`, not a tunnel):
    elements queued for the upstream, the new `self.pipeline_request`, how it ended -/
def pipeStep (cfg : Forward.Cfg) (pl : Option Parser) (raw : Bytes) : List Bytes × Option Parser × LoopEnd :=
  pipeLoop (fwdHooks cfg) (raw.length + 1) [] pl raw

/-- what `handle_data` makes of the way `on_client_data` ended, as the relay sees it -/
def endApp : LoopEnd → Relay.AppOut
  | .ok => .ok none none false
  | .close => .ok none none true
  | .raised => .raised

/-- what the completed first request leads to -/
inductive FirstOut
  /-- HTTP_PROXY, plain: connect to `a`, queue `req` for the upstream -/
  | established (a : Connect.Addr) (req : Bytes)
  /-- CONNECT: connect to `a`, queue the 200 acknowledgement for the client -/
  | tunnel (a : Connect.Addr)
  /-- `handle_data` returns True after queueing `resp` (400 / 502) or nothing;
      `a`: the connect attempt made before, if any -/
  | reject (resp : Option Bytes) (a : Option Connect.Addr)
  /-- a non-protocol exception escapes `handle_events` -/
  | raised
  deriving DecidableEq, Repr

/-- `_parse_first_request` from `if not self.request.is_complete` on, with
    `HttpProxyPlugin.on_request_complete` (no plugins).  `connectOk`: whether
    `new_socket_connection` succeeds. -/
def firstComplete (cfg : Forward.Cfg) (connectOk : Bool) (p : Parser) : FirstOut :=
  -- UNKNOWN protocol, or WEB_SERVER with no web plugin enabled: BAD_REQUEST
  if !Forward.isProxyRequest p then .reject (some Px.Gen.pkt_BAD_REQUEST_RESPONSE_PKT) none
  else match Connect.connectUpstream p.host p.port with
    | .error .httpProtocol => .reject none none          -- 'Both host and port must exist': response() is None
    | .error .unicodeError =>
      -- text_(host) raises inside the try block, before any connect: ProxyConnectionFailed (fix e5b7001)
      .reject (some Px.Gen.pkt_BAD_GATEWAY_RESPONSE_PKT) none
    | .ok a =>
      if !connectOk then .reject (some Px.Gen.pkt_BAD_GATEWAY_RESPONSE_PKT) (some a)   -- ProxyConnectionFailed
      else if p.isTunnel then .tunnel a
      else match Forward.buildFor cfg (Forward.treatFirst cfg p) with
        | .ok x => .established a x
        | .error _ => .raised

/-- where the connection is in its life -/
inductive Phase
  /-- `handler.request` not complete yet, `handler.plugin is None` -/
  | first (p : Parser)
  /-- `HttpProxyPlugin` with a connected upstream, plain HTTP; `req` = the completed
      `handler.request`, `pipe` = `plugin.pipeline_request` -/
  | http (req : Parser) (pipe : Option Parser)
  /-- … CONNECT tunnel -/
  | tunnel
  /-- first request rejected: no plugin / no upstream; the handler is only flushing -/
  | done
  deriving DecidableEq, Repr

structure FSt where
  phase : Phase
  rs : Relay.St
  /-- ghost: every address handed to `TcpServerConnection(...).connect()`, in order -/
  connects : List Connect.Addr
  deriving DecidableEq, Repr

/-- a fresh connection: `HttpProtocolHandler.__init__` -/
def finit (maxSend : Nat) : FSt :=
  { phase := .first (init .request), rs := Relay.st0 .local maxSend [] [] false false, connects := [] }

/-- effect of one client segment handed to `handle_data` -/
structure AppRes where
  phase : Phase
  /-- the `Tick.app` value the relay sees (nothing for the upstream: see `ups`) -/
  app : Relay.AppOut
  /-- the first request completed with a connected upstream: exchange kind to switch to -/
  kind : Option Relay.Kind
  /-- elements queued for the upstream by this call, in order -/
  ups : List Bytes
  /-- the connect attempt made -/
  conn : Option Connect.Addr
  deriving DecidableEq, Repr

def appOf (cfg : Forward.Cfg) (connectOk : Bool) (ph : Phase) (raw : Bytes) : AppRes :=
  match ph with
  | .first p =>
    match parse Forward.pcfg p raw with
    | .error _ =>
      -- BAD_REQUEST queued, HttpProtocolException raised and caught: handle_data returns True
      ⟨.done, .ok none (some Px.Gen.pkt_BAD_REQUEST_RESPONSE_PKT) true, none, [], none⟩
    | .ok p' =>
      if p'.state != .complete then ⟨.first p', .ok none none false, none, [], none⟩
      else match firstComplete cfg connectOk p' with
        | .established a x =>
          -- `on_request_complete()` returned False: what followed the request in this segment
          -- is handed to `plugin.on_client_data`
          match p'.buffer with
          | none => ⟨.http p' none, .ok none none false, some .http, [x], some a⟩
          | some rest =>
            let r := pipeStep cfg none rest
            ⟨.http { p' with buffer := none } r.2.1, endApp r.2.2, some .http, x :: r.1, some a⟩
        | .tunnel a =>
          -- … for a tunnel `on_client_data` queues it raw for the upstream
          ⟨.tunnel, .ok none (some Relay.ack) false, some .tunnel,
            (match p'.buffer with | some rest => [rest] | none => []), some a⟩
        | .reject resp a => ⟨.done, .ok none resp true, none, [], a⟩
        | .raised => ⟨.done, .raised, none, [], none⟩
  | .http req pipe =>
    let r := pipeStep cfg pipe raw
    ⟨.http req r.2.1, endApp r.2.2, none, r.1, none⟩
  | .tunnel => ⟨.tunnel, .ok none none false, none, [], none⟩     -- Relay queues raw itself
  | .done => ⟨.done, .ok none none false, none, [], none⟩

/-- the segment a `recv` outcome hands to `handle_data`, if any -/
def segOf : RecvOut → Option Bytes
  | .data b => if b.isEmpty then none else some b
  | _ => none

/-- one `handle_events` round.  `masked`: readiness restricted to `get_events()`
    (an executor round, `Relay.step`) or taken as given (`Relay.tick`).
    The client segment was consumed by `handle_data` iff the relay's ghost
    `recvC` grew. -/
def fstepWith (masked : Bool) (cfg : Forward.Cfg) (connectOk : Bool) (s : FSt) (t : Relay.Tick) :
    FSt × Relay.Ret :=
  match segOf t.cRecv with
  | none =>
    let r := if masked then Relay.step s.rs t else Relay.tick s.rs t
    ({ s with rs := r.1 }, r.2)
  | some raw =>
    let a := appOf cfg connectOk s.phase raw
    let t' := { t with app := a.app }
    let r := if masked then Relay.step s.rs t' else Relay.tick s.rs t'
    let consumed := r.1.recvC.length != s.rs.recvC.length && !(s.rs.kind == .http && s.rs.upstream.closed)
    if !consumed then ({ s with rs := r.1 }, r.2)
    else
      -- nothing after the client read touches the upstream queue in this round
      ({ phase := a.phase,
         rs := { r.1 with kind := a.kind.getD r.1.kind,
                          upstream := { r.1.upstream with buffer := r.1.upstream.buffer ++ a.ups } },
         connects := s.connects ++ (match a.conn with | some x => [x] | none => []) }, r.2)

/-- one executor round -/
def fstep (cfg : Forward.Cfg) (connectOk : Bool) (s : FSt) (t : Relay.Tick) : FSt × Relay.Ret :=
  fstepWith true cfg connectOk s t

/-- rounds until `handle_events` returns True or raises -/
def frun (cfg : Forward.Cfg) (connectOk : Bool) (s : FSt) : List Relay.Tick → FSt × Relay.Ret
  | [] => (s, .cont)
  | t :: ts =>
    match fstep cfg connectOk s t with
    | (s1, .cont) => frun cfg connectOk s1 ts
    | r => r

/-! ## built-in web server -/

/-- `flags.plugins[b'HttpWebServerBasePlugin']` as far as routing sees it:
    `routes[HTTP]` in dict order as `(pattern id, plugin index)`, and which
    patterns match which path (`re.match`, evaluated by the harness with the real
    `re`).  WebSocket routes and `--enable-static-server` are not modelled. -/
structure WCfg where
  routes : List (Nat × Nat)
  matchPat : Bytes → Nat → Bool
  notFound : Bytes := Px.Gen.pkt_NOT_FOUND_RESPONSE_PKT
  badRequest : Bytes := Px.Gen.pkt_BAD_REQUEST_RESPONSE_PKT
  /-- what plugin `k`'s `handle_request(request)` queues for the client -/
  respond : Nat → Parser → Bytes

/-- `path = self.request.path or b'/'` -/
abbrev webPath (p : Parser) : Bytes := Px.Reverse.webPath p

/-- `_try_route`: first route (dict order) whose pattern matches `text_(path)` -/
def tryRoute (cfg : WCfg) (path : Bytes) : Option Nat :=
  (cfg.routes.find? (fun r => cfg.matchPat path r.1)).map (·.2)

inductive WPhase
  | first          -- `handler.request` incomplete
  | routed         -- web plugin with `self.route` set
  | closing        -- `handle_data` returned True: flush, then close; no more reads
  | raised         -- an exception escaped `handle_events`
  | other          -- first request is not for the web server / is a websocket upgrade (not modelled)
  deriving DecidableEq, Repr

structure WSt where
  phase : WPhase := .first
  /-- `handler.request` -/
  request : Parser := init .request
  /-- `plugin.route`: index of the plugin chosen for the FIRST request -/
  route : Option Nat := none
  /-- everything queued for the client, in order -/
  out : List Bytes := []
  /-- `handle_request` invocations: (plugin index, request as handed over) -/
  calls : List (Nat × Parser) := []
  deriving DecidableEq, Repr

/-- `http_handler_protocol == WEB_SERVER` -/
def isWebRequest (p : Parser) : Bool :=
  (p.version == some Px.Gen.http11 || p.version == some Px.Gen.http10) && p.url.isSome &&
    p.host.isNone && (p.url.bind (·.hostname)).isNone

/-- `HttpWebServerPlugin.on_client_data`'s loop body for one completed follow-up request:
    ALWAYS the first request's route; a request that is not keep-alive ends the connection -/
def webHooks (cfg : WCfg) : Hooks WSt where
  bypass := fun _ _ _ => none
  complete := fun s p =>
    let k := s.route.getD 0
    let s' := { s with out := s.out ++ [cfg.respond k p], calls := s.calls ++ [(k, p)] }
    if !isKeepAlive p then .stop s' (some p) .close else .next s' none

/-- how `on_client_data` ended, as a phase -/
def endPhase (ph : WPhase) : LoopEnd → WPhase
  | .ok => ph
  | .close => if ph == .routed then .closing else ph
  | .raised => .raised

/-- `HttpWebServerPlugin.on_client_data(raw)` with `self.route` set (`route.on_client_data` returns
    raw: base class; not switched to websocket); second component: `plugin.pipeline_request` -/
def wdata (cfg : WCfg) (s : WSt) (pl : Option Parser) (raw : Bytes) : WSt × Option Parser :=
  if !isKeepAlive s.request then (s, pl)
  else
    let r := pipeLoop (webHooks cfg) (raw.length + 1) s pl raw
    ({ r.1 with phase := endPhase r.1.phase r.2.2 }, r.2.1)

/-- the handler is given one more client segment (web server enabled, proxy plugin too) -/
def wseg (cfg : WCfg) (st : WSt × Option Parser) (raw : Bytes) : WSt × Option Parser :=
  let s := st.1
  match s.phase with
  | .first =>
    match parse Forward.pcfg s.request raw with
    | .error _ => ({ s with phase := .closing, out := s.out ++ [cfg.badRequest] }, st.2)
    | .ok p =>
      let s := { s with request := p }
      if p.state != .complete then (s, st.2)
      else if !isWebRequest p then ({ s with phase := .other }, st.2)
      -- first statement of `on_request_complete` (fix eb09b1e): a path that is not UTF-8 is answered 400
      else if !Px.Url.utf8Valid (webPath p) then
        ({ s with phase := .closing, out := s.out ++ [cfg.badRequest] }, st.2)
      else if isWebsocketUpgrade p then ({ s with phase := .other }, st.2)
      else match tryRoute cfg (webPath p) with
        | some k =>
          let s1 := { s with phase := .routed, route := some k, out := s.out ++ [cfg.respond k p],
                             calls := s.calls ++ [(k, p)] }
          -- `on_request_complete()` returned False: what followed the request in this segment is
          -- handed to `plugin.on_client_data`
          match p.buffer with
          | none => (s1, st.2)
          | some rest => wdata cfg { s1 with request := { p with buffer := none } } st.2 rest
        | none => ({ s with phase := .closing, out := s.out ++ [cfg.notFound] }, st.2)
  | .routed => wdata cfg s st.2 raw
  | _ => st

def wrun (cfg : WCfg) (st : WSt × Option Parser) : List Bytes → WSt × Option Parser
  | [] => st
  | x :: xs => wrun cfg (wseg cfg st x) xs

/-! ## reverse proxy -/

/-- events of a reverse-proxied client connection (handler level; every flush is complete) -/
inductive REv
  | cseg (raw : Bytes)          -- the client sends a segment
  | uflush                      -- `self.upstream` is writable: its queue is written out
  | useg (i : Nat) (raw : Bytes) -- the origin behind the i-th upstream connection sends `raw`
  deriving DecidableEq, Repr

structure RCfg where
  rv : Px.Reverse.Cfg := {}
  table : Px.Reverse.Table
  /-- which route patterns match a request path -/
  matchPat : Bytes → Nat → Bool
  badRequest : Bytes := Px.Gen.pkt_BAD_REQUEST_RESPONSE_PKT

structure RSt where
  phase : WPhase := .first
  request : Parser := init .request
  /-- `ReverseProxy` state: client queue, `self.upstream` (ONE connection), connects -/
  rv : Px.Reverse.St := {}
  /-- ghost: bytes written so far to the i-th upstream connection ever opened -/
  wrote : List Bytes := []
  /-- ghost: number of `ReverseProxy.handle_request` invocations -/
  handled : Nat := 0
  deriving DecidableEq, Repr

/-- index of the connection `self.upstream` currently is (the last one opened) -/
def RSt.current (s : RSt) : Option Nat :=
  match s.rv.upstream with
  | some _ => if s.wrote.isEmpty then none else some (s.wrote.length - 1)
  | none => none

def revPath (p : Parser) : Bytes := p.path.getD []

/-- bookkeeping after a `handle_request`: one more `wrote` slot per connect attempt that succeeded
    (static routes, connects always succeed here) -/
def afterHandle (s : RSt) (r : Px.Reverse.Res) : RSt :=
  let grown := r.st.connects.length - s.rv.connects.length
  let s1 := { s with rv := r.st, wrote := s.wrote ++ List.replicate grown [], handled := s.handled + 1 }
  match r.exc with
  | some .httpProtocol => { s1 with phase := .closing }
  | some _ => { s1 with phase := .raised }
  | none => if r.teardown then { s1 with phase := .closing } else s1

/-- the first request reaches `HttpWebServerPlugin.on_request_complete` (only web plugin: `ReverseProxy`) -/
def rfirst (cfg : RCfg) (s : RSt) (p : Parser) : RSt :=
  let m := cfg.matchPat (webPath p)
  let r := Px.Reverse.onRequestComplete cfg.rv m (fun _ => 0) true cfg.table p s.rv
  -- was `ReverseProxy.handle_request` reached? (the path is UTF-8 — else 400 — and `_try_route` found a route)
  let invoked := Px.Url.utf8Valid (webPath p) && Px.Reverse.anyMatch m cfg.table
  if invoked then
    let s1 := afterHandle s r
    if s1.phase == .first then { s1 with phase := .routed } else s1
  else { s with rv := r.st, phase := if r.exc.isSome then .raised else .closing }

/-- one completed follow-up request: `self.route.handle_request(self.pipeline_request)` routes again
    and opens a NEW upstream -/
def revHooks (cfg : RCfg) : Hooks RSt where
  bypass := fun _ _ _ => none
  complete := fun s p =>
    let r := Px.Reverse.handleRequest cfg.rv (cfg.matchPat (revPath p)) (fun _ => 0) true cfg.table p s.rv
    let s1 := afterHandle s r
    if s1.phase == .raised then .stop s1 (some p) .raised
    else if s1.phase != .routed then .stop s1 (some p) .close
    else if !isKeepAlive p then .stop { s1 with phase := .closing } (some p) .close
    else .next s1 none

/-- `HttpWebServerPlugin.on_client_data(raw)` in front of `ReverseProxy`
    (`route.on_client_data` returns raw: the first request is not a websocket upgrade) -/
def rdata (cfg : RCfg) (s : RSt) (pl : Option Parser) (raw : Bytes) : RSt × Option Parser :=
  if !isKeepAlive s.request then (s, pl)
  else
    let r := pipeLoop (revHooks cfg) (raw.length + 1) s pl raw
    ({ r.1 with phase := endPhase r.1.phase r.2.2 }, r.2.1)

def rstep (cfg : RCfg) (st : RSt × Option Parser) (e : REv) : RSt × Option Parser :=
  let s := st.1
  -- closing (flush, then close; or already torn down), raised, other: not followed further
  if s.phase != .first && s.phase != .routed then st else
  match e with
  | .cseg raw =>
    match s.phase with
    | .first =>
      match parse Forward.pcfg s.request raw with
      | .error _ =>
        ({ s with phase := .closing, rv := { s.rv with client := s.rv.client.queue cfg.badRequest } }, st.2)
      | .ok p =>
        let s := { s with request := p }
        if p.state != .complete then (s, st.2)
        else if !isWebRequest p || (Px.Url.utf8Valid (webPath p) && isWebsocketUpgrade p) then
          ({ s with phase := .other }, st.2)
        else
          let s1 := rfirst cfg s p
          -- leftover of the segment: handed to `on_client_data` when `on_request_complete()` returned False
          match p.buffer with
          | none => (s1, st.2)
          | some rest =>
            if s1.phase == .routed then rdata cfg { s1 with request := { p with buffer := none } } st.2 rest
            else (s1, st.2)
    | .routed => rdata cfg s st.2 raw
    | _ => st
  | .uflush =>
    match s.rv.upstream, s.current with
    | some c, some i =>
      ({ s with rv := { s.rv with upstream := some { c with buffer := [] } },
                wrote := s.wrote.modify i (· ++ c.buffer.flatten) }, st.2)
    | _, _ => st
  | .useg i raw =>
    -- only `self.upstream` is registered with the selector and read
    if raw.isEmpty then st
    else if s.current == some i then ({ s with rv := Px.Reverse.handleUpstreamData s.rv raw }, st.2)
    else st

def rrun (cfg : RCfg) (st : RSt × Option Parser) : List REv → RSt × Option Parser
  | [] => st
  | e :: es => rrun cfg (rstep cfg st e) es

end Px.Persist
