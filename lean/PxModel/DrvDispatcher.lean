import PxModel.Dispatcher
namespace Px.Disp

def msgStr : Msg → String
  | .subscribed => "S" | .unsubscribed => "U" | .ev e => toString e

def excStr : Option Exc → String
  | none => "-" | some .osErrorClosed => "OSError"

/-- driver-level operations: the model's `Op`s plus what the reader side of a
    channel does in the correspondence run (`read` = take everything readable
    now; a reader is closed after draining — `brkDrain` — or with whatever is
    unread still pending — `brkPending`; both are `Op.brk` for the model) -/
inductive DOp
  | op (o : Op) | read (c : ChanId) | brkDrain (c : ChanId) | brkPending (c : ChanId)

def parseTok (t : String) : Option DOp :=
  match t.toList with
  | 's' :: r =>
    match (String.ofList r).splitOn "." with
    | [a, b] => do some (.op (.sub (← a.toNat?) (← b.toNat?)))
    | _ => none
  | 'u' :: r => do some (.op (.unsub (← (String.ofList r).toNat?)))
  | 'p' :: r => do some (.op (.pub (← (String.ofList r).toNat?)))
  | 'r' :: r => do some (.read (← (String.ofList r).toNat?))
  | 'b' :: r => do some (.brkDrain (← (String.ofList r).toNat?))
  | 'B' :: r => do some (.brkPending (← (String.ofList r).toNat?))
  | _ => none

/-- observation state of a session: dispatcher state, what each reader has
    read so far, which readers are closed -/
structure Sess where
  st : St
  seen : List (ChanId × List Msg)
  dead : List ChanId

def Sess.read (x : Sess) (c : ChanId) : Sess :=
  if x.dead.contains c then x
  else { x with seen := (c, chanLog x.st c) :: x.seen.filter (fun p => p.1 != c) }

def Sess.step (x : Sess) (d : DOp) : Sess :=
  if x.st.crashed.isSome then x            -- the harness stops at the first escaped exception
  else match d with
  | .op o => { x with st := Disp.step x.st o }
  | .read c => x.read c
  | .brkDrain c =>
    if x.dead.contains c then x
    else let y := x.read c
      { y with st := Disp.step y.st (.brk c), dead := c :: y.dead }
  | .brkPending c =>
    if x.dead.contains c then x
    else { x with st := Disp.step x.st (.brk c), dead := c :: x.dead }

def Sess.finish (x : Sess) (n : Nat) : Sess := (List.range n).foldl Sess.read x

def Sess.show (x : Sess) (n : Nat) : String :=
  let subs := ",".intercalate (x.st.subs.map fun p => s!"{p.1}:{p.2}")
  let chans := (List.range n).map fun c =>
    let msgs := ",".intercalate (((x.seen.lookup c).getD []).map msgStr)
    let eof := if !x.dead.contains c && x.st.closed.contains c then "$" else ""
    s!"c{c}={msgs}{eof}"
  s!"subs={subs} crash={excStr x.st.crashed} " ++ " ".intercalate chans

/-- `disp <number of channels> <tok> …` with tokens `s<id>.<ch>` `u<id>` `p<e>`
    `r<ch>` `b<ch>` `B<ch>`; prints the dispatcher's subscriber dict, the
    escaped exception, and per channel what its reader received (`$` = reader
    alive and saw EOF, i.e. the dispatcher closed its end) -/
def drv (args : List String) : String :=
  match args with
  | n :: toks =>
    match n.toNat?, toks.mapM parseTok with
    | some n, some ds =>
      let x : Sess := { st := init, seen := [], dead := [] }
      ((ds.foldl Sess.step x).finish n).show n
    | _, _ => "bad-op"
  | _ => "bad-op"

end Px.Disp
