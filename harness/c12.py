"""C12 — reverse proxy routes matching requests to a configured upstream.

Correspondence of PxModel/Reverse.lean (+ Url / Parser / Build / Conn) with the REAL
HttpProtocolHandler + HttpWebServerPlugin + ReverseProxy (+ generated ReverseProxyBasePlugin
subclasses) driven in-process through harness/sim.World, and the property oracle.

A case is
  {'rewrite': 0|1, 'events': 0|1 (--enable-events; absent = 0), 'connect': 'ok'|'refused',
   'plugins': [[route, ...], ...]     route = {'t': 's', 're': regex, 'urls': [hex, ...]}   static
                                            | {'t': 'u', 're': regex, 'url': hex}            dynamic -> Url.from_bytes(url)
                                            | {'t': 'l', 're': regex, 'resp': hex}           dynamic -> literal response
                                            | {'t': 'x', 're': regex}                        dynamic -> handle_route raises
                                            | {'t': 'm', 're': regex, 'url': hex, 'suffix': hex}  dynamic -> u = Url.from_bytes(url);
                                                                                             u.remainder += suffix; return u
  or {'seq': [case, ...]}: several connections (same flags / plugins) handled in order by one process.
   'picks': [index returned by random.choice for the plugin at that position, ...],
   'req': [hex piece, ...]            the client's first request as it arrives
   'up': [hex | 'E' | 'R' | 'T' | 'W', ...]   what successive recv() on the upstream socket yield
   'meta': {...}                      what the generator meant (method, target, headers, body) for the oracle}
Which route patterns match the request path is computed with the real `re` and handed to the
model as a bit string; `random.choice` is a scripted index; the upstream URLs are parsed by the model.
"""
import re
import json
import os

from harness import httpgen as G
from harness.common import hx, exc_name, VERIF

PROPERTY = 'C12'
LEAN_TARGETS = ['PxProofs.C12']
THEOREMS = [
    'Px.Reverse.C12_no_route_404', 'Px.Reverse.C12_404_packet', 'Px.Reverse.C12_bad_path_400', 'Px.Reverse.C12_events_noop',
    'Px.Reverse.C12_selection', 'Px.Reverse.C12_hits_sound',
    'Px.Reverse.C12_target', 'Px.Reverse.C12_connect_host', 'Px.Reverse.C12_target_static', 'Px.Reverse.C12_default_ports',
    'Px.Reverse.C12_forwarded_request', 'Px.Reverse.C12_forwarded_path',
    'Px.Reverse.C12_host_rewrite', 'Px.Reverse.C12_headers_preserved', 'Px.Reverse.C12_parsed_names_distinct',
    'Px.Reverse.C12_default_disable',
    'Px.Reverse.C12_relay', 'Px.Reverse.C12_relay_segments', 'Px.Reverse.C12_relay_stops',
    'Px.Reverse.C12_dynamic_literal', 'Px.Reverse.C12_dynamic_url',
    'Px.Reverse.C12_refused', 'Px.Reverse.C12_close', 'Px.Reverse.C12_connections_independent',
    'Px.Reverse.C12_followup_no_upstream_route', 'Px.Reverse.C12_followup_no_route', 'Px.Reverse.C12_followup_target',
]
RULE = ('route tables (1..3 plugins, 0..3 routes each: static with 1..3 upstream URLs http/https with/without '
        'port and path, dynamic returning Url or literal response or raising; edge URLs without scheme/host, bad '
        'scheme, port 0; IPv6 literal hosts inside the quantifier) x request paths matching none/one/several routes x methods x header sets x '
        'bodies (none / Content-Length / chunked) x both --rewrite-host-header settings x --enable-events on/off (with '
        'Authorization / Cookie / Proxy-Authorization fields) x scripted random.choice x '
        'upstream recv schedules; sequences of 2-3 connections in one process over tables with a dynamic route that edits '
        'the Url it got from Url.from_bytes; thorough adds every table of 2 plugins x <=2 routes over 8 route shapes x 3 paths '
        'x 2 rewrite settings; distinct by canonical JSON; non-trivial = inside the property quantifier')
ASSUMPTIONS = [
    'only the first request of a connection (follow-ups on a kept-alive reverse-proxy connection are C04, defect D12); '
    'inputs whose bytes continue after the first complete request are skipped on both sides (`leftover`)',
    'TLS handshake of upstream.wrap() is out of scope: wrap is patched to a no-op and only the request for it is observed',
    'regex matching is a parameter of the model: the match table is computed by the harness with the real `re`',
    'connections are independent in the model (fresh handler state each; Url.fromBytes is a pure function, a plugin '
    'editing the Url it obtained edits its own copy): sequences of 2-4 connections in one process are compared with the '
    'list of single-connection results (C12_connections_independent)',
    'random.choice is a scripted index; plugins keep the base-class before_routing/protocols/regexes; '
    'handle_route returns a Url or a memoryview (the TcpServerConnection variant is not covered)',
    '--enable-static-server off (C13), client side not TLS; --enable-events on in about a third of the cases: the model '
    'takes emit_request_complete() to publish a copy and leave the request untouched (only its raising is modelled) — '
    'the correspondence and the oracle check that the implementation does',
    'the forwarded bytes are stated in terms of the Url / Parser / Build models (Url.from_bytes, HttpParser.parse, '
    'build_http_request): their own correctness is C14 / C03 / C15; here they are exercised end to end through the handler',
]
EXHAUSTIVE = {}

NOT_FOUND_SIG = 'no-route-request-not-answered-by-404'


def _preload():
    """Import the implementation once, in the process that later forks the worker pool: importing
    (and byte-compiling) the whole package lazily inside the first case of every worker can take longer
    than the per-case guard on a loaded machine."""
    import harness.sim                              # noqa: F401
    import proxy.http.handler                       # noqa: F401
    import proxy.http.server.reverse                # noqa: F401
    import proxy.http.server.web                    # noqa: F401
    import proxy.core.connection.server             # noqa: F401
    import proxy.common.flag                        # noqa: F401
    import proxy.http.responses                     # noqa: F401
    import proxy.plugin                             # noqa: F401  (FlagParser.initialize resolves default plugins)


_preload()


# ----------------------------------------------------------------------------------------------
# known finding hook (D26)
# ----------------------------------------------------------------------------------------------
# a dynamic route's Url with a non-UTF-8 byte (e.g. in its path) raises UnicodeDecodeError from
# `str(self.choice)` (access-log string) and the request is dropped; the same URL in a static route works
STR_FAILURE = 'dynamic-route-url-not-utf8-raises-in-log-string'


def _finding_id(failure):
    """id of the open C12 entry of known_findings.json with this failure signature, if listed.
    While an entry is not listed the corresponding inputs are kept outside the oracle's quantifier
    (the oracle must not fail on the unchanged tree); the correspondence covers them either way."""
    try:
        for f in json.load(open(os.path.join(VERIF, 'known_findings.json')))['findings']:
            if f.get('property') == 'C12' and f.get('status') == 'open' and f.get('failure') == failure:
                return f['id']
    except Exception:
        pass
    return None


STR_ID = _finding_id(STR_FAILURE)


# ----------------------------------------------------------------------------------------------
# driving the implementation
# ----------------------------------------------------------------------------------------------
def _mk_plugins(case):
    from proxy.http import Url
    from proxy.http.server import ReverseProxyBasePlugin
    classes = []
    seqs = {}
    for i, routes in enumerate(case['plugins']):
        table = []
        dyn = {}
        for r in routes:
            if r['t'] == 's':
                urls = [bytes.fromhex(u) for u in r['urls']]
                seqs[id(urls)] = i
                table.append((r['re'], urls))
            else:
                table.append(r['re'])
                dyn.setdefault(r['re'], r)

        def routes_(self, _t=table):
            return _t

        def handle_route(self, request, pattern, _d=dyn):
            r = _d[pattern.pattern]
            if r['t'] == 'u':
                return Url.from_bytes(bytes.fromhex(r['url']))
            if r['t'] == 'm':
                # like the shipped proxy.plugin.ReverseProxyPlugin: take a Url from from_bytes and edit it
                choice = Url.from_bytes(bytes.fromhex(r['url']))
                choice.remainder += bytes.fromhex(r['suffix'])
                return choice
            if r['t'] == 'l':
                return memoryview(bytes.fromhex(r['resp']))
            raise RuntimeError('generated plugin raises')
        classes.append(type('GenRevPlugin%d' % i, (ReverseProxyBasePlugin,),
                            {'routes': routes_, 'handle_route': handle_route}))
    return classes, seqs


class _Choice:
    """stand-in for the `random` module as seen by proxy.http.server.reverse"""

    def __init__(self, real, seqs, picks):
        self._real, self._seqs, self._picks = real, seqs, picks
        self.calls = 0

    def choice(self, seq):
        self.calls += 1
        if len(seq) == 0:
            raise IndexError('Cannot choose from an empty sequence')
        i = self._seqs.get(id(seq))
        k = self._picks[i] if i is not None and i < len(self._picks) else 0
        return seq[k]

    def __getattr__(self, item):
        return getattr(self._real, item)


_WORLD = []


def _world_class():
    """sim.World whose handlers get a real core EventQueue (over a plain queue.Queue) so that
    --enable-events configurations can publish; what is published is drained and ignored."""
    if _WORLD:
        return _WORLD[0]
    import queue
    from harness.sim import World
    from proxy.core.event import EventQueue
    from proxy.http.handler import HttpProtocolHandler

    class EvWorld(World):
        def make_handler(self, sock, addr=('127.0.0.1', 54321), uid=None):
            self.published = queue.Queue()
            h = HttpProtocolHandler(
                HttpProtocolHandler.create(sock, addr),
                flags=self.flags, event_queue=EventQueue(self.published), uid=uid, upstream_conn_pool=None,
            )
            h.initialize()
            return h
    _WORLD.append(EvWorld)
    return EvWorld


def _classify(segs):
    """parse-exc / incomplete / notweb / leftover / None (exactly one completed web-server request)"""
    from proxy.http.parser import HttpParser, httpParserTypes
    from proxy.http.protocols import httpProtocols
    p = HttpParser(httpParserTypes.REQUEST_PARSER)
    try:
        for s in segs:
            p.parse(memoryview(s))
    except Exception:
        return 'parse-exc', p
    if not p.is_complete:
        return 'incomplete', p
    if p.http_handler_protocol != httpProtocols.WEB_SERVER:
        return 'notweb', p
    if p.buffer is not None and len(p.buffer) > 0:
        # bytes after the first complete request: since 84c574d they are handed to on_client_data and handled as
        # follow-up requests (a second handle_request) — C04's subject, outside C12 (first request only)
        return 'leftover', p
    return None, p


def _subcases(case):
    """a case is one connection, or {'seq': [...]}: several connections handled one after the other by the
    same process (same flags and plugin classes, a fresh handler each)"""
    return case['seq'] if 'seq' in case else [case]


def _drive(case):
    """Runs the real classes for a single-connection case; returns a dict of observations."""
    return _drive_seq([case])[0]


def _drive_seq(cases):
    """Runs the real classes: one world (flags, plugin classes, process state) and one fresh
    HttpProtocolHandler per connection, in order.  Returns one observation dict per connection."""
    import logging
    logging.disable(logging.CRITICAL)
    from harness.sim import elems
    import proxy.http.server.reverse as RV
    import proxy.core.connection.server as SRV

    first = cases[0]
    classes, seqs = _mk_plugins(first)
    args = ['--enable-web-server', '--enable-reverse-proxy'] + (['--rewrite-host-header'] if first['rewrite'] else []) \
        + (['--enable-events'] if first.get('events') else [])
    wraps = []
    hr_exc = []

    def fake_wrap(self, hostname=None, ca_file=None, as_non_blocking=False, verify_mode=None):
        wraps.append(hostname)

    orig_hr = RV.ReverseProxy.handle_request

    def spy_hr(self, request):
        try:
            return orig_hr(self, request)
        except BaseException as e:
            hr_exc.append(e)
            raise

    shim = _Choice(RV.random, seqs, first['picks'])
    saved = (RV.random, SRV.TcpServerConnection.wrap)
    RV.random = shim
    SRV.TcpServerConnection.wrap = fake_wrap
    RV.ReverseProxy.handle_request = spy_hr
    out = []
    try:
        with _world_class()(args=args, threadless=True, strict=False, plugins=classes) as w:
            for case in cases:
                segs = [bytes.fromhex(s) for s in case['req']]
                skip, _ = _classify(segs)
                if skip:
                    out.append({'skip': skip})
                    continue
                del wraps[:]
                del hr_exc[:]
                shim._picks = case['picks']
                shim.calls = 0
                out.append(_drive_conn(w, case, segs, shim, wraps, hr_exc, elems))
    finally:
        RV.random, SRV.TcpServerConnection.wrap = saved
        RV.ReverseProxy.handle_request = orig_hr
    return out


def _drive_conn(w, case, segs, shim, wraps, hr_exc, elems):
    obs = {'skip': None}
    c0, u0 = len(w.connects), len(w.upstreams)
    w.connect_plan.clear()
    if case['connect'] == 'refused':
        w.connect_plan.append(ConnectionRefusedError(111, 'scripted refused'))
    h, cs, cp = w.new_client()
    raised = None
    for s in segs:
        cs.script_recv(('data', s))
        r = w.tick(h, R=[cs.fileno()], W=[])
        if isinstance(r, tuple):
            raised = r[1]
            break
    route = getattr(h.plugin, 'route', None) if h.plugin is not None else None
    td = bool(h.reads_teared) or bool(h.must_flush_before_shutdown) or raised is not None
    e = hr_exc[0] if hr_exc else raised
    obs['td'] = td
    obs['exc'] = None if e is None else _exc(e)
    obs['connects'] = list(w.connects[c0:])
    obs['wraps'] = list(wraps)
    up = route.upstream if route is not None else None
    obs['up'] = None if up is None else (bool(up.closed), elems(up))
    obs['client'] = elems(h.work)
    obs['choice_calls'] = shim.calls
    # deliver what was queued for the upstream
    us = peer = None
    if len(w.upstreams) > u0:
        us, peer, _ = w.upstreams[u0]
    if us is not None and not td:
        for _ in range(50):
            if not up.has_buffer():
                break
            w.tick(h, R=[], W=[us.fileno()])
        peer.pump()
        obs['upstream_read'] = bytes(peer.inbox)
    else:
        obs['upstream_read'] = b''
    # a second request on the SAME connection (the follow-up loop of HttpWebServerPlugin.on_client_data calls
    # handle_request again on the same ReverseProxy object)
    if case.get('follow') is not None:
        fo = case['follow']
        first_line_connects = len(obs['connects'])
        if td:
            obs['f'] = 'f none'
        elif not (h.plugin is not None and h.plugin.request.is_http_1_1_keep_alive):
            obs['f'] = 'f notka'
        else:
            fsegs = [bytes.fromhex(x) for x in fo['req']]
            fskip, _fp = _classify_follow(fsegs)
            if fskip:
                obs['f'] = 'f ' + fskip
            else:
                del hr_exc[:]
                shim._picks = fo['picks']
                shim.calls = 0
                w.connect_plan.clear()
                if fo['connect'] == 'refused':
                    w.connect_plan.append(ConnectionRefusedError(111, 'scripted refused'))
                fraised = None
                for x in fsegs:
                    cs.script_recv(('data', x))
                    r = w.tick(h, R=[cs.fileno()], W=[])
                    if isinstance(r, tuple):
                        fraised = r[1]
                        break
                fe = hr_exc[0] if hr_exc else fraised
                conns = ','.join('%s:%d' % (hx(a.encode() if isinstance(a, str) else a), p_) for a, p_ in w.connects[c0:])
                obs['f'] = 'f exc=%s connects=[%s] wraps=%s client=%s' % (
                    None if fe is None else _exc(fe), conns, _hl([x.encode() for x in wraps]), _hl(elems(h.work)))
                obs['f_new_connects'] = len(w.connects[c0:]) - first_line_connects
    # upstream -> client
    rtd = False
    if not td and us is not None:
        for ev in case['up']:
            if ev == 'E':
                us.script_recv(('eof',))
            elif ev == 'R':
                us.script_recv(('reset',))
            elif ev == 'T':
                us.script_recv(('timedout',))
            elif ev == 'W':
                us.script_recv(('wantRead',))
            else:
                us.script_recv(('data', bytes.fromhex(ev)))
            r = w.tick(h, R=[us.fileno()], W=[])
            if isinstance(r, tuple):
                obs['relay_raised'] = _exc(r[1])
                rtd = True
                break
            if h.reads_teared or h.must_flush_before_shutdown or r is True:
                rtd = True
                break
    obs['rtd'] = rtd
    obs['rclient'] = elems(h.work)
    # flush towards the client and see what the client program reads
    final = None
    for _ in range(200):
        if not h.work.has_buffer():
            break
        final = w.tick(h, R=[], W=[cs.fileno()])
    cp.pump()
    obs['client_read'] = bytes(cp.inbox)
    obs['final_teardown'] = (final is True) or (not h.work.has_buffer() and bool(h.reads_teared))
    # client connection closes
    try:
        if h.plugin is not None:
            h.plugin.on_client_connection_close()
        obs['closes'] = sum(1 for s, _, _ in w.upstreams[u0:] if s.closed_by_proxy)
    except Exception as e2:     # noqa: BLE001
        obs['closes'] = 'exc:' + type(e2).__name__
    return obs


def _classify_follow(segs):
    from proxy.http.parser import HttpParser, httpParserTypes
    p = HttpParser(httpParserTypes.REQUEST_PARSER)
    try:
        for x in segs:
            p.parse(memoryview(x))
    except Exception:
        return 'parse-exc', p
    if not p.is_complete:
        return 'incomplete', p
    if p.buffer is not None and len(p.buffer) > 0:
        return 'leftover', p
    return None, p


def _exc(e):
    n = exc_name(e)
    if n == 'RuntimeError':
        return 'plugin'
    return n


def _hl(xs):
    return '[' + ','.join(hx(x) for x in xs) + ']'


def _obs_line(o):
    if o['skip']:
        return o['skip']
    up = 'None' if o['up'] is None else ('closed' if o['up'][0] else 'open') + _hl(o['up'][1])
    conns = ','.join('%s:%d' % (hx(h.encode() if isinstance(h, str) else h), p) for h, p in o['connects'])
    if 'f' in o:
        return 'ok td=%d exc=%s connects=[%s] wraps=%s up=%s client=%s || %s' % (
            o['td'], o['exc'], conns, _hl([x.encode() for x in o['wraps']]), up, _hl(o['client']), o['f'])
    return 'ok td=%d exc=%s connects=[%s] wraps=%s up=%s client=%s rtd=%d rclient=%s closes=%s' % (
        o['td'], o['exc'], conns, _hl([x.encode() for x in o['wraps']]), up, _hl(o['client']), o['rtd'],
        _hl(o['rclient']), o['closes'])


def impl(case):
    return [_obs_line(o) for o in _drive_seq(_subcases(case))]


# ----------------------------------------------------------------------------------------------
# model side
# ----------------------------------------------------------------------------------------------
def _patterns(case):
    ids = {}
    for routes in case['plugins']:
        for r in routes:
            ids.setdefault(r['re'], len(ids))
    return ids


def _match_bits(case, ids, follow=False):
    """which patterns match the request path, computed with the real `re` as the code does"""
    from proxy.common.utils import text_
    segs = [bytes.fromhex(s) for s in case['req']]
    skip, p = _classify_follow(segs) if follow else _classify(segs)
    if skip or p.path is None:
        return '-'
    try:
        path = text_(p.path)
    except UnicodeDecodeError:
        return '-'
    bits = ['0'] * len(ids)
    for rx, i in ids.items():
        if re.compile(rx).match(path):
            bits[i] = '1'
    return ''.join(bits) or '-'


def _enc_table(case, ids):
    if not case['plugins']:
        return 'E'
    ps = []
    for routes in case['plugins']:
        if not routes:
            ps.append('e')
            continue
        rs = []
        for r in routes:
            pid = ids[r['re']]
            if r['t'] == 's':
                rs.append('s.%d.%s' % (pid, ','.join((u or '-') for u in r['urls']) if r['urls'] else 'e'))
            elif r['t'] == 'u':
                rs.append('u.%d.%s' % (pid, r['url'] or '-'))
            elif r['t'] == 'm':
                rs.append('m.%d.%s.%s' % (pid, r['url'] or '-', r['suffix'] or '-'))
            elif r['t'] == 'l':
                rs.append('l.%d.%s' % (pid, r['resp'] or '-'))
            else:
                rs.append('x.%d' % pid)
        ps.append(';'.join(rs))
    return '|'.join(ps)


def model_lines(case):
    # connections are independent in the model: one line per connection, each evaluated on its own
    return [_model_line(c) for c in _subcases(case)]


def _model_line(case):
    ids = _patterns(case)
    picks = ','.join(str(k) for k in case['picks']) or '-'
    if case.get('follow') is not None:
        fo = case['follow']
        fpicks = ','.join(str(k) for k in fo['picks']) or '-'
        return 'rev follow %d %s %s %s %s %s %s %s %s / %s' % (
            case['rewrite'], case['connect'], _enc_table(case, ids), _match_bits(case, ids), picks,
            fo['connect'], _match_bits(dict(case, req=fo['req']), ids, follow=True), fpicks,
            ' '.join((x or '-') for x in case['req']), ' '.join((x or '-') for x in fo['req']))
    evs = ','.join((e or '-') for e in case['up']) or '-'
    return 'rev run %d %d %s %s %s %s %s %s' % (
        case['rewrite'], 1 if case.get('events') else 0, case['connect'], _enc_table(case, ids), _match_bits(case, ids), picks, evs,
        ' '.join((s or '-') for s in case['req']))


# ----------------------------------------------------------------------------------------------
# the property itself, on the implementation only
# ----------------------------------------------------------------------------------------------
_URL_RE = re.compile(rb'^(https?)://([A-Za-z0-9.\-]+|\[[0-9A-Fa-f:]+\])(?::([0-9]{1,5}))?(/.*)?$', re.S)


def url_parts(u):
    """Independent reading of an upstream URL inside the quantifier:
    (scheme, host, explicit port or None, path or None); None if outside."""
    m = _URL_RE.match(u)
    if not m:
        return None
    scheme, host, port, path = m.groups()
    if path is not None and not STR_ID:
        try:
            path.decode('utf-8')
        except UnicodeDecodeError:
            return None
    port = None if port is None else int(port)
    if port is not None and not (1 <= port <= 65535):
        return None
    return scheme, host, port, path


def _route_candidates(case, path_text):
    """(literals of matching first routes in plugin order, candidate urls of every matching route,
    any-match, in-quantifier) computed independently with `re`."""
    inq = True
    lits = []
    cands = []
    anym = False
    yields = False
    for i, routes in enumerate(case['plugins']):
        first = True
        for r in routes:
            if not re.compile(r['re']).match(path_text):
                continue
            anym = True
            if r['t'] == 's':
                if not r['urls']:
                    inq = False
                us = [bytes.fromhex(u) for u in r['urls']]
                if first and not (i < len(case['picks']) and case['picks'][i] < len(us)):
                    inq = False
                cands += us
                if first:
                    yields = True
            elif r['t'] == 'u':
                cands.append(bytes.fromhex(r['url']))
                if first:
                    yields = True
            elif r['t'] == 'm':
                # the route yields, for THIS request, the url with the suffix appended to its path
                u = bytes.fromhex(r['url'])
                pu = url_parts(u)
                if pu is None or pu[3] is None:
                    inq = False
                cands.append(u + bytes.fromhex(r['suffix']))
                if first:
                    yields = True
            elif r['t'] == 'l':
                if first:
                    lits.append(bytes.fromhex(r['resp']))
            else:
                inq = False
            first = False
    for u in cands:
        if url_parts(u) is None:
            inq = False
    return lits, cands, anym, yields, inq


def _emit_ok(m):
    """--enable-events: emit_request_complete() needs a Host field and decodable method/path/header text"""
    hs = [(bytes.fromhex(k), bytes.fromhex(v)) for k, v in m['headers']]
    if not any(k.lower() == b'host' for k, _ in hs):
        return False
    try:
        for x in [bytes.fromhex(m['method']), bytes.fromhex(m['target'])] + [y for kv in hs for y in kv]:
            x.decode('utf-8')
    except UnicodeDecodeError:
        return False
    return True


def in_quantifier(case):
    if 'seq' in case:
        return any(in_quantifier(c) for c in case['seq'])
    m = case.get('meta')
    if not m or not m.get('valid') or case['connect'] != 'ok':
        return False
    try:
        path_text = bytes.fromhex(m['target']).decode('utf-8')
    except UnicodeDecodeError:
        return True         # answered with 400 before events and routing, whatever the table is
    if case.get('events') and not _emit_ok(m):
        return False
    return _route_candidates(case, path_text)[4]


def tiny_parse_request(raw):
    """Independent minimal HTTP/1.x request reader for the oracle: (method, target, version, [(name, value)], body)."""
    head, sep, rest = raw.partition(b'\r\n\r\n')
    if not sep:
        return None
    lines = head.split(b'\r\n')
    parts = lines[0].split(b' ')
    if len(parts) != 3:
        return None
    hdrs = []
    for ln in lines[1:]:
        k, c, v = ln.partition(b':')
        if not c:
            return None
        hdrs.append((k, v.strip(b' \t')))
    te = [v for k, v in hdrs if k.lower() == b'transfer-encoding']
    if te and te[-1].lower() == b'chunked':
        body = b''
        while True:
            ln, c, rest = rest.partition(b'\r\n')
            if not c:
                return None
            n = int(ln.split(b';')[0], 16)
            if n == 0:
                break
            body += rest[:n]
            rest = rest[n + 2:]
    else:
        body = rest
    return parts[0], parts[1], parts[2], hdrs, body


def oracle(case):
    """The property on the implementation only.  For a sequence of connections every connection is judged
    by what its own request and the route table say — nothing an earlier connection did may show."""
    if not in_quantifier(case):
        return None
    subs = _subcases(case)
    obs = _drive_seq(subs)
    for k, (c, o) in enumerate(zip(subs, obs)):
        if not in_quantifier(c):
            continue
        if c.get('follow') is not None:
            # the first request of such a connection is judged in the single-request cases; here: the follow-up
            sig = _judge_follow(c, o) if o.get('f', '').startswith('f exc=') else None
        else:
            sig = _judge(c, o)
        if sig:
            return sig if 'seq' not in case else 'connection-%d-of-%d:%s' % (k + 1, len(subs), sig)
    return None


def _judge_follow(case, o):
    """second request of the connection: if none of the first matching routes yields an upstream URL
    (no route matches, or only literal-response routes do) it must not cause an outbound connection"""
    fm = case['follow'].get('meta') or {}
    if not fm.get('valid'):
        return None
    try:
        pt = bytes.fromhex(fm['target']).decode('utf-8')
    except UnicodeDecodeError:
        return None
    lits, cands, anym, yields, inq = _route_candidates(dict(case, picks=case['follow']['picks']), pt)
    if not inq or yields:
        return None
    if o.get('f_new_connects', 0) != 0:
        return 'follow-up-request-without-upstream-route-caused-outbound-connection'
    return None


def _judge(case, o):
    from proxy.http.responses import NOT_FOUND_RESPONSE_PKT
    m = case['meta']
    if o['skip']:
        return 'valid-web-request-not-served-' + o['skip']
    try:
        path_text = bytes.fromhex(m['target']).decode('utf-8')
    except UnicodeDecodeError:
        # a path that is not UTF-8 names no route: 400, never an outbound connection (eb09b1e)
        from proxy.http.responses import BAD_REQUEST_RESPONSE_PKT
        if o['connects'] or o['upstream_read']:
            return 'undecodable-path-caused-outbound-connection'
        if o['exc'] is not None:
            return 'undecodable-path-raised-' + str(o['exc'])
        if o['client_read'] != bytes(BAD_REQUEST_RESPONSE_PKT) or not o['final_teardown']:
            return 'undecodable-path-not-answered-by-400'
        return None
    lits, cands, anym, yields, _ = _route_candidates(case, path_text)
    if not anym:
        if o['connects'] or o['upstream_read']:
            return 'no-route-request-caused-outbound-connection'
        if o['client_read'] != bytes(NOT_FOUND_RESPONSE_PKT):
            return NOT_FOUND_SIG
        if not o['final_teardown']:
            return 'no-route-request-connection-not-torn-down'
        return None
    if o['exc'] is not None:
        if STR_ID and o['exc'] == 'valueError' and _has_undecodable_dynamic_url(case, path_text):
            return STR_FAILURE
        return 'matching-request-raised-' + str(o['exc'])
    if not yields:
        # only literal responses
        if o['connects'] or o['upstream_read']:
            return 'literal-route-caused-outbound-connection'
        if o['client_read'] != b''.join(lits):
            return 'literal-response-not-delivered-exactly'
        return None
    if len(o['connects']) != 1:
        return 'matching-request-connect-count-%d' % len(o['connects'])
    host, port = o['connects'][0]
    host = host.encode() if isinstance(host, str) else host
    req = tiny_parse_request(o['upstream_read'])
    if req is None:
        return 'forwarded-request-unreadable'
    method, target, version, hdrs, body = req
    want_hdrs = [(bytes.fromhex(k), bytes.fromhex(v)) for k, v in m['headers']]
    client_host = [v for k, v in want_hdrs if k.lower() == b'host']
    ok_url = None
    why = 'connect-address-not-an-upstream-of-a-matching-route'
    for u in cands:
        scheme, uh, uport, upath = url_parts(u)
        eport = uport if uport is not None else (80 if scheme == b'http' else 443)
        bare = uh[1:-1] if uh.startswith(b'[') else uh      # an IPv6 literal is connected as the bare address
        if port != eport or host != bare:
            continue
        why = 'forwarded-path-is-not-the-upstream-url-path'
        if target != (upath or b'/'):
            continue
        why = 'host-header-not-per-rewrite-option'
        auth = uh + (b':' + str(uport).encode() if uport is not None else b'')
        got_host = [v for k, v in hdrs if k.lower() == b'host']
        if got_host != ([auth] * len(client_host) if case['rewrite'] else client_host):
            continue
        why = 'tls-wrap-not-per-scheme'
        if (scheme == b'https') != (len(o['wraps']) == 1):
            continue
        ok_url = u
        break
    if ok_url is None:
        return why
    if method != bytes.fromhex(m['method']) or version != bytes.fromhex(m['version']):
        return 'method-or-version-changed'

    def rest(hs):
        return [(k, v) for k, v in hs if k.lower() not in (b'host', b'content-length')]
    if rest(hdrs) != rest(want_hdrs):
        return 'other-headers-not-preserved'
    wcl = [v for k, v in want_hdrs if k.lower() == b'content-length']
    gcl = [v for k, v in hdrs if k.lower() == b'content-length']
    if wcl and any(v != wcl[0] for v in gcl):
        return 'content-length-changed'
    if body != bytes.fromhex(m['body']):
        return 'body-not-preserved'
    # relay: literals queued before, then every upstream segment up to the first teardown event
    want = b''.join(lits)
    for e in case['up']:
        if e in ('E', 'R', 'T'):
            break
        if e != 'W':
            want += bytes.fromhex(e)
    if o['client_read'] != want:
        return 'upstream-response-not-relayed-unmodified'
    return None


def _has_undecodable_dynamic_url(case, path_text):
    for routes in case['plugins']:
        for r in routes:
            if re.compile(r['re']).match(path_text):
                if r['t'] in ('u', 'm'):
                    try:
                        bytes.fromhex(r['url']).decode('utf-8')
                    except UnicodeDecodeError:
                        return True
                break
    return False


def classify(case, sig):
    sig = sig.split(':', 1)[1] if sig.startswith('connection-') else sig
    if sig == STR_FAILURE and STR_ID:
        return STR_ID
    return None


def finding_witnesses():
    rng = __import__('random').Random(7)
    out = {}
    if STR_ID:
        out[STR_ID] = _mk_case(rng, [[{'t': 'u', 're': '/get$', 'url': b'http://h.test/\xff'.hex()}]], [0], b'/get',
                               rewrite=0, framing='none', up=[])
    return out


# ----------------------------------------------------------------------------------------------
# generators
# ----------------------------------------------------------------------------------------------
PATTERNS = ['/get$', '/get', '/a/.*', r'/dyn/(\d+)$', '/', '/$', '/lit', r'/get/(\d+)$', '(?i)/GET', '/a|/b',
            '.*', '/api/v[12]/', '/nomatch-ever', '/x\\?y=1$']
PATHS = [b'/', b'/get', b'/get/12', b'/a/b.txt', b'/dyn/5', b'/lit', b'/x?y=1', b'/GET', b'/nope', b'/api/v1/u',
         b'/\xc3\xa9', b'/b', b'/geta', b'/a//b']
UHOSTS = [b'up1.test', b'a.b-c.example', b'10.1.2.3', b'localhost', b'xn--bcher-kva.example', b'h', b'[::1]',
          b'[2001:db8::1]']
UPORTS = [b'', b'', b'', b':80', b':8080', b':443', b':8443', b':1', b':65535']
UPATHS = [b'', b'', b'/', b'/g', b'/a/b?x=1', b'/p%20q', b'/get?id=1', b'/deep/er/path/']
EDGE_URLS = [b'//host.test/p', b'host.test:9000', b'host.test', b'ftp://h.test/', b'/just/path', b'',
             b'http://u:p@h.test/x', b'http://h.test:abc/', b'http:///x', b'http://h.test:0/z', b'https://h.test:0',
             b'http://[::1]:8080/x', b'https://[2001:db8::1]/', b'http://h.test:-1/', b'http://h\xff.test/',
             b'http://h.test:+80/', b'http://a@h.test/']
CRED_HEADERS = [(b'Authorization', b'Basic dXNlcjpwYXNz'), (b'Cookie', b'sid=abc; theme=dark'),
                (b'Proxy-Authorization', b'Basic cHJveHk6cHc='), (b'X-Api-Key', b'k-123')]
LITERALS = [b'HTTP/1.1 200 OK\r\nContent-Length: 2\r\n\r\nhi', b'HTTP/1.1 204 No Content\r\n\r\n', b'x', b'']


def _static(rx, urls):
    return {'t': 's', 're': rx, 'urls': [u.hex() for u in urls]}


def _rurl(rng, edge=0.0):
    if rng.random() < edge:
        return rng.choice(EDGE_URLS)
    return rng.choice([b'http', b'https']) + b'://' + rng.choice(UHOSTS) + rng.choice(UPORTS) + rng.choice(UPATHS)


def _rroute(rng, rx, edge):
    k = rng.random()
    if k < 0.55:
        n = rng.choice([1, 1, 2, 3]) if rng.random() > edge / 4 else 0
        return _static(rx, [_rurl(rng, edge) for _ in range(n)])
    if k < 0.75:
        return {'t': 'u', 're': rx, 'url': _rurl(rng, edge).hex()}
    if k < 0.97 or edge == 0:
        return {'t': 'l', 're': rx, 'resp': rng.choice(LITERALS[:3] if edge == 0 else LITERALS).hex()}
    return {'t': 'x', 're': rx}


def _rtable(rng, edge):
    np_ = rng.choice([1, 1, 1, 2, 2, 3]) if rng.random() > edge / 6 else 0
    plugins = []
    for _ in range(np_):
        nr = rng.choice([1, 1, 2, 2, 3]) if rng.random() > 0.05 else 0
        rxs = rng.sample(PATTERNS, nr)     # distinct dynamic patterns within one plugin
        plugins.append([_rroute(rng, rx, edge) for rx in rxs])
    return plugins


def _rpicks(rng, plugins, edge):
    picks = []
    for routes in plugins:
        n = max([len(r['urls']) for r in routes if r['t'] == 's'] + [1])
        mins = min([len(r['urls']) for r in routes if r['t'] == 's'] + [1]) or 1
        if rng.random() < edge / 5:
            picks.append(rng.randrange(n + 1))
        else:
            picks.append(rng.randrange(mins))
    return picks


def _request(rng, target, framing=None, ws=False, version=None, method=None, extra_headers=()):
    method = method or rng.choice(G.METHODS)
    version = version or rng.choice([b'HTTP/1.1', b'HTTP/1.1', b'HTTP/1.0'])
    framing = framing or rng.choice(['none', 'none', 'cl', 'chunked', 'cl0'])
    headers = G.rheaders(rng, rng.randrange(0, 7), exclude=(b'content-length', b'transfer-encoding', b'host'))
    if ws:
        headers = [(k, v) for k, v in headers if k.lower() not in (b'connection', b'upgrade')]
        headers += [(b'Connection', b'Upgrade'), (b'Upgrade', rng.choice([b'websocket', b'WebSocket']))]
        version = b'HTTP/1.1'
    for k, v in extra_headers:
        if not any(h.lower() == k.lower() for h, _ in headers):
            headers.insert(rng.randrange(len(headers) + 1), (k, v))
    if rng.random() < 0.8 and not any(h.lower() == b'host' for h, _ in headers):
        headers.insert(rng.randrange(len(headers) + 1),
                       (G.rcase(rng, b'Host'), rng.choice([b'front.example', b'front.example:8080', b'me'])))
    n = rng.choice([0, 1, 2, 5, 17, 100, 300]) if framing in ('cl', 'chunked') else 0
    if framing == 'cl' and n == 0:
        n = 1
    body = G.rbody(rng, n)
    payload = b''
    if framing == 'cl':
        headers.insert(rng.randrange(len(headers) + 1), (G.rcase(rng, b'Content-Length'), str(n).encode()))
        payload = body
    elif framing == 'cl0':
        headers.insert(rng.randrange(len(headers) + 1), (G.rcase(rng, b'Content-Length'), b'0'))
    elif framing == 'chunked':
        headers.insert(rng.randrange(len(headers) + 1), (G.rcase(rng, b'Transfer-Encoding'), G.rcase(rng, b'chunked')))
        payload = G.render_chunked(rng, body, G.chunk_layout(rng, n))
    raw = method + b' ' + target + b' ' + version + G.CRLF + G.render_headers(rng, headers) + G.CRLF + payload
    meta = {'valid': True, 'method': method.hex(), 'target': target.hex(), 'version': version.hex(),
            'headers': [[k.hex(), v.hex()] for k, v in headers], 'body': body.hex(), 'framing': framing, 'ws': ws}
    return raw, meta


def _rup(rng):
    n = rng.choice([0, 1, 1, 2, 3, 4])
    evs = []
    for _ in range(n):
        k = rng.random()
        if k < 0.1:
            evs.append('W')
        elif k < 0.55:
            evs.append(G.gen_response(rng, maxbody=60)['raw'].hex())
        else:
            evs.append(bytes(rng.randrange(256) for _ in range(rng.choice([1, 2, 7, 40]))).hex())
    if rng.random() < 0.35:
        evs.insert(rng.randrange(len(evs) + 1), rng.choice(['E', 'E', 'R', 'T']))
    return evs


def _mk_case(rng, plugins, picks, target, rewrite, framing=None, up=None, connect='ok', cut=True, ws=False,
             raw=None, version=None, method=None, events=0, extra_headers=()):
    if raw is None:
        raw, meta = _request(rng, target, framing, ws, version, method, extra_headers)
    else:
        meta = {'valid': False}
    segs = [raw]
    if cut and len(raw) > 1 and rng.random() < 0.4:
        segs = G.split_at(raw, G.cuts(rng, len(raw), rng.choice([1, 1, 2])))
    return {'rewrite': rewrite, 'events': events, 'connect': connect, 'plugins': plugins, 'picks': picks,
            'req': [s.hex() for s in segs], 'up': _rup(rng) if up is None else up, 'meta': meta}


def _mroute(rx, url, suffix):
    return {'t': 'm', 're': rx, 'url': url.hex(), 'suffix': suffix.hex()}


def _mk_seq(rng, plugins, conns, rewrite, events=0):
    """conns: [(picks, target, kwargs)] -> one process, one connection each, in order"""
    return {'seq': [_mk_case(rng, plugins, picks, target, rewrite, events=events, **kw) for picks, target, kw in conns]}


def _rseq(rng):
    """2-3 connections over one table in which a dynamic route edits the Url it got from Url.from_bytes
    (as the shipped ReverseProxyPlugin does) and static / plain dynamic routes use the same URL bytes"""
    url = rng.choice([b'http', b'https']) + b'://' + rng.choice(UHOSTS) + rng.choice(UPORTS) + rng.choice(
        [b'/get', b'/a/b', b'/get?x=1', b'/'])
    sfx = [rng.choice([b'?id=1', b'?id=2', b'&n=7', b'/more', b'x']) for _ in range(2)]
    routes = [_mroute('/dyn/(\\d+)$', url, sfx[0]), _mroute('/dyn2', url, sfx[1]), _static('/get$', [url]),
              {'t': 'u', 're': '/plain', 'url': url.hex()},
              _static('/two', [url, _rurl(rng)])]
    rng.shuffle(routes)
    k = rng.choice([1, 1, 2])
    plugins = [routes[:len(routes) // k], routes[len(routes) // k:]] if k == 2 else [routes]
    plugins = [p for p in plugins if p]
    targets = [b'/dyn/5', b'/dyn/6', b'/dyn2', b'/get', b'/plain', b'/two', b'/nope']
    conns = []
    for _ in range(rng.choice([2, 2, 3])):
        t = rng.choice(targets[:3]) if rng.random() < 0.5 else rng.choice(targets)
        conns.append(([0] * len(plugins), t, {'up': _rup(rng) if rng.random() < 0.3 else []}))
    return _mk_seq(rng, plugins, conns, rng.randrange(2), events=1 if rng.random() < 0.2 else 0)


def _rfollow(rng):
    plugins = _rtable(rng, 0.0)
    picks = _rpicks(rng, plugins, 0.0)
    c = _mk_case(rng, plugins, picks, rng.choice(PATHS), rng.randrange(2), up=[], version=b'HTTP/1.1',
                 framing=rng.choice(['none', 'none', 'cl', 'cl0']))
    t2 = rng.choice(PATHS) if rng.random() < 0.6 else rng.choice([b'/nope', b'/zzz', b'/', b'/x/y'])
    f = _mk_case(rng, plugins, _rpicks(rng, plugins, 0.0), t2, c['rewrite'], up=[],
                 version=rng.choice([b'HTTP/1.1', b'HTTP/1.1', b'HTTP/1.0']),
                 connect='refused' if rng.random() < 0.05 else 'ok')
    c['follow'] = {'req': f['req'], 'picks': f['picks'], 'connect': f['connect'], 'meta': f['meta']}
    return c


def corpus():
    rng = __import__('random').Random(12)
    ex = [_static('/get$', [b'http://httpbingo.org/get', b'https://httpbingo.org/get']),
          {'t': 'u', 're': r'/get/(\d+)$', 'url': b'http://httpbingo.org/get?id=1'.hex()}]
    lit = {'t': 'l', 're': '/lit', 'resp': LITERALS[0].hex()}
    cs = []
    for rw in (0, 1):
        cs.append(_mk_case(rng, [ex], [0], b'/get', rw, 'none', up=[b'HTTP/1.1 200 OK\r\n'.hex(), b'\r\n'.hex()]))
        cs.append(_mk_case(rng, [ex], [1], b'/get', rw, 'cl', up=[b'abc'.hex(), 'E']))
        cs.append(_mk_case(rng, [ex], [0], b'/get/7', rw, 'chunked', up=[]))
        cs.append(_mk_case(rng, [ex], [0], b'/nope', rw, 'none', up=[]))
        cs.append(_mk_case(rng, [ex + [lit]], [0], b'/lit', rw, 'none', up=[]))
        # several plugins: literal + static + static (last url-yielding plugin wins, literal still queued)
        cs.append(_mk_case(rng, [[lit, _static('/', [b'http://first.test:81/f'])],
                                 [{'t': 'l', 're': '/l', 'resp': b'L2'.hex()}],
                                 [_static('/li', [b'https://last.test'])]], [0, 0, 0], b'/lit', rw, 'cl', up=[b'r'.hex()]))
    # IPv6 literal upstreams: connected as the bare address (D8r, fixed by a37014e); wrap / Host keep the brackets
    for rw in (0, 1):
        cs.append(_mk_case(rng, [[_static('/get$', [b'http://[::1]:8080/x'])]], [0], b'/get', rw, 'none', up=[b'r'.hex()]))
        cs.append(_mk_case(rng, [[_static('/get$', [b'https://[2001:db8::1]'])]], [0], b'/get', rw, 'cl', up=[]))
        cs.append(_mk_case(rng, [[{'t': 'u', 're': '/get$', 'url': b'http://[::1]/'.hex()}]], [0], b'/get', rw, 'none', up=[]))
    # --enable-events: emit_request_complete() publishes a copy; Authorization / Cookie / Proxy-Authorization must
    # still reach the upstream (round-3 seeded regression B popped them from the live header dict)
    for rw in (0, 1):
        cs.append(_mk_case(rng, [[_static('/get$', [b'http://up.test:8080/x'])]], [0], b'/get', rw, 'cl', up=[b'r'.hex()],
                           events=1, extra_headers=CRED_HEADERS + [(b'Host', b'front.example')], method=b'POST'))
        cs.append(_mk_case(rng, [[_static('/get$', [b'http://up.test:8080/x'])]], [0], b'/nope', rw, 'none', up=[],
                           events=1, extra_headers=CRED_HEADERS + [(b'Host', b'front.example')]))
    cs.append(_mk_case(rng, [[_static('/', [b'http://up.test'])]], [0], b'/', 0, up=[], cut=False, events=1,
                       raw=b'GET / HTTP/1.1\r\nCookie: a=b\r\n\r\n'))                       # no Host: KeyError
    cs.append(_mk_case(rng, [[_static('/', [b'http://up.test'])]], [0], b'/', 0, up=[], cut=False, events=1,
                       raw=b'GET / HTTP/1.1\r\nHost: me\r\nX-A: \xff\r\n\r\n'))               # undecodable value
    cs.append(_mk_case(rng, [[_static('/', [b'http://up.test'])]], [0], b'/', 0, up=[], cut=False, events=1,
                       raw=b'GET /\xff HTTP/1.1\r\nHost: me\r\n\r\n'))
    # several connections in one process: a dynamic route that edits the Url it got from Url.from_bytes must
    # not leak into later connections (round-4 seed G: lru_cache on from_bytes hands out one shared object)
    ex_url = b'http://httpbingo.org/get'
    dyn = [[_mroute(r'/get/(\d+)$', ex_url, b'?id=1'), _static('/get$', [ex_url, b'https://httpbingo.org/get'])]]
    cs.append(_mk_seq(rng, dyn, [([0], b'/get/1', {'framing': 'none', 'up': []}),
                                 ([0], b'/get/2', {'framing': 'none', 'up': []}),
                                 ([0], b'/get', {'framing': 'none', 'up': [b'r'.hex()]})], 0))
    cs.append(_mk_seq(rng, dyn, [([0], b'/get', {'framing': 'none', 'up': []}),
                                 ([0], b'/get/7', {'framing': 'cl', 'up': []}),
                                 ([0], b'/nope', {'framing': 'none', 'up': []}),
                                 ([0], b'/get/7', {'framing': 'none', 'up': []})], 1))
    cs.append(_mk_case(rng, [[_mroute('/', b'http://no-path.test', b'?x')]], [0], b'/', 0, 'none', up=[]))   # += on None
    # edge URLs (outside the quantifier; correspondence only)
    for u in EDGE_URLS:
        cs.append(_mk_case(rng, [[_static('/', [u])]], [0], b'/', 1, 'none', up=[]))
        cs.append(_mk_case(rng, [[{'t': 'u', 're': '/', 'url': u.hex()}]], [0], b'/', 0, 'none', up=[]))
    # a dynamic route whose Url cannot be rendered by str() raises at once, even when a later plugin would win
    for bad in (b'http://h\xff.test/', b'http://h.test/\xff'):
        cs.append(_mk_case(rng, [[{'t': 'u', 're': '/', 'url': bad.hex()}], [_static('/', [b'https://later.test:8443/x'])]],
                           [0, 0], b'/', 1, 'none', up=[b'r'.hex()]))
        cs.append(_mk_case(rng, [[_static('/', [bad])], [_static('/', [b'https://later.test:8443/x'])]],
                           [0, 0], b'/', 1, 'none', up=[b'r'.hex()]))
    cs.append(_mk_case(rng, [[_static('/', [])]], [0], b'/', 0, 'none', up=[]))
    cs.append(_mk_case(rng, [[_static('/', [b'http://a.test'])]], [1], b'/', 0, 'none', up=[]))
    cs.append(_mk_case(rng, [[{'t': 'x', 're': '/'}]], [0], b'/', 0, 'none', up=[]))
    cs.append(_mk_case(rng, [[lit], [{'t': 'x', 're': '/l'}]], [0, 0], b'/lit', 0, 'none', up=[]))
    cs.append(_mk_case(rng, [[_static('/', [b'http://a.test'])]], [0], b'/', 1, 'none', up=[], connect='refused'))
    cs.append(_mk_case(rng, [], [], b'/', 0, 'none', up=[]))
    cs.append(_mk_case(rng, [[]], [0], b'/\xff', 0, 'none', up=[]))
    cs.append(_mk_case(rng, [[_static('/', [b'http://a.test'])]], [0], b'/\xff', 0, 'none', up=[]))
    cs.append(_mk_case(rng, [[_static('/', [b'http://a.test/ws'])]], [0], b'/chat', 1, 'none', up=[b'\x81\x02hi'.hex()],
                       ws=True))
    # bytes continuing after the first complete request: follow-up handling (C04), skipped here
    cs.append(_mk_case(rng, [[_static('/', [b'http://a.test'])]], [0], b'/', 0, up=[], cut=False,
                       raw=b'GET /a HTTP/1.1\r\nHost: me\r\n\r\nGET /b HTTP/1.1\r\nHost: me\r\n\r\n'))
    # requests that never reach the web server plugin
    for raw in (b'GET http://h.test/ HTTP/1.1\r\n\r\n', b'GET / HTTP/1.1\r\nHost: a', b'GET / HTTP/2\r\n\r\n',
                b' / HTTP/1.1\r\n\r\n', b'GET /\r\n\r\n'):
        cs.append(_mk_case(rng, [[_static('/', [b'http://a.test'])]], [0], b'/', 0, up=[], raw=raw, cut=False))
    return cs


SHAPES = [
    lambda rx: _static(rx, [b'http://s1.test/one']),
    lambda rx: _static(rx, [b'https://s2.test:8443', b'http://s3.test:81/three?q=1']),
    lambda rx: {'t': 'u', 're': rx, 'url': b'https://dyn.test/d'.hex()},
    lambda rx: {'t': 'l', 're': rx, 'resp': b'HTTP/1.1 200 OK\r\nContent-Length: 1\r\n\r\nL'.hex()},
]


def _small_scope(rng):
    """every table of 2 plugins x <=2 routes over 8 route kinds (4 shapes x 2 patterns) x 3 paths x rewrite"""
    kinds = [(s, rx) for s in range(4) for rx in ('/a', '/a/b')]
    seqs = [[]] + [[k] for k in kinds] + [[k1, k2] for k1 in kinds for k2 in kinds if k1[1] != k2[1] or
                                          (SHAPES[k1[0]]('x')['t'] == 's' and SHAPES[k2[0]]('x')['t'] == 's')]
    for p1 in seqs:
        for p2 in seqs:
            plugins = [[SHAPES[s](rx) for s, rx in p1], [SHAPES[s](rx) for s, rx in p2]]
            for target in (b'/a/b', b'/a', b'/c'):
                rw = rng.randrange(2)
                picks = [rng.randrange(2) if any(r['t'] == 's' and len(r['urls']) > 1 for r in p) else 0
                         for p in plugins]
                yield _mk_case(rng, plugins, picks, target, rw, 'none', up=[b'R1'.hex(), b'R2'.hex()], cut=False,
                               version=b'HTTP/1.1', method=b'GET')


def generate(rng, tier):
    big = tier == 'thorough'
    n_main = 40000 if big else 2500
    for _ in range(n_main):
        edge = 0.0 if rng.random() < 0.7 else 0.35
        plugins = _rtable(rng, edge)
        picks = _rpicks(rng, plugins, edge)
        target = rng.choice(PATHS) if rng.random() > edge / 8 else rng.choice([b'/\xff', b'/get\xc3'])
        connect = 'refused' if rng.random() < edge / 4 else 'ok'
        events = 1 if rng.random() < 0.35 else 0
        extra = []
        if rng.random() < 0.5:
            extra = rng.sample(CRED_HEADERS, rng.randrange(1, 4))
            extra = [(G.rcase(rng, k), v) for k, v in extra]
        yield _mk_case(rng, plugins, picks, target, rng.randrange(2), connect=connect,
                       ws=rng.random() < 0.05, events=events, extra_headers=extra)
    for _ in range(6000 if big else 400):
        yield _rseq(rng)
    # a second request on the same connection (same ReverseProxy object)
    for _ in range(8000 if big else 600):
        yield _rfollow(rng)
    # malformed / non-web requests: correspondence of the guard only
    for _ in range(1500 if big else 150):
        g = G.gen_request(rng, maxbody=40)
        raw = G.mutate(rng, g['raw']) if rng.random() < 0.5 else g['raw']
        yield _mk_case(rng, _rtable(rng, 0.0), [0, 0, 0], b'/', rng.randrange(2), raw=raw, cut=False)
    if big:
        yield from _small_scope(rng)


def neighbours(case):
    if 'seq' in case:
        for c in case['seq']:
            yield c
        for k in range(len(case['seq'])):
            yield {'seq': case['seq'][k:]}
        return
    for rw in (0, 1):
        yield dict(case, rewrite=rw)
        yield dict(case, rewrite=rw, events=1 - (1 if case.get('events') else 0))
    for i in range(len(case['picks'])):
        for k in (0, 1, 2):
            p = list(case['picks'])
            p[i] = k
            yield dict(case, picks=p)
    if len(case['plugins']) > 1:
        for i in range(len(case['plugins'])):
            yield dict(case, plugins=[case['plugins'][i]], picks=[case['picks'][i] if i < len(case['picks']) else 0])


def search(rng):
    return list(generate(rng, 'quick'))


def describe(case):
    if 'seq' in case:
        return ['connections=%d' % len(case['seq'])] + [x for x in describe(case['seq'][0]) if x.startswith(('plugins', 'rewrite', 'events'))]
    m = case.get('meta') or {}
    if case.get('follow') is not None:
        fm = case['follow'].get('meta') or {}
        try:
            pt = bytes.fromhex(fm.get('target', '')).decode()
            n = sum(1 for rs in case['plugins'] for r in rs if re.compile(r['re']).match(pt))
        except UnicodeDecodeError:
            n = -1
        return ['follow-up request', 'follow-up matching-routes=' + ('0' if n == 0 else '1' if n == 1 else '2+')]
    out = ['plugins=%d' % len(case['plugins']), 'rewrite=%d' % case['rewrite'], 'events=%d' % (1 if case.get('events') else 0),
           'in-quantifier=%d' % in_quantifier(case)]
    if m.get('valid'):
        out.append('framing=' + m['framing'])
        try:
            pt = bytes.fromhex(m['target']).decode()
            n = sum(1 for rs in case['plugins'] for r in rs if re.compile(r['re']).match(pt))
            out.append('matching-routes=' + ('0' if n == 0 else '1' if n == 1 else '2+'))
        except UnicodeDecodeError:
            out.append('path-not-utf8')
    else:
        out.append('request-not-from-grammar')
    return out


def nontrivial(case):
    return in_quantifier(case)
