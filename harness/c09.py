"""C09 — plugin chains: correspondence of PxModel/PluginChain.lean with the REAL
HttpProtocolHandler + HttpProxyPlugin (+ AuthPlugin, FlagParser/Plugins load order)
driven in-process over socketpairs, and the property oracle.  (harness/c08.py
reuses the simulator of this module.)

A case is
  {'auth': 'user:pass' | None,            # FlagParser.initialize(basic_auth=…)
   'dis':  ['x-drop', …],                 # FlagParser.initialize(disable_headers=[…])
   'plugins': [[label, before, creq, cdata, up, alog, dns], … | ['A']],   requested order
   'evs': [event, …]}
label = number of a generated recording subclass of HttpProxyBasePlugin; ['A'] requests AuthPlugin again.
actions: 'P' return the argument | 'M' modify it visibly IN PLACE and return the same object (request: header
  X-P<label>; bytes: append [<label>]; access-log context: key pk<label>) | 'N' the same modification made on a
  NEW object that is returned (fresh HttpParser / dict; the argument is left untouched) | 'D' return None | 'X' raise HttpProtocolException |
  ['R', status, reason, headers, body] raise HttpRequestRejected(...)     (dns: 'P' | 'I' resolve to 10.0.0.<label>)
events:
  ['F', req, ok, cuts]  first request written to the client socket in the segments cut at `cuts`;
                        ok = whether new_socket_connection succeeds
  ['B', req]            first request that is complete but no proxy request (answered 400)
  ['C', req, cuts]      follow-up client bytes (a complete request, segmented at cuts)
  ['F', req, ok, cuts, [req, …]] / ['C', req, cuts, [req, …]]  the same with further complete requests packed
                        into the write that carries the end of `req`: every complete request of a read is
                        handled in order (handle_client_request chain, then forwarded); what follows the
                        first request of the connection is handed to on_client_data
  ['U', hex]  upstream sends bytes      ['UE'] upstream closes
  ['CE'] client half-closes             ['CA'] client disappears
  ['CR'] client resets the connection (RST): afterwards recv/send/shutdown on the proxy side of the client
         socket fail like on a reset TCP connection — in particular conn.shutdown() inside handler.shutdown()
         raises OSError(ENOTCONN).  With 'tcp': 1 in the case the client connection is a real loopback TCP
         pair and the reset is a real SO_LINGER-0 close; otherwise a thin scripted wrapper around the socketpair
         end raises the errors observed on real TCP.
  ['UR'] the origin resets the upstream connection (RST): recv / shutdown on the proxy's upstream socket fail
         with ECONNRESET / ENOTCONN (scripted wrapper, or with 'utcp': 1 a real loopback TCP pair closed with
         SO_LINGER 0 on the origin side)
  ['FL'] client socket writable: one queued item is written
'rbuf': n in the case = --client-recvbuf-size n: every client write is read in recv()s of at most n bytes, one per
  handle_events round; model events and groups are per recv
req = {'m','form','host','port','path','v','h': [header lines], 'b': body}  (latin-1 strings)
Every event is delivered through handler.get_events()/handle_events(R, W) like Threadless does, the
upstream side is flushed after each event, and handler.shutdown() is called exactly once at the end.
"""
import re
import errno
import select
import socket
import asyncio
import logging
import itertools

from harness.common import hx

# the implementation is imported once, in the engine process, so that the forked case workers inherit it
import proxy.common.flag                    # noqa: E402,F401
import proxy.core.connection.server         # noqa: E402,F401
import proxy.http.handler                   # noqa: E402,F401
import proxy.http.connection                # noqa: E402,F401
import proxy.http.proxy.auth                # noqa: E402,F401
import proxy.http.proxy.server              # noqa: E402,F401
import proxy.http.exception                 # noqa: E402,F401
import proxy.http.responses                 # noqa: E402,F401

PROPERTY = 'C09'
LEAN_TARGETS = ['PxProofs.C09']
THEOREMS = [
    'Px.Chain.C09_order', 'Px.Chain.C09_dataflow', 'Px.Chain.C09_short_circuit',
    'Px.Chain.C09_before_chain_drop', 'Px.Chain.C09_before_chain_reject', 'Px.Chain.C09_before_chain_pass',
    'Px.Chain.C09_client_request_chain_first', 'Px.Chain.C09_client_request_chain_later',
    'Px.Chain.C09_packed_followups', 'Px.Chain.C09_packed_first', 'Px.Chain.C09_reject_stops_reading',
    'Px.Chain.C09_upstream_chunk_chain', 'Px.Chain.C09_reject_response',
    'Px.Chain.C09_lifecycle', 'Px.Chain.C09_lifecycle_counts', 'Px.Chain.C09_lifecycle_once',
    'Px.Chain.C09_lifecycle_not_dispatched',
    'Px.Chain.C09_load_order', 'Px.Chain.C09_load_order_table',
]
RULE = ('plugin programs (1..4 generated recording subclasses, every hook independently pass/modify/None/raise) '
        'x configured orders x event scripts (first request, follow-ups, upstream data, flushes, client/upstream '
        'abort at any point) run on the real HttpProtocolHandler+HttpProxyPlugin and on the model; thorough '
        'additionally enumerates ALL orders of up to 3 plugins x single-deviation action tables; distinct by '
        'canonical JSON; non-trivial = the first request is dispatched to HttpProxyPlugin with >= 1 plugin loaded')
ASSUMPTIONS = [
    'plugin hooks are total: they return, return None, or raise an HttpProtocolException (a hook raising any other '
    'exception, and lifecycle hooks that raise, are outside the model)',
    'TLS interception, upstream connection pool, event queue and PROXY protocol are off; resolve_dns never sets '
    'a source address; plugin descriptor hooks are the defaults',
    'plugin class qualnames are distinct (HttpProxyPlugin.plugins is keyed by name())',
    'requests are well formed; a read may carry several complete requests, the last write of an event ends on a '
    'request boundary; the parser '
    '(request line, URL, body framing) is not part of this model: the harness hands the model the fields of the '
    'requests it generated (header lines are parsed by the model)',
    'shutdown() is called exactly once per connection (the executor contract, C10); C09_lifecycle_counts '
    'is stated for any number n of calls',
    'a complete first request answered 400 before plugin instantiation has no plugin instances: '
    '"first request completely received" is read as "... and dispatched to HttpProxyPlugin" (DESIGN 6 C09)',
]
EXHAUSTIVE = {}
EXPLANATION = ('the theorems quantify over all plugin lists, hook functions, requests and event sequences; the '
               'tiers only tie the model to the code')

logging.disable(logging.CRITICAL)

WS = b' \t\n\r\x0b\x0c'
CALLS = []          # global effect log of the running case (hook calls, connects, default access log)
_CLASSES = {}
_FLAGS = {}
HOOKS = ('before', 'creq', 'cdata', 'up', 'alog', 'dns')


# ---------------------------------------------------------------- requests

def L(s):
    return s.encode('latin-1')


def target(req):
    host, port, path, form = req['host'], req['port'], req['path'], req['form']
    hp = host if port is None else '%s:%d' % (host, port)
    if form == 'abs':
        return 'http://' + hp + path
    if form == 'abscred':
        return 'http://user:secret@' + hp + path
    if form == 'slashes':
        return '//' + hp + path
    return hp       # authority form


def req_bytes(req):
    out = L(req['m']) + b' ' + L(target(req)) + b' ' + L(req['v']) + b'\r\n'
    for h in req['h']:
        out += L(h) + b'\r\n'
    return out + b'\r\n' + L(req['b'])


def req_fields(req):
    """(host, port, path, tunnel) as the request line determines them"""
    tunnel = req['m'] == 'CONNECT'
    port = req['port']
    if port is None:
        port = 443 if tunnel else 80
    path = req['path'] if req['form'] != 'auth' else ''
    return req['host'], port, path, tunnel


def req_model(req):
    host, port, path, tunnel = req_fields(req)
    lines = '|'.join(hx(L(h)) for h in req['h']) or '-'
    return ','.join([hx(L(req['m'])), hx(L(path)), hx(L(req['v'])), hx(L(host)), str(port),
                     '1' if tunnel else '0', hx(L(req['b'])), lines])


def ev_segments(ev):
    """client writes of an 'F' / 'B' / 'C' event.  An optional last element lists further complete requests
    the client sends back to back in the same write as the end of this one (the event's own request is cut
    only inside itself, so the last write carries its end plus all the packed requests)."""
    k = ev[0]
    raw = req_bytes(ev[1])
    cuts = ev[3] if k == 'F' else (ev[2] if k == 'C' else [])
    extra = (ev[4] if k == 'F' and len(ev) > 4 else ev[3] if k == 'C' and len(ev) > 3 else [])
    if extra:
        cuts = [c for c in cuts if c < len(raw)]
    return segments(raw + b''.join(req_bytes(r) for r in extra), cuts)


def ev_extra(ev):
    return ev[4] if ev[0] == 'F' and len(ev) > 4 else ev[3] if ev[0] == 'C' and len(ev) > 3 else []


def ev_plan(ev, rbuf=None):
    """The recv()s an 'F' / 'B' / 'C' event amounts to.  The client writes ev_segments(ev); with
    --client-recvbuf-size rbuf the handler reads every write in pieces of at most rbuf bytes, one per
    handle_events round.  Returns one dict per recv:
      write  bytes the client writes before this recv (None: still reading the previous write)
      chunk  what the recv returns
      head   True while this recv still belongs to the first request of the connection ('F'/'B' group)
      done   (only head) the first request completes in this recv
      rest   (only done) bytes of the recv behind the first request
      reqs   the follow-up requests that complete in this recv, each with the bytes of the recv after it"""
    k = ev[0]
    reqs = [ev[1]] + ev_extra(ev)
    raws = [req_bytes(r) for r in reqs]
    ends, pos = [], 0
    for r in raws:
        pos += len(r)
        ends.append(pos)
    stream = b''.join(raws)
    out, a = [], 0
    for w in ev_segments(ev):
        pieces = [w] if not rbuf else [w[i:i + rbuf] for i in range(0, len(w), rbuf)]
        for n, piece in enumerate(pieces):
            b_ = a + len(piece)
            first_follow = 0 if k == 'C' else 1
            d = {'write': w if n == 0 else None, 'chunk': piece, 'head': k != 'C' and a < ends[0],
                 'done': k != 'C' and a < ends[0] <= b_, 'rest': b'',
                 'reqs': [(reqs[i], stream[ends[i]:b_]) for i in range(first_follow, len(reqs)) if a < ends[i] <= b_]}
            if d['done']:
                d['rest'] = stream[ends[0]:b_]
            out.append(d)
            a = b_
    return out


def segments(raw, cuts):
    cuts = sorted(set(c for c in cuts if 0 < c < len(raw)))
    out, last = [], 0
    for c in cuts + [len(raw)]:
        out.append(raw[last:c])
        last = c
    return out


# ---------------------------------------------------------------- plugin classes

def req_digest(request):
    hs = request.headers or {}
    return hx(b'\n'.join([(request.method or b'') + b' ' + (request.path or b'')]
                         + [v[0] + b': ' + v[1] for v in hs.values()]))


def ctx_digest(ctx):
    tags = [k[2:] for k in ctx if isinstance(k, str) and k.startswith('pk')]
    return '.'.join(tags) or '-'


def _raise(act):
    from proxy.http.exception import HttpProtocolException, HttpRequestRejected
    if act == 'X':
        raise HttpProtocolException('rejected by plugin program')
    _, status, reason, headers, body = act
    raise HttpRequestRejected(
        status_code=status,
        reason=None if reason is None else L(reason),
        headers=None if headers is None else {L(k): L(v) for k, v in headers},
        body=None if body is None else L(body),
    )


def plugin_class(prog):
    key = repr(prog)
    if key in _CLASSES:
        return _CLASSES[key]
    from proxy.http.proxy import HttpProxyBasePlugin
    label, a_before, a_creq, a_cdata, a_up, a_alog, a_dns = prog
    tag = b'[%d]' % label

    def request_hook(hook, act, val):
        def f(self, request):
            CALLS.append('c%d.%s.%s' % (label, hook, req_digest(request)))
            if act == 'P':
                return request
            if act == 'M':
                request.add_header(b'X-P%d' % label, val)
                return request
            if act == 'N':
                import copy
                fresh = copy.copy(request)                  # a different HttpParser object …
                fresh.headers = dict(request.headers or {})  # … whose edits do not touch the argument
                fresh.add_header(b'X-P%d' % label, val)
                return fresh
            if act == 'D':
                return None
            _raise(act)
        return f

    def bytes_hook(hook, act, can_raise):
        def f(self, raw):
            CALLS.append('c%d.%s.%s' % (label, hook, hx(bytes(raw))))
            if act == 'P':
                return raw
            if act in ('M', 'N'):
                return memoryview(bytes(raw) + tag)
            if act == 'D' or not can_raise:
                return None
            _raise(act)
        return f

    def on_access_log(self, context):
        CALLS.append('c%d.alog.%s' % (label, ctx_digest(context)))
        if a_alog == 'P':
            return context
        if a_alog == 'M':
            context['pk%d' % label] = '1'
            return context
        if a_alog == 'N':
            fresh = dict(context)
            fresh['pk%d' % label] = '1'
            return fresh
        return None

    def on_upstream_connection_close(self):
        CALLS.append('c%d.upclose.-' % label)

    def resolve_dns(self, host, port):
        CALLS.append('c%d.dns.%s' % (label, hx(host.encode())))
        if a_dns == 'I':
            return '10.0.0.%d' % label, None
        return None, None

    k = type('P%d' % label, (HttpProxyBasePlugin,), {
        'before_upstream_connection': request_hook('before', a_before, b'b'),
        'handle_client_request': request_hook('creq', a_creq, b'c'),
        'handle_client_data': bytes_hook('cdata', a_cdata, True),
        'handle_upstream_chunk': bytes_hook('up', a_up, False),
        'on_access_log': on_access_log,
        'on_upstream_connection_close': on_upstream_connection_close,
        'resolve_dns': resolve_dns,
        '__module__': __name__,
    })
    k.label = label
    _CLASSES[key] = k
    return k


_MISSING = object()
_AUTH_HOOKS = [
    ('before_upstream_connection', lambda r: 'before.' + req_digest(r)),
    ('handle_client_request', lambda r: 'creq.' + req_digest(r)),
    ('handle_client_data', lambda raw: 'cdata.' + hx(bytes(raw))),
    ('handle_upstream_chunk', lambda raw: 'up.' + hx(bytes(raw))),
    ('on_access_log', lambda ctx: 'alog.' + ctx_digest(ctx)),
    ('on_upstream_connection_close', lambda: 'upclose.-'),
    ('resolve_dns', lambda host, port: 'dns.' + hx(host.encode())),
]


def _wrap_auth():
    """record the calls the handler makes into the REAL AuthPlugin (the original method bodies still run)"""
    from proxy.http.proxy.auth import AuthPlugin
    saved = {}
    for name, dig in _AUTH_HOOKS:
        orig = getattr(AuthPlugin, name)
        saved[name] = AuthPlugin.__dict__.get(name, _MISSING)

        def w(self, *a, _orig=orig, _dig=dig):
            CALLS.append('cA.' + _dig(*a))
            return _orig(self, *a)
        setattr(AuthPlugin, name, w)
    return saved


def _unwrap_auth(saved):
    from proxy.http.proxy.auth import AuthPlugin
    for name, v in saved.items():
        if v is _MISSING:
            delattr(AuthPlugin, name)
        else:
            setattr(AuthPlugin, name, v)


def get_flags(case):
    key = repr((case['auth'], case['dis'], case['plugins'], case.get('rbuf')))
    if key in _FLAGS:
        return _FLAGS[key]
    from proxy.common.flag import FlagParser
    from proxy.http.proxy.auth import AuthPlugin
    classes = [AuthPlugin if p == ['A'] else plugin_class(p) for p in case['plugins']]
    opts = {'plugins': classes, 'disable_headers': [L(d) for d in case['dis']]}
    if case['auth'] is not None:
        opts['basic_auth'] = case['auth']
    args = ['--hostname', '127.0.0.1']
    if case.get('rbuf'):
        args += ['--client-recvbuf-size', str(case['rbuf'])]
    flags = FlagParser.initialize(args, threadless=True, **opts)
    _FLAGS[key] = flags
    return flags


def label_of(klass):
    return 'A' if klass.__qualname__ == 'AuthPlugin' else str(getattr(klass, 'label', '?'))


# ---------------------------------------------------------------- the simulator

class ResettableSocket:
    """The proxy's end of the client socketpair.  Everything is the real socket's until reset() is called;
    from then on recv / send / shutdown fail exactly as they do on a real TCP socket whose peer sent RST
    (ECONNRESET, EPIPE, ENOTCONN — observed on this kernel, and cross-checked by the 'tcp' cases)."""

    def __init__(self, real):
        self._real = real
        self._reset = False

    def reset(self):
        self._reset = True

    def recv(self, *a):
        if self._reset:
            raise ConnectionResetError(errno.ECONNRESET, 'Connection reset by peer')
        return self._real.recv(*a)

    def send(self, *a):
        if self._reset:
            raise BrokenPipeError(errno.EPIPE, 'Broken pipe')
        return self._real.send(*a)

    def shutdown(self, how):
        if self._reset:
            raise OSError(errno.ENOTCONN, 'Transport endpoint is not connected')
        return self._real.shutdown(how)

    def __getattr__(self, name):
        return getattr(self._real, name)


def tcp_pair():
    ls = socket.socket()
    try:
        ls.bind(('127.0.0.1', 0))
        ls.listen(1)
        c = socket.socket()
        c.connect(ls.getsockname())
        p, _ = ls.accept()
    finally:
        ls.close()
    for x in (c, p):
        x.setsockopt(socket.IPPROTO_TCP, socket.TCP_NODELAY, 1)
    return c, p


class Sim:
    def __init__(self, case):
        from proxy.http.handler import HttpProtocolHandler
        from proxy.http.connection import HttpClientConnection
        self.case = case
        self.flags = get_flags(case)
        self.order = [label_of(k) for k in self.flags.plugins.get(b'HttpProxyBasePlugin', [])]
        self.loop = asyncio.new_event_loop()
        self.tcp = bool(case.get('tcp'))
        self.utcp = bool(case.get('utcp'))
        self.expect_up = False
        if self.tcp:
            self.client, proxy_end = tcp_pair()
        else:
            self.client, real = socket.socketpair()
            proxy_end = ResettableSocket(real)
        self.proxy_end = proxy_end
        self.client.setblocking(False)
        self.handler = HttpProtocolHandler(HttpClientConnection(proxy_end, ('127.0.0.1', 50000)), flags=self.flags)
        self.cfd = proxy_end.fileno()
        self.up_peers = []       # harness ends of upstream socketpairs
        self.up_proxy = []
        self.connect_ok = True
        self.down = False
        self.client_open = True
        self.expect_client = False

    def fake_connect(self, addr, source_address=None):
        CALLS.append('conn.%s.%d' % (hx(str(addr[0]).encode()), addr[1]))
        if not self.connect_ok:
            raise ConnectionRefusedError(111, 'Connection refused')
        if self.utcp:
            b_, a = tcp_pair()
        else:
            b_, real = socket.socketpair()
            a = ResettableSocket(real)
        b_.setblocking(False)
        self.up_peers.append(b_)
        self.up_proxy.append(a)
        return a

    def run(self, coro):
        return self.loop.run_until_complete(coro)

    def registered(self):
        return self.run(self.handler.get_events())

    def deliver(self, rs, ws):
        if self.down:
            return False
        ev = self.registered()
        r = [fd for fd in rs if ev.get(fd, 0) & 1]
        w = [fd for fd in ws if ev.get(fd, 0) & 2]
        if self.tcp and self.cfd in r:
            select.select([self.cfd], [], [], 2.0)       # loopback TCP delivery is not instantaneous
        if self.utcp:
            if [fd for fd in r if fd != self.cfd]:
                select.select([fd for fd in r if fd != self.cfd], [], [], 2.0)
            if [fd for fd in w if fd != self.cfd]:
                self.expect_up = True
        if self.tcp and self.cfd in w:
            self.expect_client = True
        if self.run(self.handler.handle_events(r, w)):
            self.down = True
            return True
        return False

    def ufd(self):
        up = getattr(self.handler.plugin, 'upstream', None) if self.handler.plugin else None
        if up is None or up.closed:
            return None
        try:
            return up.connection.fileno()
        except Exception:
            return None

    def pump_upstream(self):
        for _ in range(16):
            fd = self.ufd()
            if self.down or fd is None or not (self.registered().get(fd, 0) & 2):
                return
            self.deliver([], [fd])

    def pump_client(self):
        """after reads are torn down: flush to the client until handle_events returns True"""
        for _ in range(64):
            if self.down:
                return
            self.deliver([], [self.cfd])

    def read_peer(self, s):
        if self.tcp and s is self.client and self.expect_client:
            select.select([s], [], [], 0.05)
            self.expect_client = False
        if self.utcp and s is not self.client and self.expect_up:
            select.select([s], [], [], 0.05)
        out = b''
        while True:
            try:
                d = s.recv(1 << 20)
            except (BlockingIOError, OSError):
                break
            if not d:
                break
            out += d
        return out

    def event(self, ev):
        """one non-request event; returns (tokens, upstream bytes, client bytes, teardown happened here)"""
        k = ev[0]
        if self.down:
            if k == 'CR' and self.client_open:
                self.reset_client()
            if k == 'UR':
                self.reset_upstream()
            return [], b'', b'', False
        start = len(CALLS)
        pre, read_client = b'', True
        if k == 'U':
            if self.ufd() is not None and self.up_peers:
                self.up_peers[-1].send(bytes.fromhex(ev[1]))
                self.deliver([self.ufd()], [])
        elif k == 'UE':
            if self.ufd() is not None and self.up_peers:
                fd = self.ufd()
                self.up_peers[-1].close()
                self.deliver([fd], [])
                self.pump_client()
        elif k == 'UR':
            fd = self.ufd()
            had = self.reset_upstream()
            if had and fd is not None:
                self.deliver([fd], [])
                self.pump_client()
        elif k == 'CE':
            if self.client_open and self.registered().get(self.cfd, 0) & 1:
                self.client.shutdown(socket.SHUT_WR)
                self.deliver([self.cfd], [])
                self.pump_client()
        elif k == 'CA':
            pre = self.read_peer(self.client)
            self.client.close()
            self.client_open = False
            read_client = False
            self.deliver([self.cfd], [])
            self.pump_client()
        elif k == 'CR':
            pre = self.read_peer(self.client)
            self.reset_client()
            read_client = False
            self.deliver([self.cfd], [])
            self.pump_client()
        elif k == 'FL':
            self.deliver([], [self.cfd])
        toks, up, cl = self.finish(start, pre, read_client)
        return toks, up, cl, self.down

    def reset_upstream(self):
        """the origin aborts the connection with RST (if one was opened and is still open on its side)"""
        if not self.up_peers or self.up_peers[-1].fileno() < 0:
            return False
        peer, prox = self.up_peers[-1], self.up_proxy[-1]
        if self.utcp:
            import struct
            self.read_peer(peer)
            peer.setsockopt(socket.SOL_SOCKET, socket.SO_LINGER, struct.pack('ii', 1, 0))
            peer.close()
            try:
                select.select([prox.fileno()], [], [], 2.0)
            except (OSError, ValueError):
                pass
        else:
            peer.close()
            prox.reset()
        return True

    def reset_client(self):
        """the client's TCP stack answers with RST from now on"""
        if self.tcp:
            import struct
            self.client.setsockopt(socket.SOL_SOCKET, socket.SO_LINGER, struct.pack('ii', 1, 0))
            self.client.close()
            select.select([self.cfd], [], [], 2.0)       # until the RST has arrived
        else:
            self.client.close()
            self.proxy_end.reset()
        self.client_open = False

    def finish(self, start, pre_cl=b'', read_client=True):
        self.pump_upstream()
        up = b''.join(self.read_peer(p) for p in self.up_peers if p.fileno() >= 0)
        self.expect_up = False
        cl = pre_cl
        if read_client and self.client_open:
            cl += self.read_peer(self.client)
        return CALLS[start:], up, cl

    def read_client(self, write):
        """the client writes `write` (None: nothing new), then the handler gets one readable event = one recv"""
        start = len(CALLS)
        if self.down or not self.client_open:
            return [], b'', b'', False
        if write is not None:
            self.client.send(write)
        self.deliver([self.cfd], [])
        toks, up, cl = self.finish(start)
        return toks, up, cl, self.down

    def close(self):
        for s in [self.client] + self.up_peers + self.up_proxy:
            try:
                s.close()
            except Exception:
                pass
        try:
            self.handler.work.connection.close()
        except Exception:
            pass
        self.loop.close()


_FROZEN = [None]


def _gc_hygiene():
    """The engine forks its case workers after building the whole case list; the first full garbage
    collection of a worker would traverse (and copy-on-write) that inherited object graph, which takes
    tens of seconds on a busy machine and trips the per-case timeout.  Park everything that exists at
    first use in the permanent generation, and keep the per-process class / flags caches small."""
    import gc
    import os
    if _FROZEN[0] != os.getpid():
        gc.freeze()
        _FROZEN[0] = os.getpid()
    if len(_FLAGS) > 300:
        _FLAGS.clear()
        _CLASSES.clear()


def simulate(case, drain=False):
    """Run the case on the real classes.  Returns (order, groups, shutdown tokens);
    a group = (tokens, upstream bytes, client bytes, teardown?).  One group per
    event, except 'C' which has one per segment.  drain=True (oracle runs) flushes
    everything still queued for the client before shutdown()."""
    import proxy.core.connection.server as S
    from proxy.http.proxy.server import HttpProxyPlugin
    _gc_hygiene()
    del CALLS[:]
    sim = Sim(case)
    saved_conn = S.new_socket_connection
    saved_log = HttpProxyPlugin.access_log
    saved_auth = _wrap_auth()
    S.new_socket_connection = sim.fake_connect
    HttpProxyPlugin.access_log = lambda self, ctx: CALLS.append('dlog.' + ctx_digest(ctx))
    groups = []
    try:
        sim.handler.initialize()
        for ev in case['evs']:
            k = ev[0]
            if k in ('F', 'B', 'C'):
                if k == 'F':
                    sim.connect_ok = bool(ev[2])
                head = []
                for d in ev_plan(ev, case.get('rbuf')):
                    g = sim.read_client(d['write'])
                    if d['head']:
                        head.append(g)
                        if d['done']:
                            groups.append((sum((x[0] for x in head), []), b''.join(x[1] for x in head),
                                           b''.join(x[2] for x in head), any(x[3] for x in head)))
                            head = []
                    else:
                        groups.append(g)
                if head:        # the first request never completed (cannot happen for generated cases)
                    groups.append((sum((x[0] for x in head), []), b''.join(x[1] for x in head),
                                   b''.join(x[2] for x in head), any(x[3] for x in head)))
            else:
                groups.append(sim.event(ev))
        if drain:
            start = len(CALLS)
            for _ in range(64):
                if sim.down or not sim.client_open or not (sim.registered().get(sim.cfd, 0) & 2):
                    break
                sim.deliver([], [sim.cfd])
            groups.append(sim.finish(start) + (sim.down,))
        start = len(CALLS)
        sim.handler.shutdown()
        sd = CALLS[start:]
        return sim.order, groups, sd
    finally:
        S.new_socket_connection = saved_conn
        HttpProxyPlugin.access_log = saved_log
        _unwrap_auth(saved_auth)
        sim.close()


def group_str(g):
    toks, up, cl, td = g
    out = list(toks)
    if up:
        out.append('up=' + hx(up))
    if cl:
        out.append('cl=' + hx(cl))
    if td:
        out.append('td')
    return ' '.join(out) if out else '.'


def impl(case):
    order, groups, sd = simulate(case)
    return ['ord=%s | %s | sd: %s' % (','.join(order), ' | '.join(group_str(g) for g in groups),
                                      ' '.join(sd) if sd else '.')]


# ---------------------------------------------------------------- model input

def act_str(a):
    if isinstance(a, str):
        return a
    _, status, reason, headers, body = a
    hs = ','.join('%s=%s' % (hx(L(k)), hx(L(v))) for k, v in (headers or [])) or '-'
    return 'R%d.%s.%s.%s' % (status or 0, hx(L(reason or '')), hs, hx(L(body or '')))


def prog_str(p):
    if p == ['A']:
        return 'A'
    return ':'.join([str(p[0])] + [act_str(a) for a in p[1:]])


def more_str(pairs):
    """`req~rest^…`: the requests completing in a read, each with the bytes that follow it in that read"""
    return '^'.join('%s~%s' % (req_model(r), hx(rest)) for r, rest in pairs) or '-'


def ev_strs(ev, rbuf=None):
    k = ev[0]
    if k in ('F', 'B', 'C'):
        out = []
        for d in ev_plan(ev, rbuf):
            if d['head']:
                if d['done']:
                    out.append('B' if k == 'B' else 'F:%s:%d:%s:%s' % (
                        req_model(ev[1]), 1 if ev[2] else 0, hx(d['rest']), more_str(d['reqs'])))
            else:
                out.append('C:%s:%s' % (hx(d['chunk']), more_str(d['reqs'])))
        return out
    if k == 'U':
        return ['U:' + (ev[1] or '-')]
    if k == 'CR':
        return ['CA']       # for the model a reset is a vanished client; what differs is what shutdown() meets
    if k == 'UR':
        return ['UE']       # … and an upstream reset is an upstream that is gone
    return [k]


def model_lines(case):
    auth = 'None' if case['auth'] is None else hx(case['auth'].encode())
    dis = ','.join(hx(L(d)) for d in case['dis']) or '-'
    progs = ';'.join(prog_str(p) for p in case['plugins']) or '-'
    evs = ';'.join(s for ev in case['evs'] for s in ev_strs(ev, case.get('rbuf'))) or '-'
    return ['chain run %s %s %s %s' % (auth, dis, progs, evs)]


# ---------------------------------------------------------------- the property, on the implementation only

def expected_order(case):
    """configured order as documented: authentication plugin first, then the requested plugins"""
    out = ['A'] if case['auth'] else []
    for p in case['plugins']:
        l = 'A' if p == ['A'] else str(p[0])
        if l not in out:
            out.append(l)
    return out


def prog_of(case, label):
    for p in case['plugins']:
        if p != ['A'] and str(p[0]) == label:
            return p
    return None


def spec_response(act):
    """bytes a rejecting plugin chose: status line, its headers, Content-Length, Connection: close, body"""
    if act == 'X':
        return b''
    _, status, reason, headers, body = act
    if not status:
        return b''
    out = b'HTTP/1.1 %d' % status + (b' ' + L(reason) if reason else b'') + b'\r\n'
    hs = [[L(k), L(v)] for k, v in (headers or [])]

    def put(k, v):
        for e in hs:
            if e[0] == k:
                e[1] = v
                return
        hs.append([k, v])
    if not any(k.lower() == b'transfer-encoding' for k, _ in hs):
        put(b'Content-Length', str(len(L(body)) if body else 0).encode())
    put(b'Connection', b'close')
    for k, v in hs:
        out += k + b': ' + v + b'\r\n'
    return out + b'\r\n' + (L(body) if body else b'')


def cred_ok(case, req):
    """specification of 'carries exactly the configured credentials' (regular expression over the last
    Proxy-Authorization line): optional blanks, the scheme token 'basic' in any case, blanks, the
    base64 of user:pass, optional blanks"""
    import base64
    if not case['auth']:
        return True
    code = base64.b64encode(case['auth'].encode())
    val = None
    for h in req['h']:
        name, _, v = L(h).partition(b':')
        if name.strip(WS).lower() == b'proxy-authorization':
            val = v
    if val is None:
        return False
    return re.fullmatch(rb'[ \t\n\r\x0b\x0c]*(?i:basic)[ \t\n\r\x0b\x0c]+' + re.escape(code) + rb'[ \t\n\r\x0b\x0c]*',
                        val, re.S) is not None


def tok_parts(t):
    """'c<label>.<hook>.<digest>' -> (label, hook, digest)"""
    a, hook, dig = t.split('.', 2)
    return a[1:], hook, dig


def apply_mod(label, hook, dig):
    """what the 'M' / 'N' action of plugin <label> turns the observed argument into"""
    if hook in ('before', 'creq'):
        lines = [] if dig == '-' else bytes.fromhex(dig).split(b'\n')
        key = b'X-P' + label.encode()
        new = key + b': ' + (b'b' if hook == 'before' else b'c')
        for i, l in enumerate(lines):
            if i > 0 and l.split(b': ', 1)[0].lower() == key.lower():
                lines[i] = new
                break
        else:
            lines.append(new)
        return hx(b'\n'.join(lines))
    if hook in ('cdata', 'up'):
        return hx((b'' if dig == '-' else bytes.fromhex(dig)) + b'[' + label.encode() + b']')
    tags = [] if dig == '-' else dig.split('.')
    if label not in tags:
        tags.append(label)
    return '.'.join(tags)


def spec_digest(req):
    """what the first plugin of a chain must be handed for a request the client sent: method, path and
    the header fields in arrival order, a repeated name keeping its first position and last value"""
    hs = {}
    for h in req['h']:
        name, _, v = L(h).partition(b':')
        name, v = name.strip(WS), v.strip(WS)
        hs[name.lower()] = (name, v)
    _, _, path, _ = req_fields(req)
    return hx(b'\n'.join([L(req['m']) + b' ' + L(path)] + [k + b': ' + v for k, v in hs.values()]))


def is_call(t):
    return t.startswith('c') and not t.startswith('conn.')


def check_calls(case, order, calls, hook, first=None, auth_ok=True):
    """order / data flow / short circuit of ONE chain of `hook` given as its calls.
    Returns (failure | None, how it ended, action that ended it, value left by the chain)."""
    if not calls:
        return None, 'none', None, first
    idx = HOOKS.index(hook) + 1
    if first is not None and calls[0][2] != first:
        return hook + '-first-plugin-did-not-receive-the-original-value', None, None, None
    for n, (label, _, dig) in enumerate(calls):
        if n >= len(order) or label != order[n]:
            return hook + '-hooks-not-in-configured-order', None, None, None
        if label == 'A':
            act = 'P' if (hook != 'before' or auth_ok) else 'AUTH'
        else:
            act = prog_of(case, label)[idx]
        last = n == len(calls) - 1
        if act in ('P', 'M', 'N'):
            out = dig if act == 'P' else apply_mod(label, hook, dig)
            if last:
                if n != len(order) - 1:
                    return hook + '-chain-ended-early', None, None, None
                return None, 'done', act, out
            if calls[n + 1][2] != out:
                return hook + '-next-plugin-did-not-receive-predecessor-result', None, None, None
        else:
            if not last:
                return hook + '-chain-continued-after-none-or-raise', None, None, None
            return None, ('dropped' if act == 'D' else 'raised'), act, dig
    return None, 'none', None, first


def check_chain(case, order, toks, hook, first=None, auth_ok=True):
    """the same for the single chain of `hook` in `toks`"""
    calls = [tok_parts(t) for t in toks if is_call(t) and tok_parts(t)[1] == hook]
    return check_calls(case, order, calls, hook, first, auth_ok)


def check_chains(case, order, toks, hook, firsts):
    """several consecutive chains of `hook` in one group (one per complete request of a read): every chain
    starts at the first configured plugin with the corresponding value of `firsts`; returns
    (failure | None, [(how, action, value) per chain])"""
    calls = [tok_parts(t) for t in toks if is_call(t) and tok_parts(t)[1] == hook]
    chains = []
    for c in calls:
        if not chains or (order and c[0] == order[0]):
            chains.append([])
        chains[-1].append(c)
    res = []
    for i, ch in enumerate(chains):
        if i >= len(firsts):
            return hook + '-chain-ran-more-often-than-there-are-requests', res
        if res and res[-1][0] == 'raised':
            return hook + '-chain-ran-after-a-raise', res
        f, how, act, val = check_calls(case, order, ch, hook, firsts[i])
        if f:
            return f, res
        res.append((how, act, val))
    return None, res


def is_upgrade(req):
    names = [L(h).split(b':', 1)[0].strip(WS).lower() for h in req['h']]
    return req['v'] == 'HTTP/1.1' and b'connection' in names and b'upgrade' in names


def edits_missing(case, order, up, first, ndone=1):
    """every edit a plugin made to a request that all plugins passed must be in the bytes forwarded
    (`ndone` forwarded requests in `up`; `first`: the first of them also went through the before chain)"""
    for label in order:
        p = prog_of(case, label)
        if p is None:
            continue
        if p[2] in ('M', 'N'):
            if up.count(b'\r\nX-P' + label.encode() + b': c\r\n') < ndone:
                return 'forwarded-request-lacks-a-plugins-edit'
        elif first and p[1] in ('M', 'N') and b'\r\nX-P' + label.encode() + b': b\r\n' not in up:
            return 'forwarded-request-lacks-a-plugins-edit'
    return None


def group_events(case):
    """event (and, for 'C', whether it is the last segment) behind every group of simulate()"""
    out = []
    for ev in case['evs']:
        if ev[0] in ('F', 'B', 'C'):
            for d in ev_plan(ev, case.get('rbuf')):
                if d['head']:
                    if d['done']:
                        out.append((ev, d, d['rest']))
                else:
                    out.append((['C'], d, d['chunk']))
        else:
            out.append((ev, None, None))
    return out


def reject_bytes(act):
    if act == 'AUTH':
        from proxy.http.responses import PROXY_AUTH_FAILED_RESPONSE_PKT
        return bytes(PROXY_AUTH_FAILED_RESPONSE_PKT)
    return spec_response(act)


def judge(case, order, groups, sd):
    """C09 on one observed run (groups of simulate(case, drain=True))"""
    evs = case['evs']
    dispatched = bool(evs) and evs[0][0] == 'F'
    if order != expected_order(case):
        return 'plugins-not-loaded-in-configured-order'
    if any('.alog.' in t or '.upclose.' in t or t.startswith('dlog.') for g in groups for t in g[0]):
        return 'lifecycle-hook-fired-before-close'
    if not dispatched:
        if sd or any(is_call(t) for g in groups for t in g[0]):
            return 'plugin-hook-invoked-without-dispatched-request'
        return None
    # lifecycle: access-log chain (None short-circuit), then on_upstream_connection_close for ALL, once each
    f, how, _, _ = check_chain(case, order, sd, 'alog', first='-')
    if f:
        return 'lifecycle-' + f
    if how == 'none' and order:
        return 'lifecycle-on_access_log-not-called'
    if [tok_parts(t)[0] for t in sd if '.upclose.' in t] != order:
        return 'lifecycle-on_upstream_connection_close-not-exactly-once-each-in-order'
    if len([t for t in sd if t.startswith('dlog.')]) != (1 if how in ('done', 'none') else 0):
        return 'lifecycle-default-access-log-wrong'
    lost = any(e[0] in ('CA', 'CR') for e in evs)
    if not group_events(case) or group_events(case)[0][0][0] != 'F':
        dispatched = False       # a vanished client may lose what was still queued
    allcl = b''.join(g[2] for g in groups)
    # first request
    ev = evs[0]
    toks, up, cl, td = groups[0]
    f, how, act, val = check_chain(case, order, toks, 'before', spec_digest(ev[1]), cred_ok(case, ev[1]))
    if f:
        return f
    conns = [t for t in toks if t.startswith('conn.')]
    if how in ('dropped', 'raised') and [t for g in groups for t in g[0] if t.startswith('conn.')]:
        return 'connect-after-before-chain-%s' % how
    if how == 'raised':
        if any(g[1] for g in groups):
            return 'bytes-forwarded-after-reject'
        if any(is_call(t) and tok_parts(t)[1] != 'before' for g in groups for t in g[0]):
            return 'later-hooks-ran-after-reject'
        want = reject_bytes(act)
        if allcl != want and not (lost and want.startswith(allcl)):
            return 'reject-response-differs-from-the-plugins-choice'
        return None
    if how == 'done' and order and len(conns) != 1:
        return 'no-single-connect-after-before-chain-passed'
    if conns and toks.index(conns[0]) < max(i for i, t in enumerate(toks) if '.before.' in t or i == 0):
        return 'connect-before-the-before_upstream_connection-chain-finished'
    if conns and not ev[2]:
        return None                      # connect failed: 502, nothing more to judge here
    tunnel = req_fields(ev[1])[3]
    upstream = bool(conns)
    ge = group_events(case)
    packed = [r for r, _ in ge[0][1]['reqs']]          # follow-ups completing in the recv that completed the first request
    rest0 = ge[0][2]
    pipelined = upstream and not tunnel
    f, res = check_chains(case, order, toks, 'creq', [val] + ([spec_digest(r) for r in packed] if pipelined else []))
    if f:
        return f
    if order and not res:
        return 'handle_client_request-chain-did-not-run'
    st = {'upgraded': False, 'dead': False}
    if order:
        how2, act2, _ = res[0]
        if pipelined:
            f = judge_requests(case, order, [ev[1]] + packed, res, up, st,
                               first=(how in ('done', 'dropped')), allcl=allcl, lost=lost, head=True)
            if f:
                return f
        elif how2 in ('dropped', 'raised') and up and not rest0:
            return 'request-forwarded-after-handle_client_request-%s' % how2
        if any(r[0] == 'raised' for r in res):
            st['dead'] = True
        if how2 == 'raised':
            want = reject_bytes(act2)
            if not allcl.startswith(want) and not (lost and want.startswith(allcl)):
                return 'reject-response-differs-from-the-plugins-choice'
    if rest0 and not upstream and not (order and res[0][0] == 'raised'):
        f, h3, a3, _ = check_chain(case, order, toks, 'cdata', hx(rest0))
        if f:
            return f
        if order and h3 == 'none':
            return 'handle_client_data-not-called-for-bytes-behind-the-first-request'
    # later events
    if td:
        st['dead'] = True
    for (gev, d, seg), g in zip(ge[1:], groups[1:]):
        k = gev[0]
        was_dead = st['dead']
        if g[3] or k in ('CE', 'CA', 'CR', 'UE', 'UR'):
            st['dead'] = True
        if k == 'C':
            if any('.cdata.' in t for t in g[0]):
                f, h3, a3, _ = check_chain(case, order, g[0], 'cdata', hx(seg))
                if f:
                    return f
                if g[1]:
                    return 'bytes-forwarded-without-upstream'
                if h3 == 'raised':
                    st['dead'] = True
                    if reject_bytes(a3) not in allcl and not lost:
                        return 'reject-response-differs-from-the-plugins-choice'
            if any('.creq.' in t for t in g[0]):
                reqs = [r for r, _ in d['reqs']]
                if not reqs:
                    return 'handle_client_request-ran-on-incomplete-follow-up'
                f, res = check_chains(case, order, g[0], 'creq', [spec_digest(r) for r in reqs])
                if f:
                    return 'follow-up-' + f
                f = judge_requests(case, order, reqs, res, g[1], st, first=False, allcl=allcl, lost=lost, head=False)
                if f:
                    return 'follow-up-' + f
                if any(r[0] == 'raised' for r in res):
                    st['dead'] = True
            elif d['reqs'] and order and pipelined and not st['upgraded'] and not was_dead:
                return 'follow-up-handle_client_request-chain-did-not-run'
        elif k == 'U':
            if any('.up.' in t for t in g[0]):
                f, _, _, _ = check_chain(case, order, g[0], 'up', gev[1] or '-')
                if f:
                    return f
        if any(is_call(t) and tok_parts(t)[1] == 'before' for t in g[0]):
            return 'before_upstream_connection-ran-again'
    return None


def judge_requests(case, order, reqs, res, up, st, first, allcl, lost, head):
    """the complete requests of one read against the outcome of their handle_client_request chains:
    every one of them is handled, in order, until a plugin raises or an upgrade request was forwarded"""
    ndone = 0
    stopped = False
    for i, r in enumerate(reqs):
        if i >= len(res):
            if not (stopped or st['upgraded']):
                return 'request-packed-in-the-read-was-not-handled'
            break
        how, act, _ = res[i]
        if how == 'done':
            ndone += 1
            if not (head and i == 0) and is_upgrade(r):
                st['upgraded'] = True
        elif how == 'raised':
            stopped = True
            if not (head and i == 0) and reject_bytes(act) not in allcl and not lost:
                return 'reject-response-differs-from-the-plugins-choice'
    passthrough = st['upgraded']
    if ndone == 0 and up and not passthrough:
        return 'request-forwarded-after-handle_client_request-none-or-raise'
    if ndone and not up:
        return 'request-not-forwarded-although-all-plugins-passed-it'
    if ndone and not passthrough:
        heads = len(re.findall(rb' HTTP/1\.[01]\r\n', up))
        if heads != ndone:
            return 'number-of-forwarded-requests-differs-from-the-requests-all-plugins-passed'
    if ndone:
        return edits_missing(case, order, up, first=first and res[0][0] == 'done', ndone=ndone)
    return None


def oracle(case):
    order, groups, sd = simulate(case, drain=True)
    return judge(case, order, groups, sd)


# ---------------------------------------------------------------- generators

METHODS = ['GET', 'POST', 'HEAD', 'PUT', 'DELETE', 'OPTIONS', 'PATCH']
REJECTS = [
    ['R', 418, "I'm a teapot", None, 'short and stout'],
    ['R', 403, None, [['X-Why', 'policy']], None],
    ['R', 404, '', None, ''],
    ['R', 503, 'Busy', [['Retry-After', '1'], ['content-length', '7']], 'go away'],
    ['R', 200, 'OK', [['Transfer-Encoding', 'chunked']], '0\r\n\r\n'],
    ['R', 451, 'Nope', [['Connection', 'keep-alive'], ['Content-Length', '999']], 'x'],
    ['R', None, 'ignored', None, 'ignored'],
    ['R', 0, None, None, None],
    'X',
]


def mk_req(rng, tunnel=False, auth=None, follow=False):
    host = rng.choice(['example.org', 'h', 'a.b.c', '10.1.2.3', 'EXAMPLE.org'])
    if tunnel:
        req = {'m': 'CONNECT', 'form': 'auth', 'host': host, 'port': rng.choice([443, 8443, None, 80]),
               'path': '', 'v': 'HTTP/1.1', 'h': [], 'b': ''}
    else:
        form = rng.choice(['abs', 'abs', 'abs', 'abscred', 'slashes', 'auth'])
        req = {'m': rng.choice(METHODS), 'form': form, 'host': host,
               'port': rng.choice([None, 80, 8080, 3128]) if form != 'auth' else rng.choice([80, 8080]),
               'path': rng.choice(['/', '/x', '/a/b?c=d', '', '/p%20q']) if form != 'auth' else '',
               'v': rng.choice(['HTTP/1.1', 'HTTP/1.1', 'HTTP/1.0']), 'h': [], 'b': ''}
    hs = ['Host: ' + host]
    pool = ['User-Agent: t/1', 'Accept: */*', 'X-Drop: 1', 'x-p0: client', 'X-P1: client', 'Proxy-Connection: keep-alive',
            'proxy-connection:close', 'Via: 1.0 older', 'Connection: keep-alive', 'X-Empty:', 'NoColon',
            'X-Sp  :  padded value  ', 'Accept: again']
    hs += rng.sample(pool, rng.randrange(0, 5))
    if not tunnel and req['m'] in ('POST', 'PUT', 'PATCH') and rng.random() < 0.7:
        body = rng.choice(['a', 'hello world', 'x' * 40])
        req['b'] = body
        hs.append(rng.choice(['Content-Length: %d', 'content-length: %d']) % len(body))
    if auth:
        import base64
        code = base64.b64encode(auth.encode()).decode()
        hs.insert(rng.randrange(len(hs) + 1), rng.choice(['Proxy-Authorization', 'proxy-authorization', 'PROXY-AUTHORIZATION'])
                  + ': ' + rng.choice(['Basic ', 'basic ', 'BASIC  ']) + code)
    if follow and rng.random() < 0.15:
        hs += ['Connection: Upgrade', 'Upgrade: websocket']
        hs = [h for h in hs if h != 'Connection: keep-alive']
    req['h'] = hs
    return req


def mk_prog(rng, label, quiet=0.6):
    def a3():
        r = rng.random()
        return 'P' if r < quiet else rng.choice('MN') if r < quiet + 0.2 else 'D'

    def a5():
        r = rng.random()
        if r < quiet:
            return 'P'
        if r < quiet + 0.17:
            return rng.choice('MN')
        if r < quiet + 0.29:
            return 'D'
        return rng.choice(REJECTS)
    return [label, a5(), a5(), a5(), a3(), a3(), 'I' if rng.random() < 0.15 else 'P']


def pad_req(req, n):
    """the request with an X-Pad header that makes its length a multiple of n (so that a recv of n bytes
    ends exactly at its end)"""
    base = dict(req, h=req['h'] + ['X-Pad: '])
    k = (-len(req_bytes(base))) % n
    return dict(req, h=req['h'] + ['X-Pad: ' + 'a' * k])


def mk_cuts(rng, n, p=0.4):
    if rng.random() > p or n < 2:
        return []
    return sorted(rng.sample(range(1, n), min(n - 1, rng.randrange(1, 4))))


def mk_events(rng, auth, quietfirst):
    evs = []
    r = rng.random()
    tunnel = rng.random() < 0.3
    if r < 0.9:
        good = auth if (auth and rng.random() < 0.85) else None
        req = mk_req(rng, tunnel, good)
        if not tunnel and rng.random() < 0.08:
            # an upgrade offer in the FIRST request does not switch the connection to raw relay
            req['v'] = 'HTTP/1.1'
            req['h'] = [h for h in req['h'] if not h.lower().startswith('connection')] + rng.choice(
                [['Connection: Upgrade', 'Upgrade: websocket'], ['Connection: keep-alive, Upgrade', 'Upgrade: h2c']])
        if auth and not good and rng.random() < 0.5:
            req['h'].append('Proxy-Authorization: Basic d3Jvbmc6Y3JlZHM=')
        ev = ['F', req, rng.random() < 0.9, mk_cuts(rng, len(req_bytes(req)))]
        if rng.random() < 0.06:
            ev.append([mk_req(rng, False, auth if rng.random() < 0.7 else None)])
        evs.append(ev)
    elif r < 0.95:
        evs.append(['B', {'m': 'GET', 'form': 'auth', 'host': '/', 'port': None, 'path': '', 'v': 'HTTP/1.1',
                          'h': ['Host: x'], 'b': ''}])
    started = bool(evs)
    for _ in range(rng.randrange(0, 9)):
        x = rng.random()
        if not started and x < 0.3:
            x = 0.6         # client bytes before any first request would BE the first request
        if x < 0.3:
            fr = mk_req(rng, False, auth if rng.random() < 0.7 else None, follow=True)
            ev = ['C', fr, mk_cuts(rng, len(req_bytes(fr)), 0.3)]
            if rng.random() < 0.12:
                ev.append([mk_req(rng, False, auth if rng.random() < 0.7 else None) for _ in range(rng.randrange(1, 3))])
            evs.append(ev)
        elif x < 0.55:
            evs.append(['U', rng.choice([b'HTTP/1.1 200 OK\r\nContent-Length: 2\r\n\r\nhi', b'\x16\x03\x01tls', b'x',
                                         b'HTTP/1.1 304 Not Modified\r\n\r\n', b'garbage\r\n\r\n']).hex()])
        elif x < 0.8:
            evs.append(['FL'])
        elif x < 0.83:
            evs.append(['UE'])
        elif x < 0.86:
            evs.append(['UR'])
        elif x < 0.91:
            evs.append(['CE'])
        elif x < 0.95:
            evs.append(['CA'])
        else:
            evs.append(['CR'])
    return evs


def mk_case(rng, nplug=None, quiet=0.6):
    n = rng.randrange(1, 5) if nplug is None else nplug
    labels = rng.sample(range(6), n)
    plugins = [mk_prog(rng, l, quiet) for l in labels]
    auth = rng.choice([None, None, 'user:pass', 'a:b'])
    if rng.random() < 0.08 and plugins:
        plugins.insert(rng.randrange(len(plugins) + 1), list(rng.choice(plugins)))      # same class twice
    if auth and rng.random() < 0.08:
        plugins.insert(rng.randrange(len(plugins) + 1), ['A'])
    dis = rng.choice([[], [], ['x-drop'], ['x-drop', 'accept'], ['X-Drop'], ['via', 'host']])
    case = {'auth': auth, 'dis': dis, 'plugins': plugins, 'evs': mk_events(rng, auth, quiet)}
    if rng.random() < 0.12:
        # the client resets the connection at some point (possibly only after everything else happened)
        case['evs'].insert(rng.randrange(len(case['evs']) + 1), ['CR'])
    if any(e[0] == 'CR' for e in case['evs']) and rng.random() < 0.15:
        case['tcp'] = 1
    if rng.random() < 0.10:
        # the origin resets the connection at some point: before any response, mid-response, after it, at the end
        case['evs'].insert(rng.randrange(1, len(case['evs']) + 1) if case['evs'] else 0, ['UR'])
    if any(e[0] == 'UR' for e in case['evs']) and rng.random() < 0.15:
        case['utcp'] = 1
    if rng.random() < 0.10 and case['evs'] and case['evs'][0][0] == 'F':
        # small --client-recvbuf-size: the recv that completes the first request returns exactly a full
        # buffer while more client bytes are already waiting in the socket
        n = rng.choice([64, 128])
        case['rbuf'] = n
        ev = case['evs'][0]
        if rng.random() < 0.75:
            ev[1] = pad_req(ev[1], n)
        ev[3] = []
        extra = [mk_req(rng, False, auth if rng.random() < 0.5 else None) for _ in range(rng.randrange(1, 3))]
        if len(ev) > 4:
            ev[4] = extra
        else:
            ev.append(extra)
    return case


def http_script(req, follow):
    return [['F', req, True, []], ['U', b'HTTP/1.1 200 OK\r\nContent-Length: 2\r\n\r\nhi'.hex()], ['FL'],
            ['C', follow, []], ['U', b'HTTP/1.1 204 No Content\r\n\r\n'.hex()], ['FL'], ['CE']]


def _base_req(m='GET', tunnel=False):
    if tunnel:
        return {'m': 'CONNECT', 'form': 'auth', 'host': 'example.org', 'port': 443, 'path': '', 'v': 'HTTP/1.1',
                'h': ['Host: example.org:443'], 'b': ''}
    return {'m': m, 'form': 'abs', 'host': 'example.org', 'port': None, 'path': '/x', 'v': 'HTTP/1.1',
            'h': ['Host: example.org', 'Proxy-Connection: keep-alive', 'X-Drop: 1'], 'b': ''}


def corpus():
    cs = []
    P = 'P'
    quiet = lambda l: [l, P, P, P, P, P, P]
    mod = lambda l: [l, 'M', 'M', 'M', 'M', 'M', P]
    req, fol = _base_req(), _base_req('HEAD')
    cs.append({'auth': None, 'dis': [], 'plugins': [quiet(0)], 'evs': http_script(req, fol)})
    cs.append({'auth': None, 'dis': ['x-drop'], 'plugins': [mod(0), mod(1), mod(2)], 'evs': http_script(req, fol)})
    cs.append({'auth': None, 'dis': [], 'plugins': [mod(2), mod(0), mod(1)], 'evs': http_script(req, fol)})
    for hook in range(1, 6):
        for act in (['D'] + ([REJECTS[0], 'X'] if hook <= 3 else [])):
            p1 = quiet(1)
            p1[hook] = act
            cs.append({'auth': None, 'dis': [], 'plugins': [mod(0), p1, mod(2)], 'evs': http_script(req, fol)})
            cs.append({'auth': None, 'dis': [], 'plugins': [mod(0), p1, mod(2)],
                       'evs': [['F', _base_req(tunnel=True), True, []], ['FL'], ['C', fol, []], ['U', '1603'], ['FL'], ['UE']]})
    # dropped follow-up, then another follow-up (the parser keeps the dropped request)
    p = quiet(1)
    p[2] = 'D'
    cs.append({'auth': None, 'dis': [], 'plugins': [mod(0), p],
               'evs': [['F', req, True, []], ['C', fol, []], ['C', _base_req('OPTIONS'), [10]], ['CE']]})
    # finding D20 (fixed by f7e53a3): /one, /two (dropped by a plugin), /three — /three must reach the plugins
    one, two, three = (dict(_base_req(), path='/' + w, h=['Host: example.org', 'X-Req: ' + w]) for w in ('one', 'two', 'three'))
    cs.append({'auth': None, 'dis': [], 'plugins': [p, mod(0)],
               'evs': [['F', one, True, []], ['C', two, []], ['C', three, []], ['FL'], ['CE']]})
    cs.append({'auth': None, 'dis': [], 'plugins': [mod(2), p],
               'evs': [['F', one, True, []], ['C', two, [20]], ['C', three, [5, 40]], ['U', '6869'], ['UE']]})
    # connect failure, 400 before plugins, client abort with data pending
    cs.append({'auth': None, 'dis': [], 'plugins': [quiet(0), mod(1)], 'evs': [['F', req, False, []], ['FL']]})
    cs.append({'auth': None, 'dis': [], 'plugins': [quiet(0)],
               'evs': [['B', {'m': 'GET', 'form': 'auth', 'host': '/', 'port': None, 'path': '', 'v': 'HTTP/1.1',
                              'h': ['Host: x'], 'b': ''}], ['FL']]})
    cs.append({'auth': None, 'dis': [], 'plugins': [quiet(0)],
               'evs': [['F', req, True, [5, 17]], ['U', '6869'], ['U', '6868'], ['CA']]})
    cs.append({'auth': None, 'dis': [], 'plugins': [], 'evs': http_script(req, fol)})
    cs.append({'auth': 'user:pass', 'dis': [], 'plugins': [mod(3), ['A'], mod(3)],
               'evs': http_script(dict(req, h=req['h'] + ['Proxy-Authorization: Basic dXNlcjpwYXNz']), fol)})
    cs.append({'auth': 'user:pass', 'dis': [], 'plugins': [mod(3)], 'evs': http_script(req, fol)})
    new = lambda l: [l, 'N', 'N', 'N', 'N', 'N', P]
    # every plugin returns a NEW object: later plugins and the forwarded bytes must still see all edits
    cs.append({'auth': None, 'dis': [], 'plugins': [new(0), new(1), new(2)], 'evs': http_script(req, fol)})
    cs.append({'auth': None, 'dis': [], 'plugins': [mod(2), new(0), quiet(1)], 'evs': http_script(req, fol)})
    cs.append({'auth': 'user:pass', 'dis': [], 'plugins': [new(1), new(0)],
               'evs': http_script(dict(req, h=req['h'] + ['Proxy-Authorization: Basic dXNlcjpwYXNz']), fol)})
    # the client resets the connection (conn.shutdown() in handler.shutdown() raises): hooks still exactly once
    for tcp in (0, 1):
        for evs in ([['F', req, True, []], ['CR']],
                    [['F', req, True, []], ['U', '6869'], ['CR']],
                    [['F', req, True, []], ['U', '6869'], ['FL'], ['C', fol, []], ['CR']],
                    [['F', req, True, []], ['UE'], ['CR']],
                    [['F', _base_req(tunnel=True), True, []], ['CR']],
                    [['F', req, False, []], ['CR']],
                    [['F', dict(req, h=['Host: example.org']), True, [7]], ['FL'], ['CE'], ['CR']]):
            c = {'auth': None, 'dis': [], 'plugins': [mod(0), new(1)], 'evs': evs}
            if tcp:
                c['tcp'] = 1
            cs.append(c)
    # the origin resets the connection (upstream shutdown() in on_client_connection_close raises): hooks exactly once
    for utcp in (0, 1):
        for evs in ([['F', req, True, []], ['UR']],
                    [['F', req, True, []], ['U', '485454502f312e3120323030204f4b0d0a'], ['UR']],
                    [['F', req, True, []], ['U', '6869'], ['FL'], ['UR']],
                    [['F', req, True, []], ['U', '6869'], ['C', fol, []], ['UR'], ['FL']],
                    [['F', _base_req(tunnel=True), True, []], ['FL'], ['UR']],
                    [['F', req, True, []], ['CE'], ['UR']],
                    [['F', req, True, []], ['CR'], ['UR']]):
            c = {'auth': None, 'dis': [], 'plugins': [mod(0), new(1)], 'evs': evs}
            if utcp:
                c['utcp'] = 1
            cs.append(c)
    # small receive buffer: a rejected first request ends exactly at a full recv, more requests are waiting
    for n in (64, 128):
        rej = quiet(1)
        rej[1] = REJECTS[0]
        crej = quiet(1)
        crej[2] = REJECTS[1]
        for progs in ([mod(0), rej, mod(2)], [mod(0), crej, mod(2)], [mod(0), mod(2)]):
            cs.append({'auth': None, 'dis': [], 'plugins': progs, 'rbuf': n,
                       'evs': [['F', pad_req(req, n), True, [], [fol, _base_req('OPTIONS')]], ['FL'], ['FL']]})
        cs.append({'auth': 'user:pass', 'dis': [], 'plugins': [mod(0), mod(2)], 'rbuf': n,
                   'evs': [['F', pad_req(req, n), True, [], [fol]], ['FL'], ['FL']]})
    dns = quiet(4)
    dns[6] = 'I'
    cs.append({'auth': None, 'dis': [], 'plugins': [quiet(0), dns, mod(1)], 'evs': http_script(req, fol)})
    return cs


def generate(rng, tier):
    big = tier == 'thorough'
    for _ in range(2500 if not big else 40000):
        yield mk_case(rng)
    for _ in range(500 if not big else 6000):
        yield mk_case(rng, quiet=0.85)
    # all orders of up to 3 plugins x single-deviation tables x the scripted endings
    req, fol = _base_req(), _base_req('POST')
    fol = dict(fol, h=fol['h'] + ['Content-Length: 3'], b='abc')
    P = 'P'
    scripts = [
        http_script(req, fol),
        [['F', req, True, []], ['U', '6869'], ['CA']],
        [['F', req, True, []], ['C', fol, []], ['UE']],
        [['F', _base_req(tunnel=True), True, []], ['FL'], ['C', fol, []], ['U', '1603'], ['FL'], ['UE']],
        [['F', req, False, []], ['FL']],
        [['F', req, True, []]],
        [['F', req, True, []], ['C', fol, []], ['CR']],
        [['F', req, True, []], ['U', '6869'], ['CR'], ['UE']],
        [['F', req, True, []], ['UR']],
        [['F', req, True, []], ['U', '485454502f312e3120323030204f4b0d0a436f6e74656e742d4c656e6774683a2039390d0a0d0a6869'], ['UR']],
        [['F', req, True, []], ['U', '6869'], ['FL'], ['C', fol, []], ['UR'], ['FL']],
    ]
    devs = [(h, a) for h in range(1, 6) for a in (['N', 'P', 'D'] + ([REJECTS[0], 'X'] if h <= 3 else []))] + [(6, 'I')]
    tables = []
    for n in (1, 2, 3):
        for perm in itertools.permutations(range(n)):
            for who in range(n):
                for h, a in devs:
                    progs = []
                    for l in perm:
                        p = [l, 'M', 'M', 'M', 'M', 'M', P]
                        if l == who:
                            p[h] = a
                        progs.append(p)
                    tables.append(progs)
    if not big:
        tables = rng.sample(tables, 150)
    for progs in tables:
        for s in (scripts if big else rng.sample(scripts, 2)):
            yield {'auth': None, 'dis': [], 'plugins': progs, 'evs': s}
    if big:
        for perm in itertools.permutations(range(4)):
            for s in scripts[:4]:
                progs = [mk_prog(rng, l, 0.5) for l in perm]
                yield {'auth': None, 'dis': [], 'plugins': progs, 'evs': s}


def neighbours(case):
    for i in range(len(case['evs'])):
        yield dict(case, evs=case['evs'][:i + 1])
    for i in range(len(case['plugins'])):
        yield dict(case, plugins=case['plugins'][:i] + case['plugins'][i + 1:])
    yield dict(case, plugins=list(reversed(case['plugins'])))
    yield dict(case, evs=case['evs'] + [['CR']])
    yield dict(case, evs=case['evs'] + [['UR']])
    yield dict(case, plugins=[[p[0]] + ['N' if a == 'M' else a for a in p[1:]] if p != ['A'] else p for p in case['plugins']])


def search(rng):
    return [mk_case(rng) for _ in range(1500)] + corpus()


def describe(case):
    evs = case['evs']
    out = ['plugins=%d' % len(case['plugins']), 'auth=%d' % bool(case['auth'])]
    out.append('first=' + (evs[0][0] if evs else 'none'))
    if evs and evs[0][0] == 'F':
        out.append('first-method=' + evs[0][1]['m'])
    ends = [e[0] for e in evs if e[0] in ('UE', 'UR', 'CE', 'CA', 'CR')]
    if case.get('utcp'):
        out.append('upstream=real-tcp')
    if case.get('rbuf'):
        out.append('recvbuf=%d' % case['rbuf'])
    if case.get('tcp'):
        out.append('client=real-tcp')
    out.append('ending=' + (ends[0] if ends else 'reaped'))
    acts = set()
    for p in case['plugins']:
        for a in p[1:]:
            acts.add(a if isinstance(a, str) else 'R')
    out += ['action=' + a for a in sorted(acts)]
    return out


def nontrivial(case):
    return bool(case['evs']) and case['evs'][0][0] == 'F' and (bool(case['plugins']) or bool(case['auth']))
