import PxProofs.UpdateThms
/-!
# `update_body` on a chunked message (C15; D23 fixed by 4312341)

`update_body` deletes `content-length`, stores the DECODED (possibly compressed) body and leaves
`_is_chunked_encoded` set; `build()` / `build_response()` chunk-encode it once.
`update_body_req_chunked` / `update_body_resp_chunked`: the rebuilt message is complete, chunked,
has the expected header map and decodes to the new body.
-/
namespace Px.Codec

open Px.Parser Px.Build Px.UpdateBody
open Px.Url (Url)

/-- the header map after `update_body` on a chunked message -/
def updHeadersCh (h : Headers) (ct : Bytes) : Headers :=
  hdrSet (hdrDel (if isGzip h then h else hdrDel h kCE) kCL) kCT (nCT, ct)

theorem delHeader_getD (p : Parser) (k : Bytes) :
    (delHeader p k).headers.getD [] = hdrDel (p.headers.getD []) (lower k) := by
  unfold delHeader
  rcases hh : p.headers with _ | h
  · simp [hh, hdrDel]
  · by_cases he : h.isEmpty = true
    · have : h = [] := by simpa using he
      subst this; simp [hh, hdrDel]
    · simp [he]

theorem delHeader_same (p : Parser) (k : Bytes) :
    (delHeader p k).isChunked = p.isChunked ∧ (delHeader p k).ty = p.ty ∧ (delHeader p k).method = p.method ∧
    (delHeader p k).version = p.version ∧ (delHeader p k).path = p.path ∧ (delHeader p k).body = p.body := by
  unfold delHeader
  split
  · simp
  · split <;> simp

theorem delHeader_line (p : Parser) (k : Bytes) :
    (delHeader p k).code = p.code ∧ (delHeader p k).reason = p.reason := by
  unfold delHeader
  split
  · simp
  · split <;> simp

/-- the parser after `update_body` on a chunked message: same start line, new map, body := the stream -/
def UpdChunked (p p' : Parser) (h' : Headers) (enc : Bytes) : Prop :=
  p'.ty = p.ty ∧ p'.method = p.method ∧ p'.version = p.version ∧ p'.path = p.path ∧
  p'.isChunked = true ∧ p'.headers = some h' ∧ p'.body = some enc

/-- first half of `update_body`: content-encoding -/
def stage1 (gz : Bytes → Bytes) (p : Parser) (body : Bytes) : Parser × Bytes :=
  if hasHeader p (b "content-encoding") then
    match header p (b "content-encoding") with
    | .ok v => if v == b "gzip" then (p, gz body) else (delHeader p (b "content-encoding"), body)
    | .error _ => (p, body)
  else (p, body)

/-- second half: transfer-encoding / content-length, body, content-type -/
def stage2 (pb : Parser × Bytes) (ct : Bytes) : Except Px.UpdateBody.Err Parser :=
  let r : Except Px.UpdateBody.Err (Parser × Bytes) :=
    if pb.1.isChunked then .ok (delHeader pb.1 (b "content-length"), pb.2)
    else .ok (addHeader pb.1 (b "Content-Length") (natToDec pb.2.length), pb.2)
  match r with
  | .error e => .error e
  | .ok (p, body) => .ok (addHeader { p with body := some body } (b "Content-Type") ct)

theorem updateBody_stages (gz : Bytes → Bytes) (bufSize : Nat) (p : Parser) (body ct : Bytes) :
    updateBody gz bufSize p body ct = stage2 (stage1 gz p body) ct := rfl

theorem stage1_spec (gz : Bytes → Bytes) (p : Parser) (body : Bytes) :
    (stage1 gz p body).2 = updBody gz (p.headers.getD []) body ∧
    (stage1 gz p body).1.headers.getD [] =
      (if isGzip (p.headers.getD []) then p.headers.getD [] else hdrDel (p.headers.getD []) kCE) ∧
    (stage1 gz p body).1.isChunked = p.isChunked ∧ (stage1 gz p body).1.ty = p.ty ∧
    (stage1 gz p body).1.method = p.method ∧ (stage1 gz p body).1.version = p.version ∧
    (stage1 gz p body).1.path = p.path := by
  unfold stage1
  rw [bn_content_encoding, bn_gzip]
  rcases hh : p.headers with _ | h
  · simp [hasHeader, hh, updBody, isGzip, hdrGet_nil, hdrDel]
  · simp only [hasHeader, hh, header, lower_kCE, Option.getD_some]
    by_cases hany : h.any (·.1 == kCE) = true
    · have hsome : (hdrGet h kCE).isSome = true := by rw [← any_key_iff_hdrGet]; exact hany
      obtain ⟨nv, hnv⟩ := Option.isSome_iff_exists.1 hsome
      simp only [hany, if_true, hnv]
      by_cases hg : (nv.2 == vGzip) = true
      · have hz : isGzip h = true := by simp [isGzip, hnv, hg]
        simp [hg, updBody, hz, hh]
      · have hz : isGzip h = false := by simp [isGzip, hnv, hg]
        have hd := delHeader_same p kCE
        have hg' := delHeader_getD p kCE
        rw [hh, lower_kCE] at hg'
        simp only [hg, Bool.false_eq_true, if_false, updBody, hz]
        exact ⟨trivial, by simpa using hg', hd.1, hd.2.1, hd.2.2.1, hd.2.2.2.1, hd.2.2.2.2.1⟩
    · have hany' : h.any (·.1 == kCE) = false := by
        cases hb : h.any (·.1 == kCE) with
        | false => rfl
        | true => exact absurd hb hany
      have hz : isGzip h = false := by simp [isGzip, hdrGet_none_of_no_key h kCE hany']
      simp [hany', updBody, hz, hh, hdrDel_of_no_key h kCE hany']

theorem stage1_line (gz : Bytes → Bytes) (p : Parser) (body : Bytes) :
    (stage1 gz p body).1.code = p.code ∧ (stage1 gz p body).1.reason = p.reason := by
  unfold stage1
  split
  · split
    · split
      · exact ⟨rfl, rfl⟩
      · exact delHeader_line p _
    · exact ⟨rfl, rfl⟩
  · exact ⟨rfl, rfl⟩

theorem updateBody_chunked (gz : Bytes → Bytes) (bufSize : Nat) (p : Parser) (body ct : Bytes)
    (hch : p.isChunked = true) :
    ∃ p' : Parser, updateBody gz bufSize p body ct = .ok p' ∧
      UpdChunked p p' (updHeadersCh (p.headers.getD []) ct) (updBody gz (p.headers.getD []) body) ∧
      p'.code = p.code ∧ p'.reason = p.reason := by
  obtain ⟨e1, hh1, hc1, ht1, hm1, hv1, hp1⟩ := stage1_spec gz p body
  obtain ⟨hcd, hrs⟩ := stage1_line gz p body
  rw [updateBody_stages]
  unfold stage2
  rw [bn_Content_Type, bn_content_length, e1, hc1, hch]
  simp only [if_true]
  have hd := delHeader_same (stage1 gz p body).1 kCL
  have hd2 := delHeader_line (stage1 gz p body).1 kCL
  refine ⟨_, rfl, ?_, ?_, ?_⟩
  · refine ⟨hd.2.1.trans ht1, hd.2.2.1.trans hm1, hd.2.2.2.1.trans hv1, hd.2.2.2.2.1.trans hp1, ?_, ?_, rfl⟩
    · show (delHeader (stage1 gz p body).1 kCL).isChunked = true
      exact hd.1.trans (hc1.trans hch)
    · show (addHeader _ nCT ct).headers = _
      simp only [addHeader, lower_nCT]
      show some (hdrSet ((delHeader (stage1 gz p body).1 kCL).headers.getD []) kCT (nCT, ct)) = _
      rw [delHeader_getD, hh1, lower_kCL]
      rfl
  · show (delHeader (stage1 gz p body).1 kCL).code = p.code
    exact hd2.1.trans hcd
  · show (delHeader (stage1 gz p body).1 kCL).reason = p.reason
    exact hd2.2.trans hrs

theorem mem_hdrSet_of_mem {h : Headers} {k : Bytes} {x : Bytes × Bytes} {a : Bytes × (Bytes × Bytes)}
    (ha : a ∈ h) (hne : a.1 ≠ k) : a ∈ hdrSet h k x := by
  unfold hdrSet
  split
  · simp only [List.mem_map]
    exact ⟨a, ha, by simp [hne]⟩
  · simp [ha]

theorem hdrInvB_updCh (h : Headers) (ct : Bytes) (hi : hdrInvB h = true) (hct : wfValue ct = true) :
    hdrInvB (updHeadersCh h ct) = true := by
  unfold updHeadersCh
  have h1 : hdrInvB (if isGzip h then h else hdrDel h kCE) = true := by
    split
    · exact hi
    · exact hdrInvB_hdrDel hi _
  have h3 := hdrInvB_hdrSet (hdrInvB_hdrDel h1 kCL) (name := nCT) (value := ct) wfName_nCT hct
  rw [lower_nCT] at h3
  exact h3

theorem updCh_facts (h : Headers) (ct : Bytes) (hi : hdrInvB h = true) (hct : wfValue ct = true)
    (hte : ∃ a ∈ h, isTEChunked a.2 = true) :
    hdrInvB (updHeadersCh h ct) = true ∧ updHeadersCh h ct ≠ [] ∧
    (∃ e ∈ namesOf (updHeadersCh h ct), isTEChunked e = true) ∧
    (∀ e ∈ namesOf (updHeadersCh h ct), isCL e = false) := by
  have hinv := hdrInvB_updCh h ct hi hct
  obtain ⟨a, ha, hac⟩ := hte
  have hak : a.1 = kTE := by
    rw [((hdrInvB_spec hi).2 a ha).1]; exact isTEChunked_key hac
  have hmemTE : a ∈ updHeadersCh h ct := by
    unfold updHeadersCh
    apply mem_hdrSet_of_mem _ (by rw [hak]; decide)
    unfold hdrDel
    rw [List.mem_filter]
    refine ⟨?_, by rw [hak]; decide⟩
    split
    · exact ha
    · show a ∈ List.filter _ _
      rw [List.mem_filter]; exact ⟨ha, by rw [hak]; decide⟩
  refine ⟨hinv, fun e => by rw [e] at hmemTE; simp at hmemTE, ?_, ?_⟩
  · exact ⟨a.2, by simp only [namesOf, List.mem_map]; exact ⟨a, hmemTE, rfl⟩, hac⟩
  · intro e he
    simp only [namesOf, List.mem_map] at he
    obtain ⟨c, hc, rfl⟩ := he
    have hk := ((hdrInvB_spec hinv).2 c hc).1
    apply isCL_false_of
    rw [← hk]
    unfold updHeadersCh at hc
    rcases mem_hdrSet hc with rfl | ⟨hc, -⟩
    · show kCT ≠ kCL; decide
    · have := (List.mem_filter.1 hc).2
      simpa using this

/-- **update_body, chunked request**: `update_body` stores the new (possibly compressed) body decoded
    and drops `content-length`; `build()` chunk-encodes it once; the rebuilt message is read back
    complete and chunked, with the expected header map, and **decodes to the new body**. -/
theorem update_body_req_chunked (cfg : Cfg) (gz : Bytes → Bytes) (bufSize : Nat) (hbs : bufSize ≠ 0)
    (p : Parser) (meth ver body ct : Bytes) (g : ReqGuard p meth ver) (hch : p.isChunked = true)
    (hte : ∃ a ∈ p.headers.getD [], isTEChunked a.2 = true) (hct : wfValue ct = true) :
    ∃ p' raw r, updateBody gz bufSize p body ct = .ok p' ∧
      p'.body = some (updBody gz (p.headers.getD []) body) ∧
      Px.Build.build bufSize Px.Gen.defaultDisableHeaders p' none none = .ok raw ∧
      parse cfg (init .request) raw = .ok r ∧ r.state = .complete ∧ r.isChunked = true ∧
      r.method = some meth ∧ r.version = some ver ∧ r.path = some (pathOf p) ∧
      r.headers = some (updHeadersCh (p.headers.getD []) ct) ∧
      r.body = some (updBody gz (p.headers.getD []) body) ∧ r.buffer = none := by
  obtain ⟨hty, hm, hv, hmt, hvt, hpt, hpo, hi⟩ := g
  obtain ⟨p', hupd, ⟨q1, q2, q3, q4, q5, q6, q7⟩, -, -⟩ := updateBody_chunked gz bufSize p body ct hch
  obtain ⟨hinv, hne, hTE, hnoCL⟩ := updCh_facts (p.headers.getD []) ct hi hct hte
  have hpath : pathOf p' = pathOf p := by unfold pathOf; rw [q4]
  have g' : ReqGuard p' meth ver :=
    ⟨q1.trans hty, q2.trans hm, q3.trans hv, hmt, hvt, hpath ▸ hpt, hpath ▸ hpo, by rw [q6]; exact hinv⟩
  have hpairs : hdrPairs p' = namesOf (updHeadersCh (p.headers.getD []) ct) := by
    unfold hdrPairs; rw [q6]; rfl
  obtain ⟨raw, r, h1, h2, h3⟩ := build_parse_req_chunked cfg bufSize hbs p' meth ver _ g' q5 q7
    (hpairs ▸ hTE) (fun e he hc => absurd hc (by rw [hnoCL e (hpairs ▸ he)]; simp))
  refine ⟨p', raw, r, hupd, q7, h1, h2, h3.state_eq, h3.chunked_eq, h3.method_eq, h3.version_eq, ?_, ?_,
    h3.body_eq, h3.buffer_eq⟩
  · rw [h3.path_eq, hpath]
  · rw [h3.headers_eq, hpairs]; exact hdrsOf_namesOf _ hinv hne

/-- **update_body, chunked response** -/
theorem update_body_resp_chunked (cfg : Cfg) (gz : Bytes → Bytes) (bufSize : Nat) (hbs : bufSize ≠ 0)
    (p : Parser) (ver code body ct : Bytes) (n : Int) (g : ResGuard p ver code n) (hch : p.isChunked = true)
    (hte : ∃ a ∈ p.headers.getD [], isTEChunked a.2 = true) (hct : wfValue ct = true) :
    ∃ p' raw r, updateBody gz bufSize p body ct = .ok p' ∧
      p'.body = some (updBody gz (p.headers.getD []) body) ∧
      buildResponseOf bufSize p' = .ok raw ∧
      parse cfg (init .response) raw = .ok r ∧ r.state = .complete ∧ r.isChunked = true ∧
      r.version = some ver ∧ r.code = some code ∧
      r.headers = some (updHeadersCh (p.headers.getD []) ct) ∧
      r.body = some (updBody gz (p.headers.getD []) body) ∧ r.buffer = none := by
  obtain ⟨hty, hv, hc, hvt, hcne, hci, hcc, hr, hi⟩ := g
  obtain ⟨p', hupd, ⟨q1, q2, q3, q4, q5, q6, q7⟩, qc, qr⟩ := updateBody_chunked gz bufSize p body ct hch
  obtain ⟨hinv, hne, hTE, hnoCL⟩ := updCh_facts (p.headers.getD []) ct hi hct hte
  have g' : ResGuard p' ver code n :=
    ⟨q1.trans hty, q3.trans hv, qc.trans hc, hvt, hcne, hci, hcc, by rw [qr]; exact hr, by rw [q6]; exact hinv⟩
  have hpairs : hdrPairs p' = namesOf (updHeadersCh (p.headers.getD []) ct) := by
    unfold hdrPairs; rw [q6]; rfl
  obtain ⟨raw, r, h1, h2, h3⟩ := build_parse_resp_chunked cfg bufSize hbs p' ver code _ n g' q5 q7
    (hpairs ▸ hTE) (fun e he hc' => absurd hc' (by rw [hnoCL e (hpairs ▸ he)]; simp))
  refine ⟨p', raw, r, hupd, q7, h1, h2, h3.state_eq, h3.chunked_eq, h3.version_eq, h3.code_eq, ?_,
    h3.body_eq, h3.buffer_eq⟩
  rw [h3.headers_eq, hpairs]; exact hdrsOf_namesOf _ hinv hne

end Px.Codec
