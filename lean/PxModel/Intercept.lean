import PxModel.Pki
import PxModel.Relay
/-
  Decision logic and data flow of TLS interception, statement by statement:

    proxy/http/proxy/server.py   HttpProxyPlugin._tls_intercept_enabled,
                                 on_request_complete (the `if self.upstream:` /
                                 `is_https_tunnel` tail), intercept, wrap_server,
                                 wrap_client, generate_upstream_certificate,
                                 gen_ca_signed_certificate
    proxy/core/connection/server.py  TcpServerConnection.wrap
    proxy/core/connection/client.py  TcpClientConnection.wrap
    proxy/common/utils.py        tls_interception_enabled
    proxy/http/handler.py + core/base/tcp_server.py   what the handler does with the value
                                 returned by on_request_complete (state handed to `Px.Relay`)

  OpenSSL is a PARAMETER: the outcome of the upstream handshake for the
  settings the code passes (`Env.handshake`), the outcome of the client-side
  handshake (`Env.clientWrap`), the decoded subject of the peer certificate,
  the outcome of every `openssl` CLI invocation, the file system probe
  `os.path.isfile`, the `uuid4` temp names and the serial are inputs.
  The output is the ordered log of effects plus the value returned to the
  handler and the state the relay (`Px.Relay`) continues from.

  Scope: the upstream connection exists (`connect_upstream` succeeded, no
  connection pool), the request is a CONNECT, `request.host` decodes as UTF-8
  (otherwise `connect_upstream` has already answered 502), the client has an
  address (`assert self.addr` in `TcpClientConnection.wrap`), the peer presents
  a certificate.  `plugin.do_intercept` answers are the inputs `answers`.
-/
namespace Px.Intercept
open Px Px.Pki

/-- the flags the logic reads -/
structure Cfg where
  caKeyFile : Option Str
  caCertFile : Option Str
  caSigningKeyFile : Option Str
  caCertDir : Option Str
  /-- `--ca-file`: trust store for upstream verification -/
  caFile : Option Str
  /-- `--insecure-tls-interception` -/
  insecure : Bool
  /-- `--openssl` -/
  openssl : Str
  deriving DecidableEq, Repr

/-- `tls_interception_enabled(flags)`: all four `is not None` -/
def Cfg.enabled (c : Cfg) : Bool :=
  c.caKeyFile.isSome && c.caCertDir.isSome && c.caSigningKeyFile.isSome && c.caCertFile.isSome

/-- Python truthiness of an `Optional[str]` flag -/
def truthy : Option Str → Bool
  | some s => !s.isEmpty
  | none => false

/-- settings of the upstream TLS context at `wrap_socket` time
    (`verifyNone` ⇔ `verify_mode == CERT_NONE`, else `CERT_REQUIRED`) -/
structure WrapParams where
  serverHostname : Option Str
  caFile : Option Str
  verifyNone : Bool
  checkHostname : Bool
  deriving DecidableEq, Repr

/-- `TcpServerConnection.wrap(hostname, ca_file, verify_mode=…)`:
    `ctx = create_default_context(SERVER_AUTH, cafile=ca_file)`;
    `ctx.check_hostname = False if verify_mode == CERT_NONE else hostname is not None`;
    `ctx.verify_mode = verify_mode`; `ctx.wrap_socket(conn, server_hostname=hostname)` -/
def serverWrapParams (hostname : Option Str) (caFile : Option Str) (verifyNone : Bool) : WrapParams :=
  { serverHostname := hostname, caFile := caFile, verifyNone := verifyNone,
    checkHostname := if verifyNone then false else hostname.isSome }

/-- outcome of the upstream `wrap_socket`: handshake completed,
    `ssl.SSLCertVerificationError`, another `ssl.SSLError`, another `OSError` -/
inductive HsOut | ok | certVerification | sslError | osError
  deriving DecidableEq, Repr

/-- outcome of one openssl invocation: return code 0, non-zero (`assert resp is True`
    fails), `subprocess.TimeoutExpired` -/
inductive CmdOut | ok | failed | timeout
  deriving DecidableEq, Repr

/-- outcome of `client.wrap(keyfile, certfile)`: done; the `flush()` of the pending
    acknowledgement raised (`BrokenPipeError` / `OSError`); flushed, then
    `load_cert_chain` / the handshake raised (`SSLError`, `OSError`) -/
inductive CwOut | ok | flushFailed | hsFailed
  deriving DecidableEq, Repr

inductive Exc | assertion | httpProtocol | osError
  deriving DecidableEq, Repr

structure Env where
  /-- OpenSSL's verdict on the upstream handshake under the given settings -/
  handshake : WrapParams → HsOut
  /-- `{s[0][0]: s[0][1] for s in cert['subject']}` of the upstream leaf, in order -/
  subject : List (Str × Str)
  /-- files present in the cache directory before this CONNECT -/
  fs : List Str
  /-- outcome of the k-th openssl invocation of this CONNECT -/
  cmd : Nat → CmdOut
  /-- `uuid4` temp path of the k-th invocation -/
  tmp : Nat → Str
  /-- `'%d%d' % (time.time(), os.getpid())` -/
  serial : Str
  clientWrap : CwOut
  /-- which names `ipaddress.ip_address` accepts (decides `IP:` vs `DNS:` in the leaf's SAN) -/
  isIp : Str → Bool := fun _ => false

inductive Eff
  /-- `self.client.queue(pkt)` -/
  | queueClient (pkt : Bytes)
  /-- `plugin.do_intercept(request)` of the i-th plugin -/
  | ask (i : Nat)
  /-- `self.upstream.wrap(...)`: the context settings and what `wrap_socket` did -/
  | wrapUpstream (p : WrapParams) (out : HsOut)
  /-- `os.path.isfile(path)` -/
  | isfile (path : Str) (res : Bool)
  | openssl (c : Call) (out : CmdOut)
  /-- `self.client.wrap(keyfile, certfile)` with the buffer it finds pending -/
  | wrapClient (keyfile certfile : Str) (pending : List Bytes) (out : CwOut)
  deriving DecidableEq, Repr

/-- value of `on_request_complete` as the handler sees it -/
inductive Res
  /-- `False`: no interception, plain tunnel -/
  | plain
  /-- the wrapped client socket (`self.work._conn = output`) -/
  | sslSocket
  /-- `True` -/
  | teardown
  | raised (e : Exc)
  deriving DecidableEq, Repr

/-- state left behind for the relay -/
structure Post where
  res : Res
  clientTls : Bool
  upstreamTls : Bool
  /-- the upstream socket object was detached by the failed `wrap_socket`
      (`fileno() == -1`, the descriptor itself is closed) -/
  upstreamDetached : Bool
  /-- what is still queued for the client -/
  clientBuf : List Bytes
  /-- files present afterwards -/
  fs : List Str
  deriving DecidableEq, Repr

/-! ### `_tls_intercept_enabled` -/

/-- the plugin loop: `do_intercept = plugin.do_intercept(request); if do_intercept is False: break`.
    An answer is `some true`, `some false` or `none` (any value that is falsy without
    being `False`, e.g. `None`); `cur` is the value `do_intercept` holds. -/
def chainAux (i : Nat) (cur : Option Bool) : List (Option Bool) → Option Bool × List Eff
  | [] => (cur, [])
  | a :: rest =>
    if a = some false then (some false, [.ask i])
    else
      let r := chainAux (i + 1) a rest
      (r.1, .ask i :: r.2)

/-- truthiness of the value the property returns -/
def isTrue : Option Bool → Bool
  | some true => true
  | _ => false

/-- `self._tls_intercept_enabled` as a condition: `(truthiness, plugins asked)` -/
def tlsInterceptEnabled (cfg : Cfg) (answers : List (Option Bool)) : Bool × List Eff :=
  if !cfg.enabled then (false, [])
  else
    let r := chainAux 0 (some true) answers
    (isTrue r.1, r.2)

/-! ### certificate generation -/

def validityDays : Nat := 365 * 2

/-- result of the generation steps: effects, files afterwards, how it ended -/
inductive GenEnd | done | assertion | timeout
  deriving DecidableEq, Repr

/-- one guarded step `if not os.path.isfile(path): resp = cmd; assert resp is True`;
    `k` counts the openssl invocations made so far -/
def genStep (env : Env) (fs : List Str) (k : Nat) (path : Str) (call : Str → Call) :
    List Eff × List Str × Nat × GenEnd :=
  if fs.contains path then ([.isfile path true], fs, k, .done)
  else
    let c := call (env.tmp k)
    match env.cmd k with
    | .ok => ([.isfile path false, .openssl c .ok], fs ++ [c.out], k + 1, .done)
    | .failed => ([.isfile path false, .openssl c .failed], fs, k + 1, .assertion)
    | .timeout => ([.isfile path false, .openssl c .timeout], fs, k + 1, .timeout)

/-- sequencing of the guarded steps: the next one runs only when the previous one
    ended normally (an `AssertionError` / `TimeoutExpired` leaves the function) -/
def andThen (r : List Eff × List Str × Nat × GenEnd)
    (next : List Str → Nat → List Eff × List Str × Nat × GenEnd) : List Eff × List Str × Nat × GenEnd :=
  match r.2.2.2 with
  | .done =>
    let n := next r.2.1 r.2.2.1
    (r.1 ++ n.1, n.2)
  | _ => r

/-- `gen_ca_signed_certificate(cert_file_path, certificate)`: public key (self-signed
    certificate carrying the SAN), CSR, CA signature — each behind its own `isfile` guard -/
def genCaSigned (cfg : Cfg) (env : Env) (host : Str) (fs : List Str) : List Eff × List Str × Nat × GenEnd :=
  let dir := cfg.caCertDir.getD []
  let signKey := cfg.caSigningKeyFile.getD []
  -- `alt_subj_names = [text_(request.host) without one pair of surrounding brackets]`
  let alt := some [stripBrackets host]
  let subject := buildSubject env.subject
  let pub := pubKeyPath dir host
  let csr := csrPath dir host
  let crt := certFilePath dir host
  andThen
    (andThen
      (genStep env fs 0 pub (fun tmp => genPublicKey env.isIp cfg.openssl pub signKey [] subject alt none validityDays tmp))
      (fun fs1 k1 => genStep env fs1 k1 csr (fun _ => genCsr cfg.openssl csr signKey [] pub)))
    (fun fs2 k2 => genStep env fs2 k2 crt
      (fun tmp => signCsr env.isIp cfg.openssl csr crt (cfg.caKeyFile.getD []) [] (cfg.caCertFile.getD [])
                    env.serial alt none validityDays tmp))

/-- `generate_upstream_certificate(certificate)`: `none` = `HttpProtocolException`
    (a mandatory flag is falsy) -/
def generateUpstreamCertificate (cfg : Cfg) (env : Env) (host : Str) :
    Option (List Eff × List Str × GenEnd) :=
  if !(truthy cfg.caCertDir && truthy cfg.caSigningKeyFile && truthy cfg.caCertFile && truthy cfg.caKeyFile) then
    none
  else
    let crt := certFilePath (cfg.caCertDir.getD []) host
    if env.fs.contains crt then some ([.isfile crt true], env.fs, .done)
    else
      let r := genCaSigned cfg env host env.fs
      some (.isfile crt false :: r.1, r.2.1, r.2.2.2)

/-- the acknowledgement `PROXY_TUNNEL_ESTABLISHED_RESPONSE_PKT` -/
def ack : Bytes := Gen.pkt_PROXY_TUNNEL_ESTABLISHED_RESPONSE_PKT

/-- `wrap_client()` then the rest of `intercept()`; the client buffer holds `[ack]` -/
def wrapClient (cfg : Cfg) (env : Env) (host : Str) : List Eff × Post :=
  match generateUpstreamCertificate cfg env host with
  | none =>
    ([], { res := .raised .httpProtocol, clientTls := false, upstreamTls := true, upstreamDetached := false,
           clientBuf := [ack], fs := env.fs })
  | some (effs, fs, .assertion) =>
    (effs, { res := .raised .assertion, clientTls := false, upstreamTls := true, upstreamDetached := false,
             clientBuf := [ack], fs := fs })
  | some (effs, fs, .timeout) =>
    (effs, { res := .teardown, clientTls := false, upstreamTls := true, upstreamDetached := false,
             clientBuf := [ack], fs := fs })
  | some (effs, fs, .done) =>
    let key := cfg.caSigningKeyFile.getD []
    let crt := certFilePath (cfg.caCertDir.getD []) host
    let w := Eff.wrapClient key crt [ack] env.clientWrap
    match env.clientWrap with
    | .ok =>
      (effs ++ [w], { res := .sslSocket, clientTls := true, upstreamTls := true, upstreamDetached := false,
                      clientBuf := [], fs := fs })
    | .flushFailed =>
      (effs ++ [w], { res := .teardown, clientTls := false, upstreamTls := true, upstreamDetached := false,
                      clientBuf := [ack], fs := fs })
    | .hsFailed =>
      (effs ++ [w], { res := .teardown, clientTls := false, upstreamTls := true, upstreamDetached := false,
                      clientBuf := [], fs := fs })

/-- `wrap_server()`'s call: `self.upstream.wrap(server_hostname, self.flags.ca_file,
    as_non_blocking=True, verify_mode=CERT_NONE if insecure else CERT_REQUIRED)` where
    `server_hostname` is `text_(self.request.host)` without one pair of surrounding brackets -/
def upstreamParams (cfg : Cfg) (host : Str) : WrapParams :=
  serverWrapParams (some (stripBrackets host)) cfg.caFile cfg.insecure

/-- `intercept()`: `wrap_server()`; on failure return at once; else `wrap_client()` -/
def intercept (cfg : Cfg) (env : Env) (host : Str) : List Eff × Post :=
  let p := upstreamParams cfg host
  let out := env.handshake p
  let e := Eff.wrapUpstream p out
  match out with
  | .ok =>
    let r := wrapClient cfg env host
    (e :: r.1, r.2)
  | .certVerification | .sslError =>
    ([e], { res := .teardown, clientTls := false, upstreamTls := false, upstreamDetached := true,
            clientBuf := [ack], fs := env.fs })
  | .osError =>
    ([e], { res := .raised .osError, clientTls := false, upstreamTls := false, upstreamDetached := true,
            clientBuf := [ack], fs := env.fs })

/-- the tail of `on_request_complete` for a CONNECT whose upstream is connected:
    `self.client.queue(PROXY_TUNNEL_ESTABLISHED_RESPONSE_PKT);
     if self._tls_intercept_enabled: return self.intercept()` … `return False` -/
def onConnect (cfg : Cfg) (answers : List (Option Bool)) (env : Env) (host : Str) : List Eff × Post :=
  let d := tlsInterceptEnabled cfg answers
  if d.1 then
    let r := intercept cfg env host
    (.queueClient ack :: d.2 ++ r.1, r.2)
  else
    (.queueClient ack :: d.2,
     { res := .plain, clientTls := false, upstreamTls := false, upstreamDetached := false,
       clientBuf := [ack], fs := env.fs })

/-! ### what the relay continues from -/

/-- how later client bytes are treated (`on_client_data`): `request.is_complete and
    (not is_https_tunnel or self._tls_intercept_enabled)` → parsed as follow-up HTTP
    requests and rebuilt (the C02/C04 path, `Relay.Kind.http`), else queued verbatim
    (`Relay.Kind.tunnel`) -/
def relayKind (cfg : Cfg) (answers : List (Option Bool)) : Relay.Kind :=
  if (tlsInterceptEnabled cfg answers).1 then .http else .tunnel

/-- the `Px.Relay` state after the tick that processed the CONNECT, for the
    outcomes after which the handler keeps running:
    * `plain` / `sslSocket`: `handle_data` returned `False`;
    * `teardown`: `handle_data` returned `True`: `must_flush_before_shutdown` when
      the acknowledgement is still queued, else `handle_readables` returns `True`
      and `reads_teared` is set;
    * `raised httpProtocol`: caught by `handle_data` (`e.response(request)` is `None`),
      which returns `True`: as `teardown`;
    * `raised osError`: caught by `HttpProtocolHandler.handle_readables`
      (`except socket.error: return True`) → `reads_teared`;
    * `raised assertion`: escapes `handle_events`; the executor shuts the work down (`none`). -/
def relayState (cfg : Cfg) (answers : List (Option Bool)) (maxSend : Nat) (p : Post) : Option Relay.St :=
  let k := relayKind cfg answers
  let closing := Relay.st0 k maxSend p.clientBuf [] (!p.clientBuf.isEmpty) p.clientBuf.isEmpty
  match p.res with
  | .plain | .sslSocket => some (Relay.st0 k maxSend p.clientBuf [] false false)
  | .teardown => some closing
  | .raised .httpProtocol => some closing
  | .raised .osError => some (Relay.st0 k maxSend p.clientBuf [] false true)
  | .raised .assertion => none

/-! ### reference verdict used by the driver (and by nothing else)

  The theorems quantify over every `Env.handshake`; the driver needs one
  concrete instance to compare runs of the real OpenSSL against. -/

/-- situations of the origin's certificate exercised by the harness -/
inductive CertSituation
  | trusted | selfSigned | untrustedIssuer | wrongName | expired
  /-- not a TLS server at all: answers the ClientHello with clear text -/
  | garbage
  /-- goes away during the handshake: the proxy's socket reports a connection reset -/
  | reset
  deriving DecidableEq, Repr

def chainOk : CertSituation → Bool
  | .trusted | .wrongName => true
  | _ => false

/-- the certificate names the bare host; a bracketed reference name never matches -/
def nameOk (s : CertSituation) (p : WrapParams) : Bool :=
  s != .wrongName && !(isBracketed (p.serverHostname.getD []))

/-- chain verification unless `CERT_NONE`, name check iff `check_hostname` -/
def refHandshake (s : CertSituation) (p : WrapParams) : HsOut :=
  if s = .garbage then .sslError
  else if s = .reset then .osError
  else if p.verifyNone then .ok
  else if chainOk s && (!p.checkHostname || nameOk s p) then .ok
  else .certVerification

end Px.Intercept
