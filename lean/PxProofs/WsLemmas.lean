import PxModel.Ws
/-! Helper lemmas for C16 (WebSocket frame codec). -/
namespace Px.Ws

theorem maskAux_inv (m : Bytes) (i : Nat) (d : Bytes) : maskAux m i (maskAux m i d) = d := by
  induction d generalizing i with
  | nil => rfl
  | cons c cs ih => simp [maskAux, ih, UInt8.xor_assoc]

theorem maskAux_length (m : Bytes) (i : Nat) (d : Bytes) : (maskAux m i d).length = d.length := by
  induction d generalizing i with
  | nil => rfl
  | cons c cs ih => simp [maskAux, ih]

theorem applyMask_ok (d m : Bytes) (h : m.length = 4) : applyMask d m = .ok (maskAux m 0 d) := by
  unfold applyMask; rw [if_neg (by omega)]

theorem b0_rt : ∀ (fin r1 r2 r3 : Bool) (op : Fin 16),
    let b0 := bit fin 128 ||| bit r1 64 ||| bit r2 32 ||| bit r3 16 ||| op.val
    b0 ≤ 255 ∧ ((b0 &&& 128) != 0) = fin ∧ ((b0 &&& 64) != 0) = r1 ∧ ((b0 &&& 32) != 0) = r2 ∧
    ((b0 &&& 16) != 0) = r3 ∧ (b0 &&& 15) = op.val := by decide

theorem b1_rt : ∀ (m : Bool) (n : Fin 128),
    let b1 := bit m 128 ||| n.val
    b1 ≤ 255 ∧ ((b1 &&& 128) != 0) = m ∧ (b1 &&& 127) = n.val := by decide

theorem toNat_ofNat_le (n : Nat) (h : n ≤ 255) : (UInt8.ofNat n).toNat = n := by
  simp [UInt8.toNat_ofNat']; omega

theorem be2 (n : Nat) (h : n < 65536) : beDecode (beEncode 2 n) = n := by
  simp [beDecode, beEncode, UInt8.toNat_ofNat']; omega
theorem be8 (n : Nat) (h : n < 2^64) : beDecode (beEncode 8 n) = n := by
  simp [beDecode, beEncode, UInt8.toNat_ofNat']; omega

theorem take_append_len {α} (a x : List α) (n : Nat) (h : a.length = n) : (a ++ x).take n = a := by
  subst h; simp
theorem drop_append_len {α} (a x : List α) (n : Nat) (h : a.length = n) : (a ++ x).drop n = x := by
  subst h; simp

/-- header round trip: the second byte and extended length written by `lenHdr`
    are read back by `lenRest` for every length below 2^64 -/
theorem lenHdr_rt (m : Bool) (len : Nat) (h : len < 2 ^ 64) (x : Bytes) :
    ∃ c1 ext, lenHdr m len = .ok (c1 :: ext) ∧
      ((c1.toNat &&& 128) != 0) = m ∧
      lenRest (c1.toNat &&& 127) (ext ++ x) = .ok (len, x) := by
  unfold lenHdr
  by_cases h1 : len < 126
  · have := b1_rt m ⟨len, by omega⟩
    simp only at this
    refine ⟨_, [], by rw [if_pos h1], ?_, ?_⟩
    · rw [toNat_ofNat_le _ this.1]; exact this.2.1
    · rw [toNat_ofNat_le _ this.1, this.2.2]
      have : ¬ len = 126 := by omega
      have : ¬ len = 127 := by omega
      simp [lenRest, *]
  · by_cases h2 : len < 65536
    · have := b1_rt m ⟨126, by omega⟩
      simp only at this
      refine ⟨_, beEncode 2 len, by rw [if_neg h1, if_pos h2], ?_, ?_⟩
      · rw [toNat_ofNat_le _ this.1]; exact this.2.1
      · rw [toNat_ofNat_le _ this.1, this.2.2]
        have hl : (beEncode 2 len).length = 2 := by simp [beEncode]
        have ht := take_append_len _ x _ hl
        have hd := drop_append_len _ x _ hl
        simp [lenRest, ht, hd, hl, be2 len h2]
    · have := b1_rt m ⟨127, by omega⟩
      simp only at this
      refine ⟨_, beEncode 8 len, by rw [if_neg h1, if_neg h2, if_pos h], ?_, ?_⟩
      · rw [toNat_ofNat_le _ this.1]; exact this.2.1
      · rw [toNat_ofNat_le _ this.1, this.2.2]
        have hl : (beEncode 8 len).length = 8 := by simp [beEncode]
        have ht := take_append_len _ x _ hl
        have hd := drop_append_len _ x _ hl
        simp [lenRest, ht, hd, hl, be8 len h]


/-- Guard under which the real `build()` does not raise: 4-bit opcode, length
    below 2^64, and a 4-byte masking key when masked. -/
def Frame.WF (rnd : Bytes) (f : Frame) : Prop :=
  f.opcode < 16 ∧ f.data.length < 2 ^ 64 ∧ (f.masked = true → (f.mask.getD rnd).length = 4)

/-- What `parse` reports for the mask: the key used when masked, `None` otherwise. -/
def Frame.norm (rnd : Bytes) (f : Frame) : Frame :=
  { f with mask := if f.masked then some (f.mask.getD rnd) else none }

theorem bodyOut_finish (rnd : Bytes) (f : Frame) (b0 : Nat) (tail : Bytes)
    (hm : f.masked = true → (f.mask.getD rnd).length = 4) :
    ∃ body, bodyOut rnd f = .ok body ∧
      finish b0 f.masked f.data.length (body ++ tail) =
        .ok ({ fin := (b0 &&& 128) != 0, rsv1 := (b0 &&& 64) != 0, rsv2 := (b0 &&& 32) != 0,
               rsv3 := (b0 &&& 16) != 0, opcode := b0 &&& 15, masked := f.masked,
               mask := if f.masked then some (f.mask.getD rnd) else none, data := f.data }, tail) := by
  cases hmk : f.masked with
  | false =>
    refine ⟨f.data, by simp [bodyOut, hmk], ?_⟩
    simp [finish]
  | true =>
    have h4 := hm hmk
    by_cases he : f.data = []
    · refine ⟨f.mask.getD rnd, by simp [bodyOut, hmk, he], ?_⟩
      have ht := take_append_len _ tail _ h4
      have hd := drop_append_len _ tail _ h4
      simp [finish, ht, hd, he, applyMask_ok _ _ h4, maskAux]
    · refine ⟨f.mask.getD rnd ++ maskAux (f.mask.getD rnd) 0 f.data, ?_, ?_⟩
      · simp [bodyOut, hmk, he, applyMask_ok _ _ h4]
      · have ht := take_append_len (f.mask.getD rnd) (maskAux (f.mask.getD rnd) 0 f.data ++ tail) _ h4
        have hd := drop_append_len (f.mask.getD rnd) (maskAux (f.mask.getD rnd) 0 f.data ++ tail) _ h4
        have hl := maskAux_length (f.mask.getD rnd) 0 f.data
        have ht2 := take_append_len _ tail _ hl
        have hd2 := drop_append_len _ tail _ hl
        simp only [finish, List.append_assoc, ht, hd, ht2, hd2, if_true, applyMask_ok _ _ h4, maskAux_inv]

/-- C16 round trip, all frames: every flag combination, opcode, key, payload
    length below 2^64 and every tail. -/
theorem roundtrip_lemma (rnd : Bytes) (f : Frame) (tail : Bytes) (h : f.WF rnd) :
    ∃ raw, build rnd f = .ok raw ∧ parse (raw ++ tail) = .ok (f.norm rnd, tail) := by
  obtain ⟨hop, hlen, hm⟩ := h
  have hb0 := b0_rt f.fin f.rsv1 f.rsv2 f.rsv3 ⟨f.opcode, hop⟩
  simp only at hb0
  obtain ⟨body, hbody, hfin⟩ := bodyOut_finish rnd f (byte0 f) tail hm
  obtain ⟨c1, ext, hhdr, hmask, hrest⟩ := lenHdr_rt f.masked f.data.length hlen (body ++ tail)
  refine ⟨UInt8.ofNat (byte0 f) :: (c1 :: ext) ++ body, ?_, ?_⟩
  · unfold build
    rw [if_neg (by unfold byte0; omega), hhdr, hbody]
  · have e : (UInt8.ofNat (byte0 f) :: (c1 :: ext) ++ body) ++ tail
        = UInt8.ofNat (byte0 f) :: c1 :: (ext ++ (body ++ tail)) := by simp
    rw [e]
    unfold parse
    simp only [hrest, hmask, toNat_ofNat_le _ (show byte0 f ≤ 255 by unfold byte0; omega), hfin]
    unfold byte0 Frame.norm
    obtain ⟨_, h1, h2, h3, h4, h5⟩ := hb0
    simp only [h1, h2, h3, h4, h5]

theorem b0_sum : ∀ (fin r1 r2 r3 : Bool) (op : Fin 16),
    (bit fin 128 ||| bit r1 64 ||| bit r2 32 ||| bit r3 16 ||| op.val) =
    (if fin then 1 else 0) * 128 + (if r1 then 1 else 0) * 64 + (if r2 then 1 else 0) * 32 +
      (if r3 then 1 else 0) * 16 + op.val := by decide

theorem b1_sum : ∀ (m : Bool) (n : Fin 128), (bit m 128 ||| n.val) = (if m then 128 else 0) + n.val := by decide

theorem maskAux_zipIdx (key : Bytes) (i : Nat) (d : Bytes) :
    maskAux key i d = (d.zipIdx i).map (fun (c, j) => c ^^^ key.getD (j % 4) 0) := by
  induction d generalizing i with
  | nil => rfl
  | cons c cs ih => simp [maskAux, ih, List.zipIdx_cons]

theorem build_eq_rfc_lemma (rnd : Bytes) (f : Frame)
    (hop : f.opcode < 16) (hlen : f.data.length < 2 ^ 64)
    (hm : f.masked = true → (f.mask.getD rnd).length = 4) :
    build rnd f = .ok (rfcEncode f (f.mask.getD rnd)) := by
  have hb0 := b0_sum f.fin f.rsv1 f.rsv2 f.rsv3 ⟨f.opcode, hop⟩
  simp only at hb0
  have hle : ¬ byte0 f > 255 := by
    unfold byte0; rw [hb0]; cases f.fin <;> cases f.rsv1 <;> cases f.rsv2 <;> cases f.rsv3 <;> simp <;> omega
  have hbody : bodyOut rnd f = .ok (if f.masked then f.mask.getD rnd ++
      (f.data.zipIdx.map (fun (c, i) => c ^^^ (f.mask.getD rnd).getD (i % 4) 0)) else f.data) := by
    cases hmk : f.masked with
    | false => simp [bodyOut, hmk]
    | true =>
      have h4 := hm hmk
      by_cases he : f.data = []
      · simp [bodyOut, hmk, he]
      · simp [bodyOut, hmk, he, applyMask_ok _ _ h4, maskAux_zipIdx]
  have hhdr : lenHdr f.masked f.data.length = .ok (
      if f.data.length ≤ 125 then [UInt8.ofNat ((if f.masked then 128 else 0) + f.data.length)]
      else if f.data.length ≤ 65535 then [UInt8.ofNat ((if f.masked then 128 else 0) + 126),
          UInt8.ofNat (f.data.length / 256), UInt8.ofNat (f.data.length % 256)]
      else UInt8.ofNat ((if f.masked then 128 else 0) + 127) ::
        (List.range 8).map (fun i => UInt8.ofNat (f.data.length / 256 ^ (7 - i) % 256))) := by
    unfold lenHdr
    by_cases h1 : f.data.length < 126
    · have := b1_sum f.masked ⟨f.data.length, by omega⟩
      simp only at this
      rw [if_pos h1, if_pos (by omega), this]
    · by_cases h2 : f.data.length < 65536
      · have := b1_sum f.masked ⟨126, by omega⟩
        simp only at this
        rw [if_neg h1, if_pos h2, if_neg (by omega), if_pos (by omega), this]
        simp [beEncode]
        congr 1; omega
      · have := b1_sum f.masked ⟨127, by omega⟩
        simp only at this
        rw [if_neg h1, if_neg h2, if_pos hlen, if_neg (by omega), if_neg (by omega), this]
        simp [beEncode, List.range, List.range.loop]
  unfold build
  rw [if_neg hle, hhdr, hbody]
  unfold rfcEncode byte0
  rw [hb0]

end Px.Ws
