import PxModel.Bytes
import PxModel.PyInt
/-!
# General lemmas about the Python-`bytes` helpers of `PxModel/Bytes.lean`

Shared by the parser-family proofs (C02, C03, C06, C14, C15).  Sections:
`startsWith`, `splitCRLF`, `splitOnce1`, `splitN1`, `lstrip`/`rstrip`/`strip`,
`lower`, `pyInt`.  Everything is stated for arbitrary byte strings.
-/
namespace Px

/-! ### `startsWith` -/

theorem startsWith_iff (x p : Bytes) : startsWith x p = true ↔ ∃ t, x = p ++ t := by
  fun_induction startsWith x p with
  | case1 x => simp
  | case2 p ps => simp
  | case3 c cs p ps ih =>
    simp only [Bool.and_eq_true, beq_iff_eq, ih, List.cons_append, List.cons.injEq]
    constructor
    · rintro ⟨rfl, t, rfl⟩; exact ⟨t, rfl, rfl⟩
    · rintro ⟨t, rfl, rfl⟩; exact ⟨rfl, t, rfl⟩

@[simp] theorem startsWith_nil (x : Bytes) : startsWith x [] = true := by
  cases x <;> rfl

@[simp] theorem startsWith_append_self (p t : Bytes) : startsWith (p ++ t) p = true :=
  (startsWith_iff _ _).2 ⟨t, rfl⟩

theorem startsWith_self (p : Bytes) : startsWith p p = true := by
  simpa using startsWith_append_self p []

/-- a prefix test already decided on `x` (long enough) is not changed by appending -/
theorem startsWith_append_of_le (x y p : Bytes) (h : p.length ≤ x.length) :
    startsWith (x ++ y) p = startsWith x p := by
  fun_induction startsWith x p with
  | case1 x => simp
  | case2 p ps => simp at h
  | case3 c cs p ps ih =>
    simp only [List.length_cons, Nat.add_le_add_iff_right] at h
    simp [startsWith, ih h]

/-! ### `splitCRLF` (`x.split(CRLF, 1)`) -/

@[simp] theorem splitCRLF_nil : splitCRLF [] = none := rfl
@[simp] theorem splitCRLF_singleton (c : UInt8) : splitCRLF [c] = none := rfl

/-- a successful split decomposes the input around the separator -/
theorem splitCRLF_some_eq {x l r : Bytes} (h : splitCRLF x = some (l, r)) : x = l ++ CRLF ++ r := by
  fun_induction splitCRLF x generalizing l r with
  | case1 => simp at h
  | case2 => simp at h
  | case3 c d rest hc =>
    simp at h; obtain ⟨rfl, rfl⟩ := h
    simp at hc; simp [CRLF, hc]
  | case4 c d rest hc hn ih => simp_all
  | case5 c d rest hc l' r' hs ih =>
    simp_all
    obtain ⟨rfl, rfl⟩ := h
    simp [CRLF]

/-- the part before the separator contains no separator -/
theorem splitCRLF_some_left {x l r : Bytes} (h : splitCRLF x = some (l, r)) : splitCRLF l = none := by
  fun_induction splitCRLF x generalizing l r with
  | case1 => simp at h
  | case2 => simp at h
  | case3 c d rest hc => simp at h; obtain ⟨rfl, rfl⟩ := h; rfl
  | case4 c d rest hc hn ih => simp_all
  | case5 c d rest hc l' r' hs ih =>
    simp only [Option.some.injEq, Prod.mk.injEq] at h
    obtain ⟨rfl, rfl⟩ := h
    have hl := ih hs
    have he := splitCRLF_some_eq hs
    cases l' with
    | nil => rfl
    | cons e l'' =>
      simp only [CRLF, List.cons_append, List.cons.injEq] at he
      obtain ⟨rfl, -⟩ := he
      rw [splitCRLF, if_neg hc, hl]

theorem splitCRLF_some_length {x l r : Bytes} (h : splitCRLF x = some (l, r)) :
    x.length = l.length + 2 + r.length := by
  rw [splitCRLF_some_eq h]; simp [CRLF]; omega

/-- rendering: a line without CRLF, followed by CRLF, is split off exactly -/
theorem splitCRLF_render {l : Bytes} (h : splitCRLF l = none) (r : Bytes) :
    splitCRLF (l ++ CRLF ++ r) = some (l, r) := by
  fun_induction splitCRLF l with
  | case1 => simp [CRLF, splitCRLF]
  | case2 c =>
    simp only [CRLF, List.cons_append, List.nil_append, splitCRLF]
    by_cases hc : c = 13 <;> simp [hc]
  | case3 c d rest hc => simp at h
  | case4 c d rest hc hn ih =>
    have := ih hn
    simp only [List.cons_append] at this ⊢
    rw [splitCRLF, if_neg hc, this]
  | case5 c d rest hc l' r' hs ih => simp at h

theorem splitCRLF_some_iff {x l r : Bytes} :
    splitCRLF x = some (l, r) ↔ x = l ++ CRLF ++ r ∧ splitCRLF l = none :=
  ⟨fun h => ⟨splitCRLF_some_eq h, splitCRLF_some_left h⟩, fun ⟨h1, h2⟩ => h1 ▸ splitCRLF_render h2 r⟩

/-- bytes appended after the first CRLF land in the remainder -/
theorem splitCRLF_append_some {a l r : Bytes} (h : splitCRLF a = some (l, r)) (y : Bytes) :
    splitCRLF (a ++ y) = some (l, r ++ y) := by
  rw [splitCRLF_some_eq h, List.append_assoc]
  exact splitCRLF_render (splitCRLF_some_left h) (r ++ y)

/-- no CRLF in the whole ⇒ none in a prefix -/
theorem splitCRLF_none_of_append {a y : Bytes} (h : splitCRLF (a ++ y) = none) : splitCRLF a = none := by
  cases ha : splitCRLF a with
  | none => rfl
  | some p => obtain ⟨l, r⟩ := p; rw [splitCRLF_append_some ha] at h; simp at h

theorem splitCRLF_none_of_noLF {x : Bytes} (h : ∀ c ∈ x, c ≠ LF) : splitCRLF x = none := by
  fun_induction splitCRLF x with
  | case1 => rfl
  | case2 => rfl
  | case3 c d rest hc =>
    simp at hc; have := h d (by simp); simp [LF, hc.2] at this
  | case4 c d rest hc hn ih => rfl
  | case5 c d rest hc l' r' hs ih =>
    have := ih (fun c hc => h c (List.mem_cons_of_mem _ hc)); simp [hs] at this

theorem splitCRLF_none_of_noCR {x : Bytes} (h : ∀ c ∈ x, c ≠ CR) : splitCRLF x = none := by
  fun_induction splitCRLF x with
  | case1 => rfl
  | case2 => rfl
  | case3 c d rest hc =>
    simp at hc; have := h c (by simp); simp [CR, hc.1] at this
  | case4 c d rest hc hn ih => rfl
  | case5 c d rest hc l' r' hs ih =>
    have := ih (fun c hc => h c (List.mem_cons_of_mem _ hc)); simp [hs] at this

/-- CRLF-free `a` not ending in CR: the split of `a ++ y` is the split of `y` -/
theorem splitCRLF_append_none {a : Bytes} (h : splitCRLF a = none) (hl : a.getLast? ≠ some CR) (y : Bytes) :
    splitCRLF (a ++ y) = (splitCRLF y).map (fun p => (a ++ p.1, p.2)) := by
  fun_induction splitCRLF a with
  | case1 => simp only [List.nil_append]; cases splitCRLF y <;> rfl
  | case2 c =>
    have hc : c ≠ 13 := by simpa [CR] using hl
    cases y with
    | nil => simp
    | cons d y' =>
      simp only [List.cons_append, List.nil_append]
      rw [splitCRLF, if_neg (by simp [hc])]
      cases splitCRLF (d :: y') <;> simp
  | case3 c d rest hc => simp at h
  | case4 c d rest hc hn ih =>
    have := ih hn (by simpa [List.getLast?_cons_cons] using hl)
    simp only [List.cons_append] at this ⊢
    rw [splitCRLF, if_neg hc, this]
    cases splitCRLF y <;> simp
  | case5 c d rest hc l' r' hs ih => simp at h

/-! ### `splitOnce1` (`x.split(sep, 1)`, one-byte separator) -/

theorem splitOnce1_none_iff (sep : UInt8) (x : Bytes) : splitOnce1 sep x = none ↔ sep ∉ x := by
  fun_induction splitOnce1 sep x with
  | case1 => simp
  | case2 c cs hc => simp at hc; simp [hc]
  | case3 c cs hc hn ih =>
    simp only [beq_iff_eq] at hc
    simp [ih.1 hn, Ne.symm hc]
  | case4 c cs hc l r hs ih =>
    simp only [reduceCtorEq, List.mem_cons, not_or, false_iff, not_and, Decidable.not_not]
    intro _; false_or_by_contra; rename_i hn; simp [ih.2 hn] at hs

theorem splitOnce1_some_iff (sep : UInt8) (x l r : Bytes) :
    splitOnce1 sep x = some (l, r) ↔ x = l ++ sep :: r ∧ sep ∉ l := by
  fun_induction splitOnce1 sep x generalizing l r with
  | case1 => simp
  | case2 c cs hc =>
    simp only [beq_iff_eq] at hc; subst hc
    constructor
    · intro h; simp at h; obtain ⟨rfl, rfl⟩ := h; simp
    · rintro ⟨h1, h2⟩
      cases l with
      | nil => simp at h1; simp [h1]
      | cons e l' => simp at h1 h2; exact absurd h1.1 h2.1
  | case3 c cs hc hn ih =>
    simp only [beq_iff_eq] at hc
    have hnot := (splitOnce1_none_iff sep cs).1 hn
    simp only [reduceCtorEq, false_iff, not_and]
    intro h1 h2
    cases l with
    | nil => simp at h1; exact hc h1.1
    | cons e l' =>
      simp at h1 h2; apply hnot; rw [h1.2]; simp
  | case4 c cs hc l' r' hs ih =>
    simp only [beq_iff_eq] at hc
    have := (ih l' r').1 hs
    constructor
    · intro h; simp at h; obtain ⟨rfl, rfl⟩ := h
      refine ⟨by simp [this.1], ?_⟩
      simp [this.2, Ne.symm hc]
    · rintro ⟨h1, h2⟩
      cases l with
      | nil => simp at h1; exact absurd h1.1 hc
      | cons e l'' =>
        simp at h1 h2
        obtain ⟨rfl, h1⟩ := h1
        have := (ih l'' r).2 ⟨h1, h2.2⟩
        rw [hs] at this; simp at this; simp [this]

theorem splitOnce1_render (sep : UInt8) (l r : Bytes) (h : sep ∉ l) :
    splitOnce1 sep (l ++ sep :: r) = some (l, r) :=
  (splitOnce1_some_iff sep _ l r).2 ⟨rfl, h⟩

theorem splitOnce1_of_not_mem (sep : UInt8) (x : Bytes) (h : sep ∉ x) : splitOnce1 sep x = none :=
  (splitOnce1_none_iff sep x).2 h

/-! ### `splitN1` (`x.split(sep, n)`, one-byte separator) -/

@[simp] theorem splitN1_zero (sep : UInt8) (x : Bytes) : splitN1 sep 0 x = [x] := rfl

theorem splitN1_succ_of_not_mem (sep : UInt8) (n : Nat) (x : Bytes) (h : sep ∉ x) :
    splitN1 sep (n + 1) x = [x] := by
  rw [splitN1, splitOnce1_of_not_mem sep x h]

theorem splitN1_succ_render (sep : UInt8) (n : Nat) (l r : Bytes) (h : sep ∉ l) :
    splitN1 sep (n + 1) (l ++ sep :: r) = l :: splitN1 sep n r := by
  rw [splitN1, splitOnce1_render sep l r h]

/-- `(x ++ sep ++ y ++ sep ++ z).split(sep, 2) == [x, y, z]` when `x`, `y` are free of `sep` -/
theorem splitN1_three (sep : UInt8) (x y z : Bytes) (hx : sep ∉ x) (hy : sep ∉ y) :
    splitN1 sep 2 (x ++ sep :: (y ++ sep :: z)) = [x, y, z] := by
  rw [splitN1_succ_render sep 1 x _ hx, splitN1_succ_render sep 0 y _ hy, splitN1_zero]

/-! ### `lstrip` / `rstrip` / `strip` -/

/-- a leading whitespace byte is stripped -/
theorem strip_cons_ws {c : UInt8} (x : Bytes) (h : isWs c = true) : strip (c :: x) = strip x := by
  simp [strip, lstrip, h]

theorem lstrip_of_head {c : UInt8} {cs : Bytes} (h : isWs c = false) : lstrip (c :: cs) = c :: cs := by
  simp [lstrip, h]

theorem lstrip_eq_nil_iff (x : Bytes) : lstrip x = [] ↔ ∀ c ∈ x, isWs c = true := by
  induction x with
  | nil => simp [lstrip]
  | cons c cs ih =>
    by_cases h : isWs c = true <;> simp [lstrip, h, ih]

theorem lstrip_length_le (x : Bytes) : (lstrip x).length ≤ x.length := by
  induction x with
  | nil => simp [lstrip]
  | cons c cs ih => simp only [lstrip]; split <;> simp <;> omega

theorem lstrip_idem (x : Bytes) : lstrip (lstrip x) = lstrip x := by
  induction x with
  | nil => rfl
  | cons c cs ih =>
    by_cases h : isWs c = true
    · simp [lstrip, h, ih]
    · simp only [lstrip, h, Bool.false_eq_true, ↓reduceIte]

/-- `lstrip` only removes a prefix -/
theorem lstrip_suffix (x : Bytes) : ∃ p, x = p ++ lstrip x ∧ ∀ c ∈ p, isWs c = true := by
  induction x with
  | nil => exact ⟨[], rfl, by simp⟩
  | cons c cs ih =>
    by_cases h : isWs c = true
    · obtain ⟨p, hp, hw⟩ := ih
      refine ⟨c :: p, by simp [lstrip, h, ← hp], ?_⟩
      intro d hd; simp at hd; rcases hd with rfl | hd; exact h; exact hw d hd
    · exact ⟨[], by simp [lstrip, h], by simp⟩

theorem rstrip_eq_nil_iff (x : Bytes) : rstrip x = [] ↔ ∀ c ∈ x, isWs c = true := by
  simp [rstrip, lstrip_eq_nil_iff]

/-- `x.strip() == b''` exactly when `x` is all ASCII whitespace -/
theorem strip_eq_nil_iff (x : Bytes) : strip x = [] ↔ ∀ c ∈ x, isWs c = true := by
  unfold strip
  rw [rstrip_eq_nil_iff]
  obtain ⟨p, hp, hw⟩ := lstrip_suffix x
  constructor
  · intro h c hc; rw [hp] at hc; simp at hc; rcases hc with hc | hc; exact hw c hc; exact h c hc
  · intro h c hc; apply h; rw [hp]; simp [hc]

theorem strip_isEmpty_iff (x : Bytes) : (strip x).isEmpty = true ↔ ∀ c ∈ x, isWs c = true := by
  rw [List.isEmpty_iff, strip_eq_nil_iff]

/-- a string that starts and ends with non-whitespace is unchanged by `strip` -/
theorem strip_eq_self {x : Bytes} (hh : ∀ c, x.head? = some c → isWs c = false)
    (hl : ∀ c, x.getLast? = some c → isWs c = false) : strip x = x := by
  have h1 : lstrip x = x := by
    cases x with
    | nil => rfl
    | cons c cs => exact lstrip_of_head (hh c rfl)
  unfold strip rstrip; rw [h1]
  have h2 : lstrip x.reverse = x.reverse := by
    cases hr : x.reverse with
    | nil => rfl
    | cons c cs =>
      apply lstrip_of_head; apply hl
      rw [List.getLast?_eq_head?_reverse, hr]; rfl
  rw [h2, List.reverse_reverse]

theorem strip_nil : strip [] = [] := rfl

/-- a string with a non-whitespace byte does not strip to empty -/
theorem strip_ne_nil {x : Bytes} {c : UInt8} (hc : c ∈ x) (hw : isWs c = false) : strip x ≠ [] := by
  intro h; have := (strip_eq_nil_iff x).1 h c hc; simp [hw] at this

/-! ### `lower` -/

@[simp] theorem lower_nil : lower [] = [] := rfl
@[simp] theorem lower_length (x : Bytes) : (lower x).length = x.length := by simp [lower]
theorem lower_append (x y : Bytes) : lower (x ++ y) = lower x ++ lower y := by simp [lower]

theorem lowerByte_idem (c : UInt8) : lowerByte (lowerByte c) = lowerByte c := by
  unfold lowerByte
  by_cases h : (65 ≤ c && c ≤ 90) = true
  · simp only [h, if_true]
    have : ¬ ((65 ≤ c + 32 && c + 32 ≤ 90) = true) := by
      simp only [Bool.and_eq_true, decide_eq_true_eq, UInt8.le_iff_toNat_le, UInt8.toNat_add] at h ⊢
      have : (32 : UInt8).toNat = 32 := rfl
      have : (65 : UInt8).toNat = 65 := rfl
      have : (90 : UInt8).toNat = 90 := rfl
      omega
    simp only [this]; simp
  · simp only [h, Bool.false_eq_true, if_false]

theorem lower_idem (x : Bytes) : lower (lower x) = lower x := by
  simp [lower, lowerByte_idem]

/-- bytes outside `A`–`Z` are fixed by `lower` -/
theorem lower_eq_self {x : Bytes} (h : ∀ c ∈ x, ¬ (65 ≤ c ∧ c ≤ 90)) : lower x = x := by
  induction x with
  | nil => rfl
  | cons c cs ih =>
    have hc := h c (by simp)
    have : lowerByte c = c := by
      unfold lowerByte; split
      · rename_i h'; simp at h'; exact absurd h' hc
      · rfl
    simp only [lower, List.map_cons, this] at ih ⊢
    rw [ih (fun d hd => h d (List.mem_cons_of_mem _ hd))]

/-! ### `pyInt` (`int(text, base)`) -/

/-- `int()` of an all-whitespace (or empty) text raises -/
theorem pyInt_ws_none (base : Nat) (s : Bytes) (h : ∀ c ∈ s, isWs c = true) : pyInt base s = none := by
  have hl : lstrip s = [] := (lstrip_eq_nil_iff s).2 h
  unfold pyInt
  simp only [hl]
  have : scanDigits base (if (base == 16) = true then [] else []) 0 0 0 = none := by
    simp [scanDigits]
  simp only [this]

end Px
