import PxModel.Conn
/-! Lemmas about `Conn.queue` / `Conn.flush` (C01, C07). -/
namespace Px.Conn

theorem effMax_pos (m : Nat) : 0 < effMax m := by
  unfold effMax; split
  · decide
  · omega

/-- the bytes put on the wire followed by what is still queued is what was queued -/
theorem flush_wire_append (m : Nat) (c : Conn) (o : SendOut) :
    (flush m c o).wire ++ (flush m c o).conn.buffer.flatten = c.buffer.flatten := by
  unfold flush FlushRes.wire
  cases hb : c.buffer with
  | nil => simp [hb]
  | cons mv rest =>
    cases o with
    | sent k =>
      simp only
      split
      · rename_i h
        simp only [Option.getD_some, List.flatten_cons]
        have : min k (List.take (effMax m) mv).length = mv.length := h
        rw [List.take_take]
        have h2 : min (min k (List.take (effMax m) mv).length) (effMax m) ≥ mv.length := by
          rw [this]; simp [List.length_take] at this; omega
        rw [List.take_of_length_le h2]
      · simp only [Option.getD_some, List.flatten_cons]
        rw [List.take_take, ← List.append_assoc]
        congr 1
        have : min (min k (List.take (effMax m) mv).length) (effMax m) = min k (List.take (effMax m) mv).length := by
          simp [List.length_take]
        rw [this]
        exact List.take_append_drop _ _
    | blocking => simp [hb]
    | brokenPipe => simp [hb]
    | osError => simp [hb]
    | sslWantWrite => simp [hb]

theorem wire_length (m : Nat) (c : Conn) (o : SendOut) :
    (flush m c o).wire.length = (flush m c o).accepted := by
  unfold flush FlushRes.wire
  cases hb : c.buffer with
  | nil => simp
  | cons mv rest =>
    cases o <;> simp
    · split <;> simp [List.length_take] <;> omega

/-- `sent k` ⇒ exactly the first `accepted` queued bytes leave the buffer -/
theorem flush_drop (m : Nat) (c : Conn) (o : SendOut) :
    (flush m c o).conn.buffer.flatten = c.buffer.flatten.drop (flush m c o).accepted := by
  have h := flush_wire_append m c o
  have hl := wire_length m c o
  rw [← h, ← hl, List.drop_left]

/-- the bytes handed to `send` are a prefix of the queued bytes -/
theorem flush_offered_prefix (m : Nat) (c : Conn) (o : SendOut) (off : Bytes)
    (h : (flush m c o).offered = some off) : off <+: c.buffer.flatten := by
  unfold flush at h
  cases hb : c.buffer with
  | nil => simp [hb] at h
  | cons mv rest =>
    have : off = mv.take (effMax m) := by
      rw [hb] at h
      cases o <;> simp at h
      · split at h <;> simp at h <;> exact h.symm
      all_goals exact h.symm
    subst this
    simp only [List.flatten_cons]
    exact (List.take_prefix _ _).trans (List.prefix_append _ _)

/-- what `send` returned to `flush`: at most `k`, the element and the send cap -/
theorem flush_accepted (m : Nat) (c : Conn) (k : Nat) (mv : Bytes) (rest : List Bytes)
    (hb : c.buffer = mv :: rest) :
    (flush m c (.sent k)).accepted = min k (min (effMax m) mv.length) := by
  unfold flush; rw [hb]; simp only
  split <;> simp [List.length_take]

theorem flush_closed (m : Nat) (c : Conn) (o : SendOut) : (flush m c o).conn.closed = c.closed := by
  unfold flush
  cases hb : c.buffer with
  | nil => simp
  | cons mv rest => cases o <;> simp <;> split <;> simp

/-- a flush that raises (or would block) leaves the buffer as it was -/
theorem flush_exc_conn (m : Nat) (c : Conn) (o : SendOut) (e : FlushExc)
    (h : (flush m c o).exc = some e) : (flush m c o).conn = c ∧ (flush m c o).wire = [] := by
  unfold flush at h ⊢
  unfold FlushRes.wire
  cases hb : c.buffer with
  | nil => simp [hb] at h
  | cons mv rest =>
    rw [hb] at h
    cases o <;> simp at h ⊢
    · split at h <;> simp at h

theorem flush_exc_iff (m : Nat) (c : Conn) (o : SendOut) :
    (flush m c o).exc ≠ none ↔ c.buffer ≠ [] ∧ (o = .brokenPipe ∨ o = .osError ∨ o = .sslWantWrite) := by
  unfold flush
  cases hb : c.buffer with
  | nil => simp
  | cons mv rest => cases o <;> simp <;> split <;> simp

theorem flush_exc_eq (m : Nat) (c : Conn) (o : SendOut) (x : FlushExc) (h : (flush m c o).exc = some x) :
    (x = .brokenPipe ∧ o = .brokenPipe) ∨ (x = .osError ∧ o = .osError) ∨
    (x = .sslWantWrite ∧ o = .sslWantWrite) := by
  unfold flush at h
  cases hb : c.buffer with
  | nil => simp [hb] at h
  | cons mv rest =>
    rw [hb] at h
    cases o <;> simp at h
    · split at h <;> simp at h
    all_goals (subst h; simp)

theorem flush_blocking (m : Nat) (c : Conn) : (flush m c .blocking).conn = c := by
  unfold flush; cases hb : c.buffer <;> simp [hb]

/-- the buffer after a flush is a suffix-closed remainder: each remaining
    element is the old one, or the old head with a prefix removed -/
theorem flush_buffer_shape (m : Nat) (c : Conn) (o : SendOut) :
    (flush m c o).conn.buffer = c.buffer ∨
    ∃ mv rest, c.buffer = mv :: rest ∧
      ((flush m c o).conn.buffer = rest ∨
       ∃ n, (flush m c o).conn.buffer = mv.drop n :: rest) := by
  unfold flush
  cases hb : c.buffer with
  | nil => simp [hb]
  | cons mv rest =>
    cases o with
    | sent k =>
      right; refine ⟨mv, rest, rfl, ?_⟩
      simp only; split
      · left; rfl
      · right; exact ⟨_, rfl⟩
    | _ => left; simp [hb]

/-- progress: a `send` that accepts at least one byte (or pops an empty
    element) strictly decreases the measure bytes + elements -/
theorem flush_pending_lt (m : Nat) (c : Conn) (k : Nat) (h : c.buffer ≠ []) :
    pending (flush m c (.sent (k + 1))).conn < pending c := by
  unfold flush pending
  cases hb : c.buffer with
  | nil => exact absurd hb h
  | cons mv rest =>
    simp only
    have hm := effMax_pos m
    split
    · simp
      omega
    · rename_i hne
      simp [List.length_take] at hne ⊢
      cases hl : mv.length with
      | zero => simp [hl] at hne
      | succ n => omega

/-- no flush ever lengthens what is pending -/
theorem flush_pending_le (m : Nat) (c : Conn) (o : SendOut) :
    pending (flush m c o).conn ≤ pending c := by
  unfold flush pending
  cases hb : c.buffer with
  | nil => simp [hb]
  | cons mv rest =>
    cases o <;> simp [hb]
    · split <;> simp <;> omega

/-- bytes (not only the measure) shrink when the head element is non-empty -/
theorem flush_bytes_lt (m : Nat) (c : Conn) (k : Nat) (mv : Bytes) (rest : List Bytes)
    (hb : c.buffer = mv :: rest) (hne : mv ≠ []) :
    (flush m c (.sent (k + 1))).conn.buffer.flatten.length < c.buffer.flatten.length := by
  rw [flush_drop, flush_accepted m c (k + 1) mv rest hb, hb]
  have hm := effMax_pos m
  have : 0 < mv.length := List.length_pos_iff.mpr hne
  simp [List.length_drop]
  omega

theorem queue_flatten (c : Conn) (b : Bytes) : (c.queue b).buffer.flatten = c.buffer.flatten ++ b := by
  simp [queue]

theorem queue_hasBuffer (c : Conn) (b : Bytes) : (c.queue b).hasBuffer = true := by
  simp [queue, hasBuffer]

theorem hasBuffer_false_iff (c : Conn) : c.hasBuffer = false ↔ c.buffer = [] := by
  simp [hasBuffer]

theorem hasBuffer_true_iff (c : Conn) : c.hasBuffer = true ↔ c.buffer ≠ [] := by
  simp [hasBuffer]

/-- no queued element is the empty byte string -/
def NoEmpty (c : Conn) : Prop := ∀ e ∈ c.buffer, e ≠ []

theorem flush_noEmpty (m : Nat) (c : Conn) (o : SendOut) (h : NoEmpty c) : NoEmpty (flush m c o).conn := by
  unfold flush
  cases hb : c.buffer with
  | nil => simpa [hb] using h
  | cons mv rest =>
    have hmv : mv ≠ [] := h mv (by simp [hb])
    have hrest : ∀ e ∈ rest, e ≠ [] := fun e he => h e (by simp [hb, he])
    cases o with
    | sent k =>
      simp only
      split
      · intro e he; exact hrest e he
      · rename_i hne
        intro e he
        simp at he
        rcases he with he | he
        · subst he
          intro hd
          have := congrArg List.length hd
          simp [List.length_take] at this hne
          omega
        · exact hrest e he
    | _ => intro e he; exact h e (by simpa [hb] using he)

theorem queue_noEmpty (c : Conn) (b : Bytes) (h : NoEmpty c) (hb : b ≠ []) : NoEmpty (c.queue b) := by
  intro e he
  simp [queue] at he
  rcases he with he | he
  · exact h e he
  · subst he; exact hb

end Px.Conn
