import PxProofs.ParserLemmasB
/-!
# Lemmas about the HTTP parser model for C03, part C

Result description of the header sub-automaton, equations of the body
sub-automaton, `stepOnce` as sub-automaton + completion checks (`post`), the
invariant is kept by every loop round and the loop needs at most `rank ≤ 5`
rounds (`stepOnce_inv`, `loop_fuel`), and the fuel-free loop `go`.
-/
namespace Px.Parser
open Px.Chunk (Chunk)

theorem processHeaders_spec (f : Nat) {p q : Parser} {u r : Bytes} {m : Bool}
    (hs : p.state = .lineRcvd ∨ p.state = .rcvingHeaders) (hi : InvCore p) (hf : u.length < f)
    (h : processHeaders f p u = .ok (q, m, r)) :
    InvCore q ∧ q.ty = p.ty ∧ ((q.state = .headersComplete ∧ m = !r.isEmpty) ∨
      ((q.state = .lineRcvd ∨ q.state = .rcvingHeaders) ∧ m = false ∧ splitCRLF r = none)) := by
  induction f generalizing p u with
  | zero => omega
  | succ f ih =>
    rw [processHeaders_succ] at h
    cases hsp : splitCRLF u with
    | none =>
      simp only [hsp, Except.ok.injEq, Prod.mk.injEq] at h
      obtain ⟨rfl, rfl, rfl⟩ := h
      exact ⟨hi, rfl, .inr ⟨hs, rfl, hsp⟩⟩
    | some pr =>
      obtain ⟨line, rest⟩ := pr
      have hlen := splitCRLF_some_length hsp
      simp only [hsp] at h
      cases hh : hdrStep p line with
      | error e => simp [hh] at h
      | ok q1 =>
        simp only [hh] at h
        obtain ⟨hi1, hty1, hst1⟩ := hdrStep_spec hs hi hh
        split at h
        · rename_i hc
          simp only [Except.ok.injEq, Prod.mk.injEq] at h
          obtain ⟨rfl, rfl, rfl⟩ := h
          refine ⟨hi1, hty1, ?_⟩
          rcases hst1 with h1 | h1
          · exact .inl ⟨h1, rfl⟩
          · have : rest.isEmpty = true := by simpa [h1] using hc
            have hr : rest = [] := by simpa using this
            subst hr
            exact .inr ⟨.inr h1, rfl, rfl⟩
        · rename_i hc
          have h1 : q1.state = .rcvingHeaders := by
            rcases hst1 with h1 | h1
            · simp [h1] at hc
            · exact h1
          obtain ⟨a1, a2, a3⟩ := ih (.inr h1) hi1 (by omega) h
          exact ⟨a1, a2.trans hty1, a3⟩

/-! ### the body sub-automaton -/

theorem processBody_chunked {p : Parser} (h : p.isChunked = true) (u : Bytes) :
    processBody p u = match Px.Chunk.parse (p.chunk.getD Px.Chunk.init) u with
      | .error e => .error (chunkErr e)
      | .ok (c, rest) =>
        .ok (if c.state == .complete then { p with chunk := some c, body := some c.body, state := .complete }
             else { p with chunk := some c }, false, rest) := by
  unfold processBody
  simp only [h, if_true]
  cases Px.Chunk.parse (p.chunk.getD Px.Chunk.init) u with
  | error e => rfl
  | ok r =>
    obtain ⟨c, rest⟩ := r
    rfl

theorem processBody_cl {p : Parser} {clv : Bytes} {cl : Int} (hc : p.isChunked = false)
    (he : p.contentExpected = true) (h1 : header p (b "content-length") = .ok clv)
    (h2 : pyInt 10 clv = some cl) (hlt : Int.ofNat (p.body.getD []).length < cl) (u : Bytes) :
    processBody p u =
      .ok ({ p with
              state := if !(p.body.getD [] ++ u.take (cl - Int.ofNat (p.body.getD []).length).toNat).isEmpty &&
                  Int.ofNat (p.body.getD [] ++ u.take (cl - Int.ofNat (p.body.getD []).length).toNat).length == cl
                then .complete else .rcvingBody,
              body := some (p.body.getD [] ++ u.take (cl - Int.ofNat (p.body.getD []).length).toNat) },
           !u.isEmpty, u.drop (cl - Int.ofNat (p.body.getD []).length).toNat) := by
  unfold processBody
  have hn : cl - Int.ofNat (p.body.getD []).length ≥ 0 := by omega
  simp only [hc, he, h1, h2, Bool.false_eq_true, if_false, if_true, hn]

theorem processBody_neither {p : Parser} (hc : p.isChunked = false) (he : p.contentExpected = false)
    (u : Bytes) : processBody p u = .ok ({ p with state := .rcvingBody, body := some u }, false, []) := by
  unfold processBody
  simp only [hc, he, Bool.false_eq_true, if_false]

/-! ### `stepOnce` = sub-automaton, then the two completion checks -/

def post (r : Parser × Bool × Bytes) : Parser × Bool × Bytes :=
  if r.1.ty == .response && r.1.state == .lineRcvd && r.2.2 == CRLF then
    ({ r.1 with state := .complete }, r.2.1, [])
  else if r.1.state == .headersComplete && !(r.1.contentExpected || r.1.isChunked) &&
      (r.2.2.isEmpty || r.1.ty == .request || hasHeader r.1 (b "content-length")) then
    ({ r.1 with state := .complete }, r.2.1, r.2.2)
  else r

def core (cfg : Cfg) (p : Parser) (raw : Bytes) : Except Err (Parser × Bool × Bytes) :=
  if p.state.num ≥ PState.headersComplete.num then processBody p raw
  else if p.state == .initialized then processLine cfg p raw
  else processHeaders (raw.length + 1) p raw

theorem stepOnce_eq (cfg : Cfg) (p : Parser) (raw : Bytes) :
    stepOnce cfg p raw = (core cfg p raw).map post := by
  unfold stepOnce core
  cases (if p.state.num ≥ PState.headersComplete.num then processBody p raw
      else if p.state == .initialized then processLine cfg p raw
      else processHeaders (raw.length + 1) p raw) with
  | error e => rfl
  | ok r =>
    obtain ⟨q, m, r'⟩ := r
    simp only [Except.map, post]
    split
    · rfl
    · split <;> rfl

theorem post_other {q : Parser} (m : Bool) (r : Bytes) (h1 : q.state ≠ .lineRcvd)
    (h2 : q.state ≠ .headersComplete) : post (q, m, r) = (q, m, r) := by
  unfold post
  have a : (q.state == .lineRcvd) = false := by simp [h1]
  have c : (q.state == .headersComplete) = false := by simp [h2]
  simp [a, c]

theorem post_inv {q1 q : Parser} {m1 m : Bool} {r1 r : Bytes} (hi : InvCore q1)
    (hf : q1.state = .rcvingBody → Framed q1) (h : post (q1, m1, r1) = (q, m, r)) :
    Inv q ∧ m = m1 ∧ (q.state = .complete ∨ (q = q1 ∧ r = r1)) := by
  unfold post at h
  split at h
  · simp only [Prod.mk.injEq] at h
    obtain ⟨rfl, rfl, rfl⟩ := h
    exact ⟨inv_complete hi, rfl, .inl rfl⟩
  · split at h
    · simp only [Prod.mk.injEq] at h
      obtain ⟨rfl, rfl, rfl⟩ := h
      exact ⟨inv_complete hi, rfl, .inl rfl⟩
    · rename_i hc
      simp only [Prod.mk.injEq] at h
      obtain ⟨rfl, rfl, rfl⟩ := h
      refine ⟨⟨hi, ?_⟩, rfl, .inr ⟨rfl, rfl⟩⟩
      intro hs
      rcases hs with hs | hs
      · simp only [hs, beq_self_eq_true, Bool.true_and, Bool.and_eq_true, Bool.not_eq_true',
          Bool.or_eq_false_iff, Bool.or_eq_true, beq_iff_eq, not_and, not_or] at hc
        by_cases hce : q1.contentExpected = true
        · exact .inr (.inl hce)
        · by_cases hch : q1.isChunked = true
          · exact .inl hch
          · simp only [Bool.not_eq_true] at hce hch
            obtain ⟨⟨_, hty⟩, hh⟩ := hc ⟨hce, hch⟩
            refine .inr (.inr ⟨?_, by simpa using hh⟩)
            cases h : q1.ty with
            | request => exact absurd h hty
            | response => rfl
      · exact hf hs (.inr hs)


/-- number of loop rounds still possible -/
def rank (p : Parser) (u : Bytes) : Nat :=
  match p.state with
  | .initialized => 5 | .lineRcvd => 4 | .rcvingHeaders => 4 | .headersComplete => 3
  | .rcvingBody => if u.isEmpty then 1 else 2
  | .complete => 0

theorem rank_le (p : Parser) (u : Bytes) : rank p u ≤ 5 := by
  unfold rank; split <;> (try split) <;> omega

theorem chunk_getD_wf {p : Parser} (hi : InvCore p) : (p.chunk.getD Px.Chunk.init).WF := by
  cases hc : p.chunk with
  | none => exact Px.Chunk.wf_init
  | some c => exact hi.chunkWF c hc

theorem stepOnce_inv_body {p q : Parser} {u r : Bytes} {m : Bool} (hi : InvCore p)
    (hfr : p.isChunked = true ∨ p.contentExpected = true ∨
      (p.ty = .response ∧ hasHeader p (b "content-length") = false))
    (hst : p.state = .headersComplete ∨ p.state = .rcvingBody)
    (h : (processBody p u).map post = .ok (q, m, r)) :
    Inv q ∧ (m = false ∨ q.state = .complete ∨ rank q r < rank p u) := by
  have hnc : p.state ≠ .complete := by rcases hst with h | h <;> simp [h]
  by_cases hch : p.isChunked = true
  · rw [processBody_chunked hch] at h
    cases hp : Px.Chunk.parse (p.chunk.getD Px.Chunk.init) u with
    | error e => simp [hp, Except.map] at h
    | ok t =>
      obtain ⟨c1, rest⟩ := t
      simp only [hp, Except.map, Except.ok.injEq] at h
      have hwf := (Px.Chunk.parse_wf ((chunk_getD_wf hi).live u) hp).1
      by_cases hcc : c1.state = .complete
      · simp only [hcc, beq_self_eq_true, if_true] at h
        have hi1 : InvCore { p with chunk := some c1, body := some c1.body, state := .complete } :=
          ⟨fun c hc => by simp only [Option.some.injEq] at hc; exact hc ▸ hwf, hi.clOk,
           fun hne => absurd rfl hne, fun hn => by simp [PState.num] at hn,
           fun hn => by simp [PState.num] at hn⟩
        obtain ⟨a1, a2, _⟩ := post_inv hi1 (fun hh => by simp at hh) h
        exact ⟨a1, .inl a2⟩
      · have : (c1.state == .complete) = false := by simp [hcc]
        simp only [this, Bool.false_eq_true, if_false] at h
        have hi1 : InvCore { p with chunk := some c1 } :=
          ⟨fun c hc => by simp only [Option.some.injEq] at hc; exact hc ▸ hwf, hi.clOk,
           hi.bodyLt, hi.early, hi.line⟩
        obtain ⟨a1, a2, _⟩ := post_inv hi1 (fun _ _ => .inl hch) h
        exact ⟨a1, .inl a2⟩
  · simp only [Bool.not_eq_true] at hch
    by_cases hce : p.contentExpected = true
    · obtain ⟨clv, cl, h1, h2, h3⟩ := hi.clOk hce
      have hlt := hi.bodyLt hnc hce clv cl h1 h2
      have hlt' : ((p.body.getD []).length : Int) < cl := hlt
      rw [processBody_cl hch hce h1 h2 hlt] at h
      simp only [Int.ofNat_eq_natCast] at h
      simp only [Except.map, Except.ok.injEq] at h
      generalize hk : (cl - ((p.body.getD []).length : Int)).toNat = k at h
      have hkk : (k : Int) = cl - ((p.body.getD []).length : Int) := by
        rw [← hk]; exact Int.toNat_of_nonneg (by omega)
      by_cases hcomp : (!(p.body.getD [] ++ u.take k).isEmpty &&
          ((p.body.getD [] ++ u.take k).length : Int) == cl) = true
      · simp only [hcomp, if_true] at h
        have hi1 : InvCore { p with state := .complete, body := some (p.body.getD [] ++ u.take k) } :=
          ⟨hi.chunkWF, hi.clOk, fun hne => absurd rfl hne, fun hn => by simp [PState.num] at hn,
           fun hn => by simp [PState.num] at hn⟩
        obtain ⟨a1, _, a3⟩ := post_inv hi1 (fun hh => by simp at hh) h
        rcases a3 with a3 | ⟨rfl, rfl⟩
        · exact ⟨a1, .inr (.inl a3)⟩
        · exact ⟨a1, .inr (.inl rfl)⟩
      · simp only [hcomp, Bool.false_eq_true, if_false] at h
        have hlen : (p.body.getD [] ++ u.take k).length < (p.body.getD []).length + k ∨
            (p.body.getD [] ++ u.take k).length = (p.body.getD []).length + k := by
          simp only [List.length_append, List.length_take]; omega
        have hshort : u.length < k := by
          rcases Nat.lt_or_ge u.length k with h' | h'
          · exact h'
          · exfalso; apply hcomp
            have hl : (p.body.getD [] ++ u.take k).length = (p.body.getD []).length + k := by
              simp only [List.length_append, List.length_take]; omega
            have hne : (p.body.getD [] ++ u.take k) ≠ [] := by
              intro he; rw [he] at hl; simp only [List.length_nil] at hl; omega
            simp only [Bool.and_eq_true, Bool.not_eq_true', List.isEmpty_eq_false_iff, ne_eq, hne,
              not_false_eq_true, beq_iff_eq, true_and, hl]
            omega
        have hi1 : InvCore { p with state := .rcvingBody, body := some (p.body.getD [] ++ u.take k) } := by
          refine ⟨hi.chunkWF, hi.clOk, ?_, fun hn => by simp [PState.num] at hn,
            fun hn => by simp [PState.num] at hn⟩
          intro _ _ clv' cl' h1' h2'
          have : clv' = clv := header_inj h1' h1
          subst this
          rw [h2] at h2'; simp only [Option.some.injEq] at h2'; subst h2'
          simp only [Option.getD_some, List.length_append, List.length_take, Int.ofNat_eq_natCast]
          omega
        obtain ⟨a1, a2, a3⟩ := post_inv hi1 (fun _ _ => .inr (.inl hce)) h
        refine ⟨a1, ?_⟩
        rcases a3 with a3 | ⟨rfl, rfl⟩
        · exact .inr (.inl a3)
        · by_cases hu : u = []
          · subst hu; exact .inl (by simpa using a2)
          · have hd : u.drop k = [] := List.drop_eq_nil_of_le (by omega)
            refine .inr (.inr ?_)
            rcases hst with hs | hs
            · simp only [rank, hs]; split <;> omega
            · simp [rank, hs, hd, hu]
    · simp only [Bool.not_eq_true] at hce
      rw [processBody_neither hch hce] at h
      simp only [Except.map, Except.ok.injEq] at h
      have hi1 : InvCore { p with state := .rcvingBody, body := some u } :=
        ⟨hi.chunkWF, fun hh => by simp [hce] at hh, fun _ hh => by simp [hce] at hh,
         fun hn => by simp [PState.num] at hn, fun hn => by simp [PState.num] at hn⟩
      have hf1 : Framed { p with state := .rcvingBody, body := some u } := by
        intro _
        rcases hfr with h' | h' | h'
        · simp [hch] at h'
        · simp [hce] at h'
        · exact .inr (.inr h')
      obtain ⟨a1, a2, _⟩ := post_inv hi1 (fun _ => hf1) h
      exact ⟨a1, .inl a2⟩

/-- one round of the `parse` loop keeps the invariant and either ends the loop or lowers the rank -/
theorem stepOnce_inv (cfg : Cfg) {p q : Parser} {u r : Bytes} {m : Bool} (hinv : Inv p)
    (hnc : p.state ≠ .complete) (h : stepOnce cfg p u = .ok (q, m, r)) :
    Inv q ∧ (m = false ∨ q.state = .complete ∨ rank q r < rank p u) := by
  obtain ⟨hi, hfr⟩ := hinv
  rw [stepOnce_eq] at h
  cases hst : p.state with
  | complete => exact absurd hst hnc
  | initialized =>
    have hcore : core cfg p u = processLine cfg p u := by simp [core, hst, PState.num]
    rw [hcore, processLine_eq] at h
    cases hsp : splitCRLF u with
    | none =>
      simp only [hsp, Except.map, Except.ok.injEq] at h
      rw [post_other _ _ (by simp [hst]) (by simp [hst])] at h
      simp only [Prod.mk.injEq] at h
      obtain ⟨rfl, rfl, rfl⟩ := h
      exact ⟨⟨hi, hfr⟩, .inl rfl⟩
    | some pr =>
      obtain ⟨line, rest⟩ := pr
      simp only [hsp] at h
      cases hl : lineStep cfg p line with
      | error e => simp [hl, Except.map] at h
      | ok q1 =>
        simp only [hl, Except.map, Except.ok.injEq] at h
        obtain ⟨hs1, hf1⟩ := lineStep_spec hl
        have hi1 := invCore_lineRcvd hi hst hs1 hf1
        obtain ⟨a1, a2, a3⟩ := post_inv hi1 (fun hh => by simp [hs1] at hh) h
        refine ⟨a1, ?_⟩
        rcases a3 with a3 | ⟨rfl, rfl⟩
        · exact .inr (.inl a3)
        · exact .inr (.inr (by simp [rank, hs1, hst]))
  | lineRcvd =>
    have hcore : core cfg p u = processHeaders (u.length + 1) p u := by simp [core, hst, PState.num]
    rw [hcore] at h
    cases hp : processHeaders (u.length + 1) p u with
    | error e => simp [hp, Except.map] at h
    | ok t =>
      obtain ⟨q1, m1, r1⟩ := t
      simp only [hp, Except.map, Except.ok.injEq] at h
      obtain ⟨hi1, _, hc1⟩ := processHeaders_spec _ (.inl hst) hi (by omega) hp
      have hnb : q1.state ≠ .rcvingBody := by rcases hc1 with ⟨h1, _⟩ | ⟨h1 | h1, _⟩ <;> simp [h1]
      obtain ⟨a1, a2, a3⟩ := post_inv hi1 (fun hh => absurd hh hnb) h
      refine ⟨a1, ?_⟩
      rcases a3 with a3 | ⟨rfl, rfl⟩
      · exact .inr (.inl a3)
      · rcases hc1 with ⟨h1, _⟩ | ⟨_, h2, _⟩
        · exact .inr (.inr (by simp [rank, h1, hst]))
        · exact .inl (a2.trans h2)
  | rcvingHeaders =>
    have hcore : core cfg p u = processHeaders (u.length + 1) p u := by simp [core, hst, PState.num]
    rw [hcore] at h
    cases hp : processHeaders (u.length + 1) p u with
    | error e => simp [hp, Except.map] at h
    | ok t =>
      obtain ⟨q1, m1, r1⟩ := t
      simp only [hp, Except.map, Except.ok.injEq] at h
      obtain ⟨hi1, _, hc1⟩ := processHeaders_spec _ (.inr hst) hi (by omega) hp
      have hnb : q1.state ≠ .rcvingBody := by rcases hc1 with ⟨h1, _⟩ | ⟨h1 | h1, _⟩ <;> simp [h1]
      obtain ⟨a1, a2, a3⟩ := post_inv hi1 (fun hh => absurd hh hnb) h
      refine ⟨a1, ?_⟩
      rcases a3 with a3 | ⟨rfl, rfl⟩
      · exact .inr (.inl a3)
      · rcases hc1 with ⟨h1, _⟩ | ⟨_, h2, _⟩
        · exact .inr (.inr (by simp [rank, h1, hst]))
        · exact .inl (a2.trans h2)
  | headersComplete =>
    have hcore : core cfg p u = processBody p u := by simp [core, hst, PState.num]
    rw [hcore] at h
    exact stepOnce_inv_body hi (hfr (.inl hst)) (.inl hst) h
  | rcvingBody =>
    have hcore : core cfg p u = processBody p u := by simp [core, hst, PState.num]
    rw [hcore] at h
    exact stepOnce_inv_body hi (hfr (.inr hst)) (.inr hst) h

/-! ### fuel of the `parse` loop -/

theorem loop_done (cfg : Cfg) {p : Parser} {more : Bool} (u : Bytes)
    (h : more = false ∨ p.state = .complete) (f : Nat) : loop cfg f p more u = .ok (p, u) := by
  cases f with
  | zero => rfl
  | succ f =>
    rw [loop]
    rcases h with h | h <;> simp [h]

theorem loop_succ (cfg : Cfg) {p : Parser} (u : Bytes) (hc : p.state ≠ .complete) (f : Nat) :
    loop cfg (f + 1) p true u = match stepOnce cfg p u with
      | .error e => .error e
      | .ok (q, m, r) => loop cfg f q m r := by
  rw [loop]
  have : (!true || p.state == .complete) = false := by simp [hc]
  simp only [this, Bool.false_eq_true, if_false]
  cases stepOnce cfg p u with
  | error e => rfl
  | ok t => rfl

/-- the loop runs at most `rank` more rounds: any larger fuel gives the same result -/
theorem loop_fuel (cfg : Cfg) (f1 f2 : Nat) {p : Parser} {u : Bytes} (hi : Inv p)
    (h1 : rank p u < f1) (h2 : rank p u < f2) : loop cfg f1 p true u = loop cfg f2 p true u := by
  induction f1 generalizing f2 p u with
  | zero => omega
  | succ f1 ih =>
    cases f2 with
    | zero => omega
    | succ f2 =>
      by_cases hc : p.state = .complete
      · rw [loop_done cfg u (.inr hc), loop_done cfg u (.inr hc)]
      · rw [loop_succ cfg u hc, loop_succ cfg u hc]
        cases hs : stepOnce cfg p u with
        | error e => rfl
        | ok t =>
          obtain ⟨q, m, r⟩ := t
          obtain ⟨hq, hd⟩ := stepOnce_inv cfg hi hc hs
          simp only
          by_cases hm : m = false ∨ q.state = .complete
          · rw [loop_done cfg r hm, loop_done cfg r hm]
          · have hm1 : m = true := by cases m <;> simp_all
            subst hm1
            have : rank q r < rank p u := by
              rcases hd with h | h | h
              · simp at h
              · exact absurd (.inr h) hm
              · exact h
            exact ih f2 hq (by omega) (by omega)

/-- the `parse` loop on unread input `u`, started with `more = True` -/
def go (cfg : Cfg) (p : Parser) (u : Bytes) : Except Err (Parser × Bytes) :=
  loop cfg (u.length + 8) p true u

theorem go_done (cfg : Cfg) {p : Parser} (u : Bytes) (h : p.state = .complete) : go cfg p u = .ok (p, u) :=
  loop_done cfg u (.inr h) _

/-- continue after one round -/
def next (cfg : Cfg) (t : Parser × Bool × Bytes) : Except Err (Parser × Bytes) :=
  if t.2.1 && t.1.state != .complete then go cfg t.1 t.2.2 else .ok (t.1, t.2.2)

theorem go_unfold (cfg : Cfg) {p : Parser} (u : Bytes) (hi : Inv p) (hc : p.state ≠ .complete) :
    go cfg p u = match stepOnce cfg p u with
      | .error e => .error e
      | .ok t => next cfg t := by
  unfold go
  rw [loop_succ cfg u hc]
  cases hs : stepOnce cfg p u with
  | error e => rfl
  | ok t =>
    obtain ⟨q, m, r⟩ := t
    obtain ⟨hq, hd⟩ := stepOnce_inv cfg hi hc hs
    simp only [next]
    by_cases hm : m = false ∨ q.state = .complete
    · rw [loop_done cfg r hm]
      rcases hm with h | h <;> simp [h]
    · have hm1 : m = true := by cases m <;> simp_all
      have hq2 : q.state ≠ .complete := fun h => hm (.inr h)
      subst hm1
      have : (true && q.state != .complete) = true := by simp [hq2]
      rw [if_pos this]
      unfold go
      have := rank_le q r
      exact loop_fuel cfg _ _ hq (by omega) (by omega)

theorem next_stop (cfg : Cfg) {q : Parser} {m : Bool} (r : Bytes) (h : m = false ∨ q.state = .complete) :
    next cfg (q, m, r) = .ok (q, r) := by
  unfold next
  rcases h with h | h <;> simp [h]

theorem next_go (cfg : Cfg) {q : Parser} (r : Bytes) (h : q.state ≠ .complete) :
    next cfg (q, true, r) = go cfg q r := by
  unfold next; simp [h]
end Px.Parser
