import PxModel.Parser
/-!
# Termination of `HttpParser.parse` (for C06)

`Px.Parser.loop` models the `while more and self.state != COMPLETE` loop of
`HttpParser.parse` with fuel `len(raw) + 8`.  Here: the fuel is never what stops the
loop.  `loopX` is `loop` instrumented with a flag telling whether it stopped because
the `while` condition became false; under the invariant `Inv` (which holds for a fresh
parser and is preserved by every `parse` call) the flag is always `true`.

The invariant is exactly what the two historical hangs violated: a positive
`content_expected` whose Content-Length header says something else (D18), so that the body
branch could consume nothing and never complete.  (The chunked decoder has its own loop,
`Px.Chunk.loop`; its fuel lemma is `Px.Chunk.loop_fuel` in `PxProofs/ChunkLemmas.lean`, C03.)
-/
namespace Px.ParseFuel

open Px.Parser

/-- `loop` with a flag: `true` = stopped because `more` was false or the state COMPLETE,
    `false` = stopped only because the fuel ran out -/
def loopX (cfg : Cfg) : Nat → Parser → Bool → Bytes → Except Err (Parser × Bytes × Bool)
  | 0, p, more, raw => .ok (p, raw, !more || p.state == .complete)
  | fuel + 1, p, more, raw =>
    if !more || p.state == .complete then .ok (p, raw, true)
    else match stepOnce cfg p raw with
      | .error e => .error e
      | .ok (p, more, raw) => loopX cfg fuel p more raw

/-- `loopX` computes what `loop` computes -/
theorem loopX_loop (cfg : Cfg) (fuel : Nat) (p : Parser) (more : Bool) (raw : Bytes) :
    loop cfg fuel p more raw =
      (match loopX cfg fuel p more raw with
       | .ok r => .ok (r.1, r.2.1)
       | .error e => .error e) := by
  induction fuel generalizing p more raw with
  | zero => simp [loop, loopX]
  | succ f ih =>
    unfold loop loopX
    split
    · rfl
    · cases hs : stepOnce cfg p raw with
      | error e => rfl
      | ok r =>
        obtain ⟨p', more', raw'⟩ := r
        simp only
        exact ih p' more' raw'

/-- the loop ended for a reason the Python `while` also has -/
def Natural : Except Err (Parser × Bytes × Bool) → Prop
  | .ok r => r.2.2 = true
  | .error _ => True

/-- the Content-Length the body branch will read -/
def clHeader (p : Parser) : Option Int :=
  match header p (b "content-length") with
  | .ok v => pyInt 10 v
  | .error _ => none

/-- invariant of a request/response parser between and inside `parse` calls -/
structure Inv (p : Parser) : Prop where
  /-- `content_expected` means: the Content-Length header in force is a positive integer -/
  ce : p.contentExpected = true → ∃ cl, clHeader p = some cl ∧ 0 < cl
  /-- no body before the header section is complete -/
  nobody : p.state.num < 4 → p.body = none
  /-- a Content-Length body never exceeds its announced length -/
  len : p.contentExpected = true → p.isChunked = false →
    ∀ bd cl, p.body = some bd → clHeader p = some cl → (bd.length : Int) ≤ cl

theorem inv_init (ty : PType) : Inv (init ty) :=
  ⟨by simp [init], by simp [init], by simp [init]⟩

theorem clHeader_congr {p q : Parser} (h : p.headers = q.headers) : clHeader p = clHeader q := by
  unfold clHeader header; rw [h]

theorem inv_of_nobody {p : Parser} (hb : p.body = none)
    (hce : p.contentExpected = true → ∃ cl, clHeader p = some cl ∧ 0 < cl) : Inv p :=
  ⟨hce, fun _ => hb, by intro _ _ bd cl h; rw [hb] at h; cases h⟩

theorem inv_setComplete {p : Parser} (h : Inv p) : Inv { p with state := .complete } :=
  ⟨h.ce, by intro hlt; simp [PState.num] at hlt, h.len⟩

/-! ### header dictionary -/

theorem find_replace_self (h : Headers) (k : Bytes) (v : Bytes × Bytes) (hany : h.any (fun x => x.1 == k) = true) :
    (h.map (fun e => if e.1 == k then (k, v) else e)).find? (fun x => x.1 == k) = some (k, v) := by
  induction h with
  | nil => simp at hany
  | cons e t ih =>
    by_cases he : (e.1 == k) = true
    · simp only [List.map_cons, he, if_true, List.find?_cons, BEq.rfl]
    · have he' : (e.1 == k) = false := by simpa using he
      have : t.any (fun x => x.1 == k) = true := by simpa [he'] using hany
      simp only [List.map_cons, he', Bool.false_eq_true, if_false, List.find?_cons]
      exact ih this

theorem find_replace_ne (h : Headers) (k k' : Bytes) (v : Bytes × Bytes) (hk : (k' == k) = false) :
    ((h.map (fun e => if e.1 == k' then (k', v) else e)).find? (fun x => x.1 == k)).map (·.2) =
      (h.find? (fun x => x.1 == k)).map (·.2) := by
  induction h with
  | nil => rfl
  | cons e t ih =>
    by_cases he : (e.1 == k') = true
    · have hek : (e.1 == k) = false := by
        have : e.1 = k' := by simpa using he
        rw [this]; exact hk
      simp only [List.map_cons, he, if_true, List.find?_cons, hk, hek]
      exact ih
    · have he' : (e.1 == k') = false := by simpa using he
      simp only [List.map_cons, he', Bool.false_eq_true, if_false, List.find?_cons]
      cases hek : e.1 == k with
      | true => rfl
      | false => exact ih

theorem hdrGet_hdrSet_self (h : Headers) (k : Bytes) (v : Bytes × Bytes) : hdrGet (hdrSet h k v) k = some v := by
  unfold hdrGet hdrSet
  split
  · next hany => rw [find_replace_self h k v hany]; rfl
  · next hany =>
    have : h.find? (fun x => x.1 == k) = none := by
      apply List.find?_eq_none.mpr
      intro e he hk
      exact hany (List.any_eq_true.mpr ⟨e, he, hk⟩)
    rw [List.find?_append, this]
    simp

theorem hdrGet_hdrSet_ne (h : Headers) (k k' : Bytes) (v : Bytes × Bytes) (hne : k' ≠ k) :
    hdrGet (hdrSet h k' v) k = hdrGet h k := by
  unfold hdrGet hdrSet
  have hk : (k' == k) = false := by simpa using hne
  split
  · exact find_replace_ne h k k' v hk
  · rw [List.find?_append]
    cases h.find? (fun x => x.1 == k) with
    | some _ => rfl
    | none => simp [hk]

/-! ### the three sub-automata -/

/-- `key, value` of `_process_header` -/
def kvOf (line : Bytes) : Bytes × Bytes :=
  match splitOnce1 COLON line with
  | none => (strip line, [])
  | some (k, v) => (strip k, strip v)

/-- `_process_header` after the split -/
def processHeaderKV (p : Parser) (key value : Bytes) : Except Err Parser :=
  let p := addHeader p key value
  let k := lower key
  if k == b "content-length" then
    match pyInt 10 value with
    | none => .error .valueError
    | some v => .ok { p with contentExpected := decide (v > 0) }
  else if k == b "transfer-encoding" && lower value == b "chunked" then
    .ok { p with isChunked := true }
  else .ok p

theorem processHeader_eq (p : Parser) (line : Bytes) :
    processHeader p line = processHeaderKV p (kvOf line).1 (kvOf line).2 := by
  unfold processHeader kvOf processHeaderKV
  cases splitOnce1 COLON line with
  | none => rfl
  | some kv => rfl

/-- `_process_header`: keeps `content_expected` in step with the Content-Length header -/
theorem processHeader_ce {p p' : Parser} {line : Bytes}
    (hce : p.contentExpected = true → ∃ cl, clHeader p = some cl ∧ 0 < cl)
    (h : processHeader p line = .ok p') :
    p'.body = p.body ∧ p'.state = p.state ∧ (p'.contentExpected = true → ∃ cl, clHeader p' = some cl ∧ 0 < cl) := by
  rw [processHeader_eq] at h
  generalize (kvOf line).1 = key at h
  generalize (kvOf line).2 = value at h
  unfold processHeaderKV at h
  simp only at h
  have hlow : lower (b "content-length") = b "content-length" := by decide +kernel
  split at h
  · next hk =>
    have hk' : lower key = b "content-length" := by simpa using hk
    cases hv : pyInt 10 value with
    | none => simp [hv] at h
    | some v =>
      simp only [hv, Except.ok.injEq] at h
      subst h
      refine ⟨rfl, rfl, ?_⟩
      intro hc
      have hpos : v > 0 := by simpa using hc
      refine ⟨v, ?_, hpos⟩
      unfold clHeader header addHeader
      simp only [hlow, hk', hdrGet_hdrSet_self, hv]
  · next hk =>
    have hk' : lower key ≠ b "content-length" := by simpa using hk
    have hcl : ∀ q : Parser, q.headers = (addHeader p key value).headers → clHeader q = clHeader p := by
      intro q hq
      unfold clHeader header
      rw [hq]
      unfold addHeader
      simp only [hlow]
      rw [hdrGet_hdrSet_ne _ _ _ _ hk']
      cases hh : p.headers with
      | none => simp [hdrGet, Option.getD]
      | some hs => simp [Option.getD]
    split at h
    · simp only [Except.ok.injEq] at h
      subst h
      refine ⟨rfl, rfl, ?_⟩
      intro hc
      rw [hcl { addHeader p key value with isChunked := true } rfl]
      exact hce hc
    · simp only [Except.ok.injEq] at h
      subst h
      refine ⟨rfl, rfl, ?_⟩
      intro hc
      rw [hcl (addHeader p key value) rfl]
      exact hce hc

theorem splitCRLF_shorter : ∀ (x l r : Bytes), splitCRLF x = some (l, r) → r.length + 2 ≤ x.length
  | [], _, _, h => by simp [splitCRLF] at h
  | [_], _, _, h => by simp [splitCRLF] at h
  | c :: d :: rest, l, r, h => by
    unfold splitCRLF at h
    split at h
    · simp only [Option.some.injEq, Prod.mk.injEq] at h
      obtain ⟨_, rfl⟩ := h
      simp
    · cases hr : splitCRLF (d :: rest) with
      | none => simp [hr] at h
      | some lr =>
        obtain ⟨l', r'⟩ := lr
        simp only [hr, Option.some.injEq, Prod.mk.injEq] at h
        obtain ⟨_, rfl⟩ := h
        have := splitCRLF_shorter (d :: rest) l' r' hr
        simp only [List.length_cons] at this ⊢
        omega

/-- one header line of `_process_headers` -/
def hdrStep (p : Parser) (line : Bytes) : Except Err Parser :=
  if p.state == .lineRcvd || p.state == .rcvingHeaders then
    (if (strip line).isEmpty then .ok { p with state := .headersComplete }
     else processHeader { p with state := .rcvingHeaders } line)
  else .ok p

theorem processHeaders_succ (f : Nat) (p : Parser) (raw : Bytes) :
    processHeaders (f + 1) p raw =
      (match splitCRLF raw with
       | none => .ok (p, false, raw)
       | some (line, rest) =>
         match hdrStep p line with
         | .error e => .error e
         | .ok p1 =>
           if rest.isEmpty || p1.state == .headersComplete then .ok (p1, !rest.isEmpty, rest)
           else processHeaders f p1 rest) := by
  rfl

theorem hdrStep_facts {p p1 : Parser} {line : Bytes} (hb : p.body = none)
    (hce : p.contentExpected = true → ∃ cl, clHeader p = some cl ∧ 0 < cl)
    (h : hdrStep p line = .ok p1) :
    p1.body = none ∧ (p1.contentExpected = true → ∃ cl, clHeader p1 = some cl ∧ 0 < cl) := by
  unfold hdrStep at h
  split at h
  · split at h
    · simp only [Except.ok.injEq] at h
      subst h
      exact ⟨hb, hce⟩
    · have := processHeader_ce (p := { p with state := .rcvingHeaders }) hce h
      exact ⟨by rw [this.1]; exact hb, this.2.2⟩
  · simp only [Except.ok.injEq] at h
    subst h
    exact ⟨hb, hce⟩

/-- `_process_headers`: the invariant survives, and a `more = True` result has consumed input -/
theorem processHeaders_inv (fuel : Nat) {p p' : Parser} {raw raw' : Bytes} {more' : Bool}
    (hb : p.body = none) (hce : p.contentExpected = true → ∃ cl, clHeader p = some cl ∧ 0 < cl)
    (h : processHeaders (fuel + 1) p raw = .ok (p', more', raw')) :
    p'.body = none ∧ (p'.contentExpected = true → ∃ cl, clHeader p' = some cl ∧ 0 < cl) ∧
      (more' = false ∨ raw'.length < raw.length) := by
  induction fuel generalizing p raw with
  | zero =>
    rw [processHeaders_succ] at h
    cases hs : splitCRLF raw with
    | none =>
      simp only [hs, Except.ok.injEq, Prod.mk.injEq] at h
      obtain ⟨rfl, rfl, rfl⟩ := h
      exact ⟨hb, hce, Or.inl rfl⟩
    | some lr =>
      obtain ⟨line, rest⟩ := lr
      have hlen := splitCRLF_shorter _ _ _ hs
      simp only [hs] at h
      cases hstep : hdrStep p line with
      | error e => simp [hstep] at h
      | ok p1 =>
        have h1 := hdrStep_facts hb hce hstep
        simp only [hstep] at h
        split at h
        · simp only [Except.ok.injEq, Prod.mk.injEq] at h
          obtain ⟨rfl, rfl, rfl⟩ := h
          exact ⟨h1.1, h1.2, Or.inr (by omega)⟩
        · simp only [processHeaders, Except.ok.injEq, Prod.mk.injEq] at h
          obtain ⟨rfl, rfl, rfl⟩ := h
          exact ⟨h1.1, h1.2, Or.inr (by omega)⟩
  | succ f ih =>
    rw [processHeaders_succ] at h
    cases hs : splitCRLF raw with
    | none =>
      simp only [hs, Except.ok.injEq, Prod.mk.injEq] at h
      obtain ⟨rfl, rfl, rfl⟩ := h
      exact ⟨hb, hce, Or.inl rfl⟩
    | some lr =>
      obtain ⟨line, rest⟩ := lr
      have hlen := splitCRLF_shorter _ _ _ hs
      simp only [hs] at h
      cases hstep : hdrStep p line with
      | error e => simp [hstep] at h
      | ok p1 =>
        have h1 := hdrStep_facts hb hce hstep
        simp only [hstep] at h
        split at h
        · simp only [Except.ok.injEq, Prod.mk.injEq] at h
          obtain ⟨rfl, rfl, rfl⟩ := h
          exact ⟨h1.1, h1.2, Or.inr (by omega)⟩
        · have := ih h1.1 h1.2 h
          refine ⟨this.1, this.2.1, ?_⟩
          rcases this.2.2 with h' | h'
          · exact Or.inl h'
          · exact Or.inr (by omega)

/-- `_process_line`: touches neither headers nor body; a `more = True` result has consumed input -/
theorem processLine_inv {cfg : Cfg} {p p' : Parser} {raw raw' : Bytes} {more' : Bool}
    (h : processLine cfg p raw = .ok (p', more', raw')) :
    p'.body = p.body ∧ p'.headers = p.headers ∧ p'.contentExpected = p.contentExpected ∧
      (more' = false ∨ raw'.length < raw.length) := by
  unfold processLine at h
  cases hs : splitCRLF raw with
  | none =>
    simp only [hs, Except.ok.injEq, Prod.mk.injEq] at h
    obtain ⟨rfl, rfl, rfl⟩ := h
    exact ⟨rfl, rfl, rfl, Or.inl rfl⟩
  | some lr =>
    obtain ⟨line, rest⟩ := lr
    have hlen := splitCRLF_shorter _ _ _ hs
    simp only [hs] at h
    split at h
    · split at h
      · split at h
        · simp at h
        · split at h
          · simp at h
          · simp only [Except.ok.injEq, Prod.mk.injEq] at h
            obtain ⟨rfl, rfl, rfl⟩ := h
            refine ⟨?_, ?_, ?_, Or.inr (by omega)⟩ <;> (unfold setLineAttributes; split <;> rfl)
      · simp at h
    · split at h
      · simp only [Except.ok.injEq, Prod.mk.injEq] at h
        obtain ⟨rfl, rfl, rfl⟩ := h
        exact ⟨rfl, rfl, rfl, Or.inr (by omega)⟩
      · simp only [Except.ok.injEq, Prod.mk.injEq] at h
        obtain ⟨rfl, rfl, rfl⟩ := h
        exact ⟨rfl, rfl, rfl, Or.inr (by omega)⟩
      · simp at h

/-- `_process_body`: the invariant survives; the call stops the loop (`more = False`),
    completes the message, or consumes input -/
theorem processBody_inv {p p' : Parser} {raw raw' : Bytes} {more' : Bool}
    (hi : Inv p) (hst : 4 ≤ p.state.num) (h : processBody p raw = .ok (p', more', raw')) :
    Inv p' ∧ (more' = false ∨ p'.state = .complete ∨ raw'.length < raw.length) := by
  unfold processBody at h
  split at h
  · -- chunked
    next hch =>
    cases hc : Px.Chunk.parse (p.chunk.getD Px.Chunk.init) raw with
    | error e => simp [hc] at h
    | ok cr =>
      obtain ⟨c, rest⟩ := cr
      simp only [hc, Except.ok.injEq, Prod.mk.injEq] at h
      obtain ⟨rfl, rfl, rfl⟩ := h
      refine ⟨?_, Or.inl rfl⟩
      split
      · exact ⟨hi.ce, by intro hlt; simp [PState.num] at hlt, by intro _ hnc; simp [hch] at hnc⟩
      · exact ⟨hi.ce, by intro hlt; exact absurd hlt (by simp only; omega), by intro _ hnc; simp [hch] at hnc⟩
  · next hch =>
    have hch' : p.isChunked = false := by simpa using hch
    split at h
    · -- Content-Length body
      next hce =>
      obtain ⟨cl, hcl, hpos⟩ := hi.ce hce
      have hcl' := hcl
      unfold clHeader at hcl'
      cases hh : header p (b "content-length") with
      | error e => simp [hh] at hcl'
      | ok clv =>
        simp only [hh] at hcl'
        simp only [hh, hcl'] at h
        simp only [Except.ok.injEq, Prod.mk.injEq] at h
        obtain ⟨rfl, rfl, rfl⟩ := h
        have hbl : ((p.body.getD []).length : Int) ≤ cl := by
          cases hb : p.body with
          | none => simp; omega
          | some bd => simpa using hi.len hce hch' bd cl hb hcl
        have hn : cl - Int.ofNat (p.body.getD []).length ≥ 0 := by
          have : Int.ofNat (p.body.getD []).length = ((p.body.getD []).length : Int) := rfl
          omega
        simp only [hn, if_true]
        generalize htk : (cl - Int.ofNat (p.body.getD []).length).toNat = takeN
        have htk' : (takeN : Int) = cl - ((p.body.getD []).length : Int) := by
          rw [← htk]
          have : Int.ofNat (p.body.getD []).length = ((p.body.getD []).length : Int) := rfl
          omega
        constructor
        · refine ⟨?_, ?_, ?_⟩
          · intro _; exact ⟨cl, hcl, hpos⟩
          · intro hlt
            exfalso
            revert hlt
            simp only
            split <;> simp [PState.num]
          · intro _ _ bd cl2 hbd hcl2
            have e1 : cl2 = cl := by
              have : clHeader p = some cl2 := hcl2
              rw [hcl] at this; exact (Option.some.inj this).symm
            subst e1
            simp only [Option.some.injEq] at hbd
            subst hbd
            simp only [List.length_append, List.length_take]
            omega
        · by_cases hr : raw = []
          · left; simp [hr]
          · right
            by_cases ht0 : takeN = 0
            · left
              have hbpos : 0 < (p.body.getD []).length := by omega
              have hne : (p.body.getD [] ++ raw.take takeN).isEmpty = false := by
                cases hb : p.body.getD [] with
                | nil => simp [hb] at hbpos
                | cons _ _ => rfl
              have hlenb : Int.ofNat (p.body.getD [] ++ raw.take takeN).length = cl := by
                simp only [ht0, List.take_zero, List.append_nil]
                have : Int.ofNat (p.body.getD []).length = ((p.body.getD []).length : Int) := rfl
                omega
              simp [hne]
              omega
            · right
              have : 0 < raw.length := by
                cases raw with
                | nil => exact absurd rfl hr
                | cons _ _ => simp
              simp only [List.length_drop]
              omega
    · -- no framing: the rest is the body
      next hce =>
      have hce' : p.contentExpected = false := by simpa using hce
      simp only [Except.ok.injEq, Prod.mk.injEq] at h
      obtain ⟨rfl, rfl, rfl⟩ := h
      exact ⟨⟨by intro hc; simp [hce'] at hc, by intro hlt; simp [PState.num] at hlt,
        by intro hc; simp [hce'] at hc⟩, Or.inl rfl⟩

/-! ### one loop iteration, the loop, `parse` -/

/-- the dispatch of one `while` iteration, before the two completion checks -/
def core (cfg : Cfg) (p : Parser) (raw : Bytes) : Except Err (Parser × Bool × Bytes) :=
  if p.state.num ≥ PState.headersComplete.num then processBody p raw
  else if p.state == .initialized then processLine cfg p raw
  else processHeaders (raw.length + 1) p raw

theorem stepOnce_eq (cfg : Cfg) (p : Parser) (raw : Bytes) :
    stepOnce cfg p raw =
      (match core cfg p raw with
       | .error e => .error e
       | .ok (p, more, raw) =>
         if p.ty == .response && p.state == .lineRcvd && raw == CRLF then
           .ok ({ p with state := .complete }, more, [])
         else if p.state == .headersComplete && !(p.contentExpected || p.isChunked) &&
             (raw.isEmpty || p.ty == .request || hasHeader p (b "content-length")) then
           .ok ({ p with state := .complete }, more, raw)
         else .ok (p, more, raw)) := by
  rfl

theorem core_inv {cfg : Cfg} {p p1 : Parser} {raw raw1 : Bytes} {more1 : Bool} (hi : Inv p)
    (h : core cfg p raw = .ok (p1, more1, raw1)) :
    Inv p1 ∧ (more1 = false ∨ p1.state = .complete ∨ raw1.length < raw.length) := by
  unfold core at h
  split at h
  · next hge => exact processBody_inv hi hge h
  · next hlt =>
    have hlt' : p.state.num < 4 := by
      have : PState.headersComplete.num = 4 := rfl
      omega
    have hb := hi.nobody hlt'
    split at h
    · have := processLine_inv h
      refine ⟨inv_of_nobody (by rw [this.1]; exact hb) ?_, ?_⟩
      · intro hc
        rw [clHeader_congr this.2.1]
        exact hi.ce (by rw [← this.2.2.1]; exact hc)
      · rcases this.2.2.2 with h' | h'
        · exact Or.inl h'
        · exact Or.inr (Or.inr h')
    · have := processHeaders_inv raw.length hb hi.ce h
      refine ⟨inv_of_nobody this.1 this.2.1, ?_⟩
      rcases this.2.2 with h' | h'
      · exact Or.inl h'
      · exact Or.inr (Or.inr h')

/-- one iteration keeps the invariant and either ends the loop or consumes input -/
theorem stepOnce_progress {cfg : Cfg} {p p' : Parser} {raw raw' : Bytes} {more' : Bool} (hi : Inv p)
    (h : stepOnce cfg p raw = .ok (p', more', raw')) :
    Inv p' ∧ (more' = false ∨ p'.state = .complete ∨ raw'.length < raw.length) := by
  rw [stepOnce_eq] at h
  cases hc : core cfg p raw with
  | error e => simp [hc] at h
  | ok r =>
    obtain ⟨p1, more1, raw1⟩ := r
    have h1 := core_inv hi hc
    simp only [hc] at h
    split at h
    · simp only [Except.ok.injEq, Prod.mk.injEq] at h
      obtain ⟨rfl, rfl, rfl⟩ := h
      exact ⟨inv_setComplete h1.1, Or.inr (Or.inl rfl)⟩
    · split at h
      · simp only [Except.ok.injEq, Prod.mk.injEq] at h
        obtain ⟨rfl, rfl, rfl⟩ := h
        exact ⟨inv_setComplete h1.1, Or.inr (Or.inl rfl)⟩
      · simp only [Except.ok.injEq, Prod.mk.injEq] at h
        obtain ⟨rfl, rfl, rfl⟩ := h
        exact h1

theorem loopX_exit (cfg : Cfg) (f : Nat) (p : Parser) (more : Bool) (raw : Bytes)
    (h : more = false ∨ p.state = .complete) : Natural (loopX cfg f p more raw) := by
  have hc : (!more || p.state == .complete) = true := by
    rcases h with h | h <;> simp [h]
  cases f with
  | zero => simp [loopX, Natural, hc]
  | succ f => simp [loopX, Natural, hc]

/-- **the fuel is never what stops the loop** -/
theorem loopX_natural (cfg : Cfg) (fuel : Nat) (p : Parser) (more : Bool) (raw : Bytes) (hi : Inv p)
    (hf : raw.length + 1 ≤ fuel) : Natural (loopX cfg fuel p more raw) := by
  induction fuel generalizing p more raw with
  | zero => omega
  | succ f ih =>
    unfold loopX
    split
    · simp [Natural]
    · cases hs : stepOnce cfg p raw with
      | error e => simp [Natural]
      | ok r =>
        obtain ⟨p', more', raw'⟩ := r
        simp only
        have hp := stepOnce_progress hi hs
        rcases hp.2 with h' | h' | h'
        · exact loopX_exit cfg f p' more' raw' (Or.inl h')
        · exact loopX_exit cfg f p' more' raw' (Or.inr h')
        · exact ih p' more' raw' hp.1 (by omega)

theorem loop_inv (cfg : Cfg) (fuel : Nat) (p p' : Parser) (more : Bool) (raw r : Bytes) (hi : Inv p)
    (h : loop cfg fuel p more raw = .ok (p', r)) : Inv p' := by
  induction fuel generalizing p more raw with
  | zero =>
    simp only [loop, Except.ok.injEq, Prod.mk.injEq] at h
    rw [← h.1]; exact hi
  | succ f ih =>
    unfold loop at h
    split at h
    · simp only [Except.ok.injEq, Prod.mk.injEq] at h
      rw [← h.1]; exact hi
    · cases hs : stepOnce cfg p raw with
      | error e => simp [hs] at h
      | ok r' =>
        obtain ⟨p1, more1, raw1⟩ := r'
        simp only [hs] at h
        exact ih p1 more1 raw1 (stepOnce_progress hi hs).1 h

theorem inv_congr {p q : Parser} (h : Inv p) (h1 : q.contentExpected = p.contentExpected)
    (h2 : q.headers = p.headers) (h3 : q.state = p.state) (h4 : q.body = p.body) (h5 : q.isChunked = p.isChunked) :
    Inv q :=
  ⟨by intro hc; rw [clHeader_congr h2]; exact h.ce (by rw [← h1]; exact hc),
   by intro hlt; rw [h4]; exact h.nobody (by rw [← h3]; exact hlt),
   by intro hc hch bd cl hb hcl
      exact h.len (by rw [← h1]; exact hc) (by rw [← h5]; exact hch) bd cl (by rw [← h4]; exact hb)
        (by rw [← clHeader_congr h2]; exact hcl)⟩

/-- `HttpParser.parse`, instrumented like `loopX` -/
def parseX (cfg : Cfg) (p : Parser) (raw : Bytes) : Except Err (Parser × Bytes × Bool) :=
  let size := raw.length
  let p := { p with totalSize := p.totalSize + size }
  let raw := match p.buffer with
    | some bf => if bf.isEmpty then raw else bf ++ raw
    | none => raw
  let p := { p with buffer := none }
  loopX cfg (raw.length + 8) p (size > 0) raw

/-- `parseX` is `parse` plus the flag -/
theorem parseX_parse (cfg : Cfg) (p : Parser) (raw : Bytes) :
    parse cfg p raw =
      (match parseX cfg p raw with
       | .ok r => .ok { r.1 with buffer := if r.2.1.isEmpty then none else some r.2.1 }
       | .error e => .error e) := by
  have helper : ∀ r : Except Err (Parser × Bytes × Bool),
      (match (match r with
          | .ok r => (Except.ok (r.1, r.2.1) : Except Err (Parser × Bytes))
          | .error e => .error e) with
       | .error e => (Except.error e : Except Err Parser)
       | .ok (p, raw) => .ok { p with buffer := if raw.isEmpty then none else some raw }) =
      (match r with
       | .ok r => .ok { r.1 with buffer := if r.2.1.isEmpty then none else some r.2.1 }
       | .error e => .error e) := by
    intro r; cases r <;> rfl
  unfold parse parseX
  simp only [loopX_loop]
  exact helper _

theorem parse_inv (cfg : Cfg) (p p' : Parser) (raw : Bytes) (hi : Inv p) (h : parse cfg p raw = .ok p') : Inv p' := by
  unfold parse at h
  simp only at h
  split at h
  · simp at h
  · next q r hl =>
    simp only [Except.ok.injEq] at h
    have : Inv q := by
      refine loop_inv cfg _ _ q _ _ r ?_ hl
      exact inv_congr hi rfl rfl rfl rfl rfl
    rw [← h]
    exact inv_congr this rfl rfl rfl rfl rfl

theorem parseAll_inv (cfg : Cfg) (segs : List Bytes) (p q : Parser) (hi : Inv p)
    (h : parseAll cfg p segs = .ok q) : Inv q := by
  induction segs generalizing p with
  | nil => simp only [parseAll, Except.ok.injEq] at h; rw [← h]; exact hi
  | cons x xs ih =>
    unfold parseAll at h
    cases hp : parse cfg p x with
    | error e => simp [hp] at h
    | ok p1 =>
      simp only [hp] at h
      exact ih p1 (parse_inv cfg p p1 x hi hp) h

/-- the inner loop of `_process_headers` (fuel `len(raw) + 1`, one unit per line of at least
    two bytes) does not depend on its fuel once that exceeds the input length -/
theorem processHeaders_fuel (f g : Nat) (p : Parser) (raw : Bytes) (hf : raw.length < f) (hg : raw.length < g) :
    processHeaders f p raw = processHeaders g p raw := by
  induction f generalizing g p raw with
  | zero => omega
  | succ f ih =>
    cases g with
    | zero => omega
    | succ g =>
      rw [processHeaders_succ, processHeaders_succ]
      cases hs : splitCRLF raw with
      | none => rfl
      | some lr =>
        obtain ⟨line, rest⟩ := lr
        have := splitCRLF_shorter _ _ _ hs
        simp only
        cases hdrStep p line with
        | error e => rfl
        | ok p1 =>
          simp only
          split
          · rfl
          · exact ih g p1 rest (by omega) (by omega)

/-- test helper: a Boolean observation of a successful result -/
def okAnd {α : Type} (r : Except Err α) (f : α → Bool) : Bool :=
  match r with
  | .ok a => f a
  | .error _ => false

def errIs {α : Type} (r : Except Err α) (e : Err) : Bool :=
  match r with
  | .ok _ => false
  | .error e' => e' == e

end Px.ParseFuel
