import PxProofs.RebuildResp
/-!
# `WF_message`: a decidable well-formedness check written independently of the parser model (C15)

`wfMessage isReq raw` reads `raw` the way a strict receiver would:
start line without CR / LF and with its three (responses: two or three) SP-separated parts non-empty;
header lines exactly `name ":" SP value CRLF` with `wfName` / `wfValue`; a blank line; then a payload
consistent with the framing the headers announce:
* `Transfer-Encoding: chunked` present → the payload is exactly one chunked body of RFC 7230 §4.1
  (`chunkedOK`: 1*HEXDIG size, optional extension, data, CRLF, … last-chunk, CRLF — **the empty body
  still needs `0 CRLF CRLF`**; no trailer part; nothing after it);
* else some `content-length` present → every such header is the decimal text of the payload length;
* else → requests have no payload (responses are delimited by connection close).
`wfMessage_pkt`: rendered packets with headers in the guard pass; `chunkedOK_toChunks`: the
encoder's output passes for every body and chunk size.
-/
namespace Px.Codec

open Px.Parser Px.Build
open Px.Chunk (ChunkedStream)

/-- exactly one chunked body (no trailer part), nothing after it -/
def chunkedOK : Nat → Bytes → Bool
  | 0, _ => false
  | fuel + 1, x =>
    match splitCRLF x with
    | none => false
    | some (line, rest) =>
      let sz := line.takeWhile isHexDig
      let ext := line.dropWhile isHexDig
      if sz.isEmpty || !extOk ext then false
      else
        let n := hexValue sz
        if n == 0 then rest == CRLF
        else decide (n + 2 ≤ rest.length) && (rest.drop n).take 2 == CRLF && chunkedOK fuel (rest.drop (n + 2))

/-- one header line `name ":" SP value` -/
def hdrLineOK (line : Bytes) : Option (Bytes × Bytes) :=
  match splitOnce1 COLON line with
  | some (k, c :: v) => if c == SP && wfName k && wfValue v then some (k, v) else none
  | _ => none

/-- header lines up to the blank line: the headers read and what follows the blank line -/
def hdrBlock : Nat → Bytes → HDict → Option (HDict × Bytes)
  | 0, _, _ => none
  | fuel + 1, raw, acc =>
    match splitCRLF raw with
    | none => none
    | some (line, rest) =>
      if line.isEmpty then some (acc.reverse, rest)
      else match hdrLineOK line with
        | some kv => hdrBlock fuel rest (kv :: acc)
        | none => none

def framingOK (isReq : Bool) (H : HDict) (B : Bytes) : Bool :=
  if H.any isTEChunked then chunkedOK (B.length + 1) B
  else if H.any isCL then H.all (fun e => !isCL e || e.2 == natToDec B.length)
  else !isReq || B.isEmpty

def startLineOK (isReq : Bool) (line : Bytes) : Bool :=
  line.all (fun c => c != 13 && c != 10) &&
    (match splitN1 SP 2 line with
     | [a, c, d] => !a.isEmpty && !c.isEmpty && !d.isEmpty
     | [a, c] => !isReq && !a.isEmpty && !c.isEmpty
     | _ => false)

/-- **WF_message** (decidable) -/
def wfMessage (isReq : Bool) (raw : Bytes) : Bool :=
  match splitCRLF raw with
  | none => false
  | some (line, rest) =>
    startLineOK isReq line &&
      (match hdrBlock (rest.length + 1) rest [] with
       | some (H, B) => framingOK isReq H B
       | none => false)

/-! ### the encoder's output is a chunked body -/

theorem takeWhile_all {α} (p : α → Bool) (l : List α) (h : ∀ x ∈ l, p x = true) :
    l.takeWhile p = l ∧ l.dropWhile p = [] := by
  induction l with
  | nil => simp
  | cons a t ih =>
    have ha := h a (by simp)
    have := ih (fun x hx => h x (List.mem_cons_of_mem _ hx))
    simp [List.takeWhile_cons, List.dropWhile_cons, ha, this.1, this.2]

theorem hexDigit_isHexDig : ∀ d : Fin 16, isHexDig (hexDigit d.val) = true := by decide

theorem hexDigits_isHexDig (n : Nat) : ∀ c ∈ hexDigits n, isHexDig c = true := by
  induction n using Nat.strongRecOn with
  | ind n ih =>
    rw [hexDigits]
    by_cases hn : n < 16
    · simp only [hn, if_true, List.mem_singleton]
      rintro c rfl; exact hexDigit_isHexDig ⟨n, hn⟩
    · simp only [hn, if_false, List.mem_append, List.mem_singleton]
      rintro c (hc | rfl)
      · exact ih (n / 16) (by omega) c hc
      · exact hexDigit_isHexDig ⟨n % 16, Nat.mod_lt _ (by omega)⟩

theorem natToHex_isHexDig (n : Nat) : ∀ c ∈ natToHex n, isHexDig c = true :=
  natToHex_eq n ▸ hexDigits_isHexDig n

theorem hexValue_natToHex (n : Nat) : hexValue (natToHex n) = n := by
  unfold hexValue
  rw [hexValue_eq _ (List.all_eq_true.2 (natToHex_isHexDig n)), natToHex_eq, hexDigits_val]

theorem chunkedOK_last (f : Nat) : chunkedOK (f + 1) ((ChunkedStream.last [48] []).render) = true := by rfl

theorem chunkedOK_chunksOf (size : Nat) (hs : 0 < size) (fuel : Nat) (raw : Bytes) (cf : Nat)
    (hf : raw.length ≤ fuel) (hcf : raw.length < cf) :
    chunkedOK cf (chunksOf size fuel raw).render = true := by
  induction fuel generalizing raw cf with
  | zero =>
    obtain ⟨cf, rfl⟩ : ∃ c, cf = c + 1 := ⟨cf - 1, by omega⟩
    exact chunkedOK_last cf
  | succ fuel ih =>
    obtain ⟨cf, rfl⟩ : ∃ c, cf = c + 1 := ⟨cf - 1, by omega⟩
    by_cases he : raw.isEmpty = true
    · simp only [chunksOf, he, if_true]; exact chunkedOK_last cf
    · have hne : raw ≠ [] := by simpa using he
      have hpos : 0 < raw.length := List.length_pos_iff.2 hne
      simp only [chunksOf, he, Bool.false_eq_true, if_false]
      have hk : 0 < (raw.take size).length := by simp only [List.length_take]; omega
      have hdig := natToHex_isDigit (raw.take size).length
      have hsp : splitCRLF ((ChunkedStream.chunk (natToHex (raw.take size).length) [] (raw.take size)
          (chunksOf size fuel (raw.drop size))).render) =
          some (natToHex (raw.take size).length,
            raw.take size ++ CRLF ++ (chunksOf size fuel (raw.drop size)).render) := by
        have hnone : splitCRLF (natToHex (raw.take size).length) = none :=
          splitCRLF_none_of_noCR (fun c hc => by
            have := (isDigitIn_plain (hdig c hc)).2.1; simpa [CR] using this)
        have := splitCRLF_render hnone (raw.take size ++ CRLF ++ (chunksOf size fuel (raw.drop size)).render)
        simpa [ChunkedStream.render, List.append_assoc] using this
      obtain ⟨htw, hdw⟩ := takeWhile_all isHexDig _ (natToHex_isHexDig (raw.take size).length)
      rw [chunkedOK, hsp]
      simp only [htw, hdw]
      have hne2 : (natToHex (raw.take size).length).isEmpty = false := by
        simpa using natToHex_ne_nil (raw.take size).length
      have hext : extOk [] = true := by decide
      simp only [hne2, hext, Bool.not_true, Bool.or_self, Bool.false_eq_true, if_false, hexValue_natToHex]
      have hk0 : ((raw.take size).length == 0) = false := by
        rw [beq_eq_false_iff_ne]; omega
      simp only [hk0, Bool.false_eq_true, if_false]
      have h1 : (raw.take size).length + 2 ≤
          (raw.take size ++ CRLF ++ (chunksOf size fuel (raw.drop size)).render).length := by
        simp only [List.length_append, CRLF, List.length_cons, List.length_nil]; omega
      have h2 : ((raw.take size ++ CRLF ++ (chunksOf size fuel (raw.drop size)).render).drop
          (raw.take size).length).take 2 = CRLF := by
        simp [List.append_assoc, CRLF]
      have h3 : (raw.take size ++ CRLF ++ (chunksOf size fuel (raw.drop size)).render).drop
          ((raw.take size).length + 2) = (chunksOf size fuel (raw.drop size)).render := by
        have : raw.take size ++ CRLF ++ (chunksOf size fuel (raw.drop size)).render =
            (raw.take size ++ CRLF) ++ (chunksOf size fuel (raw.drop size)).render := by simp
        rw [this, List.drop_append_of_le_length (by simp [CRLF])]
        simp [CRLF]
      rw [h2, h3]
      simp only [h1, decide_true, beq_self_eq_true, Bool.true_and]
      exact ih (raw.drop size) cf (by simp only [List.length_drop]; omega)
        (by simp only [List.length_drop]; omega)

theorem decoded_le_render (s : ChunkedStream) : s.decoded.length ≤ s.render.length := by
  induction s with
  | last sz ext => simp [ChunkedStream.decoded]
  | chunk sz ext data rest ih =>
    simp only [ChunkedStream.decoded, ChunkedStream.render, List.length_append]; omega

/-- **the encoder's output is exactly one chunked body**, every body and chunk size — in particular
    `0 CRLF CRLF` for the empty body -/
theorem chunkedOK_toChunks (body : Bytes) (n : Nat) (hn : 0 < n) :
    ∃ enc, Px.Chunk.toChunks body n = .ok enc ∧ chunkedOK (enc.length + 1) enc = true := by
  refine ⟨_, toChunks_render body n (by omega), ?_⟩
  apply chunkedOK_chunksOf n hn _ _ _ (Nat.le_refl _)
  have := decoded_le_render (chunksOf n body.length body)
  rw [chunksOf_decoded n hn _ _ (Nat.le_refl _)] at this
  omega

/-! ### rendered packets -/

theorem hdrLineOK_render {k v : Bytes} (hk : wfName k = true) (hv : wfValue v = true) :
    hdrLineOK (buildHeader k v) = some (k, v) := by
  have hok := hdrOK_of_wf hk hv
  have hs : splitOnce1 COLON (buildHeader k v) = some (k, SP :: v) := by
    have : buildHeader k v = k ++ COLON :: (SP :: v) := by simp [buildHeader]
    rw [this]; exact splitOnce1_render _ _ _ hok.1
  unfold hdrLineOK
  rw [hs]
  simp [hk, hv]

theorem hdrBlock_render (H : HDict) (hH : wfHeaders H = true) (B : Bytes) (acc : HDict) (fuel : Nat)
    (hf : H.length < fuel) :
    hdrBlock fuel (renderHdrs H ++ CRLF ++ B) acc = some (acc.reverse ++ H, B) := by
  induction H generalizing acc fuel with
  | nil =>
    obtain ⟨fuel, rfl⟩ : ∃ f, fuel = f + 1 := ⟨fuel - 1, by omega⟩
    have hs : splitCRLF (renderHdrs [] ++ CRLF ++ B) = some ([], B) := by
      simpa [renderHdrs] using splitCRLF_render (l := []) rfl B
    rw [hdrBlock, hs]; simp
  | cons e H ih =>
    obtain ⟨k, v⟩ := e
    obtain ⟨fuel, rfl⟩ : ∃ f, fuel = f + 1 := ⟨fuel - 1, by omega⟩
    have hkv := wfHeaders_mem hH (e := (k, v)) (by simp)
    have hok := hdrOK_of_wf hkv.1 hkv.2
    have hs : splitCRLF (renderHdrs ((k, v) :: H) ++ CRLF ++ B) =
        some (buildHeader k v, renderHdrs H ++ CRLF ++ B) := by
      rw [renderHdrs_cons]
      have : buildHeader k v ++ CRLF ++ renderHdrs H ++ CRLF ++ B =
          buildHeader k v ++ CRLF ++ (renderHdrs H ++ CRLF ++ B) := by simp
      rw [this]; exact splitCRLF_render hok.2.2.2 _
    have hne : (buildHeader k v).isEmpty = false := by simp [buildHeader]
    rw [hdrBlock, hs]
    simp only [hne, Bool.false_eq_true, if_false, hdrLineOK_render hkv.1 hkv.2]
    have hH' : wfHeaders H = true := by
      simp only [wfHeaders, List.all_cons, Bool.and_eq_true] at hH ⊢; exact hH.2
    rw [ih hH' ((k, v) :: acc) fuel (by simp at hf; omega)]
    simp

/-- **rendered packets are well-formed**: start line in the grammar, headers in the guard, payload
    consistent with the announced framing -/
theorem wfMessage_pkt (isReq : Bool) (line : Bytes) (H : HDict) (B : Bytes)
    (hl : startLineOK isReq line = true) (hH : wfHeaders H = true) (hf : framingOK isReq H B = true) :
    wfMessage isReq (line ++ CRLF ++ (renderHdrs H ++ CRLF ++ B)) = true := by
  have hnocr : splitCRLF line = none := by
    apply splitCRLF_none_of_noCR
    simp only [startLineOK, Bool.and_eq_true, List.all_eq_true, bne_iff_ne, ne_eq] at hl
    intro c hc; exact (hl.1 c hc).1
  unfold wfMessage
  rw [splitCRLF_render hnocr]
  have hlen : H.length < (renderHdrs H ++ CRLF ++ B).length + 1 := by
    have := length_le_renderHdrs H
    simp only [List.length_append]; omega
  simp only [hl, Bool.true_and, hdrBlock_render H hH B [] _ hlen, List.reverse_nil, List.nil_append, hf]

end Px.Codec

namespace Px.Codec

open Px.Parser Px.Build
open Px.Chunk (ChunkedStream)

/-! ### what `HttpParser.build()` writes is well-formed -/

theorem plainTok_all {x : Bytes} (h : plainTok x = true) :
    x.isEmpty = false ∧ x.all (fun c => c != 13 && c != 10) = true ∧ SP ∉ x := by
  simp only [plainTok, Bool.and_eq_true, Bool.not_eq_true', List.all_eq_true, bne_iff_ne, ne_eq] at h
  refine ⟨h.1, ?_, fun hs => (h.2 _ hs).1.1 rfl⟩
  simp only [List.all_eq_true, Bool.and_eq_true, bne_iff_ne, ne_eq]
  exact fun c hc => ⟨(h.2 c hc).1.2, (h.2 c hc).2⟩

theorem startLineOK_req {m u v : Bytes} (hm : plainTok m = true) (hu : plainTok u = true) (hv : plainTok v = true) :
    startLineOK true (m ++ SP :: (u ++ SP :: v)) = true := by
  obtain ⟨m1, m2, m3⟩ := plainTok_all hm
  obtain ⟨u1, u2, u3⟩ := plainTok_all hu
  obtain ⟨v1, v2, -⟩ := plainTok_all hv
  unfold startLineOK
  rw [splitN1_three m3 u3]
  simp only [m1, u1, v1, Bool.not_false, Bool.and_self, Bool.and_true]
  simp only [List.all_append, List.all_cons, m2, u2, v2, Bool.and_true, Bool.true_and]
  decide

theorem build_raw_plain (bufSize : Nat) (p : Parser) (meth ver : Bytes) (g : ReqGuard p meth ver)
    (hch : p.isChunked = false) :
    Px.Build.build bufSize Px.Gen.defaultDisableHeaders p none none =
      .ok (buildRequest [] meth (pathOf p) ver none (hdrPairs p) p.body false true) := by
  obtain ⟨hty, hm, hv, hmt, hvt, hpt, hpo, hi⟩ := g
  have hbc : bodyOrChunks bufSize p = .ok p.body := by
    unfold bodyOrChunks; cases p.body <;> simp [hch]
  rw [build_eq bufSize p meth ver hty hm hv (plainTok_spec hmt).1 (plainTok_spec hvt).1 hi, hbc]

theorem build_raw_chunked (bufSize : Nat) (p : Parser) (meth ver bd enc : Bytes) (g : ReqGuard p meth ver)
    (hch : p.isChunked = true) (hb : p.body = some bd) (henc : Px.Chunk.toChunks bd bufSize = .ok enc) :
    Px.Build.build bufSize Px.Gen.defaultDisableHeaders p none none =
      .ok (buildRequest [] meth (pathOf p) ver none (hdrPairs p) (some enc) false true) := by
  obtain ⟨hty, hm, hv, hmt, hvt, hpt, hpo, hi⟩ := g
  have hbc : bodyOrChunks bufSize p = .ok (some enc) := by
    unfold bodyOrChunks; simp [hb, hch, henc]
  rw [build_eq bufSize p meth ver hty hm hv (plainTok_spec hmt).1 (plainTok_spec hvt).1 hi, hbc]

/-- **C15 rebuilt requests are well-formed** (`wfMessage`), in each framing; for Content-Length the
    guard is textual: every received `content-length` is the canonical decimal of the body length
    (a receiver comparing the two header lines as text — h11 does — rejects `05` next to `5`) -/
theorem rebuild_req_wf (bufSize : Nat) (hbs : bufSize ≠ 0) (p : Parser) (meth ver : Bytes) (g : ReqGuard p meth ver) :
    (p.isChunked = false → bodyTruthy p.body = false →
      (∀ e ∈ hdrPairs p, isTEChunked e = false) → (∀ e ∈ hdrPairs p, isCL e = true → e.2 = natToDec 0) →
      ∃ raw, Px.Build.build bufSize Px.Gen.defaultDisableHeaders p none none = .ok raw ∧
        wfMessage true raw = true) ∧
    (p.isChunked = false → bodyTruthy p.body = true →
      (∀ e ∈ hdrPairs p, lower e.1 ≠ kTE) →
      (∀ e ∈ hdrPairs p, isCL e = true → e.2 = natToDec (p.body.getD []).length) →
      ∃ raw, Px.Build.build bufSize Px.Gen.defaultDisableHeaders p none none = .ok raw ∧
        wfMessage true raw = true) ∧
    (∀ bd, p.isChunked = true → p.body = some bd → (∃ e ∈ hdrPairs p, isTEChunked e = true) →
      ∃ raw, Px.Build.build bufSize Px.Gen.defaultDisableHeaders p none none = .ok raw ∧
        wfMessage true raw = true) := by
  have hline := startLineOK_req g.methodTok g.pathTok g.versionTok
  have hwfL : wfHeaders (hdrPairs p) = true := wfHeaders_namesOf g.hdrs
  refine ⟨?_, ?_, ?_⟩
  · intro hch hb hte hcl
    refine ⟨_, build_raw_plain bufSize p meth ver g hch, ?_⟩
    rw [buildRequest_eq, reqHeaders_rebuild, hb, bodyTruthy_false_getD hb]
    simp only [Bool.false_and, Bool.false_eq_true, if_false]
    apply wfMessage_pkt true _ _ _ hline hwfL
    unfold framingOK
    have h1 : (hdrPairs p).any isTEChunked = false := by
      rw [List.any_eq_false]; intro e he; simp [hte e he]
    rw [h1]
    simp only [Bool.false_eq_true, if_false, List.length_nil, List.isEmpty_nil, Bool.not_true, Bool.or_true]
    split
    · rw [List.all_eq_true]
      intro e he
      cases hc : isCL e with
      | false => rfl
      | true => simp [hcl e he hc]
    · rfl
  · intro hch hb hte hcl
    refine ⟨_, build_raw_plain bufSize p meth ver g hch, ?_⟩
    have heq : reqHeaders [] none (hdrPairs p) p.body false true =
        dSet (hdrPairs p) nCL (natToDec (p.body.getD []).length) := by
      rw [reqHeaders_rebuild, hb, hasKey_false hte]; rfl
    rw [buildRequest_eq, heq]
    have hwfH : wfHeaders (dSet (hdrPairs p) nCL (natToDec (p.body.getD []).length)) = true := by
      simp only [wfHeaders, List.all_eq_true, Bool.and_eq_true]
      intro e he
      rcases mem_dSet he with rfl | ⟨he, -⟩
      · exact ⟨wfName_builders.1, wfValue_natToDec _⟩
      · exact wfHeaders_mem hwfL he
    apply wfMessage_pkt true _ _ _ hline hwfH
    unfold framingOK
    have h1 : (dSet (hdrPairs p) nCL (natToDec (p.body.getD []).length)).any isTEChunked = false := by
      rw [List.any_eq_false]; intro e he
      rcases mem_dSet he with rfl | ⟨he, -⟩
      · simp [isTEChunked_false_mk _ _ lower_builders.2.1]
      · simp [isTEChunked_false_of (hte e he)]
    have h2 : (dSet (hdrPairs p) nCL (natToDec (p.body.getD []).length)).any isCL = true :=
      List.any_eq_true.2 ⟨_, mem_dSet_self _ _ _, by simp [isCL, lower_builders.2.2.2.2.2.1]⟩
    rw [h1, h2]
    simp only [Bool.false_eq_true, if_false, if_true]
    rw [List.all_eq_true]
    intro e he
    cases hc : isCL e with
    | false => rfl
    | true =>
      rcases mem_dSet he with rfl | ⟨he, -⟩
      · simp
      · simp [hcl e he hc]
  · intro bd hch hb hte
    obtain ⟨enc, henc, hok⟩ := chunkedOK_toChunks bd bufSize (by omega)
    refine ⟨_, build_raw_chunked bufSize p meth ver bd enc g hch hb henc, ?_⟩
    obtain ⟨t, ht, htc⟩ := hte
    have hkey : hasKey kTE (hdrPairs p) = true :=
      List.any_eq_true.2 ⟨t, ht, by simp [isTEChunked_key htc]⟩
    rw [buildRequest_eq, reqHeaders_rebuild, hkey]
    simp only [Bool.not_true, Bool.and_false, Bool.false_eq_true, if_false, Option.getD_some]
    apply wfMessage_pkt true _ _ _ hline hwfL
    unfold framingOK
    rw [List.any_eq_true.2 ⟨t, ht, htc⟩]
    simpa using hok

end Px.Codec
