import PxProofs.ForwardBuild
import PxProofs.BuildParse
import PxProofs.UrlParseLemmas
/-!
# C02 helper lemmas, part 4: the parser on a rendered well-formed request (one piece)

`render r` for `r.WF` — any name casing, any OWS around values, any chunk layout —
is read by `HttpParser.parse` into exactly the fields the client meant.
Start line: `Px.UrlL.fromBytes_absolute` (C14 lemmas); header block: the fold
`Px.Codec.foldHdrs` (C15 lemmas) reached through `processHeader_field` below;
body: `Px.Codec.bodyPhase_*` (C15 lemmas) and `Px.Chunk.parse_stream` (C03 lemmas).
-/
namespace Px.Forward

open Px.Parser Px.Build
open Px.Codec (hdrApply foldHdrs bodyPhase afterHeaders)

/-! ### one header line with arbitrary OWS -/

def fieldLine (f : Field) : Bytes := f.name ++ COLON :: (f.pre ++ f.value ++ f.post)

theorem renderField_eq (f : Field) : renderField f = fieldLine f ++ CRLF := by
  simp [renderField, fieldLine]

theorem lstrip_ws_append (a x : Bytes) (ha : ∀ c ∈ a, isWs c = true) : lstrip (a ++ x) = lstrip x := by
  induction a with
  | nil => rfl
  | cons c cs ih =>
    have hc : isWs c = true := ha c (by simp)
    simp only [List.cons_append, lstrip, hc, if_true]
    exact ih (fun d hd => ha d (by simp [hd]))

theorem rstrip_append_ws (x a : Bytes) (ha : ∀ c ∈ a, isWs c = true) : rstrip (x ++ a) = rstrip x := by
  unfold rstrip
  rw [List.reverse_append, lstrip_ws_append _ _ (fun c hc => ha c (by simpa using hc))]

theorem strip_ows_value {pre v post : Bytes} (hpre : pre.all isOws = true) (hpost : post.all isOws = true)
    (hv : valueOk v = true) : strip (pre ++ v ++ post) = v := by
  have hpre' : ∀ c ∈ pre, isWs c = true := fun c hc => (ows_facts c (List.all_eq_true.1 hpre c hc)).1
  have hpost' : ∀ c ∈ post, isWs c = true := fun c hc => (ows_facts c (List.all_eq_true.1 hpost c hc)).1
  simp only [valueOk, Bool.and_eq_true, List.all_eq_true] at hv
  obtain ⟨⟨hfb, hhead⟩, hlast⟩ := hv
  unfold strip
  rw [List.append_assoc, lstrip_ws_append _ _ hpre']
  cases v with
  | nil =>
    simp only [List.nil_append]
    rw [(lstrip_eq_nil_iff post).2 hpost']; rfl
  | cons c cs =>
    have hcw : isWs c = false := by
      apply (fieldByte_facts c (hfb c (by simp))).2.2
      simpa using hhead
    rw [List.cons_append, lstrip_of_head hcw, ← List.cons_append, rstrip_append_ws _ _ hpost']
    have hself : strip (c :: cs) = c :: cs := by
      apply strip_eq_self
      · intro d hd; simp at hd; subst hd; exact hcw
      · intro d hd
        apply (fieldByte_facts d (hfb d (List.mem_of_mem_getLast? hd))).2.2
        rw [hd] at hlast; simpa using hlast
    unfold strip at hself
    rw [lstrip_of_head hcw] at hself
    exact hself

theorem token_facts {x : Bytes} (h : tokenOk x = true) :
    x ≠ [] ∧ COLON ∉ x ∧ SP ∉ x ∧ (∀ c ∈ x, isWs c = false) ∧ (∀ c ∈ x, c ≠ LF) := by
  simp only [tokenOk, Bool.and_eq_true, Bool.not_eq_true', List.all_eq_true] at h
  refine ⟨by simpa using h.1, ?_, ?_, ?_, ?_⟩
  · intro hc; exact (tchar_facts _ (h.2 _ hc)).2.1 rfl
  · intro hc; exact (tchar_facts _ (h.2 _ hc)).2.2.1 rfl
  · intro c hc; exact (tchar_facts _ (h.2 _ hc)).1
  · intro c hc; exact (tchar_facts _ (h.2 _ hc)).2.2.2.1

theorem fieldLine_noLF {f : Field} (h : fieldOk f = true) : ∀ c ∈ fieldLine f, c ≠ LF := by
  simp only [fieldOk, Bool.and_eq_true] at h
  obtain ⟨⟨⟨hn, hpre⟩, hpost⟩, hv⟩ := h
  simp only [valueOk, Bool.and_eq_true, List.all_eq_true] at hv hpre hpost
  intro c hc
  simp only [fieldLine, List.mem_append, List.mem_cons] at hc
  rcases hc with hc | rfl | (hc | hc) | hc
  · exact (token_facts hn).2.2.2.2 c hc
  · decide
  · exact (ows_facts c (hpre c hc)).2.1
  · exact (fieldByte_facts c (hv.1.1 c hc)).1
  · exact (ows_facts c (hpost c hc)).2.1

/-- **one header line**: whatever the casing of the name and the OWS around the value,
    the parser stores `(name, value)` -/
theorem processHeader_field (p : Parser) {f : Field} (h : fieldOk f = true) :
    processHeader p (fieldLine f) = hdrApply p f.name f.value := by
  simp only [fieldOk, Bool.and_eq_true] at h
  obtain ⟨⟨⟨hn, hpre⟩, hpost⟩, hv⟩ := h
  obtain ⟨_, hcol, _, hws, _⟩ := token_facts hn
  have hs : splitOnce1 COLON (fieldLine f) = some (f.name, f.pre ++ f.value ++ f.post) :=
    splitOnce1_render _ _ _ hcol
  have hk : strip f.name = f.name := Px.Codec.strip_noWs hws
  unfold processHeader hdrApply
  simp only [hs, hk, strip_ows_value hpre hpost hv]
  rfl

theorem fieldLine_not_blank {f : Field} (h : fieldOk f = true) : (strip (fieldLine f)).isEmpty = false := by
  have : strip (fieldLine f) ≠ [] :=
    strip_ne_nil (c := COLON) (by simp [fieldLine]) (by decide)
  simpa using this

/-- the header dict the client meant -/
def dictOf (fs : List Field) : HDict := fs.map (fun f => (f.name, f.value))

theorem renderFields_cons (f : Field) (fs : List Field) :
    renderFields (f :: fs) = fieldLine f ++ CRLF ++ renderFields fs := by
  simp [renderFields, renderField_eq]

/-- **header block** with arbitrary spelling: consumed exactly, applied in order -/
theorem processHeaders_fields (fs : List Field) (hfs : ∀ f ∈ fs, fieldOk f = true) (p : Parser)
    (hp : p.state = .lineRcvd ∨ p.state = .rcvingHeaders) (B : Bytes) (fuel : Nat) (hf : fs.length < fuel) :
    processHeaders fuel p (renderFields fs ++ CRLF ++ B) =
      match foldHdrs p (dictOf fs) with
      | .error e => .error e
      | .ok q => .ok ({ q with state := .headersComplete }, !B.isEmpty, B) := by
  induction fs generalizing p fuel with
  | nil =>
    obtain ⟨fuel, rfl⟩ : ∃ f, fuel = f + 1 := ⟨fuel - 1, by omega⟩
    have hs : splitCRLF (renderFields [] ++ CRLF ++ B) = some ([], B) := by
      simpa [renderFields] using splitCRLF_render (l := []) rfl B
    have hst : (p.state == .lineRcvd || p.state == .rcvingHeaders) = true := by
      rcases hp with h | h <;> simp [h]
    rw [processHeaders]
    simp only [hs, hst, if_true, strip_nil, List.isEmpty_nil, dictOf, List.map_nil, foldHdrs,
      beq_self_eq_true, Bool.or_true]
  | cons f fs ih =>
    obtain ⟨fuel, rfl⟩ : ∃ k, fuel = k + 1 := ⟨fuel - 1, by omega⟩
    have hok := hfs f (by simp)
    have hs : splitCRLF (renderFields (f :: fs) ++ CRLF ++ B) =
        some (fieldLine f, renderFields fs ++ CRLF ++ B) := by
      rw [renderFields_cons]
      have : fieldLine f ++ CRLF ++ renderFields fs ++ CRLF ++ B =
          fieldLine f ++ CRLF ++ (renderFields fs ++ CRLF ++ B) := by simp
      rw [this]; exact splitCRLF_render (splitCRLF_none_of_noLF (fieldLine_noLF hok)) _
    have hst : (p.state == .lineRcvd || p.state == .rcvingHeaders) = true := by
      rcases hp with h | h <;> simp [h]
    rw [processHeaders]
    simp only [hs, hst, if_true, fieldLine_not_blank hok, Bool.false_eq_true, if_false,
      processHeader_field _ hok, dictOf, List.map_cons, foldHdrs]
    cases hq : hdrApply { p with state := .rcvingHeaders } f.name f.value with
    | error e => rfl
    | ok q =>
      have hqs : q.state = .rcvingHeaders := Px.Codec.hdrApply_state hq
      have hne : (renderFields fs ++ CRLF ++ B).isEmpty = false := by simp [CRLF]
      simp only [hne, hqs, Bool.false_or]
      have : (PState.rcvingHeaders == PState.headersComplete) = false := by decide
      simp only [this, Bool.false_eq_true, if_false]
      exact ih (fun g hg => hfs g (List.mem_cons_of_mem _ hg)) q (.inr hqs) fuel (by simp at hf; omega)

theorem length_le_renderFields (fs : List Field) : fs.length ≤ (renderFields fs).length := by
  induction fs with
  | nil => simp
  | cons f fs ih =>
    rw [renderFields_cons]
    simp only [List.length_cons, List.length_append, CRLF]
    omega

theorem stepOnce_fields (cfg : Px.Parser.Cfg) (p : Parser) (hp : p.state = .lineRcvd) (fs : List Field)
    (hfs : ∀ f ∈ fs, fieldOk f = true) (B : Bytes) {q : Parser} (hq : foldHdrs p (dictOf fs) = .ok q) :
    stepOnce cfg p (renderFields fs ++ CRLF ++ B) = .ok (afterHeaders q B) := by
  unfold stepOnce
  have h1 : ¬ (p.state.num ≥ PState.headersComplete.num) := by rw [hp]; decide
  have h2 : (p.state == PState.initialized) = false := by rw [hp]; decide
  have hf : fs.length < (renderFields fs ++ CRLF ++ B).length + 1 := by
    have := length_le_renderFields fs
    simp only [List.length_append]; omega
  simp only [h1, h2, if_false, Bool.false_eq_true,
    processHeaders_fields fs hfs p (.inl hp) B _ hf, hq]
  have h3 : (PState.headersComplete == PState.lineRcvd) = false := by decide
  simp only [h3, Bool.and_false, Bool.false_and, Bool.false_eq_true, if_false, beq_self_eq_true,
    Bool.true_and, afterHeaders, hasHeader]
  split
  · rename_i hc; simp only [hc, if_true]
  · rename_i hc; simp only [hc, if_false, Bool.false_eq_true]

/-- **request packet with arbitrary spelling**: request line and header block are consumed by the
    first two loop iterations; what remains is the body phase -/
theorem parse_request_fields (cfg : Px.Parser.Cfg) {m u v : Bytes} {url : Px.Url.Url} (fs : List Field) (B : Bytes)
    (hmne : m ≠ []) (hm : SP ∉ m) (hu : SP ∉ u) (hl : splitCRLF (m ++ SP :: (u ++ SP :: v)) = none)
    (hurl : Px.Url.fromBytes cfg.allowedSchemes u = .ok url)
    (hfs : ∀ f ∈ fs, fieldOk f = true) (pkt : Bytes)
    (hpkt : pkt = m ++ SP :: (u ++ SP :: v) ++ CRLF ++ (renderFields fs ++ CRLF ++ B))
    {q : Parser} (hq : foldHdrs (Px.Codec.reqLineParser cfg pkt.length m v url) (dictOf fs) = .ok q) :
    parse cfg (init .request) pkt = bodyPhase cfg (pkt.length + 6) q B := by
  have hne : (renderFields fs ++ CRLF ++ B).isEmpty = false := by simp [CRLF]
  have hlen : 0 < pkt.length := by
    simp only [hpkt, List.length_append, List.length_cons, CRLF]; omega
  have hstep1 := Px.Codec.stepOnce_line_request cfg pkt.length (renderFields fs ++ CRLF ++ B) hmne hm hu hl hurl
  rw [← hpkt, hne] at hstep1
  have hpos : decide (pkt.length > 0) = true := by simpa using hlen
  rw [parse_eq, Px.Codec.bufBytes_init, List.nil_append, hpos]
  have e8 : pkt.length + 8 = (pkt.length + 7) + 1 := rfl
  have hinit : ({ (init .request) with totalSize := (init .request).totalSize + pkt.length, buffer := none } : Parser)
      = { (init .request) with totalSize := pkt.length } := by simp [init]
  rw [e8, hinit, Px.Codec.loop_step _ _ _ _ (by simp [init]), hstep1]
  simp only [Bool.not_false]
  have e7 : pkt.length + 7 = (pkt.length + 6) + 1 := rfl
  rw [e7, Px.Codec.loop_step _ _ _ _ (by show PState.lineRcvd ≠ PState.complete; decide)]
  rw [stepOnce_fields cfg _ rfl fs hfs B hq]
  rfl

end Px.Forward
