import PxModel.Bytes
import PxModel.Generated
import PxModel.Ws
import PxModel.Sha1
import PxModel.DrvWs
