import PxModel.PluginChain
/-! Helper lemmas for C08 / C09 (proxy authentication, plugin chains). -/
namespace Px.Chain
open Px

/-! ### dict lemmas -/

section dict
variable {κ ν : Type} [BEq κ] [LawfulBEq κ]
set_option linter.unusedSectionVars false

theorem dGet_dSet_same (d : List (κ × ν)) (k : κ) (v : ν) : dGet? (dSet d k v) k = some v := by
  induction d with
  | nil => simp [dSet, dGet?]
  | cons e rest ih =>
    obtain ⟨k', v'⟩ := e
    by_cases h : k' = k
    · simp [dSet, dGet?, h]
    · simp [dSet, dGet?, h, ih]

theorem dGet_dSet_other (d : List (κ × ν)) (k k' : κ) (v : ν) (h : k' ≠ k) :
    dGet? (dSet d k' v) k = dGet? d k := by
  induction d with
  | nil => simp [dSet, dGet?, h]
  | cons e rest ih =>
    obtain ⟨k0, v0⟩ := e
    by_cases h0 : k0 = k'
    · subst h0; simp [dSet, dGet?, h]
    · have hb : (k0 == k') = false := by simp [h0]
      by_cases h1 : k0 = k
      · subst h1; simp [dSet, dGet?, hb]
      · simp [dSet, dGet?, hb, h1, ih]

theorem dHas_dDel_same (d : List (κ × ν)) (k : κ) : dHas (dDel d k) k = false := by
  simp [dHas, dDel]

theorem dHas_dDel_of_not (d : List (κ × ν)) (k k' : κ) (h : dHas d k = false) :
    dHas (dDel d k') k = false := by
  simp only [dHas, dDel, List.any_eq_false, List.mem_filter] at *
  intro e he
  exact h e he.1

theorem dHas_dSet_other (d : List (κ × ν)) (k k' : κ) (v : ν) (h : k' ≠ k) :
    dHas (dSet d k' v) k = dHas d k := by
  induction d with
  | nil => simp [dSet, dHas, h]
  | cons e rest ih =>
    obtain ⟨k0, v0⟩ := e
    by_cases h0 : k0 = k'
    · subst h0; simp [dSet, dHas]
    · simp only [dHas] at ih
      simp [dSet, dHas, h0, ih]

theorem dGet_none_of_not_has (d : List (κ × ν)) (k : κ) (h : dHas d k = false) : dGet? d k = none := by
  induction d with
  | nil => rfl
  | cons e rest ih =>
    obtain ⟨k0, v0⟩ := e
    simp only [dHas, List.any_cons, Bool.or_eq_false_iff] at h
    have h1 : (k0 == k) = false := h.1
    simp only [dGet?, h1]
    exact ih (by simpa [dHas] using h.2)

/-- every key written by `dSet` is the new key or was there before -/
theorem mem_dSet_key (d : List (κ × ν)) (k : κ) (v : ν) (e : κ × ν) (he : e ∈ dSet d k v) :
    e.1 = k ∨ ∃ e' ∈ d, e'.1 = e.1 := by
  induction d with
  | nil => simp [dSet] at he; left; simp [he]
  | cons e0 rest ih =>
    obtain ⟨k0, v0⟩ := e0
    by_cases h0 : k0 = k
    · simp only [dSet, h0, beq_self_eq_true, if_true, List.mem_cons] at he
      rcases he with he | he
      · left; simp [he]
      · right; exact ⟨e, List.mem_cons_of_mem _ he, rfl⟩
    · simp only [dSet, beq_iff_eq, h0, if_false, List.mem_cons] at he
      rcases he with he | he
      · right; exact ⟨(k0, v0), List.mem_cons_self, by simp [he]⟩
      · rcases ih he with h | ⟨e', he', hk⟩
        · left; exact h
        · right; exact ⟨e', List.mem_cons_of_mem _ he', hk⟩

end dict

/-! ### observers of an effect log -/

def connOf : Eff → Option (Bytes × Nat)
  | .connect h p => some (h, p)
  | _ => none

def upOfE : Eff → Option Bytes
  | .upQ x => some x
  | _ => none

/-- `(host, port)` of every connection attempt, in order -/
def connects (l : Log) : List (Bytes × Nat) := l.filterMap connOf
/-- every item queued for the upstream server, in order -/
def upBytes (l : Log) : List Bytes := l.filterMap upOfE

/-- hooks that take part in handling a request / its data (everything but the
    two per-connection lifecycle callbacks) -/
def reqHook : Hook → Bool
  | .accessLog => false
  | .upClose => false
  | _ => true

/-- lifecycle effects: `on_access_log`, `on_upstream_connection_close`, default access log -/
def lifeE : Eff → Bool
  | .call _ h _ => !reqHook h
  | .defaultLog _ => true
  | _ => false

def noLife (l : Log) : Bool := l.all (fun e => !lifeE e)

/-- effects that touch neither a plugin nor a peer: bytes written out to the client, teardown -/
def quietE : Eff → Bool
  | .clSent _ => true
  | .teardown => true
  | _ => false

/-- number of invocations of hook `h` of the plugin at position `i` -/
def countCall (i : Nat) (h : Hook) (l : Log) : Nat :=
  l.countP (fun e => match e with
    | .call j h' _ => j == i && h' == h
    | _ => false)

@[simp] theorem connects_append (a c : Log) : connects (a ++ c) = connects a ++ connects c := by
  simp [connects]
@[simp] theorem upBytes_append (a c : Log) : upBytes (a ++ c) = upBytes a ++ upBytes c := by
  simp [upBytes]
@[simp] theorem noLife_append (a c : Log) : noLife (a ++ c) = (noLife a && noLife c) := by
  simp [noLife]
@[simp] theorem countCall_append (i : Nat) (h : Hook) (a c : Log) :
    countCall i h (a ++ c) = countCall i h a + countCall i h c := by
  simp [countCall]
@[simp] theorem clItems_append (a c : Log) : clItems (a ++ c) = clItems a ++ clItems c := by
  induction a with
  | nil => rfl
  | cons e rest ih => cases e <;> simp [clItems, ih]

@[simp] theorem connects_cons (e : Eff) (l : Log) : connects (e :: l) = (connOf e).toList ++ connects l := by
  cases h : connOf e <;> simp [connects, List.filterMap_cons, h]
@[simp] theorem upBytes_cons (e : Eff) (l : Log) : upBytes (e :: l) = (upOfE e).toList ++ upBytes l := by
  cases h : upOfE e <;> simp [upBytes, List.filterMap_cons, h]
@[simp] theorem noLife_cons (e : Eff) (l : Log) : noLife (e :: l) = (!lifeE e && noLife l) := by
  simp [noLife]
@[simp] theorem connects_nil : connects [] = [] := rfl
@[simp] theorem upBytes_nil : upBytes [] = [] := rfl
@[simp] theorem clItems_nil : clItems [] = [] := rfl
@[simp] theorem noLife_nil : noLife [] = true := rfl
@[simp] theorem countCall_nil (i : Nat) (h : Hook) : countCall i h [] = 0 := rfl

/-! ### the chain loop -/

section chain
variable {α : Type}

/-- the values handed to the plugins of a chain, in order: the initial value,
    then what each plugin returned, up to the first plugin that does not return a value -/
def inputs (f : Plugin → α → Res α) : List Plugin → α → List α
  | [], _ => []
  | p :: ps, x =>
    x :: (match f p x with
      | .pass y => inputs f ps y
      | _ => [])

/-- calls of hook `h` for consecutive plugin positions from `i` with the given arguments -/
def mkCalls (h : Hook) (w : α → Arg) : Nat → List α → Log
  | _, [] => []
  | i, x :: xs => Eff.call i h (w x) :: mkCalls h w (i + 1) xs

theorem chain_log (h : Hook) (f : Plugin → α → Res α) (w : α → Arg) (i : Nat) (ps : List Plugin) (x : α) :
    (chain h f w i ps x).1 = mkCalls h w i (inputs f ps x) := by
  induction ps generalizing i x with
  | nil => rfl
  | cons p ps ih =>
    cases hf : f p x with
    | pass y => simp [chain, inputs, mkCalls, hf, ih]
    | drop => simp [chain, inputs, mkCalls, hf]
    | reject e => simp [chain, inputs, mkCalls, hf]

theorem inputs_length_le (f : Plugin → α → Res α) (ps : List Plugin) (x : α) :
    (inputs f ps x).length ≤ ps.length := by
  induction ps generalizing x with
  | nil => simp [inputs]
  | cons p ps ih =>
    cases hf : f p x with
    | pass y => simp [inputs, hf]; exact ih y
    | drop => simp [inputs, hf]
    | reject e => simp [inputs, hf]

theorem inputs_head (f : Plugin → α → Res α) (p : Plugin) (ps : List Plugin) (x : α) :
    (inputs f (p :: ps) x)[0]? = some x := by
  simp [inputs]

/-- data flow: the value handed to plugin `k+1` is what plugin `k` returned for the value it was handed -/
theorem inputs_step (f : Plugin → α → Res α) (ps : List Plugin) (x : α) (k : Nat) (a c : α)
    (ha : (inputs f ps x)[k]? = some a) (hc : (inputs f ps x)[k + 1]? = some c) :
    ∃ p, ps[k]? = some p ∧ f p a = .pass c := by
  induction ps generalizing x k with
  | nil => simp [inputs] at ha
  | cons p ps ih =>
    cases hf : f p x with
    | pass y =>
      simp only [inputs, hf] at ha hc
      cases k with
      | zero =>
        simp only [List.getElem?_cons_zero, Option.some.injEq] at ha
        subst ha
        simp only [List.getElem?_cons_succ] at hc
        cases ps with
        | nil => simp [inputs] at hc
        | cons q qs =>
          rw [inputs_head] at hc
          simp only [Option.some.injEq] at hc
          subst hc
          exact ⟨p, by simp, hf⟩
      | succ k =>
        simp only [List.getElem?_cons_succ] at ha hc
        obtain ⟨q, hq, hfq⟩ := ih y k ha hc
        exact ⟨q, by simpa using hq, hfq⟩
    | drop => simp [inputs, hf] at hc
    | reject e => simp [inputs, hf] at hc

/-- every plugin that was handed a value is in the configured list at that position -/
theorem inputs_lt (f : Plugin → α → Res α) (ps : List Plugin) (x : α) (k : Nat) (a : α)
    (ha : (inputs f ps x)[k]? = some a) : k < ps.length := by
  have := inputs_length_le f ps x
  have hk : k < (inputs f ps x).length := by
    rcases Nat.lt_or_ge k (inputs f ps x).length with h | h
    · exact h
    · rw [List.getElem?_eq_none h] at ha; cases ha
  omega

theorem mkCalls_length (h : Hook) (w : α → Arg) (i : Nat) (xs : List α) : (mkCalls h w i xs).length = xs.length := by
  induction xs generalizing i with
  | nil => rfl
  | cons x xs ih => simp [mkCalls, ih]

theorem mkCalls_get (h : Hook) (w : α → Arg) (i : Nat) (xs : List α) (k : Nat) :
    (mkCalls h w i xs)[k]? = (xs[k]?).map (fun x => Eff.call (i + k) h (w x)) := by
  induction xs generalizing i k with
  | nil => simp [mkCalls]
  | cons x xs ih =>
    cases k with
    | zero => simp [mkCalls]
    | succ k =>
      simp only [mkCalls, List.getElem?_cons_succ, ih]
      congr 1; funext y; congr 1; omega

/-- how the chain ends, in terms of the values handed around -/
theorem chain_done (h : Hook) (f : Plugin → α → Res α) (w : α → Arg) (i : Nat) (ps : List Plugin) (x y : α)
    (hd : (chain h f w i ps x).2 = .done y) :
    (inputs f ps x).length = ps.length ∧
    (∀ (k : Nat) (a : α), (inputs f ps x)[k]? = some a → ∃ p c, ps[k]? = some p ∧ f p a = .pass c) := by
  induction ps generalizing i x with
  | nil => simp [inputs]
  | cons p ps ih =>
    cases hf : f p x with
    | pass z =>
      simp only [chain, hf] at hd
      obtain ⟨hl, hall⟩ := ih (i + 1) z hd
      refine ⟨by simp [inputs, hf, hl], ?_⟩
      intro k a ha
      simp only [inputs, hf] at ha
      cases k with
      | zero =>
        simp only [List.getElem?_cons_zero, Option.some.injEq] at ha
        subst ha
        exact ⟨p, z, by simp, hf⟩
      | succ k =>
        simp only [List.getElem?_cons_succ] at ha
        obtain ⟨q, c, hq, hc⟩ := hall k a ha
        exact ⟨q, c, by simpa using hq, hc⟩
    | drop => simp [chain, hf] at hd
    | reject e => simp [chain, hf] at hd

theorem chain_dropped (h : Hook) (f : Plugin → α → Res α) (w : α → Arg) (i : Nat) (ps : List Plugin) (x a : α)
    (hd : (chain h f w i ps x).2 = .dropped a) :
    ∃ k p, (inputs f ps x).length = k + 1 ∧ (inputs f ps x)[k]? = some a ∧ ps[k]? = some p ∧ f p a = .drop := by
  induction ps generalizing i x with
  | nil => simp [chain] at hd
  | cons p ps ih =>
    cases hf : f p x with
    | pass z =>
      simp only [chain, hf] at hd
      obtain ⟨k, q, hl, hk, hq, hfq⟩ := ih (i + 1) z hd
      exact ⟨k + 1, q, by simp [inputs, hf, hl], by simpa [inputs, hf] using hk, by simpa using hq, hfq⟩
    | drop =>
      simp only [chain, hf, CR.dropped.injEq] at hd
      subst hd
      exact ⟨0, p, by simp [inputs, hf], by simp [inputs, hf], by simp, hf⟩
    | reject e => simp [chain, hf] at hd

theorem chain_raised (h : Hook) (f : Plugin → α → Res α) (w : α → Arg) (i : Nat) (ps : List Plugin) (x : α) (e : Exc)
    (hd : (chain h f w i ps x).2 = .raised e) :
    ∃ k p a, (inputs f ps x).length = k + 1 ∧ (inputs f ps x)[k]? = some a ∧ ps[k]? = some p ∧
      f p a = .reject e := by
  induction ps generalizing i x with
  | nil => simp [chain] at hd
  | cons p ps ih =>
    cases hf : f p x with
    | pass z =>
      simp only [chain, hf] at hd
      obtain ⟨k, q, a, hl, hk, hq, hfq⟩ := ih (i + 1) z hd
      exact ⟨k + 1, q, a, by simp [inputs, hf, hl], by simpa [inputs, hf] using hk, by simpa using hq, hfq⟩
    | drop => simp [chain, hf] at hd
    | reject e' =>
      simp only [chain, hf, CR.raised.injEq] at hd
      subst hd
      exact ⟨0, p, x, by simp [inputs, hf], by simp [inputs, hf], by simp, hf⟩

/-- a chain's log consists of calls of its own hook only, for positions inside the list -/
theorem chain_mem (h : Hook) (f : Plugin → α → Res α) (w : α → Arg) (i : Nat) (ps : List Plugin) (x : α)
    (e : Eff) (he : e ∈ (chain h f w i ps x).1) : ∃ j a, e = .call j h a ∧ i ≤ j ∧ j < i + ps.length := by
  induction ps generalizing i x with
  | nil => simp [chain] at he
  | cons p ps ih =>
    cases hf : f p x with
    | pass z =>
      simp only [chain, hf, List.mem_cons] at he
      rcases he with he | he
      · exact ⟨i, w x, he, Nat.le_refl _, by simp⟩
      · obtain ⟨j, a, hj, h1, h2⟩ := ih (i + 1) z he
        exact ⟨j, a, hj, by omega, by simp; omega⟩
    | drop =>
      simp only [chain, hf, List.mem_singleton] at he
      exact ⟨i, w x, he, Nat.le_refl _, by simp⟩
    | reject e' =>
      simp only [chain, hf, List.mem_singleton] at he
      exact ⟨i, w x, he, Nat.le_refl _, by simp⟩

theorem connects_of_calls (l : Log) (h : ∀ e ∈ l, ∃ j hk a, e = Eff.call j hk a) : connects l = [] := by
  simp only [connects, List.filterMap_eq_nil_iff]
  intro e he
  obtain ⟨j, hk, a, rfl⟩ := h e he
  rfl

theorem upBytes_of_calls (l : Log) (h : ∀ e ∈ l, ∃ j hk a, e = Eff.call j hk a) : upBytes l = [] := by
  simp only [upBytes, List.filterMap_eq_nil_iff]
  intro e he
  obtain ⟨j, hk, a, rfl⟩ := h e he
  rfl

theorem clItems_of_calls (l : Log) (h : ∀ e ∈ l, ∃ j hk a, e = Eff.call j hk a) : clItems l = [] := by
  induction l with
  | nil => rfl
  | cons e rest ih =>
    obtain ⟨j, hk, a, rfl⟩ := h e List.mem_cons_self
    simp only [clItems]
    exact ih (fun e' he' => h e' (List.mem_cons_of_mem _ he'))

theorem chain_calls (h : Hook) (f : Plugin → α → Res α) (w : α → Arg) (i : Nat) (ps : List Plugin) (x : α) :
    ∀ e ∈ (chain h f w i ps x).1, ∃ j hk a, e = Eff.call j hk a := by
  intro e he
  obtain ⟨j, a, hj, _, _⟩ := chain_mem h f w i ps x e he
  exact ⟨j, h, a, hj⟩

@[simp] theorem connects_chain (h : Hook) (f : Plugin → α → Res α) (w : α → Arg) (i : Nat) (ps : List Plugin) (x : α) :
    connects (chain h f w i ps x).1 = [] := connects_of_calls _ (chain_calls h f w i ps x)
@[simp] theorem upBytes_chain (h : Hook) (f : Plugin → α → Res α) (w : α → Arg) (i : Nat) (ps : List Plugin) (x : α) :
    upBytes (chain h f w i ps x).1 = [] := upBytes_of_calls _ (chain_calls h f w i ps x)
@[simp] theorem clItems_chain (h : Hook) (f : Plugin → α → Res α) (w : α → Arg) (i : Nat) (ps : List Plugin) (x : α) :
    clItems (chain h f w i ps x).1 = [] := clItems_of_calls _ (chain_calls h f w i ps x)

theorem noLife_chain (h : Hook) (hh : reqHook h = true) (f : Plugin → α → Res α) (w : α → Arg) (i : Nat)
    (ps : List Plugin) (x : α) : noLife (chain h f w i ps x).1 = true := by
  simp only [noLife, List.all_eq_true]
  intro e he
  obtain ⟨j, a, rfl, _, _⟩ := chain_mem h f w i ps x e he
  simp [lifeE, hh]

end chain


/-! ### connect_upstream, on_request_complete -/

theorem resolve_mem (i : Nat) (ps : List Plugin) (host : Bytes) (port : Nat) (e : Eff)
    (he : e ∈ (resolveChain i ps host port).1) : ∃ j a, e = .call j .resolveDns a := by
  induction ps generalizing i with
  | nil => simp [resolveChain] at he
  | cons p ps ih =>
    simp only [resolveChain] at he
    split at he
    · simp only [List.mem_singleton] at he; exact ⟨_, _, he⟩
    · simp only [List.mem_cons] at he
      rcases he with he | he
      · exact ⟨_, _, he⟩
      · exact ih (i + 1) he

theorem resolve_calls (i : Nat) (ps : List Plugin) (host : Bytes) (port : Nat) :
    ∀ e ∈ (resolveChain i ps host port).1, ∃ j hk a, e = Eff.call j hk a := by
  intro e he
  obtain ⟨j, a, h⟩ := resolve_mem i ps host port e he
  exact ⟨j, _, a, h⟩

@[simp] theorem connects_resolve (i : Nat) (ps : List Plugin) (host : Bytes) (port : Nat) :
    connects (resolveChain i ps host port).1 = [] := connects_of_calls _ (resolve_calls i ps host port)
@[simp] theorem upBytes_resolve (i : Nat) (ps : List Plugin) (host : Bytes) (port : Nat) :
    upBytes (resolveChain i ps host port).1 = [] := upBytes_of_calls _ (resolve_calls i ps host port)
@[simp] theorem clItems_resolve (i : Nat) (ps : List Plugin) (host : Bytes) (port : Nat) :
    clItems (resolveChain i ps host port).1 = [] := clItems_of_calls _ (resolve_calls i ps host port)
@[simp] theorem noLife_resolve (i : Nat) (ps : List Plugin) (host : Bytes) (port : Nat) :
    noLife (resolveChain i ps host port).1 = true := by
  simp only [noLife, List.all_eq_true]
  intro e he
  obtain ⟨j, a, rfl⟩ := resolve_mem i ps host port e he
  simp [lifeE, reqHook]

/-- the address `connect_upstream` dials -/
def dialTarget (ps : List Plugin) (r : Req) : Bytes :=
  if (resolveChain 0 ps r.host r.port).2.isEmpty then connectHost r.host else (resolveChain 0 ps r.host r.port).2

theorem connects_connectUpstream (ps : List Plugin) (r : Req) (ok : Bool) :
    connects (connectUpstream ps r ok).1 =
      if r.host.isEmpty || r.port == 0 then [] else [(dialTarget ps r, r.port)] := by
  unfold connectUpstream dialTarget
  split <;> simp [connOf]

@[simp] theorem upBytes_connectUpstream (ps : List Plugin) (r : Req) (ok : Bool) :
    upBytes (connectUpstream ps r ok).1 = [] := by
  unfold connectUpstream
  split <;> simp [upOfE]

@[simp] theorem clItems_connectUpstream (ps : List Plugin) (r : Req) (ok : Bool) :
    clItems (connectUpstream ps r ok).1 = [] := by
  unfold connectUpstream
  split <;> simp [clItems]

@[simp] theorem noLife_connectUpstream (ps : List Plugin) (r : Req) (ok : Bool) :
    noLife (connectUpstream ps r ok).1 = true := by
  unfold connectUpstream
  split <;> simp [lifeE]

/-- the request-chain of `handle_client_request` -/
abbrev creqChain (ps : List Plugin) (x : Req) := chain .clientReq Plugin.clientReq Arg.req 0 ps x
abbrev beforeChain (ps : List Plugin) (x : Req) := chain .before Plugin.before Arg.req 0 ps x

theorem afterConnect_eq (cfg : Cfg) (ps : List Plugin) (up : Bool) (x : Req) :
    afterConnect cfg ps up x =
      match (creqChain ps x).2 with
      | .raised e => ((creqChain ps x).1, ⟨up, .error e⟩)
      | .dropped y => ((creqChain ps x).1, ⟨up, .ok y⟩)
      | .done y =>
        if up then
          if y.tunnel then ((creqChain ps x).1 ++ [Eff.clQ Px.Gen.pkt_PROXY_TUNNEL_ESTABLISHED_RESPONSE_PKT], ⟨up, .ok y⟩)
          else ((creqChain ps x).1 ++ [Eff.upQ ((fwdFirst y).build cfg.disableHeaders)], ⟨up, .ok (fwdFirst y)⟩)
        else ((creqChain ps x).1, ⟨up, .ok y⟩) := by
  rfl

theorem onRequestComplete_eq (cfg : Cfg) (ps : List Plugin) (ok : Bool) (r : Req) :
    onRequestComplete cfg ps ok r =
      match (beforeChain ps r).2 with
      | .raised e => ((beforeChain ps r).1, ⟨false, .error e⟩)
      | .dropped x => ((beforeChain ps r).1 ++ (afterBefore cfg ps ok false x).1, (afterBefore cfg ps ok false x).2)
      | .done x => ((beforeChain ps r).1 ++ (afterBefore cfg ps ok true x).1, (afterBefore cfg ps ok true x).2) := by
  rfl

theorem afterBefore_eq (cfg : Cfg) (ps : List Plugin) (ok doConnect : Bool) (x : Req) :
    afterBefore cfg ps ok doConnect x =
      if doConnect then
        match (connectUpstream ps x ok).2 with
        | .error e => ((connectUpstream ps x ok).1, ⟨false, .error e⟩)
        | .ok () => ((connectUpstream ps x ok).1 ++ (afterConnect cfg ps true x).1, (afterConnect cfg ps true x).2)
      else afterConnect cfg ps false x := by
  unfold afterBefore
  split
  · simp only []
    split <;> simp [*]
  · rfl

@[simp] theorem connects_afterConnect (cfg : Cfg) (ps : List Plugin) (up : Bool) (x : Req) :
    connects (afterConnect cfg ps up x).1 = [] := by
  rw [afterConnect_eq]
  split <;> (try split) <;> (try split) <;> simp [connOf]

@[simp] theorem noLife_afterConnect (cfg : Cfg) (ps : List Plugin) (up : Bool) (x : Req) :
    noLife (afterConnect cfg ps up x).1 = true := by
  have h := noLife_chain .clientReq rfl Plugin.clientReq Arg.req 0 ps x
  rw [afterConnect_eq]
  split <;> (try split) <;> (try split) <;> simp [h, lifeE]

@[simp] theorem noLife_afterBefore (cfg : Cfg) (ps : List Plugin) (ok dc : Bool) (x : Req) :
    noLife (afterBefore cfg ps ok dc x).1 = true := by
  rw [afterBefore_eq]
  split
  · split <;> simp
  · simp

@[simp] theorem noLife_onRequestComplete (cfg : Cfg) (ps : List Plugin) (ok : Bool) (r : Req) :
    noLife (onRequestComplete cfg ps ok r).1 = true := by
  have h := noLife_chain .before rfl Plugin.before Arg.req 0 ps r
  rw [onRequestComplete_eq]
  split <;> simp [h]


/-! ### handler level: exceptions, events -/

@[simp] theorem tearReq_log_noLife (st : St) (l : Log) : noLife (tearReq st l).2 = noLife l := by
  unfold tearReq; split <;> simp [lifeE]
@[simp] theorem tearReq_dispatched (st : St) (l : Log) : (tearReq st l).1.dispatched = st.dispatched := by
  unfold tearReq; split <;> rfl
@[simp] theorem tearReq_upstream (st : St) (l : Log) : (tearReq st l).1.upstream = st.upstream := by
  unfold tearReq; split <;> rfl
theorem tearReq_dead (st : St) (l : Log) : (tearReq st l).1.closing = true ∨ (tearReq st l).1.down = true := by
  unfold tearReq; split <;> simp
@[simp] theorem tearReq_connects (st : St) (l : Log) : connects (tearReq st l).2 = connects l := by
  unfold tearReq; split <;> simp [connOf]
@[simp] theorem tearReq_upBytes (st : St) (l : Log) : upBytes (tearReq st l).2 = upBytes l := by
  unfold tearReq; split <;> simp [upOfE]
@[simp] theorem tearReq_clItems (st : St) (l : Log) : clItems (tearReq st l).2 = clItems l := by
  unfold tearReq; split <;> simp [clItems]

@[simp] theorem raise_log_noLife (st : St) (l : Log) (e : Exc) : noLife (raise st l e).2 = noLife l := by
  unfold raise; split <;> simp [lifeE]
@[simp] theorem raise_dispatched (st : St) (l : Log) (e : Exc) : (raise st l e).1.dispatched = st.dispatched := by
  unfold raise; split <;> simp
@[simp] theorem raise_upstream (st : St) (l : Log) (e : Exc) : (raise st l e).1.upstream = st.upstream := by
  unfold raise; split <;> simp
theorem raise_dead (st : St) (l : Log) (e : Exc) : (raise st l e).1.closing = true ∨ (raise st l e).1.down = true := by
  unfold raise; split <;> exact tearReq_dead _ _
@[simp] theorem raise_connects (st : St) (l : Log) (e : Exc) : connects (raise st l e).2 = connects l := by
  unfold raise; split <;> simp [connOf]
@[simp] theorem raise_upBytes (st : St) (l : Log) (e : Exc) : upBytes (raise st l e).2 = upBytes l := by
  unfold raise; split <;> simp [upOfE]
/-- the client is queued exactly the exception's response (nothing when it has none) -/
@[simp] theorem raise_clItems (st : St) (l : Log) (e : Exc) :
    clItems (raise st l e).2 = clItems l ++ e.response.toList := by
  unfold raise; split <;> simp [clItems, *]

theorem follow_eq (cfg : Cfg) (ps : List Plugin) (st : St) (r : Req) :
    follow cfg ps st r =
      match (creqChain ps r).2 with
      | .raised e => raise st (creqChain ps r).1 e
      | .dropped _ => (st, (creqChain ps r).1)
      | .done y => ({ st with upgraded := (fwdLater y).isUpgrade },
                    (creqChain ps r).1 ++ [.upQ ((fwdLater y).build cfg.disableHeaders)]) := by
  rfl

@[simp] theorem noLife_follow (cfg : Cfg) (ps : List Plugin) (st : St) (r : Req) :
    noLife (follow cfg ps st r).2 = true := by
  have h := noLife_chain .clientReq rfl Plugin.clientReq Arg.req 0 ps r
  rw [follow_eq]; split <;> simp [h, lifeE]

theorem follow_dispatched (cfg : Cfg) (ps : List Plugin) (st : St) (r : Req) :
    (follow cfg ps st r).1.dispatched = st.dispatched := by
  rw [follow_eq]; split <;> simp

theorem noUpstreamData_eq (ps : List Plugin) (st : St) (raw : Bytes) :
    noUpstreamData ps st raw =
    (match (chain Hook.clientData Plugin.clientData Arg.raw 0 ps raw).2 with
      | .raised e => raise st (chain Hook.clientData Plugin.clientData Arg.raw 0 ps raw).1 e
      | _ => (st, (chain Hook.clientData Plugin.clientData Arg.raw 0 ps raw).1)) := by
  rfl

abbrev upF : Plugin → Bytes → Res Bytes := fun p x => optRes (p.upChunk x)
abbrev upChain (ps : List Plugin) (raw : Bytes) := chain .upChunk upF Arg.raw 0 ps raw

theorem upstreamData_eq (ps : List Plugin) (st : St) (raw : Bytes) :
    upstreamData ps st raw =
    (match (upChain ps raw).2 with
      | .done y => ({ st with clBuf := st.clBuf ++ [y] }, (upChain ps raw).1 ++ [Eff.clQ y])
      | _ => (st, (upChain ps raw).1)) := by
  rfl

theorem firstStep_eq (cfg : Cfg) (ps : List Plugin) (st : St) (r : Req) (ok : Bool) :
    firstStep cfg ps st r ok =
    (match (onRequestComplete cfg ps ok r).2.out with
      | .error e => raise { st with dispatched := true, upstream := (onRequestComplete cfg ps ok r).2.upstream }
                      (onRequestComplete cfg ps ok r).1 e
      | .ok r' =>
        ({ st with dispatched := true, tunnel := r'.tunnel, upstream := (onRequestComplete cfg ps ok r).2.upstream,
                   clBuf := st.clBuf ++ clItems (onRequestComplete cfg ps ok r).1 },
         (onRequestComplete cfg ps ok r).1)) := by
  rfl

@[simp] theorem noLife_firstStep (cfg : Cfg) (ps : List Plugin) (st : St) (r : Req) (ok : Bool) :
    noLife (firstStep cfg ps st r ok).2 = true := by
  rw [firstStep_eq]; split <;> simp

theorem firstStep_dispatched (cfg : Cfg) (ps : List Plugin) (st : St) (r : Req) (ok : Bool) :
    (firstStep cfg ps st r ok).1.dispatched = true := by
  rw [firstStep_eq]; split <;> simp

@[simp] theorem noLife_noUpstreamData (ps : List Plugin) (st : St) (raw : Bytes) :
    noLife (noUpstreamData ps st raw).2 = true := by
  have h := noLife_chain .clientData rfl Plugin.clientData Arg.raw 0 ps raw
  rw [noUpstreamData_eq]; split <;> simp [h]

theorem noUpstreamData_dispatched (ps : List Plugin) (st : St) (raw : Bytes) :
    (noUpstreamData ps st raw).1.dispatched = st.dispatched := by
  rw [noUpstreamData_eq]; split <;> simp

@[simp] theorem noLife_pipeline (cfg : Cfg) (ps : List Plugin) (st : St) (raw : Bytes) (more : List (Req × Bytes)) :
    noLife (pipeline cfg ps st raw more).2 = true := by
  induction more generalizing st raw with
  | nil => simp only [pipeline]; split <;> simp [lifeE]
  | cons q more ih =>
    obtain ⟨r, rest⟩ := q
    simp only [pipeline]
    split
    · simp [lifeE]
    · split
      · simp
      · simp [ih]

theorem pipeline_dispatched (cfg : Cfg) (ps : List Plugin) (st : St) (raw : Bytes) (more : List (Req × Bytes)) :
    (pipeline cfg ps st raw more).1.dispatched = st.dispatched := by
  induction more generalizing st raw with
  | nil => simp only [pipeline]; split <;> rfl
  | cons q more ih =>
    obtain ⟨r, rest⟩ := q
    simp only [pipeline]
    split
    · rfl
    · split
      · exact follow_dispatched cfg ps st r
      · rw [ih, follow_dispatched]

@[simp] theorem noLife_clientData (cfg : Cfg) (ps : List Plugin) (st : St) (raw : Bytes) (more : List (Req × Bytes)) :
    noLife (clientData cfg ps st raw more).2 = true := by
  unfold clientData
  split
  · simp
  · split <;> simp [lifeE]

theorem clientData_dispatched (cfg : Cfg) (ps : List Plugin) (st : St) (raw : Bytes) (more : List (Req × Bytes)) :
    (clientData cfg ps st raw more).1.dispatched = st.dispatched := by
  unfold clientData
  split
  · exact noUpstreamData_dispatched ps st raw
  · split
    · rfl
    · exact pipeline_dispatched cfg ps st raw more

theorem noLife_step (cfg : Cfg) (ps : List Plugin) (st : St) (ev : Ev) : noLife (step cfg ps st ev).2 = true := by
  cases ev with
  | first r ok rest more =>
    simp only [step]
    split
    · rfl
    · split <;> simp
  | first400 =>
    simp only [step]
    split
    · rfl
    · simp [lifeE]
  | cdata raw more =>
    simp only [step]
    split
    · rfl
    · simp
  | udata raw =>
    simp only [step]
    split
    · rfl
    · have h := noLife_chain .upChunk rfl upF Arg.raw 0 ps raw
      rw [upstreamData_eq]; split <;> simp [h, lifeE]
  | ueof => simp only [step]; split <;> simp [drain, noLife, lifeE]
  | ceof => simp only [step]; split <;> simp [drain, noLife, lifeE]
  | cabort => simp only [step]; split <;> simp [lifeE]
  | flush =>
    simp only [step]
    split
    · rfl
    · split
      · rfl
      · split <;> simp [lifeE]

theorem noLife_run (cfg : Cfg) (ps : List Plugin) (st : St) (evs : List Ev) : noLife (run cfg ps st evs).2 = true := by
  induction evs generalizing st with
  | nil => rfl
  | cons e es ih => simp [run, noLife_step, ih]

theorem step_dispatched_mono (cfg : Cfg) (ps : List Plugin) (st : St) (ev : Ev) (h : st.dispatched = true) :
    (step cfg ps st ev).1.dispatched = true := by
  cases ev with
  | first r ok rest more => simp [step, h]
  | first400 => simp [step, h]
  | cdata raw more =>
    simp only [step]
    split
    · exact h
    · rw [clientData_dispatched]; exact h
  | udata raw =>
    simp only [step]
    split
    · exact h
    · rw [upstreamData_eq]; split <;> simp [h]
  | ueof => simp only [step]; split <;> simp [drain, h]
  | ceof => simp only [step]; split <;> simp [drain, h]
  | cabort => simp only [step]; split <;> simp [h]
  | flush =>
    simp only [step]
    split
    · exact h
    · split
      · exact h
      · split <;> simp [h]

theorem run_dispatched_mono (cfg : Cfg) (ps : List Plugin) (st : St) (evs : List Ev) (h : st.dispatched = true) :
    (run cfg ps st evs).1.dispatched = true := by
  induction evs generalizing st with
  | nil => exact h
  | cons e es ih => simp only [run]; exact ih _ (step_dispatched_mono cfg ps st e h)

/-- the first request of a fresh connection is dispatched to the proxy plugin whatever happens to it -/
theorem step_first_dispatched (cfg : Cfg) (ps : List Plugin) (r : Req) (ok : Bool) (rest : Bytes)
    (more : List (Req × Bytes)) : (step cfg ps {} (.first r ok rest more)).1.dispatched = true := by
  simp only [step]
  split
  · rename_i h; simp at h
  · split
    · exact firstStep_dispatched cfg ps {} r ok
    · rw [clientData_dispatched]; exact firstStep_dispatched cfg ps {} r ok

/-! ### connections on which nothing can reach a plugin or a peer any more -/

/-- no upstream, and the handler is only waiting to flush (or is done) -/
def Quiet (st : St) : Prop := st.upstream = false ∧ (st.closing = true ∨ st.down = true)

theorem quiet_step (cfg : Cfg) (ps : List Plugin) (st : St) (ev : Ev) (hq : Quiet st) :
    Quiet (step cfg ps st ev).1 ∧ (step cfg ps st ev).1.dispatched = st.dispatched ∧
      (step cfg ps st ev).2.all quietE = true := by
  obtain ⟨hu, hcd⟩ := hq
  have hg : (st.down || st.closing) = true := by rcases hcd with h | h <;> simp [h]
  cases ev with
  | first r ok =>
    have : (st.down || st.closing || st.dispatched) = true := by simp [hg]
    simp [step, this, Quiet, hu, hcd]
  | first400 =>
    have : (st.down || st.closing || st.dispatched) = true := by simp [hg]
    simp [step, this, Quiet, hu, hcd]
  | cdata raw parsed =>
    have : (st.down || st.closing || !st.dispatched) = true := by simp [hg]
    simp [step, this, Quiet, hu, hcd]
  | udata raw => simp [step, hu, Quiet, hcd]
  | ueof => simp [step, hu, Quiet, hcd]
  | ceof => simp [step, hg, Quiet, hu, hcd]
  | cabort =>
    simp only [step]
    split
    · simp [Quiet, hu, hcd]
    · simp [Quiet, hu, quietE]
  | flush =>
    simp only [step]
    by_cases hd : st.down = true
    · simp [hd, Quiet, hu]
    · have hc : st.closing = true := by
        rcases hcd with h | h
        · exact h
        · exact absurd h hd
      cases hb : st.clBuf with
      | nil => simp [hd, Quiet, hu, hc]
      | cons x rest => by_cases he : rest.isEmpty = true <;> simp [hd, hc, he, Quiet, hu, quietE]

theorem quiet_run (cfg : Cfg) (ps : List Plugin) (st : St) (evs : List Ev) (hq : Quiet st) :
    (run cfg ps st evs).1.dispatched = st.dispatched ∧ (run cfg ps st evs).2.all quietE = true := by
  induction evs generalizing st with
  | nil => simp [run]
  | cons e es ih =>
    obtain ⟨h1, h2, h3⟩ := quiet_step cfg ps st e hq
    obtain ⟨h4, h5⟩ := ih _ h1
    simp only [run]
    exact ⟨by rw [h4, h2], by simp [h3, h5]⟩

theorem quiet_obs (l : Log) (h : l.all quietE = true) :
    connects l = [] ∧ upBytes l = [] ∧ clItems l = [] ∧ (∀ i hk a, Eff.call i hk a ∈ l → False) := by
  induction l with
  | nil => simp
  | cons e rest ih =>
    simp only [List.all_cons, Bool.and_eq_true] at h
    obtain ⟨h1, h2, h3, h4⟩ := ih h.2
    cases e <;> simp [quietE] at h <;> simp [connOf, upOfE, clItems, h1, h2, h3] <;> exact h4

/-! ### shutdown -/

abbrev logF : Plugin → Ctx → Res Ctx := fun p c => optRes (p.accessLog c)
abbrev logChain (ps : List Plugin) := chain .accessLog logF Arg.ctx 0 ps ([] : Ctx)

/-- the default access-log line is written iff no plugin claimed the log -/
def defaultLogOf (ps : List Plugin) : Log :=
  match (logChain ps).2 with
  | .done c => [.defaultLog c]
  | _ => []

theorem shutdownLog_eq (ps : List Plugin) (st : St) :
    shutdownLog ps st =
      if st.dispatched then (logChain ps).1 ++ defaultLogOf ps ++ upCloseAll 0 ps else [] := by
  unfold shutdownLog defaultLogOf logChain logF
  simp only []
  split
  · split <;> simp [*]
  · rfl

theorem countCall_noLife (i : Nat) (h : Hook) (hh : reqHook h = false) (l : Log) (hl : noLife l = true) :
    countCall i h l = 0 := by
  induction l with
  | nil => rfl
  | cons e rest ih =>
    simp only [noLife_cons, Bool.and_eq_true, Bool.not_eq_true'] at hl
    have := ih hl.2
    cases e with
    | call j h' a =>
      have hne : (h' == h) = false := by
        have h1 : reqHook h' = true := by simpa [lifeE] using hl.1
        cases h <;> cases h' <;> simp_all [reqHook]
      simp [countCall, hne] at this ⊢
      exact this
    | _ => simpa [countCall] using this

theorem countCall_upCloseAll (i : Nat) (h : Hook) (s : Nat) (ps : List Plugin) :
    countCall i h (upCloseAll s ps) = if h = .upClose ∧ s ≤ i ∧ i < s + ps.length then 1 else 0 := by
  induction ps generalizing s with
  | nil => simp [upCloseAll]
  | cons p ps ih =>
    have e : upCloseAll s (p :: ps) = [Eff.call s .upClose .unit] ++ upCloseAll (s + 1) ps := rfl
    rw [e, countCall_append, ih]
    by_cases hh : h = .upClose
    · subst hh
      by_cases hs : s = i
      · subst hs
        have : ¬ (s + 1 ≤ s) := by omega
        simp [countCall, this]
      · simp [countCall, hs]
        by_cases h1 : s + 1 ≤ i ∧ i < s + 1 + ps.length
        · have : s ≤ i ∧ i < s + (ps.length + 1) := by omega
          simp [h1, this]
        · have : ¬ (s ≤ i ∧ i < s + (ps.length + 1)) := by omega
          simp [h1, this]
    · have hb : (Hook.upClose == h) = false := by
        cases h <;> simp_all
      simp [countCall, hh, hb]

theorem countCall_mkCalls {α : Type} (i : Nat) (h h' : Hook) (w : α → Arg) (s : Nat) (xs : List α) :
    countCall i h (mkCalls h' w s xs) = if h = h' ∧ s ≤ i ∧ i < s + xs.length then 1 else 0 := by
  induction xs generalizing s with
  | nil => simp [mkCalls]
  | cons x xs ih =>
    have e : mkCalls h' w s (x :: xs) = [Eff.call s h' (w x)] ++ mkCalls h' w (s + 1) xs := rfl
    rw [e, countCall_append, ih]
    by_cases hh : h = h'
    · subst hh
      by_cases hs : s = i
      · subst hs
        have : ¬ (s + 1 ≤ s) := by omega
        simp [countCall, this]
      · simp [countCall, hs]
        by_cases h1 : s + 1 ≤ i ∧ i < s + 1 + xs.length
        · have : s ≤ i ∧ i < s + (xs.length + 1) := by omega
          simp [h1, this]
        · have : ¬ (s ≤ i ∧ i < s + (xs.length + 1)) := by omega
          simp [h1, this]
    · have hb : (h' == h) = false := by
        cases h <;> cases h' <;> simp_all
      simp [countCall, hh, hb]

theorem countCall_replicate (i : Nat) (h : Hook) (n : Nat) (l : Log) :
    countCall i h (List.replicate n l).flatten = n * countCall i h l := by
  induction n with
  | zero => simp
  | succ n ih => simp [List.replicate_succ, ih, Nat.succ_mul, Nat.add_comm]

theorem countCall_defaultLogOf (i : Nat) (h : Hook) (ps : List Plugin) : countCall i h (defaultLogOf ps) = 0 := by
  unfold defaultLogOf; split <;> simp [countCall]


/-! ### the credential comparison -/

/-- **Specification** of "the header value carries exactly the configured credentials `c`":
    split at blanks it has exactly two parts, the first is `basic` in any letter
    case, the second is `c` byte for byte. -/
def credOk (c v : Bytes) : Prop :=
  (splitWs v).length = 2 ∧ ((splitWs v)[0]?).map lower = some Auth.BASIC ∧ (splitWs v)[1]? = some c

instance (c v : Bytes) : Decidable (credOk c v) := by unfold credOk; infer_instance

/-- the same for the (optional) value found under `proxy-authorization` -/
def CredOk (c : Bytes) (o : Option Bytes) : Prop := ∃ v, o = some v ∧ credOk c v

theorem valueOk_iff (c v : Bytes) : Auth.valueOk c v = true ↔ credOk c v := by
  unfold Auth.valueOk credOk
  generalize splitWs v = parts
  rcases parts with _ | ⟨s, _ | ⟨t, _ | ⟨u, rest⟩⟩⟩
  · simp
  · simp
  · by_cases h1 : lower s = Auth.BASIC <;> by_cases h2 : t = c <;> simp [h1, h2]
  · simp

theorem check_iff (c : Bytes) (hc : c ≠ []) (o : Option Bytes) : Auth.check (some c) o = true ↔ CredOk c o := by
  have hne : c.isEmpty = false := by cases c <;> simp_all
  unfold Auth.check CredOk
  cases o with
  | none => simp [hne]
  | some v => simp [hne, valueOk_iff]

/-! blanks around the two tokens do not matter (`bytes.split()`): every value of the
    shape  blanks* scheme blanks+ code blanks*  splits into exactly the two tokens -/

def allWs (x : Bytes) : Prop := ∀ c ∈ x, isWs c = true
def noWs (x : Bytes) : Prop := ∀ c ∈ x, isWs c = false

theorem splitWsAux_ws (w rest : Bytes) (hw : allWs w) : splitWsAux (w ++ rest) [] = splitWsAux rest [] := by
  induction w with
  | nil => rfl
  | cons c cs ih =>
    have h1 : isWs c = true := hw c List.mem_cons_self
    simp only [List.cons_append, splitWsAux, h1, if_true, List.isEmpty_nil]
    exact ih (fun d hd => hw d (List.mem_cons_of_mem _ hd))

theorem splitWsAux_tok (s rest cur : Bytes) (hs : noWs s) :
    splitWsAux (s ++ rest) cur = splitWsAux rest (s.reverse ++ cur) := by
  induction s generalizing cur with
  | nil => rfl
  | cons c cs ih =>
    have h1 : isWs c = false := hs c List.mem_cons_self
    simp only [List.cons_append, splitWsAux, h1]
    simpa using ih (c :: cur) (fun d hd => hs d (List.mem_cons_of_mem _ hd))

theorem splitWs_two (w0 s w1 t w2 : Bytes) (h0 : allWs w0) (hs : noWs s) (hsne : s ≠ []) (h1 : allWs w1)
    (h1ne : w1 ≠ []) (ht : noWs t) (htne : t ≠ []) (h2 : allWs w2) :
    splitWs (w0 ++ s ++ w1 ++ t ++ w2) = [s, t] := by
  unfold splitWs
  have e : w0 ++ s ++ w1 ++ t ++ w2 = w0 ++ (s ++ (w1 ++ (t ++ w2))) := by simp
  rw [e, splitWsAux_ws _ _ h0, splitWsAux_tok _ _ _ hs]
  obtain ⟨c, cs, rfl⟩ := List.exists_cons_of_ne_nil h1ne
  have hc : isWs c = true := h1 c List.mem_cons_self
  have hsr : (s.reverse ++ []).isEmpty = false := by
    cases s with
    | nil => exact absurd rfl hsne
    | cons a as => simp
  simp only [List.cons_append, splitWsAux, hc, if_true, hsr]
  rw [splitWsAux_ws _ _ (fun d hd => h1 d (List.mem_cons_of_mem _ hd)), splitWsAux_tok _ _ _ ht]
  have htr : (t.reverse ++ []).isEmpty = false := by
    cases t with
    | nil => exact absurd rfl htne
    | cons a as => simp
  cases w2 with
  | nil => simp [splitWsAux, htr, htne]
  | cons d ds =>
    have hd : isWs d = true := h2 d List.mem_cons_self
    have hrest := splitWsAux_ws ds [] (fun x hx => h2 x (List.mem_cons_of_mem _ hx))
    simp only [List.append_nil] at hrest
    simp [splitWsAux, hd, htr, hrest, htne]

/-! ### header lines → header map -/

/-- the map key a header line is filed under -/
def lineKey (l : Bytes) : Bytes :=
  match splitOnce1 COLON l with
  | none => lower (strip l)
  | some (k, _) => lower (strip k)

/-- the value a header line contributes -/
def lineVal (l : Bytes) : Bytes :=
  match splitOnce1 COLON l with
  | none => []
  | some (_, v) => strip v

theorem processHeader_same (h : HMap) (l : Bytes) : hVal? (processHeader h l) (lineKey l) = some (lineVal l) := by
  unfold processHeader lineKey lineVal hVal? hAdd
  cases hsp : splitOnce1 COLON l with
  | none => simp [dGet_dSet_same]
  | some kv => obtain ⟨k, v⟩ := kv; simp [dGet_dSet_same]

theorem processHeader_other (h : HMap) (l k : Bytes) (hk : lineKey l ≠ k) :
    hVal? (processHeader h l) k = hVal? h k := by
  unfold processHeader lineKey hVal? hAdd at *
  cases hsp : splitOnce1 COLON l with
  | none => simp only [hsp] at hk ⊢; rw [dGet_dSet_other _ _ _ _ hk]
  | some kv => obtain ⟨k', v⟩ := kv; simp only [hsp] at hk ⊢; rw [dGet_dSet_other _ _ _ _ hk]

theorem foldl_processHeader_other (post : List Bytes) (h : HMap) (k : Bytes) (hp : ∀ m ∈ post, lineKey m ≠ k) :
    hVal? (post.foldl processHeader h) k = hVal? h k := by
  induction post generalizing h with
  | nil => rfl
  | cons m ms ih =>
    simp only [List.foldl_cons]
    rw [ih _ (fun x hx => hp x (List.mem_cons_of_mem _ hx)), processHeader_other _ _ _ (hp m List.mem_cons_self)]

/-! ### plugin load order -/

theorem loadBucket_append (bk : Bytes) (l1 l2 : List (Bytes × Bytes)) (acc : List Bytes) :
    loadBucket bk (l1 ++ l2) acc = loadBucket bk l2 (loadBucket bk l1 acc) := by
  induction l1 generalizing acc with
  | nil => rfl
  | cons e rest ih =>
    obtain ⟨n, b⟩ := e
    simp only [List.cons_append, loadBucket]
    split <;> exact ih _

/-- loading only appends, and never a name that is already there -/
theorem loadBucket_ext (bk : Bytes) (l : List (Bytes × Bytes)) (acc : List Bytes) :
    ∃ t, loadBucket bk l acc = acc ++ t ∧ ∀ x ∈ t, x ∉ acc := by
  induction l generalizing acc with
  | nil => exact ⟨[], by simp [loadBucket], by simp⟩
  | cons e rest ih =>
    obtain ⟨n, b⟩ := e
    simp only [loadBucket]
    split
    · rename_i hc
      obtain ⟨t, ht, hd⟩ := ih (acc ++ [n])
      refine ⟨n :: t, by rw [ht]; simp, ?_⟩
      intro x hx
      simp only [List.mem_cons] at hx
      rcases hx with rfl | hx
      · simp only [Bool.and_eq_true, Bool.not_eq_true', List.contains_eq_mem, decide_eq_false_iff_not] at hc
        exact hc.2
      · intro hm
        exact hd x hx (List.mem_append_left _ hm)
    · exact ih acc


/-! ### what `shutdown()` adds to a connection's log: lifecycle effects only -/

theorem upCloseAll_life (s : Nat) (ps : List Plugin) : ∀ e ∈ upCloseAll s ps, lifeE e = true := by
  induction ps generalizing s with
  | nil => simp [upCloseAll]
  | cons p ps ih =>
    intro e he
    simp only [upCloseAll, List.mem_cons] at he
    rcases he with rfl | h
    · rfl
    · exact ih _ e h

theorem shutdownLog_life (ps : List Plugin) (st : St) : ∀ e ∈ shutdownLog ps st, lifeE e = true := by
  rw [shutdownLog_eq]
  split
  · intro e he
    simp only [List.mem_append] at he
    rcases he with (he | he) | he
    · obtain ⟨j, a, rfl, _, _⟩ := chain_mem _ _ _ _ _ _ e he
      rfl
    · unfold defaultLogOf at he
      split at he <;> simp at he
      subst he; rfl
    · exact upCloseAll_life _ _ e he
  · simp

theorem life_obs (l : Log) (h : ∀ e ∈ l, lifeE e = true) :
    connects l = [] ∧ upBytes l = [] ∧ clItems l = [] ∧ (∀ i hk a, Eff.call i hk a ∈ l → reqHook hk = false) := by
  induction l with
  | nil => simp
  | cons e rest ih =>
    have h1 := h e List.mem_cons_self
    obtain ⟨a1, a2, a3, a4⟩ := ih (fun x hx => h x (List.mem_cons_of_mem _ hx))
    refine ⟨?_, ?_, ?_, ?_⟩
    · cases e <;> simp_all [lifeE, connOf]
    · cases e <;> simp_all [lifeE, upOfE]
    · cases e <;> simp_all [lifeE, clItems]
    · intro i hk a hm
      simp only [List.mem_cons] at hm
      rcases hm with rfl | hm
      · simpa [lifeE] using h1
      · exact a4 i hk a hm

theorem sdPart_obs (ps : List Plugin) (st : St) (n : Nat) :
    connects (List.replicate n (shutdownLog ps st)).flatten = [] ∧
    upBytes (List.replicate n (shutdownLog ps st)).flatten = [] ∧
    clItems (List.replicate n (shutdownLog ps st)).flatten = [] ∧
    (∀ i hk a, Eff.call i hk a ∈ (List.replicate n (shutdownLog ps st)).flatten → reqHook hk = false) := by
  apply life_obs
  intro e he
  simp only [List.mem_flatten, List.mem_replicate] at he
  obtain ⟨l, ⟨_, rfl⟩, hel⟩ := he
  exact shutdownLog_life ps st e hel

end Px.Chain
