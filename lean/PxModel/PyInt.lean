import PxModel.Bytes
/-
  `int(b, base)` on a bytes object as CPython's PyLong_FromString does it
  (the parsers call it on attacker-controlled text): surrounding ASCII
  whitespace, optional sign, optional `0x`/`0X` prefix for base 16 (one
  underscore allowed right after the prefix), digits with single underscores
  between them, nothing else.  `none` = ValueError.
-/
namespace Px

def digitVal (c : UInt8) : Option Nat :=
  if 48 ≤ c && c ≤ 57 then some (c.toNat - 48)
  else if 97 ≤ c && c ≤ 122 then some (c.toNat - 87)
  else if 65 ≤ c && c ≤ 90 then some (c.toNat - 55)
  else none

def isDigitIn (base : Nat) (c : UInt8) : Bool :=
  match digitVal c with
  | some v => v < base
  | none => false

/-- Scan `digit (_? digit)*`.  `prev`: 0 = nothing consumed yet, 1 = last was a
    digit, 2 = last was an underscore.  Returns value, digit count and the rest
    starting at the first byte that is neither a digit of the base nor `_`. -/
def scanDigits (base : Nat) : Bytes → Nat → Nat → Nat → Option (Nat × Nat × Bytes)
  | [], acc, n, prev => if prev == 1 then some (acc, n, []) else none
  | c :: cs, acc, n, prev =>
    if c == 95 then
      (if prev == 1 then scanDigits base cs acc n 2 else none)
    else if isDigitIn base c then
      scanDigits base cs (acc * base + (digitVal c).getD 0) (n + 1) 1
    else (if prev == 1 then some (acc, n, c :: cs) else none)

/-- CPython's default `sys.get_int_max_str_digits()`; applies to bases that are not powers of two. -/
def intMaxStrDigits : Nat := 4300

def pyInt (base : Nat) (s : Bytes) : Option Int :=
  let s := lstrip s
  let (neg, s) := match s with
    | 43 :: r => (false, r)     -- '+'
    | 45 :: r => (true, r)      -- '-'
    | _ => (false, s)
  -- optional 0x / 0X prefix for base 16, then at most one underscore
  let s := if base == 16 then
      (match s with
       | 48 :: x :: r => if x == 120 || x == 88 then (match r with | 95 :: r' => r' | _ => r) else s
       | _ => s)
    else s
  match scanDigits base s 0 0 0 with
  | none => none
  | some (v, n, rest) =>
    if base == 10 && n > intMaxStrDigits then none
    else if (lstrip rest).isEmpty then some (if neg then -(Int.ofNat v) else Int.ofNat v)
    else none

end Px
