"""C03 — incremental HTTP parsing does not depend on segmentation.
Correspondence of PxModel/Parser.lean + Chunk.lean with the real HttpParser / ChunkParser,
and the property oracle (whole vs. pieces; exact completion; remainder preserved)."""
from harness import httpgen as G
from harness import parser_obs as P
from harness.common import hx

PROPERTY = 'C03'
LEAN_TARGETS = ['PxProofs.C03']
THEOREMS = [
    'Px.Chunk.C03_chunk_feed_append',
    'Px.Chunk.C03_chunk_wf',
    'Px.Chunk.C03_chunk_segmentation',
    'Px.Chunk.C03_chunk_exact_completion',
    'Px.Parser.C03_buffer_carry',
    'Px.Parser.C03_wf',
    'Px.Parser.C03_feed_append',
    'Px.Parser.C03_segmentation',
    'Px.Parser.C03_segmentation_request',
    'Px.Parser.C03_segmentation_from',
    'Px.Parser.C03_exact_completion',
    'Px.Parser.C03_exact_completion_statusline',
]
RULE = ('messages from the HTTP grammar (requests/responses x Content-Length / chunked / Content-Length: 0 / '
        'body-less / header-less, with trailing bytes where the quantifier allows) cut at random positions, all '
        '2-cuts of small messages and byte-wise; plus mutated (malformed) messages and random bytes for the '
        'correspondence only; distinct by canonical JSON; non-trivial = inside the property quantifier with >= 2 pieces')
ASSUMPTIONS = [
    '--enable-proxy-protocol (off by default) is not modelled',
    'standalone ChunkParser: the unconsumed remainder is the concatenation of what each parse() call returned',
]
EXHAUSTIVE = {}


def _case(kind, ty, segs, inq, tail_len=0, msg_len=None):
    return {'kind': kind, 'ty': ty, 'segs': [s.hex() for s in segs], 'inq': inq, 'tail': tail_len,
            'mlen': msg_len}


def impl(case):
    segs = [bytes.fromhex(s) for s in case['segs']]
    if case['kind'] == 'chunk':
        return [P.chunk_feed_line(segs)]
    return [P.feed_line(case['ty'], segs)]


def model_lines(case):
    segs = ' '.join((s or '-') for s in case['segs'])
    if case['kind'] == 'chunk':
        return ['hp chunk ' + segs]
    return ['hp parse %s %s' % (case['ty'], segs)]


def oracle(case):
    """Property on the implementation only: pieces == whole; complete exactly at the last byte of the
    message; trailing bytes preserved as remainder."""
    if not case['inq']:
        return None
    segs = [bytes.fromhex(s) for s in case['segs']]
    whole = b''.join(segs)
    mlen = case['mlen']
    if case['kind'] == 'chunk':
        a = P.chunk_feed_line(segs)
        w = P.chunk_feed_line([whole])
        if a != w:
            return 'chunk-decoder-state-depends-on-segmentation'
        k, v = P.chunk_feed([whole])
        if k != 'ok':
            return 'valid-chunked-stream-raises'
        c, rem = v
        if c.state != 3:
            return 'complete-chunked-stream-not-complete'
        if rem != whole[mlen:]:
            return 'remainder-not-preserved'
        for cut in _prefix_points(mlen):
            k2, v2 = P.chunk_feed([whole[:cut]])
            if k2 == 'ok' and v2[0].state == 3:
                return 'complete-before-last-byte'
        return None
    a = P.feed_line(case['ty'], segs)
    w = P.feed_line(case['ty'], [whole])
    if a != w:
        return 'parser-state-depends-on-segmentation'
    k, p = P.feed(case['ty'], [whole])
    if k != 'ok':
        return 'valid-message-raises'
    if p.state != 6:
        return 'complete-message-not-complete'
    rem = b'' if p.buffer is None else bytes(p.buffer)
    if rem != whole[mlen:]:
        return 'remainder-not-preserved'
    for cut in _prefix_points(mlen):
        k2, p2 = P.feed(case['ty'], [whole[:cut]])
        if k2 == 'ok' and p2.state == 6:
            return 'complete-before-last-byte'
    return None


def _prefix_points(mlen):
    if mlen <= 80:
        return range(1, mlen)
    return sorted(set(list(range(max(1, mlen - 12), mlen)) + [1, mlen // 2, mlen // 3]))


TAILS = [b'', b'', b'X', b'\r\n', b'\n', b'GET / HTTP/1.1\r\n\r\n', b'HTTP/1.1 200 OK\r\n', b'0\r\n\r\n', b'\x00\xff']


def _message(rng, thorough):
    """(ty, msg bytes, tail bytes, in-quantifier)"""
    ext = rng.random() < 0.25
    maxbody = rng.choice([40, 200, 3000]) if thorough else rng.choice([40, 200])
    if rng.random() < 0.5:
        m = G.gen_request(rng, maxbody=maxbody, ext=ext)
        ty = 'REQ'
    else:
        m = G.gen_response(rng, maxbody=maxbody, ext=ext)
        ty = 'RES'
    # trailing bytes only where the property's quantifier has them
    if m['framing'] in ('cl', 'chunked', 'cl0'):
        tail = rng.choice(TAILS)
    else:
        tail = b''
    return ty, m['raw'], tail


def _chunk_stream(rng):
    n = rng.choice([0, 1, 2, 5, 17, 60])
    body = G.rbody(rng, n)
    return G.render_chunked(rng, body, G.chunk_layout(rng, n), ext=rng.random() < 0.3)


def corpus():
    cs = []
    msgs = [
        ('REQ', b'GET / HTTP/1.1\r\nHost: a\r\n\r\n', b''),
        ('REQ', b'POST /p HTTP/1.1\r\nContent-Length: 5\r\n\r\nhello', b'GET /2 HTTP/1.1\r\n\r\n'),
        ('REQ', b'POST / HTTP/1.1\r\nTransfer-Encoding: chunked\r\n\r\n5\r\nhello\r\n0\r\n\r\n', b'TRAIL'),
        ('REQ', b'POST / HTTP/1.1\r\nTransfer-Encoding: chunked\r\n\r\n0\r\n\r\n', b'\n'),
        ('REQ', b'CONNECT example.com:443 HTTP/1.1\r\n\r\n', b''),
        ('RES', b'HTTP/1.1 200 Connection established\r\n\r\n', b''),
        ('RES', b'HTTP/1.1 204 No Content\r\nContent-Length: 0\r\n\r\n', b'HTTP/1.1 200 OK\r\n'),
        ('RES', b'HTTP/1.1 200 OK\r\ntransfer-encoding: chunked\r\n\r\n4\r\nWiki\r\n5\r\npedia\r\n0\r\n\r\n', b'\r\n'),
        ('RES', b'HTTP/1.1 200 OK\r\nContent-Length: 3\r\n\r\n\r\n\r', b'\n'),
    ]
    for ty, m, t in msgs:
        raw = m + t
        cs.append(_case('parse', ty, [raw], True, len(t), len(m)))
        cs.append(_case('parse', ty, [bytes([c]) for c in raw], True, len(t), len(m)))
        for i in range(1, len(raw)):
            cs.append(_case('parse', ty, [raw[:i], raw[i:]], True, len(t), len(m)))
    for m, t in [(b'4\r\nWiki\r\n5\r\npedia\r\n0\r\n\r\n', b'TRAIL'), (b'0\r\n\r\n', b''),
                 (b'1\r\n\r\r\n2\r\n\r\n\r\n0\r\n\r\n', b'\r\n'), (b'5;x=1\r\nhello\r\n0;l\r\n\r\n', b'Z')]:
        raw = m + t
        cs.append(_case('chunk', None, [bytes([c]) for c in raw], True, len(t), len(m)))
        for i in range(1, len(raw)):
            cs.append(_case('chunk', None, [raw[:i], raw[i:]], True, len(t), len(m)))
    # very long start / header lines (beyond 64 KiB and 128 KiB) cut deep inside the line
    for ty, head, tailmsg in [
        ('REQ', b'POST /p HTTP/1.1\r\nHost: a\r\nCookie: ' + b'c' * 70000 + b'\r\nContent-Length: 3\r\n\r\nabc', b'GET /2 HTTP/1.1\r\n\r\n'),
        ('REQ', b'GET /' + b'p' * 140000 + b' HTTP/1.1\r\nHost: a\r\n\r\n', b''),
        ('RES', b'HTTP/1.1 200 OK\r\nX-Long: ' + b'v' * 66000 + b'\r\nContent-Length: 0\r\n\r\n', b'HTTP/1.1 204 N\r\n'),
    ]:
        raw = head + tailmsg
        line_start = raw.index(b'Cookie: ') if b'Cookie: ' in raw else (raw.index(b'X-Long: ') if b'X-Long: ' in raw else 0)
        cs.append(_case('parse', ty, [raw], True, len(tailmsg), len(head)))
        for off in (1, 65535, 65536, 65537, 65545, 131071, 131073):
            cut = line_start + off
            if 0 < cut < len(raw):
                cs.append(_case('parse', ty, [raw[:cut], raw[cut:]], True, len(tailmsg), len(head)))
        cs.append(_case('parse', ty, [raw[:line_start + 3], raw[line_start + 3:len(head) - 2], raw[len(head) - 2:]], True,
                        len(tailmsg), len(head)))
    # malformed / out-of-quantifier: correspondence only
    for ty, raw in [('REQ', b'GET\r\n\r\n'), ('REQ', b'GET  HTTP/1.1\r\n\r\n'), ('RES', b'HTTP/1.1\r\n\r\n'),
                    ('REQ', b'POST / HTTP/1.1\r\nContent-Length: x\r\n\r\n'),
                    ('REQ', b'POST / HTTP/1.1\r\nContent-Length: 5\r\nContent-Length: 0\r\n\r\nX'),
                    ('REQ', b'POST / HTTP/1.1\r\nTransfer-Encoding: chunked\r\n\r\n-1\r\nX'),
                    ('REQ', b'POST / HTTP/1.1\r\nTransfer-Encoding: chunked\r\n\r\n0x_5\r\nhello\r\n0\r\n\r\n'),
                    ('REQ', b'GET ftp://h/ HTTP/1.1\r\n\r\n'), ('REQ', b'GET http://a@b@c/ HTTP/1.1\r\n\r\n'),
                    ('REQ', b'GET http://[::1]:80/ HTTP/1.1\r\n\r\n'), ('REQ', b'GET http://h:+8_0/ HTTP/1.1\r\n\r\n'),
                    ('RES', b'HTTP/1.0 200 OK\r\n\r\nclose-delimited body'),
                    ('REQ', b'GET http://\xff:1:2/ HTTP/1.1\r\n\r\n'),
                    # empty method (fixed D31: invalid request line), leading blank line, two spaces
                    ('REQ', b' http://h/ HTTP/1.1\r\nHost: h\r\n\r\n'), ('REQ', b' h:443 HTTP/1.1\r\n\r\n'),
                    ('REQ', b'  HTTP/1.1\r\n\r\n'), ('REQ', b'\r\nGET / HTTP/1.1\r\n\r\n'),
                    ('REQ', b' / \r\n\r\n')]:
        cs.append(_case('parse', ty, [raw], False))
        cs.append(_case('parse', ty, [raw[:len(raw) // 2], raw[len(raw) // 2:]], False))
    return cs


def generate(rng, tier):
    thorough = tier == 'thorough'
    n_msgs = 2500 if thorough else 350
    for _ in range(n_msgs):
        ty, m, t = _message(rng, thorough)
        raw = m + t
        yield _case('parse', ty, [raw], True, len(t), len(m))
        for _ in range(2):
            k = rng.choice([1, 1, 2, 3, 5, 8])
            yield _case('parse', ty, G.split_at(raw, G.cuts(rng, len(raw), k)), True, len(t), len(m))
        if len(raw) <= (400 if thorough else 120) and rng.random() < (0.5 if thorough else 0.2):
            yield _case('parse', ty, [bytes([c]) for c in raw], True, len(t), len(m))
        if thorough and len(raw) <= 90 and rng.random() < 0.15:
            for i in range(1, len(raw)):
                for j in range(i + 1, len(raw), 3):
                    yield _case('parse', ty, [raw[:i], raw[i:j], raw[j:]], True, len(t), len(m))
        elif len(raw) <= 160 and rng.random() < 0.3:
            for i in range(1, len(raw)):
                yield _case('parse', ty, [raw[:i], raw[i:]], True, len(t), len(m))
        # malformed stream: correspondence only
        if rng.random() < 0.6:
            bad = G.mutate(rng, raw)
            yield _case('parse', ty, G.split_at(bad, G.cuts(rng, len(bad), rng.choice([0, 1, 2, 4]))), False)
    for _ in range(1500 if thorough else 200):
        m = _chunk_stream(rng)
        t = rng.choice(TAILS)
        raw = m + t
        yield _case('chunk', None, G.split_at(raw, G.cuts(rng, len(raw), rng.choice([0, 1, 2, 3, 6]))), True, len(t), len(m))
        if len(raw) < 60 and rng.random() < 0.3:
            yield _case('chunk', None, [bytes([c]) for c in raw], True, len(t), len(m))
        if rng.random() < 0.4:
            bad = G.mutate(rng, raw)
            yield _case('chunk', None, G.split_at(bad, G.cuts(rng, len(bad), rng.choice([0, 1, 3]))), False)
    for _ in range(600 if thorough else 80):
        n = rng.choice([1, 3, 10, 40])
        raw = bytes(rng.choice(b'GET / HTP1.\r\n:0123456789abcdef \xff\x00') for _ in range(n))
        yield _case('parse', rng.choice(['REQ', 'RES']), G.split_at(raw, G.cuts(rng, len(raw), rng.choice([0, 1, 2]))), False)


def neighbours(case):
    segs = [bytes.fromhex(s) for s in case['segs']]
    raw = b''.join(segs)
    if len(raw) > 400:
        return
    base = dict(case)
    base['inq'] = case['inq']
    for i in range(1, len(raw)):
        yield dict(base, segs=[raw[:i].hex(), raw[i:].hex()])
    yield dict(base, segs=[bytes([c]).hex() for c in raw])


def search(rng):
    return list(generate(rng, 'quick'))


def describe(case):
    return ['%s %s pieces=%s inq=%d' % (case['kind'], case['ty'], min(len(case['segs']), 5), case['inq'])]


def nontrivial(case):
    return bool(case['inq']) and len(case['segs']) >= 2
