import PxProofs.PersistFwd
import PxProofs.PersistPort
import PxProofs.ForwardEmit2
/-!
# C04 helper lemmas, part 6: well-formed requests (`Forward.Req.WF`, C02's specification side)

For a well-formed absolute-form request `r` the rendering `render r` is exactly
one request for a fresh parser; as first request of a connection it leads to a
connect and to `render (fwdImpl true cfg r)` queued, as follow-up request to
`render (fwdImpl false cfg r)` queued (C02: `parse_render`, `emit_eq`).
-/
namespace Px.Persist
open Px Px.Parser Px.Forward

def connLower : Bytes := [99, 111, 110, 110, 101, 99, 116, 105, 111, 110]     -- "connection"
def upgLower : Bytes := [117, 112, 103, 114, 97, 100, 101]                    -- "upgrade"

/-- the request does not ask for a protocol switch: not (HTTP/1.1 with both a Connection and an
    Upgrade field) -/
def notUpgrade (r : Req) : Bool :=
  !(r.version == Px.Gen.http11 && r.fields.any (nameIs connLower) && r.fields.any (nameIs upgLower))

theorem oneReq_render (r : Req) (hwf : r.WF) {host : Bytes} {port : Option Bytes} {pq : Bytes}
    (ht : r.target = .absolute host port pq) : ∃ P, oneReq (render r) = some P ∧ Parsed r host pq P := by
  obtain ⟨P, hP, hPd⟩ := parse_render r hwf ht
  refine ⟨P, ?_, hPd⟩
  unfold oneReq
  simp [hP, hPd.state, hPd.buffer]

theorem hasHeader_parsed {r : Req} {host pq : Bytes} {P : Parser} (hP : Parsed r host pq P) (k : Bytes) :
    hasHeader P k = r.fields.any (fun f => lower f.name == lower k) := by
  unfold hasHeader
  rw [hP.headers]
  by_cases he : r.fields = []
  · simp [he]
  · simp only [he, if_false, entries, List.any_map]
    rfl

theorem hasHeader_treatLater {cfg : Forward.Cfg} {P : Parser} {k : Bytes} (h : hasHeader (treatLater cfg P) k = true) :
    hasHeader P k = true := by
  rw [treatLater_eq] at h
  unfold hasHeader at h ⊢
  cases hh : P.headers with
  | none => simp [hh] at h
  | some hs =>
    simp only [hh, Option.map_some, keptEntries, hdrDel, List.any_filter, List.any_eq_true, Bool.and_eq_true] at h ⊢
    obtain ⟨x, hx, hxx⟩ := h
    exact ⟨x, hx, hxx.2.2⟩

theorem isUpgrade_later {cfg : Forward.Cfg} {r : Req} {host pq : Bytes} {P : Parser} (hP : Parsed r host pq P)
    (hn : notUpgrade r = true) : isUpgrade (treatLater cfg P) = false := by
  cases hu : isUpgrade (treatLater cfg P) with
  | false => rfl
  | true =>
    exfalso
    unfold isUpgrade at hu
    simp only [Bool.and_eq_true, beq_iff_eq] at hu
    obtain ⟨⟨hv, hc⟩, hg⟩ := hu
    have hv' : r.version = Px.Gen.http11 := by
      rw [treatLater_eq] at hv
      have : P.version = some Px.Gen.http11 := hv
      rw [hP.version] at this
      exact Option.some.inj this
    have hc' := hasHeader_treatLater hc
    have hg' := hasHeader_treatLater hg
    rw [hasHeader_parsed hP] at hc' hg'
    unfold notUpgrade at hn
    simp only [Bool.not_eq_true', Bool.and_eq_false_iff, beq_eq_false_iff_ne, ne_eq] at hn
    rcases hn with (hn | hn) | hn
    · exact hn hv'
    · rw [show (r.fields.any (nameIs connLower)) = r.fields.any (fun f => lower f.name == lower connectionName) from rfl] at hn
      rw [hn] at hc'; cases hc'
    · rw [show (r.fields.any (nameIs upgLower)) = r.fields.any (fun f => lower f.name == lower upgradeName) from rfl] at hn
      rw [hn] at hg'; cases hg'

/-- a well-formed absolute-form request as FIRST request of a connection -/
theorem firstOk_render (cfg : Forward.Cfg) (hc : CfgOk cfg) (r : Req) (hwf : r.WF) {host : Bytes} {port : Option Bytes}
    {pq : Bytes} (ht : r.target = .absolute host port pq) :
    ∃ P v, FirstOk cfg true (render r) P ⟨Connect.stripBrackets host, v⟩ (render (fwdImpl true cfg r)) := by
  obtain ⟨P, ho, hPd⟩ := oneReq_render r hwf ht
  have hparse := (oneReq_spec ho).1
  -- the port
  have hport : PortOk P := parse_portOk (cfg := pcfg) (by decide) hparse (portOk_init _)
  obtain ⟨v, hpv, hv0⟩ := hport hPd.url hPd.tunnel
  refine ⟨P, v, ho, ?_⟩
  have htgt := hwf.2.2.1
  rw [ht] at htgt
  have tf := targetFacts htgt
  have hhost : host ≠ [] := by
    simp only [targetOk, Bool.and_eq_true, Bool.not_eq_true'] at htgt
    simpa using htgt.1.1.1
  have hproxy : isProxyRequest P = true := by
    unfold isProxyRequest
    rw [hPd.version, hPd.url, hPd.host]
    rcases hwf.2.2.2.1 with hv | hv <;> simp [hv]
  have hutf : Px.Url.utf8Valid host = true := Px.UrlL.utf8Valid_ascii host tf.hostAscii
  have hhe : host.isEmpty = false := by simpa using hhost
  have hemit := emit_eq true cfg hc r hwf ht hPd
  simp only [if_true] at hemit
  have hconn : Connect.connectUpstream P.host P.port = .ok ⟨Connect.stripBrackets host, v⟩ := by
    rw [hPd.host, hpv]
    unfold Connect.connectUpstream
    have : (v == 0) = false := by simpa using hv0
    simp [hhe, this, hutf]
  unfold firstComplete
  simp only [hproxy, Bool.not_true, Bool.false_eq_true, if_false, hconn, hPd.tunnel, hemit]

/-- a well-formed absolute-form request that is no protocol switch, as FOLLOW-UP request -/
theorem laterOk_render (cfg : Forward.Cfg) (hc : CfgOk cfg) (r : Req) (hwf : r.WF) (habs : r.isAbsolute = true)
    (hn : notUpgrade r = true) : ∃ P, LaterOk cfg (render r) P (render (fwdImpl false cfg r)) := by
  obtain ⟨host, port, pq, ht⟩ : ∃ host port pq, r.target = .absolute host port pq := by
    cases htg : r.target with
    | absolute h p q => exact ⟨h, p, q, rfl⟩
    | origin q => simp [Req.isAbsolute, htg] at habs
  obtain ⟨P, ho, hPd⟩ := oneReq_render r hwf ht
  have hemit := emit_eq false cfg hc r hwf ht hPd
  simp only [Bool.false_eq_true, if_false] at hemit
  exact ⟨P, ho, hemit, isUpgrade_later hPd hn⟩

end Px.Persist
