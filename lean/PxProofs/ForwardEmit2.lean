import PxProofs.ForwardParse4
import PxProofs.ChunkCodec
/-!
# C02 helper lemmas, part 9: the emitted request as a `Req`, and `buildFor … = render (fwdImpl …)`
-/
namespace Px.Forward

open Px.Parser Px.Build

/-! ### re-chunking as a layout -/

/-- the layout `ChunkParser.to_chunks(body, size)` writes -/
def rechunkAux (size : Nat) : Nat → Bytes → List ChunkSpec
  | 0, _ => []
  | fuel + 1, raw =>
    if raw.isEmpty then []
    else { sz := natToHex (raw.take size).length, ext := [], data := raw.take size } ::
      rechunkAux size fuel (raw.drop size)

def rechunk (size : Nat) (body : Bytes) : List ChunkSpec := rechunkAux size body.length body

theorem toStream_rechunkAux (size fuel : Nat) (raw : Bytes) :
    toStream (rechunkAux size fuel raw) [48] [] = Px.Codec.chunksOf size fuel raw := by
  induction fuel generalizing raw with
  | zero => rfl
  | succ fuel ih =>
    by_cases he : raw.isEmpty = true
    · simp [rechunkAux, Px.Codec.chunksOf, he, toStream]
    · simp only [rechunkAux, Px.Codec.chunksOf, he, Bool.false_eq_true, if_false, toStream, ih]

theorem toChunks_rechunk (body : Bytes) (size : Nat) (h : size ≠ 0) :
    Px.Chunk.toChunks body size = .ok (renderChunks (rechunk size body) ++ ([48] ++ [] ++ CRLF ++ CRLF)) := by
  rw [Px.Codec.toChunks_render body size h, ← toStream_rechunkAux, toStream_render]; rfl

/-! ### the emitted request -/

/-- the rebuilt header dict: treated map, minus disabled keys, as (name, value) in order -/
def keptDict (first : Bool) (cfg : Cfg) (r : Req) : HDict :=
  ((treatedMap first cfg (entries r.fields)).filter (fun e => !cfg.disable.contains e.1)).map (·.2)

/-- … plus the `Content-Length` that `build_http_request` sets for a non-empty Content-Length body -/
def implDict (first : Bool) (cfg : Cfg) (r : Req) : HDict :=
  if r.framing.isCL && !r.body.isEmpty then dSet (keptDict first cfg r) nCL (natToDec r.body.length)
  else keptDict first cfg r

/-- the request the proxy writes to the origin, as specification-side data: origin-form target,
    single SP after the colon, no trailing OWS, body re-chunked by the proxy's buffer size -/
def fwdImpl (first : Bool) (cfg : Cfg) (r : Req) : Req :=
  { method := r.method
    target := originTarget r.target
    version := r.version
    fields := (implDict first cfg r).map (fun e => { name := e.1, pre := [SP], value := e.2, post := [] })
    body := r.body
    framing := match r.framing with
      | .chunked _ _ _ => .chunked (rechunk cfg.bufSize r.body) [48] []
      | .none => .none
      | .contentLength => .contentLength }

theorem renderFields_of_dict (hd : HDict) :
    renderFields (hd.map (fun e => ({ name := e.1, pre := [SP], value := e.2, post := [] } : Field))) =
      renderDict hd := by
  induction hd with
  | nil => rfl
  | cons e rest ih =>
    simp only [renderFields, renderDict, List.map_cons, List.flatten_cons] at ih ⊢
    rw [ih]
    simp [renderField, buildHeader]

theorem mem_treatedMap_of {first : Bool} {cfg : Cfg} {h : Headers} {x : Bytes × (Bytes × Bytes)} (hx : x ∈ h)
    (h1 : x.1 ≠ lower cfg.proxyAuthorization) (h2 : x.1 ≠ lower cfg.proxyConnection) (h3 : x.1 ≠ viaLower) :
    x ∈ treatedMap first cfg h := by
  have hk : x ∈ keptEntries cfg h := by
    unfold keptEntries hdrDel
    simp only [List.mem_filter, bne_iff_ne, ne_eq]
    exact ⟨⟨hx, h1⟩, h2⟩
  unfold treatedMap
  split
  · unfold withVia hdrSet
    split
    · simp only [List.mem_map]
      refine ⟨x, hk, ?_⟩
      have : (x.1 == viaLower) = false := by simpa using h3
      simp [this]
    · simp [hk]
  · exact hk

theorem entries_getD (r : Req) {P : Parser}
    (h : P.headers = (if r.fields = [] then none else some (entries r.fields))) :
    P.headers.getD [] = entries r.fields := by
  rw [h]
  by_cases he : r.fields = []
  · simp [he, entries]
  · simp [he]

/-- **what is written to the origin** for a parser holding the well-formed request `r` -/
theorem emit_eq (first : Bool) (cfg : Cfg) (hcfg : CfgOk cfg) (r : Req) (hwf : r.WF)
    {host : Bytes} {port : Option Bytes} {pq : Bytes} (ht : r.target = .absolute host port pq)
    {P : Parser} (hP : Parsed r host pq P) :
    buildFor cfg (if first then treatFirst cfg P else treatLater cfg P) = .ok (render (fwdImpl first cfg r)) := by
  obtain ⟨hmtok, _, _, hver, _, hnodup, hfr⟩ := hwf
  have hmne : r.method ≠ [] := (token_facts hmtok).1
  have hvne : r.version ≠ [] := (version_facts hver).1
  have hpinv : PInv P := by
    unfold PInv; rw [entries_getD r hP.headers]; exact hdrInv_entries _ hnodup
  -- the treated parser differs from `P` in its header map only
  have htr : ∃ H, (if first then treatFirst cfg P else treatLater cfg P) = { P with headers := H } := by
    cases first with
    | true => exact ⟨_, by simp only [if_true]; exact treatFirst_eq cfg P⟩
    | false => exact ⟨_, by simp only [Bool.false_eq_true, if_false]; exact treatLater_eq cfg P⟩
  obtain ⟨H, hH⟩ := htr
  have hdict : headerDict (if first then treatFirst cfg P else treatLater cfg P) cfg.disable = keptDict first cfg r := by
    rw [headerDict_of_inv _ _ (pinv_treated first cfg hpinv), treated_headers, entries_getD r hP.headers]; rfl
  have hbuild := buildFor_eq cfg (if first then treatFirst cfg P else treatLater cfg P) (m := r.method) (v := r.version)
    (by rw [hH]; exact hP.method) hmne (by rw [hH]; exact hP.version) hvne (by rw [hH]; exact hP.ty)
  rw [hbuild, hdict]
  have hpath : pathOf (if first then treatFirst cfg P else treatLater cfg P) = (if pq.isEmpty then [SLASH] else pq) := by
    rw [hH]
    show pathOf { P with headers := H } = _
    unfold pathOf
    simp only [hP.path]
    by_cases he : pq.isEmpty = true <;> simp [he]
  have hbody : bodyOrChunks cfg.bufSize (if first then treatFirst cfg P else treatLater cfg P) =
      bodyOrChunks cfg.bufSize { P with headers := H } := by rw [hH]
  have hb1 : ({ P with headers := H } : Parser).body = parsedBody r := hP.body
  have hb2 : ({ P with headers := H } : Parser).isChunked = r.framing.isChunked := hP.chunked
  rw [hbody, hpath]
  unfold bodyOrChunks
  rw [hb1, hb2]
  clear hbuild hdict hH hbody hb1 hb2 hpath hpinv hP
  -- the three framings
  have hline : ∀ rest : Bytes, r.method ++ SP :: ((if pq.isEmpty then [SLASH] else pq) ++ SP :: r.version) ++ CRLF ++ rest =
      requestLine (fwdImpl first cfg r) ++ CRLF ++ rest := by
    intro rest
    simp only [requestLine, fwdImpl, ht, originTarget, renderTarget]
  have hkeptTE : r.fields.any (nameIs teName) = false → (keptDict first cfg r).any (fun e => lower e.1 == teName) = false := by
    intro hno
    rw [List.any_eq_false]
    intro e he
    simp only [keptDict, List.mem_map, List.mem_filter] at he
    obtain ⟨x, ⟨hx, _⟩, rfl⟩ := he
    have hk := (hdrInv_treatedMap first cfg (hdrInv_entries r.fields hnodup)).2 x hx
    rw [← hk]
    rcases mem_treatedMap hx with hv | ⟨hmem, _, _⟩
    · rw [hv]; simpa using viaLower_ne_te
    · simp only [entries, List.mem_map] at hmem
      obtain ⟨f, hf, rfl⟩ := hmem
      have := List.any_eq_false.1 hno f hf
      simpa [nameIs] using this
  unfold framingOk at hfr
  rcases hfrm : r.framing with _ | _ | ⟨cs, lsz, lext⟩
  · -- no body
    simp only [hfrm, Bool.and_eq_true, Bool.not_eq_true'] at hfr
    simp only [parsedBody, hfrm]
    refine congrArg Except.ok ?_
    rw [hline]
    simp only [render, finalDict, Bool.false_and, Bool.false_eq_true, if_false, Option.getD_none]
    congr 1
    simp only [fwdImpl, implDict, hfrm, Framing.isCL, Bool.false_and, Bool.false_eq_true, if_false,
      renderFields_of_dict, renderBody]
  · -- Content-Length
    simp only [hfrm, Bool.and_eq_true, Bool.not_eq_true'] at hfr
    simp only [parsedBody, hfrm, Framing.isChunked, Bool.false_eq_true, if_false]
    by_cases hbe : r.body.isEmpty = true
    · simp only [hbe, if_true]
      refine congrArg Except.ok ?_
      rw [hline]
      simp only [render, finalDict, Bool.false_and, Bool.false_eq_true, if_false, Option.getD_none]
      congr 1
      have : r.body = [] := by simpa using hbe
      simp only [fwdImpl, implDict, hfrm, Framing.isCL, renderFields_of_dict, renderBody, this]
      simp
    · simp only [hbe, Bool.false_eq_true, if_false]
      refine congrArg Except.ok ?_
      rw [hline]
      have hte := hkeptTE hfr.1
      simp only [render, finalDict, hbe, Bool.not_false, hte, Bool.and_self, if_true, Option.getD_some]
      congr 1
      simp only [fwdImpl, implDict, hfrm, hbe, Framing.isCL, Bool.not_false, Bool.and_self, if_true,
        renderFields_of_dict, renderBody]
  · -- chunked
    simp only [hfrm, Bool.and_eq_true, Bool.not_eq_true', List.any_eq_true, beq_iff_eq] at hfr
    obtain ⟨⟨⟨⟨hnocl, f, hfm, hfte, _⟩, _⟩, _⟩, _⟩ := hfr
    simp only [parsedBody, hfrm, Framing.isChunked, if_true, toChunks_rechunk r.body cfg.bufSize hcfg.1]
    refine congrArg Except.ok ?_
    rw [hline]
    -- the Transfer-Encoding field survives the treatment
    have hte : (keptDict first cfg r).any (fun e => lower e.1 == teName) = true := by
      have hk := hcfg.2 teName (by simp)
      simp only [nameIs, beq_iff_eq] at hfte
      rw [List.any_eq_true]
      refine ⟨(f.name, f.value), ?_, by simp [hfte]⟩
      simp only [keptDict, List.mem_map, List.mem_filter]
      refine ⟨(lower f.name, (f.name, f.value)), ⟨?_, ?_⟩, rfl⟩
      · apply mem_treatedMap_of
        · simp only [entries, List.mem_map]; exact ⟨f, hfm, rfl⟩
        · rw [hfte]; exact hk.2.1
        · rw [hfte]; exact hk.2.2
        · rw [hfte]; exact fun h => viaLower_ne_te h.symm
      · simp only [hfte, hk.1, Bool.not_false]
    simp only [render, finalDict, hte, Bool.not_true, Bool.and_false, Bool.false_eq_true, if_false, Option.getD_some]
    congr 1
    simp only [fwdImpl, implDict, hfrm, Framing.isCL, Bool.false_and, Bool.false_eq_true, if_false,
      renderFields_of_dict, renderBody]

end Px.Forward
