import PxModel.Parser
import PxModel.Build
/-
  Model of what `HttpProtocolHandler` + `HttpProxyPlugin` queue to the upstream
  server for a plain-HTTP proxy request (default plugin chain: no
  HttpProxyBasePlugin, no connection pool, no TLS interception):

  * first request of a connection — proxy/http/handler.py `_parse_first_request`
    (segments are fed to `self.request` until it is complete) and
    proxy/http/proxy/server.py `on_request_complete` (`del_headers` of
    Proxy-Authorization / Proxy-Connection, `add_headers([(b'Via', via)])` with
    `via = b'1.1 ' + PROXY_AGENT_HEADER_VALUE`, appended to a client-sent Via value if present, `build(disable_headers=flags.disable_headers)`);
  * follow-up requests — `on_client_data`: a fresh `pipeline_request` parser per
    request, `del_headers`, `build(disable_headers=…)`; NO `Via` (finding D10v).
-/
namespace Px.Forward

open Px.Parser

/-- parser configuration of the implementation (generated constants) -/
def pcfg : Px.Parser.Cfg := {}

structure Cfg where
  /-- `flags.disable_headers` (lower-cased by the flag parser) -/
  disable : List Bytes := Px.Gen.defaultDisableHeaders
  /-- `DEFAULT_BUFFER_SIZE`: chunk size of `ChunkParser.to_chunks` -/
  bufSize : Nat := Px.Gen.defaultBufferSize
  /-- `PROXY_AGENT_HEADER_VALUE` -/
  agent : Bytes := Px.Gen.proxyAgentHeaderValue
  proxyAuthorization : Bytes := Px.Gen.hdrProxyAuthorization
  proxyConnection : Bytes := Px.Gen.hdrProxyConnection

inductive Err
  | parse (e : Px.Parser.Err)   -- HttpParser.parse raised (→ 400 + teardown)
  | incomplete                  -- all segments consumed, request not complete: nothing forwarded yet
  | notProxy                    -- http_handler_protocol is not HTTP_PROXY (→ 400)
  | tunnel                      -- CONNECT: a tunnel is established, no request is forwarded
  | noHost                      -- `if host and port` fails / host is not UTF-8 in connect_upstream
  | build (e : Px.Build.Err)
  deriving DecidableEq, Repr

/-- name of the field added by `on_request_complete`: `b'Via'` -/
def viaName : Bytes := [86, 105, 97]
/-- `b'1.1 %s' % PROXY_AGENT_HEADER_VALUE` -/
def viaValue (cfg : Cfg) : Bytes := [49, 46, 49, 32] ++ cfg.agent

/-- feed segments to one parser until it reports COMPLETE; the unread segments
    belong to the next request of the connection (`_parse_first_request` is no
    longer called once `self.request.is_complete`; `on_client_data` resets
    `pipeline_request` to `None` after forwarding) -/
def feedUntilComplete (pc : Px.Parser.Cfg) (p : Parser) : List Bytes → Except Px.Parser.Err (Parser × List Bytes)
  | [] => .ok (p, [])
  | x :: xs =>
    match parse pc p x with
    | .error e => .error e
    | .ok p' => if p'.state == .complete then .ok (p', xs) else feedUntilComplete pc p' xs

/-- `HttpParser.http_handler_protocol == httpProtocols.HTTP_PROXY` -/
def isProxyRequest (p : Parser) : Bool :=
  (p.version == some Px.Gen.http11 || p.version == some Px.Gen.http10) && p.url.isSome && p.host.isSome

/-- `del_headers([PROXY_AUTHORIZATION, PROXY_CONNECTION])` -/
def stripProxyHeaders (cfg : Cfg) (p : Parser) : Parser :=
  delHeader (delHeader p (lower cfg.proxyAuthorization)) (lower cfg.proxyConnection)

/-- `b', '` -/
def commaSp : Bytes := [44, 32]

/-- the Via value: appended to a Via field received from the client, if any
    (`if self.request.has_header(b'via'): via = self.request.header(b'via') + b', ' + via`) -/
def viaFor (cfg : Cfg) (p : Parser) : Bytes :=
  if hasHeader p viaName then
    match header p viaName with
    | .ok v => v ++ commaSp ++ viaValue cfg
    | .error _ => viaValue cfg        -- unreachable: guarded by has_header
  else viaValue cfg

/-- header treatment of the first request -/
def treatFirst (cfg : Cfg) (p : Parser) : Parser :=
  let p := stripProxyHeaders cfg p
  addHeader p viaName (viaFor cfg p)

/-- header treatment of follow-up requests (no Via: D10v) -/
def treatLater (cfg : Cfg) (p : Parser) : Parser := stripProxyHeaders cfg p

def buildFor (cfg : Cfg) (p : Parser) : Except Err Bytes :=
  match Px.Build.build cfg.bufSize Px.Gen.defaultDisableHeaders p (some cfg.disable) none with
  | .ok x => .ok x
  | .error e => .error (.build e)

/-- what a completely received first request is turned into -/
def emitFirst (cfg : Cfg) (p : Parser) : Except Err Bytes :=
  if !isProxyRequest p then .error .notProxy
  else if (p.host.getD []).isEmpty then .error .noHost
  else if !Px.Url.utf8Valid (p.host.getD []) then .error .noHost     -- `text_(host)` raises in connect_upstream
  else if p.isTunnel then .error .tunnel                             -- after connect_upstream: 200 to the client, relay
  else buildFor cfg (treatFirst cfg p)

/-- what a completely received follow-up request is turned into -/
def emitLater (cfg : Cfg) (p : Parser) : Except Err Bytes := buildFor cfg (treatLater cfg p)

/-- bytes queued to the upstream server for the first request of a connection
    arriving as `segs`, and the segments left for later requests -/
def forwardFirst' (cfg : Cfg) (segs : List Bytes) : Except Err (Bytes × List Bytes) :=
  match feedUntilComplete pcfg (init .request) segs with
  | .error e => .error (.parse e)
  | .ok (p, rest) =>
    if p.state != .complete then .error .incomplete
    else match emitFirst cfg p with
      | .error e => .error e
      | .ok x => .ok (x, rest)

def forwardFirst (cfg : Cfg) (segs : List Bytes) : Except Err Bytes :=
  (forwardFirst' cfg segs).map (·.1)

/-- the same for a follow-up request (fresh `pipeline_request` parser) -/
def forwardLater' (cfg : Cfg) (segs : List Bytes) : Except Err (Bytes × List Bytes) :=
  match feedUntilComplete pcfg (init .request) segs with
  | .error e => .error (.parse e)
  | .ok (p, rest) =>
    if p.state != .complete then .error .incomplete
    else match emitLater cfg p with
      | .error e => .error e
      | .ok x => .ok (x, rest)

def forwardLater (cfg : Cfg) (segs : List Bytes) : Except Err Bytes :=
  (forwardLater' cfg segs).map (·.1)

/-! ## the connection: every client write, requests sharing a segment included

`HttpProtocolHandler.handle_data` per client write (= one `recv()` result): the first request is
fed to `self.request`; when it completes it is forwarded and what its parser left over is handed to
`HttpProxyPlugin.on_client_data`, which loops (`_handle_pipeline_data`) over every complete follow-up
request of the write.  An exception anywhere in a write tears the connection down before the
upstream queue is flushed: nothing queued during that write reaches the origin. -/

/-- what a write makes the proxy queue for the origin: a re-serialised request, or client bytes
    relayed verbatim (after CONNECT / after a follow-up upgrade request) -/
inductive Emit
  | built (x : Bytes)
  | raw (x : Bytes)
  deriving DecidableEq, Repr

def Emit.bytes : Emit → Bytes
  | .built x => x
  | .raw x => x

inductive Conn
  | first (p : Parser)            -- `self.request` not complete yet
  | later (pp : Option Parser)    -- `self.pipeline_request` (partial follow-up, if any)
  | relay                         -- tunnel / upgraded: client bytes are queued for the origin as they are
  | dead                          -- torn down
  deriving DecidableEq, Repr

/-- `HttpParser.is_connection_upgrade` -/
def isUpgrade (p : Parser) : Bool :=
  p.version == some Px.Gen.http11 && hasHeader p (b "Connection") && hasHeader p (b "Upgrade")

/-- the `while remaining` loop of `on_client_data` over `_handle_pipeline_data`; `none` = an
    exception escaped (parse error, `build` assertion).  Fuel: every round consumes a request. -/
def laterLoop (cfg : Cfg) : Nat → Option Parser → Bytes → List Emit → Option (List Emit × Conn)
  | 0, pp, _, acc => some (acc, .later pp)
  | fuel + 1, pp, raw, acc =>
    if raw.isEmpty then some (acc, .later pp)
    else
      match parse pcfg (pp.getD (init .request)) raw with
      | .error _ => none
      | .ok p' =>
        if p'.state == .complete then
          let remaining := p'.buffer.getD []
          let p'' := { p' with buffer := none }
          match emitLater cfg p'' with
          | .error _ => none
          | .ok out =>
            if isUpgrade (treatLater cfg p'') then
              some (acc ++ [.built out] ++ (if remaining.isEmpty then [] else [.raw remaining]), .relay)
            else laterLoop cfg fuel none remaining (acc ++ [.built out])
        else some (acc, .later (some p'))

def laterWrite (cfg : Cfg) (pp : Option Parser) (raw : Bytes) (acc : List Emit) : Option (List Emit × Conn) :=
  laterLoop cfg (((pp.getD (init .request)).buffer.getD []).length + raw.length + 1) pp raw acc

/-- one client write while the first request is being received -/
def firstWrite (cfg : Cfg) (p : Parser) (raw : Bytes) : Option (List Emit × Conn) :=
  match parse pcfg p raw with
  | .error _ => none
  | .ok p' =>
    if p'.state != .complete then some ([], .first p')
    else
      let remaining := p'.buffer.getD []
      match emitFirst cfg p' with
      | .error .tunnel => some (if remaining.isEmpty then [] else [.raw remaining], .relay)
      | .error _ => none
      | .ok out => laterWrite cfg none remaining [.built out]

/-- one client write: what reaches the origin, and the connection afterwards -/
def Conn.step (cfg : Cfg) : Conn → Bytes → List Emit × Conn
  | .first p, raw => (firstWrite cfg p raw).getD ([], .dead)
  | .later pp, raw => (laterWrite cfg pp raw []).getD ([], .dead)
  | .relay, raw => ([.raw raw], .relay)
  | .dead, _ => ([], .dead)

/-- a sequence of client writes: the emissions per write, and the final state -/
def Conn.feed (cfg : Cfg) : Conn → List Bytes → List (List Emit) × Conn
  | c, [] => ([], c)
  | c, x :: xs =>
    let r := Conn.step cfg c x
    let rs := Conn.feed cfg r.2 xs
    (r.1 :: rs.1, rs.2)

/-- a fresh client connection -/
def Conn.start : Conn := .first (init .request)

end Px.Forward
