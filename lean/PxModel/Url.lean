import PxModel.Bytes
import PxModel.PyInt
import PxModel.Generated
/-
  Model of proxy/http/url.py: Url.from_bytes and Url._parse.
-/
namespace Px.Url

inductive Err
  | indexError        -- raw[0] on empty input
  | valueError        -- int() failure, tuple-unpack failure, UnicodeDecodeError
  | httpProtocol      -- HttpProtocolException: scheme not allowed
  deriving DecidableEq, Repr

structure Url where
  scheme : Option Bytes := none
  username : Option Bytes := none
  password : Option Bytes := none
  hostname : Option Bytes := none
  port : Option Int := none
  remainder : Option Bytes := none
  deriving DecidableEq, Repr

/-- `x.split(sep, 1)` for an arbitrary non-empty separator -/
def splitOnceSeq (sep : Bytes) : Bytes → Option (Bytes × Bytes)
  | [] => none
  | c :: cs =>
    if startsWith (c :: cs) sep then some ([], (c :: cs).drop sep.length)
    else match splitOnceSeq sep cs with
      | none => none
      | some (l, r) => some (c :: l, r)

/-- strict UTF-8 validity (`bytes.decode('utf-8')` succeeds) -/
def utf8Valid : Bytes → Bool
  | [] => true
  | c :: rest =>
    if c < 0x80 then utf8Valid rest
    else if 0xC2 ≤ c && c ≤ 0xDF then
      (match rest with
       | d :: r => (0x80 ≤ d && d ≤ 0xBF) && utf8Valid r
       | _ => false)
    else if 0xE0 ≤ c && c ≤ 0xEF then
      (match rest with
       | d :: e :: r =>
         let lo : UInt8 := if c == 0xE0 then 0xA0 else 0x80
         let hi : UInt8 := if c == 0xED then 0x9F else 0xBF
         (lo ≤ d && d ≤ hi) && (0x80 ≤ e && e ≤ 0xBF) && utf8Valid r
       | _ => false)
    else if 0xF0 ≤ c && c ≤ 0xF4 then
      (match rest with
       | d :: e :: f :: r =>
         let lo : UInt8 := if c == 0xF0 then 0x90 else 0x80
         let hi : UInt8 := if c == 0xF4 then 0x8F else 0xBF
         (lo ≤ d && d ≤ hi) && (0x80 ≤ e && e ≤ 0xBF) && (0x80 ≤ f && f ≤ 0xBF) && utf8Valid r
       | _ => false)
    else false

def AT : UInt8 := 64
def LBR : UInt8 := 91
def RBR : UInt8 := 93

/-- `Url._parse(raw)`: (username, password, host, port) -/
def parseAuthority (raw : Bytes) : Except Err (Option Bytes × Option Bytes × Bytes × Option Int) := do
  let splitAt := splitOnce1 AT raw
  let (user, pass, hostport) ← match splitAt with
    | none => pure (none, none, raw)
    | some (ui, hp) =>
      -- `username, password = split_at[0].split(COLON)`: exactly two parts or ValueError
      match splitAll1 COLON ui with
      | [u, p] => pure (some u, some p, hp)
      | _ => throw .valueError
  match splitN1 COLON 2 hostport with
  | [h] => pure (user, pass, h, none)
  | [h, p] =>
    match pyInt 10 p with
    | some v => pure (user, pass, h, some v)
    | none => throw .valueError
  | [a, c, last] =>
    -- more than one colon: IPv6 scenario
    let lastTok := splitAll1 COLON last
    let (host, port) : Bytes × Option Int :=
      match pyInt 10 (lastTok.getLast?.getD []) with
      | some v => (a ++ [COLON] ++ c ++ [COLON] ++ join [COLON] lastTok.dropLast, some v)
      | none => (hostport, none)   -- whole authority sans userinfo (`split_at[-1]`) as host
    -- `host.decode('utf-8')`
    if !utf8Valid host then throw .valueError
    let host :=
      if containsByte host COLON && host.head? != some LBR && host.getLast? != some RBR
      then [LBR] ++ host ++ [RBR] else host
    pure (user, pass, host, port)
  | _ => throw .valueError    -- unreachable: split(…, 2) yields 1..3 parts

/-- `Url.from_bytes(raw, allowed_url_schemes)` -/
def fromBytes (allowed : List Bytes) (raw : Bytes) : Except Err Url :=
  match raw with
  | [] => .error .indexError
  | c0 :: tl =>
    let single := c0 == SLASH
    let dbl := single && (match tl with | c1 :: _ => c1 == SLASH | [] => false)
    if single && !dbl then .ok { remainder := some raw }
    else
      -- find scheme
      let sr : Except Err (Option Bytes × Option Bytes) :=
        if !dbl then
          (match splitOnceSeq (b "://") raw with
           | some (s, r) => if allowed.contains s then .ok (some s, some r) else .error .httpProtocol
           | none => .ok (none, none))
        else .ok (none, some (raw.drop 2))
      match sr with
      | .error e => .error e
      | .ok (scheme, rest) =>
        if scheme.isSome || dbl then
          let rest := rest.getD []
          let (auth, rem) : Bytes × Option Bytes := match splitOnce1 SLASH rest with
            | none => (rest, none)
            | some (a, p) => (a, some (SLASH :: p))
          match parseAuthority auth with
          | .error e => .error e
          | .ok (u, p, h, port) =>
            .ok { scheme := if dbl then some (b "http") else scheme, username := u, password := p,
                  hostname := some h, port := port, remainder := rem }
        else
          match parseAuthority raw with
          | .error e => .error e
          | .ok (u, p, h, port) => .ok { username := u, password := p, hostname := some h, port := port }

end Px.Url
