import PxModel.FirstRequest
import PxModel.WfResponse
import PxModel.Responses
import PxProofs.FirstLemmas
import PxProofs.WfBuild
import PxProofs.ParseFuel
/-!
# C06 — any input yields service, a well-formed error response, or a clean close

Property theorems only; helper lemmas are in `PxProofs/FirstLemmas.lean` (handler),
`PxProofs/WfLemmas.lean` + `PxProofs/WfBuild.lean` (response checker vs builders) and
`PxProofs/ParseFuel.lean` (termination of the parser loop).  The models
(`PxModel/FirstRequest.lean`, `Responses.lean`, `Build.lean`, `Parser.lean`) are tied to
proxy/http/handler.py, responses.py, common/utils.py, parser/parser.py by `harness/c06.py`;
`PxModel/WfResponse.lean` is the RFC 7230 specification side.
-/
namespace Px.First

/-- **C06 total (one segment).**  For every handler state still in its first-request phase,
every plugin configuration and plugin behaviour, and every byte string `data`, `handle_data`
ends in exactly one row of the decision table `Spec`:

* `wait` — the request is still incomplete: nothing queued, no plugin, returns False;
* `served pid td` — the request completed, its protocol is known, plugin `pid` is the first
  enabled plugin handling it and its `on_request_complete` returned (`td` = its verdict); when it
  returned False, the bytes that followed the request in the same segment are taken out of the
  parser and handed to the plugin's `on_client_data` in the same call (84c574d) — if that raises a
  protocol exception the row is `reject`, as for any later client data;
* `reject why hq` — returns True (teardown) and what the handler itself queued is `hq`:
  exactly `[BAD_REQUEST_RESPONSE_PKT]` (parse error of any kind / unknown protocol / no plugin),
  or the raising plugin exception's `response()` (one packet or nothing);
* `escaped` — only if a plugin hook lets a non-`HttpProtocolException` escape (excluded by `NoCrash`).

The rows' conditions (parse result, completeness, protocol, plugin discovery, plugin result)
are mutually exclusive and exhaustive, so the outcome is unique.  `reqParse` is `request.parse`
for both values of `--enable-proxy-protocol` (`cfg.proxyProtocol`): with the flag on the first
CRLF-terminated line goes to `ProxyProtocol.parse` (`Px.PP.parseLine`), and every way that can
fail (AssertionError, IndexError, ValueError, NotImplementedError, HttpProtocolException) is a
`reject (.parse e)` row: exactly one BAD_REQUEST packet, then teardown. -/
theorem C06_total (cfg : Cfg) (st : St) (data : Bytes) (h : st.request.state ≠ .complete) :
    Spec cfg st data (handleData cfg st data) := by
  rw [handleData_first cfg st data h]; exact parseFirst_spec cfg st data

/-- under the plugin contract the outcome is one of the three classes of the property -/
theorem C06_exclusive (cfg : Cfg) (hc : NoCrash cfg) (st : St) (data : Bytes) (h : st.request.state ≠ .complete) :
    match (handleData cfg st data).2.1 with
    | .wait => (handleData cfg st data).2.2 = false ∧ (handleData cfg st data).1.buffer = st.buffer
    | .served _ td => (handleData cfg st data).2.2 = td
    | .reject _ hq => (handleData cfg st data).2.2 = true ∧
        (hq = [cfg.badRequest] ∨ hq = [] ∨ ∃ r, hq = [r] ∧ r ≠ [])
    | _ => False := by
  have hs := C06_total cfg st data h
  generalize handleData cfg st data = res at hs
  obtain ⟨st', o, ret⟩ := res
  cases o with
  | wait => exact ⟨hs.2.1, hs.2.2.1⟩
  | served pid td =>
    obtain ⟨_, _, _, _, _, _, _, _, hret, _⟩ := hs
    exact hret
  | reject why hq =>
    refine ⟨hs.1, ?_⟩
    cases why with
    | parse e => exact Or.inl hs.2.2.2.1
    | unknownProtocol => exact Or.inl hs.2.2.2.1
    | noPlugin p => exact Or.inl hs.2.2.2.1
    | pluginRaised pid =>
      obtain ⟨_, _, resp, _, _, _, hq', _⟩ := hs.2.2
      cases resp with
      | none => exact Or.inr (Or.inl (by rw [hq']; rfl))
      | some r =>
        by_cases hr : r.isEmpty = true
        · exact Or.inr (Or.inl (by rw [hq']; simp [respQueue, hr]))
        · refine Or.inr (Or.inr ⟨r, by rw [hq']; simp [respQueue, hr], ?_⟩)
          intro h0; rw [h0] at hr; exact hr rfl
  | escaped pid =>
    obtain ⟨rq, q, _, _, hcr⟩ := hs
    rcases hcr with ⟨hcr, _⟩ | ⟨q1, rem, _, _, hcr, _⟩
    · exact hc.1 pid rq q hcr
    · exact hc.2 pid _ rem q hcr
  | data _ => exact hs
  | ignored => exact hs

/-- **C06 trace.**  For every sequence of client segments fed to a fresh handler: a run of
`wait`s, then at most one `served` or `reject`; after a `reject` (or a served request whose
plugin asked for teardown, or an escaping exception) every later segment stays unread; after a
served request the segments go to the plugin's `on_client_data` until it raises. -/
theorem C06_trace (cfg : Cfg) (segs : List Bytes) : FirstShape (run cfg {} segs).2 :=
  run_firstShape cfg segs {} (by decide) (by decide)

/-- **C06: a rejected connection is not read any more.**  When `handle_data` returns True the
tick either sets must-flush (output pending: read interest is dropped, C07 closes once
drained) or reports teardown; from then on no client byte reaches the parser: the state
(including the parser's `total_size`) never changes again, whatever the client sends. -/
theorem C06_reject_stops_reading (cfg : Cfg) (st : St) (data : Bytes) (more : List Bytes)
    (h : (handleData cfg st data).2.2 = true) :
    let st' := (tick cfg st data).1
    reading st' = false ∧ (st'.escaped = false → (st'.mustFlush = true ∧ st'.buffer ≠ []) ∨ st'.teardown = true) ∧
      run cfg st' more = (st', more.map (fun _ => none)) := by
  have hs := tick_stops cfg st data (Or.inl h)
  refine ⟨hs, ?_, run_not_reading cfg _ more hs⟩
  rw [tick_eq]
  simp only [h, if_true]
  intro hesc
  by_cases he : (handleData cfg st data).1.escaped = true
  · simp [he] at hesc
  · simp only [he, Bool.false_eq_true, if_false]
    by_cases hb : (handleData cfg st data).1.buffer.isEmpty = true
    · simp [hb]
    · left
      simp only [hb, Bool.not_false, if_true, true_and]
      intro h0; rw [h0] at hb; exact hb rfl

/-- a plugin hook that breaks the contract (`on_request_complete`, or `on_client_data` on the
leftover of the segment): the exception leaves `handle_data` (the executor tears the work down,
C05); the handler itself queues nothing -/
theorem C06_crash_escapes (cfg : Cfg) (st : St) (data : Bytes) (h : st.request.state ≠ .complete)
    (pid : Nat) (hp : (handleData cfg st data).2.1 = .escaped pid) :
    (∃ rq q, (cfg.onComplete pid rq = .crash q ∧ (handleData cfg st data).1.buffer = st.buffer ++ q) ∨
        (∃ q1 rem, cfg.onComplete pid rq = .ret q1 false ∧ cfg.onClientData pid st.calls rem = .crash q ∧
          (handleData cfg st data).1.buffer = st.buffer ++ q1 ++ q)) ∧
      reading (tick cfg st data).1 = false := by
  have hs := C06_total cfg st data h
  have hstop : (handleData cfg st data).1.escaped = true → reading (tick cfg st data).1 = false :=
    fun he => tick_stops cfg st data (Or.inr he)
  generalize handleData cfg st data = res at hs hp hstop
  obtain ⟨st', o, ret⟩ := res
  simp only at hp
  subst hp
  obtain ⟨rq, q, _, he, hcr⟩ := hs
  refine ⟨⟨rq, q, ?_⟩, hstop he⟩
  rcases hcr with ⟨hcr, hb⟩ | ⟨q1, rem, h1, _, h2, hb⟩
  · exact Or.inl ⟨hcr, hb⟩
  · exact Or.inr ⟨q1, rem, h1, h2, hb⟩

/-- **C06: an empty method is rejected (1e14ff2).**  A first segment whose first line starts
with a space — i.e. a request line with an empty method, such as ` http://h/ HTTP/1.1` — is a
parse error for every configuration without a pending PROXY line: exactly the canned 400 is
queued and teardown requested; no plugin is selected and no upstream connection is made. -/
theorem C06_empty_method_rejected (cfg : Cfg) (t line rest : Bytes) (hflag : cfg.proxyProtocol = false)
    (hcr : splitCRLF (SP :: t) = some (line, rest)) :
    handleData cfg {} (SP :: t) =
      ({ buffer := [cfg.badRequest] }, .reject (.parse (.parser .httpProtocol)) [cfg.badRequest], true) := by
  have hline : ∃ l', line = SP :: l' := by
    cases t with
    | nil => simp [splitCRLF] at hcr
    | cons d r =>
      unfold splitCRLF at hcr
      split at hcr
      · next h => simp [SP] at h
      · cases hr : splitCRLF (d :: r) with
        | none => simp [hr] at hcr
        | some lr => simp only [hr, Option.some.injEq, Prod.mk.injEq] at hcr; exact ⟨lr.1, hcr.1.symm⟩
  obtain ⟨l', rfl⟩ := hline
  have hpl : ∀ p : Px.Parser.Parser, p.ty = .request →
      Px.Parser.processLine cfg.pcfg p (SP :: t) = .error .httpProtocol := by
    intro p hty
    unfold Px.Parser.processLine
    simp only [hcr, hty]
    have h3 : ∃ tl, splitN1 SP 2 (SP :: l') = [] :: tl := by
      simp [splitN1, splitOnce1]
    obtain ⟨tl, htl⟩ := h3
    rw [htl]
    match tl with
    | [] => rfl
    | [_] => rfl
    | [_, _] => rfl
    | _ :: _ :: _ :: _ => rfl
  have hstep : ∀ p : Px.Parser.Parser, p.ty = .request → p.state = .initialized →
      Px.Parser.stepOnce cfg.pcfg p (SP :: t) = .error .httpProtocol := by
    intro p hty hs
    unfold Px.Parser.stepOnce
    simp [hs, Px.Parser.PState.num, hpl p hty]
  have hloop : ∀ (f : Nat) (p : Px.Parser.Parser), p.ty = .request → p.state = .initialized →
      Px.Parser.loop cfg.pcfg (f + 1) p true (SP :: t) = .error .httpProtocol := by
    intro f p hty hs
    rw [Px.Parser.loop]
    simp [hs, hstep p hty hs]
  have hparse : Px.Parser.parse cfg.pcfg (Px.Parser.init .request) (SP :: t) = .error .httpProtocol := by
    unfold Px.Parser.parse
    have hd : decide ((SP :: t).length > 0) = true := by simp
    simp only [Px.Parser.init, hd]
    rw [show (SP :: t).length + 8 = ((SP :: t).length + 7) + 1 from rfl, hloop _ _ rfl rfl]
  have hreq : reqParse cfg {} (SP :: t) = .error (.parser .httpProtocol) := by
    unfold reqParse Px.PP.parseWith
    have hp' := hparse
    simp only [Px.Parser.init] at hp'
    simp [hflag, hp', Px.Parser.init]
  rw [handleData_first cfg {} _ (by decide)]
  unfold parseFirst
  rw [hreq]
  rfl

/-- **C06: the web server answers a non-UTF-8 path with 400 (eb09b1e).**  Whenever the web
server plugin is the selected plugin (`webGuard`: the modelled head of
`HttpWebServerPlugin.on_request_complete`, everything behind it abstract) and the completed
request's path is not valid UTF-8, the connection ends with exactly the canned 400 queued by the
plugin, `True` returned, must-flush set and read interest dropped — for every routing / static
file behaviour `inner`. -/
theorem C06_web_bad_path_rejected (cfg : Cfg) (inner : Nat → Px.Parser.Parser → PluginRes) (webPid : Nat)
    (st : St) (data : Bytes) (rq : Px.Parser.Parser) (path : Bytes)
    (hcfg : cfg.onComplete = webGuard cfg.badRequest webPid inner) (hr : reading st = true)
    (hst : st.request.state ≠ .complete) (hp : reqParse cfg st data = .ok rq) (hc : rq.state = .complete)
    (hproto : handlerProtocol rq ≠ .unknown) (hd : discover cfg.plugins (handlerProtocol rq).num = some webPid)
    (hpath : rq.path = some path) (hne : path ≠ []) (hbad : Px.Url.utf8Valid path = false) :
    (handleData cfg st data).2 = (.served webPid true, true) ∧
    (handleData cfg st data).1.buffer = st.buffer ++ [cfg.badRequest] ∧
    (tick cfg st data).1.mustFlush = true ∧ reading (tick cfg st data).1 = false := by
  have hoc : cfg.onComplete webPid rq = .ret [cfg.badRequest] true := by
    rw [hcfg]
    unfold webGuard
    have : path.isEmpty = false := by cases path with | nil => exact absurd rfl hne | cons _ _ => rfl
    simp [hpath, this, hbad]
  have hhd : handleData cfg st data =
      ({ st with request := rq, pp := ppNext cfg st data, plugin := some webPid,
                 buffer := st.buffer ++ [cfg.badRequest] }, .served webPid true, true) := by
    rw [handleData_first cfg st data hst]
    unfold parseFirst
    have hu : (handlerProtocol rq == Proto.unknown) = false := by simpa using hproto
    simp [hp, hc, hu, hd, hoc, afterPlugin]
  refine ⟨by rw [hhd], by rw [hhd], ?_, ?_⟩
  · have he : st.escaped = false := by
      simp only [reading, Bool.and_eq_true, Bool.not_eq_true'] at hr
      exact hr.1.2
    rw [tick_eq, hhd]
    simp [he]
  · exact tick_stops cfg st data (Or.inl (by rw [hhd]))

-- non-vacuity of the two theorems above: their hypotheses hold for the former finding inputs
example : splitCRLF (SP :: b "http://h/ HTTP/1.1\r\n\r\n") = some (b " http://h/ HTTP/1.1", b "\r\n") := by
  decide +kernel
example : (handleData { plugins := [[3], [2]], onComplete := webGuard Px.Gen.pkt_BAD_REQUEST_RESPONSE_PKT 1 (fun _ _ => .crash []) } {}
    (b "GET /" ++ [0xff] ++ b " HTTP/1.1\r\n\r\n")).2 = (.served 1 true, true) := by decide +kernel
example : (handleData { plugins := [[3], [2]], onComplete := webGuard Px.Gen.pkt_BAD_REQUEST_RESPONSE_PKT 1 (fun _ _ => .ret [Px.Gen.pkt_NOT_FOUND_RESPONSE_PKT] true) } {}
    (b "GET /ok HTTP/1.1\r\n\r\n")).1.buffer = [Px.Gen.pkt_NOT_FOUND_RESPONSE_PKT] := by decide +kernel

/-- non-vacuity: the plugin contract is satisfiable, and the three classes all occur -/
example : NoCrash {} := ⟨fun _ _ _ h => (by cases h), fun _ _ _ _ h => (by cases h)⟩
example : (handleData { plugins := [[3]] } {} (b "GET http://h/ HTTP/1.1\r\n")).2.1 = .wait := by decide +kernel
example : (handleData { plugins := [[3]] } {} (b "GET http://h/ HTTP/1.1\r\n\r\n")).2.1 = .served 0 false := by
  decide +kernel
example : (handleData { plugins := [[3]] } {} (b "GET / HTTP/1.1\r\n\r\n")).2.1 =
    .reject (.noPlugin .webServer) [Px.Gen.pkt_BAD_REQUEST_RESPONSE_PKT] := by decide +kernel
example : (handleData { plugins := [[3]] } {} (b "GET ftp://h/ HTTP/1.1\r\n\r\n")).2.1 =
    .reject (.parse (.parser .httpProtocol)) [Px.Gen.pkt_BAD_REQUEST_RESPONSE_PKT] := by decide +kernel
example : (handleData { plugins := [[3]] } {} (b "GET http://h/ HTTP/2.0\r\n\r\n")).2.1 =
    .reject .unknownProtocol [Px.Gen.pkt_BAD_REQUEST_RESPONSE_PKT] := by decide +kernel
example : (handleData { plugins := [[3]], onComplete := fun _ _ => .raise [] (some Px.Gen.pkt_BAD_GATEWAY_RESPONSE_PKT) } {}
    (b "GET http://h/ HTTP/1.1\r\n\r\n")).2.1 = .reject (.pluginRaised 0) [Px.Gen.pkt_BAD_GATEWAY_RESPONSE_PKT] := by
  decide +kernel

-- `--enable-proxy-protocol`: a PROXY line in front of the request; malformed ones get the one 400
example : (handleData { plugins := [[3]], proxyProtocol := true } {}
    (b "PROXY TCP4 10.0.0.1 10.0.0.2 1234 80\r\nGET http://h/ HTTP/1.1\r\n\r\n")).2.1 = .served 0 false := by
  decide +kernel
example : (handleData { plugins := [[3]], proxyProtocol := true } {}
    (b "PROXY TCP4 10.0.0.1 10.0.0.2 1234 80\r\nGET http://h/ HTTP/1.1\r\n\r\n")).1.pp =
    some { version := 1, family := some (b "TCP4"), source := some (b "10.0.0.1", 1234),
           destination := some (b "10.0.0.2", 80) } := by decide +kernel
example : (handleData { plugins := [[3]], proxyProtocol := true } {} (b "PROXY TCP5 a b 1 2\r\n")).2.1 =
    .reject (.parse .assertion) [Px.Gen.pkt_BAD_REQUEST_RESPONSE_PKT] := by decide +kernel
example : (handleData { plugins := [[3]], proxyProtocol := true } {} (b "PROXY\r\n")).2.1 =
    .reject (.parse (.parser .indexError)) [Px.Gen.pkt_BAD_REQUEST_RESPONSE_PKT] := by decide +kernel
example : (handleData { plugins := [[3]], proxyProtocol := true } {} (b "GET http://h/ HTTP/1.1\r\n")).2.1 =
    .reject (.parse (.parser .httpProtocol)) [Px.Gen.pkt_BAD_REQUEST_RESPONSE_PKT] := by decide +kernel
example : (handleData { plugins := [[3]], proxyProtocol := true } {} (b "PROXY TCP4 10.0.0.1 10.0.")).2.1 = .wait := by
  decide +kernel
-- the leftover of the segment reaches the plugin within the same call (84c574d)
example : (handleData { plugins := [[3]], onClientData := fun _ _ d => .ret [d] false } {}
    (b "GET http://h/ HTTP/1.1\r\n\r\nNEXT")).1.buffer = [b "NEXT"] := by decide +kernel
example : (handleData { plugins := [[3]], onClientData := fun _ _ _ => .raise [] none } {}
    (b "GET http://h/ HTTP/1.1\r\n\r\nNEXT")).2.1 = .reject (.pluginRaised 0) [] := by decide +kernel

end Px.First

namespace Px.ParseFuel

open Px.Parser

/-- **C06 parser totality.**  `HttpParser.parse` is a total function in the model; moreover its
fuel (the model's stand-in for "the `while` loop ends") is never what ends the loop: for every
parser state reachable from a fresh request or response parser by any sequence of `parse`
calls, and every further input, the `while more and state != COMPLETE` loop stops because its
condition became false or an exception was raised (`Natural`), and `parse` is exactly the
projection of that run.  The inner line loop of `_process_headers` is likewise independent of
its fuel (`processHeaders_fuel`).  Not covered here: the loop of the chunked decoder
(`Px.Chunk.loop`), whose fuel lemma is `Px.Chunk.loop_fuel` of the C03 slice. -/
theorem C06_parse_fuel (cfg : Cfg) (ty : PType) (segs : List Bytes) (p : Parser) (raw : Bytes)
    (h : parseAll cfg (init ty) segs = .ok p) :
    Natural (parseX cfg p raw) ∧
    parse cfg p raw = (match parseX cfg p raw with
      | .ok r => .ok { r.1 with buffer := if r.2.1.isEmpty then none else some r.2.1 }
      | .error e => .error e) := by
  refine ⟨?_, parseX_parse cfg p raw⟩
  have hi : Inv p := parseAll_inv cfg segs (init ty) p (inv_init ty) h
  unfold parseX
  exact loopX_natural cfg _ _ _ _ (inv_congr hi rfl rfl rfl rfl rfl) (by omega)

/-- the two inputs that used to hang the parser (D18: repeated Content-Length; D19: negative
chunk size) now end — the first completes the request and leaves the stray byte as remainder,
the second raises ValueError — and neither run is cut short by the fuel -/
theorem C06_former_hangs_terminate :
    okAnd (parseX {} (init .request) (b "POST / HTTP/1.1\r\nContent-Length: 5\r\nContent-Length: 0\r\n\r\nX"))
      (fun r => r.2.2 && r.1.state == .complete && r.2.1 == b "X") = true ∧
    errIs (parseX {} (init .request) (b "POST / HTTP/1.1\r\nTransfer-Encoding: chunked\r\n\r\n-1\r\nX")) .valueError = true := by
  decide +kernel

/-- non-vacuity: reachable states exist beyond the fresh one, with a body in progress -/
example : okAnd (parseAll {} (init .request) [b "POST / HTTP/1.1\r\nContent-Length: 5\r\n\r\nhe", b "l"])
    (fun p => p.state == .rcvingBody && p.body == some (b "hel")) = true := by decide +kernel

end Px.ParseFuel

namespace Px.Wf

open Px.Build Px.Resp

/-- **C06 canned.**  Every packet `proxy/http/responses.py` builds at import time — as it is in
the code now (generated literals) — is a well-formed HTTP/1.1 response; the tunnel
acknowledgement as the answer to a CONNECT, the others as answers to any request. -/
theorem C06_canned :
    WF_response .connect Px.Gen.pkt_PROXY_TUNNEL_ESTABLISHED_RESPONSE_PKT = true ∧
    WF_response .other Px.Gen.pkt_PROXY_TUNNEL_UNSUPPORTED_SCHEME = true ∧
    WF_response .other Px.Gen.pkt_PROXY_AUTH_FAILED_RESPONSE_PKT = true ∧
    WF_response .other Px.Gen.pkt_BAD_REQUEST_RESPONSE_PKT = true ∧
    WF_response .other Px.Gen.pkt_NOT_FOUND_RESPONSE_PKT = true ∧
    WF_response .other Px.Gen.pkt_NOT_IMPLEMENTED_RESPONSE_PKT = true ∧
    WF_response .other Px.Gen.pkt_BAD_GATEWAY_RESPONSE_PKT = true := by decide +kernel

/-- the `Build` model applied to the arguments written in responses.py reproduces the
generated packets byte for byte (ties `buildResponse` to the constants) -/
theorem C06_canned_built :
    builtTunnelEstablished = Px.Gen.pkt_PROXY_TUNNEL_ESTABLISHED_RESPONSE_PKT ∧
    builtTunnelUnsupportedScheme = Px.Gen.pkt_PROXY_TUNNEL_UNSUPPORTED_SCHEME ∧
    builtProxyAuthFailed = Px.Gen.pkt_PROXY_AUTH_FAILED_RESPONSE_PKT ∧
    builtBadRequest = Px.Gen.pkt_BAD_REQUEST_RESPONSE_PKT ∧
    builtNotFound = Px.Gen.pkt_NOT_FOUND_RESPONSE_PKT ∧
    builtNotImplemented = Px.Gen.pkt_NOT_IMPLEMENTED_RESPONSE_PKT ∧
    builtBadGateway = Px.Gen.pkt_BAD_GATEWAY_RESPONSE_PKT := by decide +kernel

/-- **C06 builders.**  `build_http_response` yields a well-formed response for ALL arguments
inside `SafeArgs`: version HTTP/1.0 or 1.1, status 100..999, reason / header values made of
field bytes (no CR, LF or other control byte), header names that are tokens, no
caller-supplied Transfer-Encoding, Content-Length only under the name the builder overwrites,
no body on 1xx/204/304 and on 2xx-to-CONNECT, and `no_cl` only together with `conn_close`
(or no body at all).  Any body, any length. -/
theorem C06_builders (ctx : Ctx) (status : Int) (version : Bytes) (reason : Option Bytes) (headers : HDict)
    (body : Option Bytes) (connClose noCl : Bool)
    (h : SafeArgs ctx status version reason headers body connClose noCl = true) :
    WF_response ctx (buildResponse status version reason headers body connClose noCl) = true :=
  buildResponse_wf ctx status version reason headers body connClose noCl h

/-- guard of `okResponse`: the `**kwargs` / headers part of `SafeArgs` (status and reason are fixed) -/
def SafeOk (headers : HDict) (version : Bytes) (connClose noCl : Bool) : Bool :=
  (version == Px.Gen.http11 || version == Px.Gen.http10) && headers.all (headerOk noCl) && (!noCl || connClose)

theorem gzip_entry_ok : headerOk true (b "Content-Encoding", b "gzip") = true ∧
    headerOk false (b "Content-Encoding", b "gzip") = true := by decide +kernel

/-- `okResponse`, compressed or not: for every content, every compression function, threshold
and flag, the reply is well formed (the Content-Length is that of the bytes actually sent). -/
theorem C06_builders_ok (gz : Bytes → Bytes) (content : Option Bytes) (headers : HDict) (compress : Bool)
    (minLen : Int) (version : Bytes) (connClose noCl : Bool) (h : SafeOk headers version connClose noCl = true) :
    WF_response .other (okResponse gz content headers compress minLen version connClose noCl) = true := by
  simp only [SafeOk, Bool.and_eq_true] at h
  obtain ⟨⟨hv, hh⟩, hf⟩ := h
  have hh' : ∀ (c : Prop) [Decidable c],
      (if c then dSet headers (b "Content-Encoding") (b "gzip") else headers).all (headerOk noCl) = true := by
    intro c _
    split
    · cases noCl
      · exact all_dSet hh gzip_entry_ok.2
      · exact all_dSet hh gzip_entry_ok.1
    · exact hh
  unfold okResponse
  apply buildResponse_wf
  have hcode : Int.ofNat Px.Gen.code_OK = 200 := by decide
  have hr : (b "OK").all isFieldByte = true := by decide +kernel
  have h1 : ((Ctx.other == Ctx.connect) && decide (200 ≤ (200 : Int).toNat) && decide ((200 : Int).toNat < 300)) = false := by
    decide
  have h2 : bodyless (200 : Int).toNat = false := by decide
  have h3 : (decide ((100 : Int) ≤ 200) && decide ((200 : Int) ≤ 999)) = true := by decide
  simp only [SafeArgs, hcode, hv, hr, hh' _, h1, h2, Bool.true_and, Bool.and_true, Bool.false_eq_true, if_false, hf]
  exact h3

theorem redirect_entries_ok : headerOk false (b "Content-Length", b "0") = true ∧
    isToken (b "Location") = true ∧ lowerB (b "Location") ≠ nTE ∧ lowerB (b "Location") ≠ nCL ∧
    (b "Permanent Redirect").all isFieldByte = true ∧ (b "See Other").all isFieldByte = true := by decide +kernel

/-- the redirect builders, for every location made of field bytes -/
theorem C06_builders_redirect (location : Bytes) (h : location.all isFieldByte = true) :
    WF_response .other (permanentRedirectResponse location) = true ∧
    WF_response .other (seeOthersResponse location) = true := by
  have hloc : headerOk false (b "Location", location) = true := by
    simp only [headerOk, redirect_entries_ok.2.1, h, Bool.and_self, Bool.true_and, Bool.and_eq_true, bne_iff_ne,
      ne_eq, Bool.or_eq_true]
    exact ⟨redirect_entries_ok.2.2.1, Or.inl redirect_entries_ok.2.2.2.1⟩
  constructor
  · unfold permanentRedirectResponse
    apply buildResponse_wf
    have hcode : Int.ofNat Px.Gen.code_PERMANENT_REDIRECT = 308 := by decide
    simp only [SafeArgs, hcode, http11, List.all_cons, List.all_nil, hloc, redirect_entries_ok.1,
      redirect_entries_ok.2.2.2.2.1]
    decide
  · unfold seeOthersResponse
    apply buildResponse_wf
    have hcode : Int.ofNat Px.Gen.code_SEE_OTHER = 303 := by decide
    simp only [SafeArgs, hcode, http11, List.all_cons, List.all_nil, hloc, redirect_entries_ok.1,
      redirect_entries_ok.2.2.2.2.2]
    decide

/-- `HttpRequestRejected(status, reason, headers, body).response()`: when it produces a
response at all (truthy status), that response is well formed inside the guard -/
theorem C06_builders_rejected (status : Option Int) (reason : Option Bytes) (headers : HDict) (body : Option Bytes)
    (r : Bytes) (hr : rejectedResponse status reason headers body = some r)
    (h : ∀ s, status = some s → SafeArgs .other s Px.Gen.http11 reason headers body true false = true) :
    WF_response .other r = true := by
  unfold rejectedResponse at hr
  cases status with
  | none => simp at hr
  | some s =>
    simp only at hr
    split at hr
    · simp at hr
    · simp only [Option.some.injEq] at hr
      rw [← hr]
      exact buildResponse_wf _ _ _ _ _ _ _ _ (h s rfl)

theorem ws_entries_ok : headerOk false (b "Upgrade", b "websocket") = true ∧
    headerOk false (b "Connection", b "Upgrade") = true ∧
    isToken (b "Sec-WebSocket-Accept") = true ∧ lowerB (b "Sec-WebSocket-Accept") ≠ nTE ∧
    lowerB (b "Sec-WebSocket-Accept") ≠ nCL ∧ (b "Switching Protocols").all isFieldByte = true := by decide +kernel

/-- the websocket handshake reply, for every accept token made of field bytes -/
theorem C06_builders_ws (accept : Bytes) (h : accept.all isFieldByte = true) :
    WF_response .other (wsHandshakeResponse accept) = true := by
  have hacc : headerOk false (b "Sec-WebSocket-Accept", accept) = true := by
    simp only [headerOk, ws_entries_ok.2.2.1, h, Bool.and_self, Bool.true_and, Bool.and_eq_true, bne_iff_ne,
      ne_eq, Bool.or_eq_true]
    exact ⟨ws_entries_ok.2.2.2.1, Or.inl ws_entries_ok.2.2.2.2.1⟩
  unfold wsHandshakeResponse
  apply buildResponse_wf
  have hcode : Int.ofNat Px.Gen.code_SWITCHING_PROTOCOLS = 101 := by decide
  simp only [SafeArgs, hcode, http11, List.all_cons, List.all_nil, hacc, ws_entries_ok.1, ws_entries_ok.2.1,
    ws_entries_ok.2.2.2.2.2]
  decide

/-- **Outside the guard (reported, not hidden).**  The builders copy their arguments verbatim:
a CR LF inside a value splits the response.  `seeOthersResponse(b'/x\r\n\r\nHTTP/1.1 200 OK\r\n
Content-Length: 0\r\n\r\n')` is not a well-formed response (its header section ends inside the
Location value and a second, attacker-chosen response follows); the argument is outside
`SafeArgs` exactly because of the CR / LF bytes.  Worse, an injection can also yield a
*well-formed* response carrying an attacker-chosen header (third conjunct: a reason phrase
`OK\r\nSet-Cookie: x=1`), which no syntax check of the output can notice — hence the guard. -/
theorem C06_builder_injection_witness :
    let loc := b "/x\r\n\r\nHTTP/1.1 200 OK\r\nContent-Length: 0\r\n\r\n"
    loc.all isFieldByte = false ∧ WF_response .other (seeOthersResponse loc) = false ∧
    WF_response .other (buildResponse 200 Px.Gen.http11 (some (b "OK\r\nSet-Cookie: x=1")) [] (some (b "hi")) false false) = true := by
  decide +kernel

/-- **RFC nit (reported).**  `build_websocket_handshake_response` sends `Content-Length: 0` on a
101 response, which RFC 7230 §3.3.2 forbids (MUST NOT on 1xx / 204); clients and h11 ignore it,
and `WF_response` tolerates a zero Content-Length there. -/
theorem C06_ws_handshake_cl_witness :
    strictNoCl (wsHandshakeResponse (b "s3pPLMBiTxaQ9kYGzzhZRbK+xOo=")) = false ∧
    strictNoCl Px.Gen.pkt_BAD_REQUEST_RESPONSE_PKT = true := by decide +kernel

/-! non-vacuity of the guards, and what the checker refuses -/
example : SafeArgs .other 400 Px.Gen.http11 (some (b "BAD REQUEST")) [(b "Server", b "proxy.py")] none true false = true := by
  decide +kernel
example : SafeArgs .connect 200 Px.Gen.http11 (some (b "Connection established")) [] none false true = true := by
  decide +kernel
example : SafeArgs .other 200 Px.Gen.http10 none [(b "Content-Length", b "999"), (b "X-Y", b "caf\xc3\xa9 ok")]
    (some (b "body")) false false = true := by decide +kernel
example : SafeOk [(b "Content-Type", b "text/plain")] Px.Gen.http11 true false = true := by decide +kernel
example : SafeArgs .other 200 Px.Gen.http11 none [(b "X", b "a\r\nY: b")] none false false = false := by decide +kernel
example : SafeArgs .other 200 Px.Gen.http11 none [(b "transfer-encoding", b "chunked")] none false false = false := by
  decide +kernel
example : SafeArgs .other 200 Px.Gen.http11 none [] (some (b "x")) false true = false := by decide +kernel
-- the checker itself: chunked bodies, wrong lengths, missing framing
example : WF_response .other (b "HTTP/1.1 200 OK\r\nTransfer-Encoding: chunked\r\n\r\n5;x=y\r\nhello\r\n0\r\nT: v\r\n\r\n") = true := by
  decide +kernel
example : WF_response .other (b "HTTP/1.1 200 OK\r\nTransfer-Encoding: chunked\r\n\r\n5\r\nhell\r\n0\r\n\r\n") = false := by
  decide +kernel
example : WF_response .other (b "HTTP/1.1 200 OK\r\nContent-Length: 3\r\n\r\nhi") = false := by decide +kernel
example : WF_response .other (b "HTTP/1.1 200 OK\r\nContent-Length: 1\r\n\r\nhi") = false := by decide +kernel
example : WF_response .other (b "HTTP/1.1 200 OK\r\n\r\n") = false := by decide +kernel
example : WF_response .other (b "HTTP/1.1 200 OK\r\nConnection: Keep-Alive, Close\r\n\r\nuntil close") = true := by
  decide +kernel
example : WF_response .other (b "HTTP/1.1 200 OK\nContent-Length: 0\n\n") = false := by decide +kernel
example : WF_response .other (b "HTTP/1.1 200 OK\r\nBad Name: x\r\nContent-Length: 0\r\n\r\n") = false := by decide +kernel
example : WF_response .other Px.Gen.pkt_PROXY_TUNNEL_ESTABLISHED_RESPONSE_PKT = false := by decide +kernel

end Px.Wf
