import PxProofs.BuildRoundTrip
/-!
# Guards of the C15 builder theorems and the facts they give (C15)

`WFReq` / `WFRes` (decidable): plain start-line tokens, header names / values in the grammar,
no user-supplied framing header; `ChunkedHdrs`: user-supplied `Transfer-Encoding: chunked`.
`parse_build_req*`, `parse_build_resp*`: the round-trip theorems cited by `C15.lean`.
-/
namespace Px.Codec

open Px.Parser Px.Build
open Px.Url (Url)

/-- non-empty, no SP / CR / LF -/
def plainTok (x : Bytes) : Bool := !x.isEmpty && x.all (fun c => c != 32 && c != 13 && c != 10)

/-- no header named `content-length` or `transfer-encoding` (compared case-insensitively) -/
def noFraming (hs : HDict) : Bool := hs.all (fun e => lower e.1 != kCL && lower e.1 != kTE)

def optValueOK (ct : Option Bytes) : Bool := match ct with | some c => wfValue c | none => true

/-- guard of `C15_parse_build_req` (decidable): method / target / version non-empty without SP, CR, LF;
    header names non-empty without `:` / whitespace / CR / LF, values without CR / LF and stripped;
    `content_type` and the User-Agent value likewise; no user-supplied framing header -/
def WFReq (m u v : Bytes) (ct : Option Bytes) (hs : HDict) (ua : Bytes) : Bool :=
  plainTok m && plainTok u && plainTok v && wfHeaders hs && noFraming hs && optValueOK ct && wfValue ua

def reasonOK (reason : Option Bytes) : Bool :=
  match reason with | some r => r.all (fun c => c != 13 && c != 10) | none => true

/-- guard of `C15_parse_build_resp` (decidable) -/
def WFRes (v : Bytes) (reason : Option Bytes) (hs : HDict) : Bool :=
  plainTok v && reasonOK reason && wfHeaders hs && noFraming hs

/-- user-supplied chunked framing: some `Transfer-Encoding: chunked`, no `content-length` -/
def chunkedHdrs (hs : HDict) : Bool := hs.any isTEChunked && hs.all (fun e => lower e.1 != kCL)

/-! ### small facts -/

theorem plainTok_spec {x : Bytes} (h : plainTok x = true) :
    x ≠ [] ∧ SP ∉ x ∧ ∀ c ∈ x, c ≠ CR := by
  simp only [plainTok, Bool.and_eq_true, Bool.not_eq_true', List.isEmpty_eq_false_iff, List.all_eq_true,
    bne_iff_ne, ne_eq] at h
  refine ⟨h.1, fun hs => (h.2 _ hs).1.1 rfl, fun c hc => (h.2 c hc).1.2⟩

theorem wfValue_noCR {v : Bytes} (h : wfValue v = true) : ∀ c ∈ v, c ≠ CR := by
  simp only [wfValue, Bool.and_eq_true, List.all_eq_true, bne_iff_ne, ne_eq] at h
  exact fun c hc => (h.1 c hc).1

theorem mem_dSet_of_mem {h : HDict} {k v : Bytes} {e : Bytes × Bytes} (he : e ∈ h) (hne : e.1 ≠ k) :
    e ∈ dSet h k v := by
  unfold dSet
  split
  · simp only [List.mem_map]
    exact ⟨e, he, by simp [hne]⟩
  · simp [he]

theorem mem_pktHeaders_of_mem {H : HDict} {cc : Bool} {e : Bytes × Bytes} (he : e ∈ H) (hne : e.1 ≠ nConn) :
    e ∈ pktHeaders H cc := by
  unfold pktHeaders; split
  · exact mem_dSet_of_mem he hne
  · exact he

theorem natToDec_noWs (n : Nat) : ∀ c ∈ natToDec n, isWs c = false ∧ c ≠ 13 ∧ c ≠ 10 ∧ c ≠ 32 := by
  intro c hc
  have := isDigitIn_plain (natToDec_isDigit n c hc)
  exact ⟨this.1, this.2.1, this.2.2.1, this.2.2.2.1⟩

theorem wfValue_natToDec (n : Nat) : wfValue (natToDec n) = true := by
  simp only [wfValue, Bool.and_eq_true, List.all_eq_true, bne_iff_ne, ne_eq, beq_iff_eq]
  refine ⟨fun c hc => ⟨(natToDec_noWs n c hc).2.1, (natToDec_noWs n c hc).2.2.1⟩, ?_⟩
  exact strip_noWs (fun c hc => (natToDec_noWs n c hc).1)

theorem wfName_builders : wfName nCL = true ∧ wfName nCT = true ∧ wfName nUA = true ∧ wfName nConn = true := by
  decide

theorem wfValue_close : wfValue vClose = true := by decide
theorem wfValue_zero : wfValue [48] = true := by decide

theorem lower_builders :
    lower nCT ≠ kTE ∧ lower nCL ≠ kTE ∧ lower nUA ≠ kTE ∧ lower nConn ≠ kTE ∧
    lower nCT ≠ kCL ∧ lower nCL = kCL ∧ lower nUA ≠ kCL ∧ lower nConn ≠ kCL := by decide

theorem wfHeaders_mem {hs : HDict} (h : wfHeaders hs = true) {e : Bytes × Bytes} (he : e ∈ hs) :
    wfName e.1 = true ∧ wfValue e.2 = true := by
  simp only [wfHeaders, List.all_eq_true, Bool.and_eq_true] at h
  exact h e he

theorem noFraming_mem {hs : HDict} (h : noFraming hs = true) {e : Bytes × Bytes} (he : e ∈ hs) :
    lower e.1 ≠ kCL ∧ lower e.1 ≠ kTE := by
  simp only [noFraming, List.all_eq_true, Bool.and_eq_true, bne_iff_ne, ne_eq] at h
  exact h e he

theorem isTEChunked_false_of {e : Bytes × Bytes} (h : lower e.1 ≠ kTE) : isTEChunked e = false := by
  simp [isTEChunked, h]

theorem isTEChunked_false_mk (k v : Bytes) (h : lower k ≠ kTE) : isTEChunked (k, v) = false :=
  isTEChunked_false_of h

theorem isCL_false_of {e : Bytes × Bytes} (h : lower e.1 ≠ kCL) : isCL e = false := by
  simp [isCL, h]

theorem isCL_false_mk (k v : Bytes) (h : lower k ≠ kCL) : isCL (k, v) = false := isCL_false_of h

/-- CRLF-freeness of a start line made of CR-free pieces -/
theorem line3_noCRLF {a c d : Bytes} (ha : ∀ x ∈ a, x ≠ CR) (hc : ∀ x ∈ c, x ≠ CR) (hd : ∀ x ∈ d, x ≠ CR) :
    splitCRLF (a ++ SP :: (c ++ SP :: d)) = none := by
  apply splitCRLF_none_of_noCR
  intro x hx
  simp only [List.mem_append, List.mem_cons] at hx
  rcases hx with hx | rfl | hx | rfl | hx
  · exact ha x hx
  · decide
  · exact hc x hx
  · decide
  · exact hd x hx

theorem line2_noCRLF {a c : Bytes} (ha : ∀ x ∈ a, x ≠ CR) (hc : ∀ x ∈ c, x ≠ CR) :
    splitCRLF (a ++ SP :: c) = none := by
  apply splitCRLF_none_of_noCR
  intro x hx
  simp only [List.mem_append, List.mem_cons] at hx
  rcases hx with hx | rfl | hx
  · exact ha x hx
  · decide
  · exact hc x hx

theorem intToDec_plain (i : Int) : SP ∉ intToDec i ∧ ∀ c ∈ intToDec i, c ≠ CR := by
  unfold intToDec
  split
  · constructor
    · intro h
      simp only [List.mem_cons] at h
      rcases h with h | h
      · revert h; decide
      · exact (natToDec_noWs _ _ h).2.2.2 rfl
    · intro c hc
      simp only [List.mem_cons] at hc
      rcases hc with rfl | hc
      · decide
      · exact (natToDec_noWs _ _ hc).2.1
  · exact ⟨fun h => (natToDec_noWs _ _ h).2.2.2 rfl, fun c hc => (natToDec_noWs _ _ hc).2.1⟩

/-! ### the request builder's header list under the guard -/

theorem hasKey_false {k : Bytes} {H : HDict} (h : ∀ e ∈ H, lower e.1 ≠ k) : hasKey k H = false := by
  unfold hasKey
  rw [List.any_eq_false]
  intro e he; simpa using h e he

theorem reqH1_noTE {ct : Option Bytes} {hs : HDict} (hte : ∀ e ∈ hs, lower e.1 ≠ kTE) :
    hasKey kTE (reqH1 ct hs) = false := by
  apply hasKey_false
  intro e he
  rcases mem_reqH1 he with h | ⟨c, -, rfl⟩
  · exact hte e h
  · exact lower_builders.1

theorem noFraming_te {hs : HDict} (h : noFraming hs = true) : ∀ e ∈ hs, lower e.1 ≠ kTE :=
  fun _ he => (noFraming_mem h he).2

theorem noFraming_cl {hs : HDict} (h : noFraming hs = true) : ∀ e ∈ hs, lower e.1 ≠ kCL :=
  fun _ he => (noFraming_mem h he).1

section req
variable {ua : Bytes} {ct : Option Bytes} {hs : HDict} {body : Option Bytes} {cc noUa : Bool}

theorem reqHeaders_hdrOK (hwf : wfHeaders hs = true) (hct : optValueOK ct = true) (hua : wfValue ua = true) :
    ∀ e ∈ reqHeaders ua ct hs body cc noUa, HdrOK e.1 e.2 := by
  intro e he
  rcases mem_reqHeaders he with h | ⟨c, rfl, rfl⟩ | ⟨-, -, rfl⟩ | rfl | rfl
  · exact hdrOK_of_wf (wfHeaders_mem hwf h).1 (wfHeaders_mem hwf h).2
  · exact hdrOK_of_wf wfName_builders.2.1 hct
  · exact hdrOK_of_wf wfName_builders.1 (wfValue_natToDec _)
  · exact hdrOK_of_wf wfName_builders.2.2.1 hua
  · exact hdrOK_of_wf wfName_builders.2.2.2 wfValue_close

theorem reqHeaders_noTE (hte : ∀ e ∈ hs, isTEChunked e = false) :
    (reqHeaders ua ct hs body cc noUa).any isTEChunked = false := by
  rw [List.any_eq_false]
  intro e he
  have : isTEChunked e = false := by
    rcases mem_reqHeaders he with h | ⟨c, -, rfl⟩ | ⟨-, -, rfl⟩ | rfl | rfl
    · exact hte e h
    · exact isTEChunked_false_mk _ _ lower_builders.1
    · exact isTEChunked_false_mk _ _ lower_builders.2.1
    · exact isTEChunked_false_mk _ _ lower_builders.2.2.1
    · exact isTEChunked_false_mk _ _ lower_builders.2.2.2.1
  simp [this]

/-- a `content-length` header of a built request is the caller's or the builder's own -/
theorem reqHeaders_cl' {e : Bytes × Bytes}
    (he : e ∈ reqHeaders ua ct hs body cc noUa) (hc : isCL e = true) :
    e ∈ hs ∨ (bodyTruthy body = true ∧ e = (nCL, natToDec (body.getD []).length)) := by
  rcases mem_reqHeaders he with h | ⟨c, -, rfl⟩ | ⟨hb, -, rfl⟩ | rfl | rfl
  · exact .inl h
  · exact absurd hc (by simp [isCL_false_mk _ _ lower_builders.2.2.2.2.1])
  · exact .inr ⟨hb, rfl⟩
  · exact absurd hc (by simp [isCL_false_mk _ _ lower_builders.2.2.2.2.2.2.1])
  · exact absurd hc (by simp [isCL_false_mk _ _ lower_builders.2.2.2.2.2.2.2])

/-- the only `content-length` header of a built request is the builder's own -/
theorem reqHeaders_cl (hnf : noFraming hs = true) {e : Bytes × Bytes}
    (he : e ∈ reqHeaders ua ct hs body cc noUa) (hc : isCL e = true) :
    bodyTruthy body = true ∧ e = (nCL, natToDec (body.getD []).length) := by
  rcases mem_reqHeaders he with h | ⟨c, -, rfl⟩ | ⟨hb, -, rfl⟩ | rfl | rfl
  · exact absurd hc (by simp [isCL_false_of (noFraming_mem hnf h).1])
  · exact absurd hc (by simp [isCL_false_mk _ _ lower_builders.2.2.2.2.1])
  · exact ⟨hb, rfl⟩
  · exact absurd hc (by simp [isCL_false_mk _ _ lower_builders.2.2.2.2.2.2.1])
  · exact absurd hc (by simp [isCL_false_mk _ _ lower_builders.2.2.2.2.2.2.2])

theorem reqHeaders_has_cl (hte : ∀ e ∈ hs, lower e.1 ≠ kTE) (hb : bodyTruthy body = true) :
    (nCL, natToDec (body.getD []).length) ∈ reqHeaders ua ct hs body cc noUa := by
  have h2 : (nCL, natToDec (body.getD []).length) ∈ reqH2 ct hs body := by
    unfold reqH2
    rw [hb, reqH1_noTE hte]
    exact mem_dSet_self _ _ _
  have h3 : (nCL, natToDec (body.getD []).length) ∈ reqH3 ua ct hs body noUa := by
    unfold reqH3; split
    · exact mem_dSet_of_mem h2 (by show nCL ≠ nUA; decide)
    · exact h2
  exact mem_pktHeaders_of_mem h3 (by show nCL ≠ nConn; decide)

end req

theorem bodyTruthy_getD {body : Option Bytes} (h : bodyTruthy body = true) : body.getD [] ≠ [] ∧ body = some (body.getD []) := by
  cases body with
  | none => simp [bodyTruthy] at h
  | some x => simp [bodyTruthy] at h; simp [h]

theorem bodyTruthy_false_getD {body : Option Bytes} (h : bodyTruthy body = false) : body.getD [] = [] := by
  cases body with
  | none => rfl
  | some x => simpa [bodyTruthy] using h

theorem freshLine_req (cfg : Cfg) (total : Nat) (m v : Bytes) (url : Url) :
    FreshLine (reqLineParser cfg total m v url) := by
  have hs := setLineAttributes_same cfg
    { (init .request) with totalSize := total, method := some m, isTunnel := m == cfg.connectMethod } url
  obtain ⟨-, -, -, h4, h5, h6, h7, h8, -, -, -, -, -, -, h15, -⟩ := hs
  refine ⟨?_, ?_, ?_, ?_, ?_, ?_⟩
  · show (setLineAttributes cfg _ url).contentExpected = false; rw [h8]; rfl
  · show (setLineAttributes cfg _ url).isChunked = false; rw [h7]; rfl
  · show (setLineAttributes cfg _ url).headers = none; rw [h4]; rfl
  · show (setLineAttributes cfg _ url).body = none; rw [h5]; rfl
  · show (setLineAttributes cfg _ url).chunk = none; rw [h6]; rfl
  · show (setLineAttributes cfg _ url).buffer = none; rw [h15]; rfl

theorem reqLineParser_fields (cfg : Cfg) (total : Nat) (m v : Bytes) (url : Url) :
    (reqLineParser cfg total m v url).ty = .request ∧
    (reqLineParser cfg total m v url).method = some m ∧
    (reqLineParser cfg total m v url).version = some v ∧
    (reqLineParser cfg total m v url).url = some url ∧
    (reqLineParser cfg total m v url).path = url.remainder ∧
    (reqLineParser cfg total m v url).host = url.hostname := by
  have hs := setLineAttributes_same cfg
    { (init .request) with totalSize := total, method := some m, isTunnel := m == cfg.connectMethod } url
  obtain ⟨h1, -, h3, -, -, -, -, -, h9, h10, h11, -, -, -, -, -⟩ := hs
  exact ⟨h1, h3, rfl, h9, h10, h11⟩

theorem freshLine_res (total : Nat) (v c : Bytes) (r : Option Bytes) : FreshLine (resLineParser total v c r) :=
  ⟨rfl, rfl, rfl, rfl, rfl, rfl⟩

/-- what a complete request parse reports, in terms of what was sent -/
structure ReqResult (r : Parser) (m v : Bytes) (url : Url) (H : HDict) (body : Option Bytes) (chunked : Bool) : Prop where
  state_eq : r.state = .complete
  method_eq : r.method = some m
  version_eq : r.version = some v
  url_eq : r.url = some url
  path_eq : r.path = url.remainder
  host_eq : r.host = url.hostname
  headers_eq : r.headers = hdrsOf H
  body_eq : r.body = body
  buffer_eq : r.buffer = none
  chunked_eq : r.isChunked = chunked

theorem reqResult_of {cfg : Cfg} {total : Nat} {m v : Bytes} {url : Url} {r : Parser} {H : HDict}
    {body : Option Bytes} {ch : Bool} (hst : r.state = .complete)
    (hl : LineEq (reqLineParser cfg total m v url) r) (hh : r.headers = hdrsOf H) (hb : r.body = body)
    (hbf : r.buffer = none) (hc : r.isChunked = ch) : ReqResult r m v url H body ch := by
  obtain ⟨-, f2, f3, f4, f5, f6⟩ := reqLineParser_fields cfg total m v url
  obtain ⟨-, l2, l3, -, -, l6, l7, -, l9, -, -⟩ := hl
  exact ⟨hst, l2.trans f2, l3.trans f3, l6.trans f4, l9.trans f5, l7.trans f6, hh, hb, hbf, hc⟩

/-- **builder → parser, requests** (Content-Length / body-less framing) -/
theorem parse_build_req (cfg : Cfg) (ua m u v : Bytes) (ct : Option Bytes) (hs : HDict) (body : Option Bytes)
    (cc noUa : Bool) (url : Url) (hwf : WFReq m u v ct hs ua = true)
    (hurl : Px.Url.fromBytes cfg.allowedSchemes u = .ok url)
    (hlen : (body.getD []).length < 10 ^ intMaxStrDigits) :
    ∃ r, parse cfg (init .request) (buildRequest ua m u v ct hs body cc noUa) = .ok r ∧
      ReqResult r m v url (reqHeaders ua ct hs body cc noUa) (if bodyTruthy body then body else none) false := by
  simp only [WFReq, Bool.and_eq_true] at hwf
  obtain ⟨⟨⟨⟨⟨⟨hm, hu⟩, hv⟩, hh⟩, hnf⟩, hct⟩, hua⟩ := hwf
  obtain ⟨hmne, hmsp, hmcr⟩ := plainTok_spec hm
  obtain ⟨-, husp, hucr⟩ := plainTok_spec hu
  obtain ⟨-, -, hvcr⟩ := plainTok_spec hv
  have hl := line3_noCRLF hmcr hucr hvcr
  have hH := reqHeaders_hdrOK (body := body) (cc := cc) (noUa := noUa) hh hct hua
  rw [buildRequest_eq]
  have hparse := parse_request_pkt cfg (reqHeaders ua ct hs body cc noUa) (body.getD []) hmne hmsp husp hl hurl hH _ rfl
  have hfresh := freshLine_req cfg
    (m ++ SP :: (u ++ SP :: v) ++ CRLF ++ (renderHdrs (reqHeaders ua ct hs body cc noUa) ++ CRLF ++ body.getD [])).length m v url
  by_cases hb : bodyTruthy body = true
  · obtain ⟨hne, hbeq⟩ := bodyTruthy_getD hb
    obtain ⟨r, h1, h2, h3, h4, h5, h6, h7⟩ := finish_cl cfg .request _ _ (body.getD []) [] _ _
      hparse (List.append_nil _).symm hfresh
      (reqHeaders_noTE (fun e he => isTEChunked_false_of (noFraming_te hnf e he)))
      (fun e he hc => by
        rw [(reqHeaders_cl hnf he hc).2]
        exact pyInt10_natToDec _ hlen)
      ⟨_, reqHeaders_has_cl (noFraming_te hnf) hb, by simp [isCL, lower_builders.2.2.2.2.2.1]⟩ hne
    refine ⟨r, h1, reqResult_of h2 h3 h4 ?_ (by simpa using h6) h7⟩
    rw [h5, if_pos hb]; exact hbeq.symm
  · have hb' : bodyTruthy body = false := by simpa using hb
    have hB := bodyTruthy_false_getD hb'
    obtain ⟨r, h1, h2, h3, h4, h5, h6, h7⟩ := finish_nobody cfg .request _ _ (body.getD []) _
      hparse hfresh (reqHeaders_noTE (fun e he => isTEChunked_false_of (noFraming_te hnf e he)))
      (fun e he hc => absurd (reqHeaders_cl hnf he hc).1 (by simp [hb'])) (.inl hB)
    refine ⟨r, h1, reqResult_of h2 h3 h4 ?_ (by simpa [hB] using h6) h7⟩
    rw [h5, if_neg hb]

/-! ### requests with user-supplied chunked framing -/

/-- guard of `C15_parse_build_req_chunked` (decidable) -/
def WFReqChunked (m u v : Bytes) (ct : Option Bytes) (hs : HDict) (ua : Bytes) : Bool :=
  plainTok m && plainTok u && plainTok v && wfHeaders hs && chunkedHdrs hs && optValueOK ct && wfValue ua

theorem chunkedHdrs_spec {hs : HDict} (h : chunkedHdrs hs = true) :
    (∃ e ∈ hs, isTEChunked e = true) ∧ ∀ e ∈ hs, lower e.1 ≠ kCL := by
  simp only [chunkedHdrs, Bool.and_eq_true, List.any_eq_true, List.all_eq_true, bne_iff_ne, ne_eq] at h
  exact ⟨h.1, h.2⟩

theorem isTEChunked_key {e : Bytes × Bytes} (h : isTEChunked e = true) : lower e.1 = kTE := by
  simp only [isTEChunked, Bool.and_eq_true, beq_iff_eq] at h; exact h.1

theorem ne_of_lower_ne {a c : Bytes} (h : lower a ≠ lower c) : a ≠ c := fun e => h (e ▸ rfl)

section reqch
variable {ua : Bytes} {ct : Option Bytes} {hs : HDict} {body : Option Bytes} {cc noUa : Bool}

theorem reqH1_hasTE {e : Bytes × Bytes} (he : e ∈ hs) (hk : lower e.1 = kTE) : hasKey kTE (reqH1 ct hs) = true := by
  have hmem : e ∈ reqH1 ct hs := by
    unfold reqH1
    cases ct with
    | none => exact he
    | some c => exact mem_dSet_of_mem he (ne_of_lower_ne (by rw [hk]; exact fun h => lower_builders.1 h.symm))
  unfold hasKey
  exact List.any_eq_true.2 ⟨e, hmem, by simp [hk]⟩

theorem mem_reqHeaders_of_te {e : Bytes × Bytes} (he : e ∈ hs) (hk : lower e.1 = kTE) :
    e ∈ reqHeaders ua ct hs body cc noUa := by
  have h1 : e ∈ reqH1 ct hs := by
    unfold reqH1
    cases ct with
    | none => exact he
    | some c => exact mem_dSet_of_mem he (ne_of_lower_ne (by rw [hk]; exact fun h => lower_builders.1 h.symm))
  have h2 : e ∈ reqH2 ct hs body := by
    unfold reqH2
    rw [reqH1_hasTE he hk]; simpa using h1
  have h3 : e ∈ reqH3 ua ct hs body noUa := by
    unfold reqH3; split
    · exact mem_dSet_of_mem h2 (ne_of_lower_ne (by rw [hk]; exact fun h => lower_builders.2.2.1 h.symm))
    · exact h2
  exact mem_pktHeaders_of_mem h3 (ne_of_lower_ne (by rw [hk]; exact fun h => lower_builders.2.2.2.1 h.symm))

theorem reqHeaders_noCL_chunked (hch : chunkedHdrs hs = true) :
    ∀ e ∈ reqHeaders ua ct hs body cc noUa, isCL e = false := by
  obtain ⟨⟨t, ht, htc⟩, hncl⟩ := chunkedHdrs_spec hch
  intro e he
  rcases mem_reqHeaders he with h | ⟨c, -, rfl⟩ | ⟨-, hno, -⟩ | rfl | rfl
  · exact isCL_false_of (hncl e h)
  · exact isCL_false_mk _ _ lower_builders.2.2.2.2.1
  · rw [reqH1_hasTE ht (isTEChunked_key htc)] at hno; simp at hno
  · exact isCL_false_mk _ _ lower_builders.2.2.2.2.2.2.1
  · exact isCL_false_mk _ _ lower_builders.2.2.2.2.2.2.2

end reqch

/-- **builder → parser, requests with `Transfer-Encoding: chunked` supplied by the caller**: the
    body handed to the builder is a chunked stream (e.g. `to_chunks` output); the builder adds no
    Content-Length and the parser decodes the stream -/
theorem parse_build_req_chunked (cfg : Cfg) (ua m u v : Bytes) (ct : Option Bytes) (hs : HDict)
    (s : Px.Chunk.ChunkedStream) (cc noUa : Bool) (url : Url)
    (hwf : WFReqChunked m u v ct hs ua = true) (hurl : Px.Url.fromBytes cfg.allowedSchemes u = .ok url)
    (hv : s.Valid) :
    ∃ r, parse cfg (init .request) (buildRequest ua m u v ct hs (some s.render) cc noUa) = .ok r ∧
      ReqResult r m v url (reqHeaders ua ct hs (some s.render) cc noUa) (some s.decoded) true := by
  simp only [WFReqChunked, Bool.and_eq_true] at hwf
  obtain ⟨⟨⟨⟨⟨⟨hm, hu⟩, hv'⟩, hh⟩, hch⟩, hct⟩, hua⟩ := hwf
  obtain ⟨hmne, hmsp, hmcr⟩ := plainTok_spec hm
  obtain ⟨-, husp, hucr⟩ := plainTok_spec hu
  obtain ⟨-, -, hvcr⟩ := plainTok_spec hv'
  have hl := line3_noCRLF hmcr hucr hvcr
  have hH := reqHeaders_hdrOK (body := some s.render) (cc := cc) (noUa := noUa) hh hct hua
  obtain ⟨⟨t, ht, htc⟩, -⟩ := chunkedHdrs_spec hch
  rw [buildRequest_eq]
  have hparse := parse_request_pkt cfg (reqHeaders ua ct hs (some s.render) cc noUa) ((some s.render).getD [])
    hmne hmsp husp hl hurl hH _ rfl
  have hfresh := freshLine_req cfg
    (m ++ SP :: (u ++ SP :: v) ++ CRLF ++
      (renderHdrs (reqHeaders ua ct hs (some s.render) cc noUa) ++ CRLF ++ (some s.render).getD [])).length m v url
  have hncl := reqHeaders_noCL_chunked (ua := ua) (ct := ct) (body := some s.render) (cc := cc) (noUa := noUa) hch
  obtain ⟨r, h1, h2, h3, h4, h5, h6, h7⟩ := finish_chunked cfg .request _ _ s [] _ _
    hparse (by simp) hfresh
    (List.any_eq_true.2 ⟨t, mem_reqHeaders_of_te ht (isTEChunked_key htc), htc⟩)
    (fun e he hc => absurd hc (by simp [hncl e he])) hv
  exact ⟨r, h1, reqResult_of h2 h3 h4 h5 (by simpa using h6) h7⟩

/-! ### responses -/

section res
variable {hs : HDict} {body : Option Bytes} {cc noCl : Bool}

theorem resHeaders_hdrOK (hwf : wfHeaders hs = true) : ∀ e ∈ resHeaders hs body cc noCl, HdrOK e.1 e.2 := by
  intro e he
  rcases mem_resHeaders he with h | ⟨-, -, rfl⟩ | rfl
  · exact hdrOK_of_wf (wfHeaders_mem hwf h).1 (wfHeaders_mem hwf h).2
  · refine hdrOK_of_wf wfName_builders.1 ?_
    split
    · exact wfValue_natToDec _
    · exact wfValue_zero
  · exact hdrOK_of_wf wfName_builders.2.2.2 wfValue_close

theorem resHeaders_noTE (hte : ∀ e ∈ hs, isTEChunked e = false) :
    (resHeaders hs body cc noCl).any isTEChunked = false := by
  rw [List.any_eq_false]
  intro e he
  have : isTEChunked e = false := by
    rcases mem_resHeaders he with h | ⟨-, -, rfl⟩ | rfl
    · exact hte e h
    · exact isTEChunked_false_mk _ _ lower_builders.2.1
    · exact isTEChunked_false_mk _ _ lower_builders.2.2.2.1
  simp [this]

theorem resHeaders_cl (hnf : noFraming hs = true) {e : Bytes × Bytes}
    (he : e ∈ resHeaders hs body cc noCl) (hc : isCL e = true) :
    noCl = false ∧ e = (nCL, if bodyTruthy body then natToDec (body.getD []).length else [48]) := by
  rcases mem_resHeaders he with h | ⟨h1, -, rfl⟩ | rfl
  · exact absurd hc (by simp [isCL_false_of (noFraming_mem hnf h).1])
  · exact ⟨h1, rfl⟩
  · exact absurd hc (by simp [isCL_false_mk _ _ lower_builders.2.2.2.2.2.2.2])

theorem resHeaders_cl' {e : Bytes × Bytes}
    (he : e ∈ resHeaders hs body cc noCl) (hc : isCL e = true) :
    e ∈ hs ∨ e = (nCL, if bodyTruthy body then natToDec (body.getD []).length else [48]) := by
  rcases mem_resHeaders he with h | ⟨-, -, rfl⟩ | rfl
  · exact .inl h
  · exact .inr rfl
  · exact absurd hc (by simp [isCL_false_mk _ _ lower_builders.2.2.2.2.2.2.2])

theorem resHeaders_has_cl (hte' : ∀ e ∈ hs, lower e.1 ≠ kTE) :
    (nCL, if bodyTruthy body then natToDec (body.getD []).length else [48]) ∈ resHeaders hs body cc false := by
  have hte : hasKey kTE hs = false := hasKey_false hte'
  have h1 : (nCL, if bodyTruthy body then natToDec (body.getD []).length else [48]) ∈
      (if (!hasKey kTE hs && !false) = true then
        dSet hs nCL (if bodyTruthy body then natToDec (body.getD []).length else [48]) else hs) := by
    rw [hte]; simp only [Bool.not_false, Bool.and_self, if_true]
    exact mem_dSet_self _ _ _
  exact mem_pktHeaders_of_mem h1 (by show nCL ≠ nConn; decide)

end res

/-- the reason phrase as the parser reports it: absent and empty are both `None` -/
def reasonSeen (reason : Option Bytes) : Option Bytes :=
  match reason with | some x => if x.isEmpty then none else some x | none => none

/-- what a complete response parse reports, in terms of what was sent -/
structure ResResult (r : Parser) (v code : Bytes) (reason : Option Bytes) (H : HDict) (body : Option Bytes)
    (chunked : Bool) : Prop where
  state_eq : r.state = .complete
  version_eq : r.version = some v
  code_eq : r.code = some code
  reason_eq : r.reason = reason
  headers_eq : r.headers = hdrsOf H
  body_eq : r.body = body
  buffer_eq : r.buffer = none
  chunked_eq : r.isChunked = chunked

theorem resResult_of {total : Nat} {v c : Bytes} {rs : Option Bytes} {r : Parser} {H : HDict}
    {body : Option Bytes} {ch : Bool} (hst : r.state = .complete)
    (hl : LineEq (resLineParser total v c rs) r) (hh : r.headers = hdrsOf H) (hb : r.body = body)
    (hbf : r.buffer = none) (hc : r.isChunked = ch) : ResResult r v c rs H body ch := by
  obtain ⟨-, -, l3, l4, l5, -⟩ := hl
  exact ⟨hst, l3, l4, l5, hh, hb, hbf, hc⟩

/-- the status line read back: the equation `parse = header fold, then body phase` for both shapes -/
theorem parse_status_pkt (cfg : Cfg) (status : Int) (v : Bytes) (reason : Option Bytes) (H : HDict) (B : Bytes)
    (hv : plainTok v = true) (hr : reasonOK reason = true) (hnh : H ≠ [] ∨ B ≠ [])
    (hH : ∀ e ∈ H, HdrOK e.1 e.2) (pkt : Bytes)
    (hpkt : pkt = statusLine status v reason ++ CRLF ++ (renderHdrs H ++ CRLF ++ B)) :
    parse cfg (init .response) pkt =
      match foldHdrs (resLineParser pkt.length v (intToDec status) (reasonSeen reason)) H with
      | .error e => .error e
      | .ok q => bodyPhase cfg (pkt.length + 6) q B := by
  obtain ⟨-, hvsp, hvcr⟩ := plainTok_spec hv
  obtain ⟨hcsp, hccr⟩ := intToDec_plain status
  cases reason with
  | none =>
    exact parse_response_pkt2 cfg H B hvsp hcsp (line2_noCRLF hvcr hccr) hnh hH pkt hpkt
  | some x =>
    by_cases hx : x.isEmpty = true
    · simp only [statusLine, hx, if_true] at hpkt
      simp only [reasonSeen, hx, if_true]
      exact parse_response_pkt2 cfg H B hvsp hcsp (line2_noCRLF hvcr hccr) hnh hH pkt hpkt
    · simp only [statusLine, hx, if_false, Bool.false_eq_true] at hpkt
      simp only [reasonSeen, hx, if_false, Bool.false_eq_true]
      have hxcr : ∀ c ∈ x, c ≠ CR := by
        simp only [reasonOK, List.all_eq_true, Bool.and_eq_true, bne_iff_ne, ne_eq] at hr
        exact fun c hc => (hr c hc).1
      exact parse_response_pkt3 cfg H B hvsp hcsp (line3_noCRLF hvcr hccr hxcr) hnh hH pkt hpkt

theorem pyInt10_zero : pyInt 10 [48] = some 0 := by decide

/-- **builder → parser, responses** (Content-Length always added: `no_cl = False`) -/
theorem parse_build_resp (cfg : Cfg) (status : Int) (v : Bytes) (reason : Option Bytes) (hs : HDict)
    (body : Option Bytes) (cc : Bool) (hwf : WFRes v reason hs = true)
    (hlen : (body.getD []).length < 10 ^ intMaxStrDigits) :
    ∃ r, parse cfg (init .response) (buildResponse status v reason hs body cc false) = .ok r ∧
      ResResult r v (intToDec status) (reasonSeen reason) (resHeaders hs body cc false)
        (if bodyTruthy body then body else none) false := by
  simp only [WFRes, Bool.and_eq_true] at hwf
  obtain ⟨⟨⟨hv, hr⟩, hh⟩, hnf⟩ := hwf
  have hH := resHeaders_hdrOK (body := body) (cc := cc) (noCl := false) hh
  have hmem := resHeaders_has_cl (body := body) (cc := cc) (noFraming_te hnf)
  have hHne : resHeaders hs body cc false ≠ [] := fun h => by rw [h] at hmem; simp at hmem
  rw [buildResponse_eq]
  have hparse := parse_status_pkt cfg status v reason (resHeaders hs body cc false) (body.getD [])
    hv hr (.inl hHne) hH _ rfl
  have hfresh := freshLine_res
    (statusLine status v reason ++ CRLF ++ (renderHdrs (resHeaders hs body cc false) ++ CRLF ++ body.getD [])).length
    v (intToDec status) (reasonSeen reason)
  by_cases hb : bodyTruthy body = true
  · obtain ⟨hne, hbeq⟩ := bodyTruthy_getD hb
    obtain ⟨r, h1, h2, h3, h4, h5, h6, h7⟩ := finish_cl cfg .response _ _ (body.getD []) [] _ _
      hparse (List.append_nil _).symm hfresh
      (resHeaders_noTE (fun e he => isTEChunked_false_of (noFraming_te hnf e he)))
      (fun e he hc => by
        rw [(resHeaders_cl hnf he hc).2, if_pos hb]
        exact pyInt10_natToDec _ hlen)
      ⟨_, hmem, by simp [isCL, lower_builders.2.2.2.2.2.1]⟩ hne
    refine ⟨r, h1, resResult_of h2 h3 h4 ?_ (by simpa using h6) h7⟩
    rw [h5, if_pos hb]; exact hbeq.symm
  · have hb' : bodyTruthy body = false := by simpa using hb
    have hB := bodyTruthy_false_getD hb'
    obtain ⟨r, h1, h2, h3, h4, h5, h6, h7⟩ := finish_nobody cfg .response _ _ (body.getD []) _
      hparse hfresh (resHeaders_noTE (fun e he => isTEChunked_false_of (noFraming_te hnf e he)))
      (fun e he hc => by
        rw [(resHeaders_cl hnf he hc).2, hb']
        exact pyInt10_zero) (.inl hB)
    refine ⟨r, h1, resResult_of h2 h3 h4 ?_ (by simpa [hB] using h6) h7⟩
    rw [h5, if_neg hb]

end Px.Codec
