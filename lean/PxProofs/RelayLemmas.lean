import PxModel.Relay
import PxProofs.ConnLemmas
/-! Lemmas about the relay tick (C01, C07): per-phase frame facts and the
    byte-accounting equalities every phase preserves. -/
namespace Px.Relay
open Px Px.Conn

/-- delivered ++ pending, client side -/
def D (s : St) : Bytes := s.sentC ++ s.client.buffer.flatten
/-- delivered ++ pending, upstream side -/
def U (s : St) : Bytes := s.sentU ++ s.upstream.buffer.flatten

/-! ### phase facts -/

theorem afterCW_frame (s : St) (r : FlushRes)
    (hw : r.wire ++ r.conn.buffer.flatten = s.client.buffer.flatten) :
    (afterCW s r).1.kind = s.kind ∧ (afterCW s r).1.maxSend = s.maxSend ∧
    (afterCW s r).1.upstream = s.upstream ∧ (afterCW s r).1.recvU = s.recvU ∧
    (afterCW s r).1.recvC = s.recvC ∧ (afterCW s r).1.sentU = s.sentU ∧
    (afterCW s r).1.queuedC = s.queuedC ∧ (afterCW s r).1.readsTeared = s.readsTeared ∧
    D (afterCW s r).1 = D s := by
  obtain ⟨conn, off, acc, exc⟩ := r
  unfold afterCW D
  cases exc with
  | some e => simp_all [List.append_assoc]
  | none =>
    simp only
    split <;> simp_all [List.append_assoc]

theorem phaseCW_frame (s : St) (t : Tick) :
    (phaseCW s t).1.kind = s.kind ∧ (phaseCW s t).1.maxSend = s.maxSend ∧
    (phaseCW s t).1.upstream = s.upstream ∧ (phaseCW s t).1.recvU = s.recvU ∧
    (phaseCW s t).1.recvC = s.recvC ∧ (phaseCW s t).1.sentU = s.sentU ∧
    (phaseCW s t).1.queuedC = s.queuedC ∧ (phaseCW s t).1.readsTeared = s.readsTeared ∧
    D (phaseCW s t).1 = D s := by
  unfold phaseCW
  split
  · exact afterCW_frame s _ (flush_wire_append s.maxSend s.client t.cSend)
  · simp

theorem afterUW_frame (s : St) (r : FlushRes)
    (hw : r.wire ++ r.conn.buffer.flatten = s.upstream.buffer.flatten)
    (hc : r.conn.closed = s.upstream.closed) :
    (afterUW s r).1.kind = s.kind ∧ (afterUW s r).1.maxSend = s.maxSend ∧
    (afterUW s r).1.client = s.client ∧ (afterUW s r).1.recvU = s.recvU ∧
    (afterUW s r).1.recvC = s.recvC ∧ (afterUW s r).1.sentC = s.sentC ∧
    (afterUW s r).1.queuedC = s.queuedC ∧ (afterUW s r).1.readsTeared = s.readsTeared ∧
    (afterUW s r).1.mustFlush = s.mustFlush ∧
    (afterUW s r).1.upstream.closed = s.upstream.closed ∧
    U (afterUW s r).1 = U s := by
  obtain ⟨conn, off, acc, exc⟩ := r
  unfold afterUW U
  cases exc with
  | some e => cases e <;> simp_all [List.append_assoc]
  | none => simp_all [List.append_assoc]

theorem phaseUW_frame (s : St) (t : Tick) :
    (phaseUW s t).1.kind = s.kind ∧ (phaseUW s t).1.maxSend = s.maxSend ∧
    (phaseUW s t).1.client = s.client ∧ (phaseUW s t).1.recvU = s.recvU ∧
    (phaseUW s t).1.recvC = s.recvC ∧ (phaseUW s t).1.sentC = s.sentC ∧
    (phaseUW s t).1.queuedC = s.queuedC ∧ (phaseUW s t).1.readsTeared = s.readsTeared ∧
    (phaseUW s t).1.mustFlush = s.mustFlush ∧
    (phaseUW s t).1.upstream.closed = s.upstream.closed ∧
    U (phaseUW s t).1 = U s := by
  unfold phaseUW
  split
  · exact afterUW_frame s _ (flush_wire_append s.maxSend s.upstream t.uSend)
      (flush_closed s.maxSend s.upstream t.uSend)
  · simp

theorem afterHD_state (s : St) (hd : HD) :
    (afterHD s hd).1 = s ∨ (afterHD s hd).1 = { s with mustFlush := true } := by
  unfold afterHD
  cases hd with
  | raised => simp
  | ret c => cases c <;> simp <;> split <;> simp

theorem onClientData_frame (s : St) (b : Bytes) (a : AppOut) (hk : s.kind ≠ .local) :
    (onClientData s b a).1.kind = s.kind ∧ (onClientData s b a).1.maxSend = s.maxSend ∧
    (onClientData s b a).1.client = s.client ∧ (onClientData s b a).1.recvU = s.recvU ∧
    (onClientData s b a).1.recvC = s.recvC ∧
    (onClientData s b a).1.sentC = s.sentC ∧ (onClientData s b a).1.sentU = s.sentU ∧
    (onClientData s b a).1.queuedC = s.queuedC ∧
    (onClientData s b a).1.upstream.closed = s.upstream.closed := by
  unfold onClientData
  cases hkind : s.kind with
  | «local» => exact absurd hkind hk
  | tunnel => simp only; split <;> simp [hkind, Conn.queue]
  | http =>
    simp only
    split
    · simp [hkind]
    · cases a with
      | raised => simp [hkind]
      | ok toUp toCl close => cases toUp <;> simp [hkind, Conn.queue]

/-- client read phase on a tunnel / plain-HTTP exchange: the client side of the
    state is untouched -/
theorem phaseCR_frame (s : St) (t : Tick) (hk : s.kind ≠ .local) :
    (phaseCR s t).1.kind = s.kind ∧ (phaseCR s t).1.maxSend = s.maxSend ∧
    (phaseCR s t).1.client = s.client ∧ (phaseCR s t).1.recvU = s.recvU ∧
    (phaseCR s t).1.sentC = s.sentC ∧ (phaseCR s t).1.sentU = s.sentU ∧
    (phaseCR s t).1.queuedC = s.queuedC ∧
    (phaseCR s t).1.upstream.closed = s.upstream.closed := by
  unfold phaseCR
  split
  · cases hr : Conn.recv t.cRecv with
    | none_ => simp
    | exc o => cases o <;> simp
    | seg b =>
      simp only
      have hf := onClientData_frame { s with recvC := s.recvC ++ b } b t.app (by simpa using hk)
      rcases afterHD_state (onClientData { s with recvC := s.recvC ++ b } b t.app).1
          (onClientData { s with recvC := s.recvC ++ b } b t.app).2 with h | h <;>
        rw [h] <;> simp_all
  · simp

/-- client read phase of a tunnel: every byte read goes to the upstream queue -/
theorem phaseCR_tunnel (s : St) (t : Tick) (hk : s.kind = .tunnel) (hc : s.upstream.closed = false) :
    ∃ seg, (phaseCR s t).1.recvC = s.recvC ++ seg ∧ U (phaseCR s t).1 = U s ++ seg ∧
      (phaseCR s t).2 ≠ .raised := by
  unfold phaseCR
  split
  · cases hr : Conn.recv t.cRecv with
    | none_ => exact ⟨[], by simp⟩
    | exc o => cases o <;> exact ⟨[], by simp⟩
    | seg b =>
      refine ⟨b, ?_⟩
      simp [onClientData, afterHD, hk, hc, U, Conn.queue]
  · exact ⟨[], by simp⟩

theorem phaseUR_frame (s : St) (t : Tick) :
    (phaseUR s t).1.kind = s.kind ∧ (phaseUR s t).1.maxSend = s.maxSend ∧
    (phaseUR s t).1.upstream = s.upstream ∧ (phaseUR s t).1.recvC = s.recvC ∧
    (phaseUR s t).1.sentC = s.sentC ∧ (phaseUR s t).1.sentU = s.sentU ∧
    (phaseUR s t).1.mustFlush = s.mustFlush := by
  unfold phaseUR
  split
  · cases hr : Conn.recv t.uRecv with
    | none_ => simp
    | exc o => cases o <;> simp
    | seg b => simp
  · simp

/-- upstream read phase: the segment read (if any) is appended to the received
    history and to the client queue, as received -/
theorem phaseUR_seg (s : St) (t : Tick) :
    ∃ seg, (phaseUR s t).1.recvU = s.recvU ++ seg ∧ D (phaseUR s t).1 = D s ++ seg ∧
      (phaseUR s t).1.queuedC.flatten = s.queuedC.flatten ++ seg ∧
      (((phaseUR s t).1.queuedC = s.queuedC ∧ (phaseUR s t).1.client = s.client) ∨
        (t.uRecv = .data seg ∧ seg ≠ [] ∧ (phaseUR s t).1.queuedC = s.queuedC ++ [seg] ∧
          (phaseUR s t).1.client = s.client.queue seg)) := by
  unfold phaseUR
  split
  · cases hu : t.uRecv with
    | data d =>
      cases hd : d.isEmpty with
      | false =>
        refine ⟨d, ?_⟩
        have : d ≠ [] := by intro h; simp [h] at hd
        simp [Conn.recv, hd, D, Conn.queue, this]
      | true => exact ⟨[], by simp [Conn.recv, hd, D]⟩
    | eof => exact ⟨[], by simp [Conn.recv, D]⟩
    | reset => exact ⟨[], by simp [Conn.recv, D]⟩
    | timedOut => exact ⟨[], by simp [Conn.recv, D]⟩
    | osError => exact ⟨[], by simp [Conn.recv, D]⟩
    | blocking => exact ⟨[], by simp [Conn.recv, D]⟩
    | sslWantRead => exact ⟨[], by simp [Conn.recv, D]⟩
  · exact ⟨[], by simp [D]⟩

/-! ### one tick, downstream accounting -/

/-- what one tick does to the downstream accounting: `seg` is what was read from
    the upstream in it (possibly nothing) -/
structure DownStep (s s' : St) (seg : Bytes) (t : Tick) : Prop where
  kind : s'.kind = s.kind
  maxSend : s'.maxSend = s.maxSend
  closed : s'.upstream.closed = s.upstream.closed
  recvU : s'.recvU = s.recvU ++ seg
  d : D s' = D s ++ seg
  qf : s'.queuedC.flatten = s.queuedC.flatten ++ seg
  q : s'.queuedC = s.queuedC ∨ (t.uRecv = .data seg ∧ seg ≠ [] ∧ s'.queuedC = s.queuedC ++ [seg])

theorem finish_fst (s : St) : (finish s).1 = s := rfl

theorem readHalf_down (s : St) (t : Tick) (hk : s.kind ≠ .local) :
    ∃ seg, DownStep s (readHalf s t).1 seg t := by
  unfold readHalf
  split
  · exact ⟨[], by constructor <;> simp [finish_fst]⟩
  · have fc := phaseCR_frame s t hk
    rcases hcr : phaseCR s t with ⟨s1, r⟩
    rw [hcr] at fc
    simp only at fc
    obtain ⟨c1, c2, c3, c4, c5, c6, c7, c8⟩ := fc
    cases r with
    | raised => exact ⟨[], by constructor <;> simp [D, *]⟩
    | yes => exact ⟨[], by constructor <;> simp [finish_fst, D, *]⟩
    | no =>
      simp only
      have fu := phaseUR_frame s1 t
      obtain ⟨seg, u1, u2, u3, u4⟩ := phaseUR_seg s1 t
      rcases hur : phaseUR s1 t with ⟨s2, r2⟩
      rw [hur] at fu u1 u2 u3 u4
      simp only at fu u1 u2 u3 u4
      obtain ⟨f1, f2, f3, f4, f5, f6, f7⟩ := fu
      refine ⟨seg, ?_⟩
      have hD : D s1 = D s := by simp [D, *]
      constructor <;> simp only [finish_fst]
      · simp [*]
      · simp [*]
      · simp [*]
      · simp [*]
      · simp only [D] at u2 hD ⊢; simp [u2, hD]
      · simp [*]
      · rcases u4 with ⟨h, _⟩ | ⟨h1, h2, h3, _⟩
        · left; simp [*]
        · right; exact ⟨h1, h2, by simp [*]⟩

theorem tick_down (s : St) (t : Tick) (hk : s.kind ≠ .local) :
    ∃ seg, DownStep s (tick s t).1 seg t := by
  unfold tick
  simp only
  have fw := phaseCW_frame { s with trC := none, trU := none } t
  rcases hcw : phaseCW { s with trC := none, trU := none } t with ⟨s1, w⟩
  rw [hcw] at fw
  simp only at fw
  obtain ⟨a1, a2, a3, a4, a5, a6, a7, a8, a9⟩ := fw
  have hD1 : D s1 = D s := by simpa [D] using a9
  cases w with
  | true => exact ⟨[], by constructor <;> simp [D, *] <;> simpa [D] using hD1⟩
  | false =>
    simp only
    have fu := phaseUW_frame { s1 with writesTeared := false } t
    rcases huw : phaseUW { s1 with writesTeared := false } t with ⟨s2, w2⟩
    rw [huw] at fu
    simp only at fu
    obtain ⟨b1, b2, b3, b4, b5, b6, b7, b8, b9, b10, b11⟩ := fu
    have hk2 : ({ s2 with writesTeared := w2, readsTeared := s2.readsTeared || w2 } : St).kind ≠ .local := by
      simp [*]
    obtain ⟨seg, hs⟩ := readHalf_down { s2 with writesTeared := w2, readsTeared := s2.readsTeared || w2 } t hk2
    refine ⟨seg, ?_⟩
    have hD2 : D s2 = D s := by
      have : D s2 = D s1 := by simp [D, *]
      rw [this, hD1]
    constructor
    · rw [hs.kind]; simp [*]
    · rw [hs.maxSend]; simp [*]
    · rw [hs.closed]; simp [*]
    · rw [hs.recvU]; simp [*]
    · rw [hs.d]; show D s2 ++ seg = D s ++ seg; rw [hD2]
    · rw [hs.qf]; simp [*]
    · rcases hs.q with h | ⟨h1, h2, h3⟩
      · left; rw [h]; simp [*]
      · right; exact ⟨h1, h2, by rw [h3]; simp [*]⟩

theorem mask_uRecv (i : Interest) (t : Tick) : (mask i t).uRecv = t.uRecv := rfl
theorem mask_cRecv (i : Interest) (t : Tick) : (mask i t).cRecv = t.cRecv := rfl

theorem step_down (s : St) (t : Tick) (hk : s.kind ≠ .local) :
    ∃ seg, DownStep s (step s t).1 seg t := by
  obtain ⟨seg, h⟩ := tick_down s (mask (events s) t) hk
  exact ⟨seg, ⟨h.kind, h.maxSend, h.closed, h.recvU, h.d, h.qf, h.q⟩⟩

/-! ### one tick, upstream accounting (tunnel) -/

structure UpStep (s s' : St) (seg : Bytes) : Prop where
  kind : s'.kind = s.kind
  closed : s'.upstream.closed = s.upstream.closed
  recvC : s'.recvC = s.recvC ++ seg
  u : U s' = U s ++ seg

theorem finish_snd_ne_raised (s : St) : (finish s).2 ≠ .raised := by
  unfold finish; split <;> simp

theorem readHalf_up (s : St) (t : Tick) (hk : s.kind = .tunnel) (hc : s.upstream.closed = false) :
    (∃ seg, UpStep s (readHalf s t).1 seg) ∧ (readHalf s t).2 ≠ .raised := by
  have hkl : s.kind ≠ .local := by simp [hk]
  unfold readHalf
  split
  · exact ⟨⟨[], by constructor <;> simp [finish_fst]⟩, finish_snd_ne_raised _⟩
  · have fc := phaseCR_frame s t hkl
    obtain ⟨seg, t1, t2, t3⟩ := phaseCR_tunnel s t hk hc
    rcases hcr : phaseCR s t with ⟨s1, r⟩
    rw [hcr] at fc t1 t2 t3
    simp only at fc t1 t2 t3
    obtain ⟨c1, c2, c3, c4, c5, c6, c7, c8⟩ := fc
    cases r with
    | raised => exact absurd rfl t3
    | yes =>
      simp only
      refine ⟨⟨seg, ?_⟩, finish_snd_ne_raised _⟩
      constructor <;> simp only [finish_fst]
      · simp [*]
      · simp [*]
      · simp [*]
      · show U s1 = U s ++ seg
        exact t2
    | no =>
      simp only
      have fu := phaseUR_frame s1 t
      rcases hur : phaseUR s1 t with ⟨s2, r2⟩
      rw [hur] at fu
      simp only at fu
      obtain ⟨f1, f2, f3, f4, f5, f6, f7⟩ := fu
      refine ⟨⟨seg, ?_⟩, finish_snd_ne_raised _⟩
      constructor <;> simp only [finish_fst]
      · simp [*]
      · simp [*]
      · simp [*]
      · have : U s2 = U s1 := by simp [U, *]
        show U s2 = U s ++ seg
        rw [this, t2]

theorem tick_up (s : St) (t : Tick) (hk : s.kind = .tunnel) (hc : s.upstream.closed = false) :
    (∃ seg, UpStep s (tick s t).1 seg) ∧ (tick s t).2 ≠ .raised := by
  unfold tick
  simp only
  have fw := phaseCW_frame { s with trC := none, trU := none } t
  rcases hcw : phaseCW { s with trC := none, trU := none } t with ⟨s1, w⟩
  rw [hcw] at fw
  simp only at fw
  obtain ⟨a1, a2, a3, a4, a5, a6, a7, a8, a9⟩ := fw
  have hU1 : U s1 = U s := by simp [U, *]
  cases w with
  | true => exact ⟨⟨[], by constructor <;> simp [*] <;> simpa [U] using hU1⟩, by simp⟩
  | false =>
    simp only
    have fu := phaseUW_frame { s1 with writesTeared := false } t
    rcases huw : phaseUW { s1 with writesTeared := false } t with ⟨s2, w2⟩
    rw [huw] at fu
    simp only at fu
    obtain ⟨b1, b2, b3, b4, b5, b6, b7, b8, b9, b10, b11⟩ := fu
    have hk2 : ({ s2 with writesTeared := w2, readsTeared := s2.readsTeared || w2 } : St).kind = .tunnel := by
      simp [*]
    have hc2 : ({ s2 with writesTeared := w2, readsTeared := s2.readsTeared || w2 } : St).upstream.closed = false := by
      simp [*]
    obtain ⟨⟨seg, hs⟩, hr⟩ := readHalf_up { s2 with writesTeared := w2, readsTeared := s2.readsTeared || w2 } t hk2 hc2
    refine ⟨⟨seg, ?_⟩, hr⟩
    have hU2 : U s2 = U s := by
      have : U s2 = U s1 := by simpa [U] using b11
      rw [this, hU1]
    constructor
    · rw [hs.kind]; simp [*]
    · rw [hs.closed]; simp [*]
    · rw [hs.recvC]; simp [*]
    · rw [hs.u]; show U s2 ++ seg = U s ++ seg; rw [hU2]

/-! ### runs -/

theorem run_cons (s : St) (t : Tick) (ts : List Tick) :
    run s (t :: ts) = (if (step s t).2 = .cont then run (step s t).1 ts else step s t) := by
  rw [run]
  rcases h : step s t with ⟨s1, r⟩
  cases r <;> simp

/-- downstream accounting over a whole run: `segs` are the non-empty segments
    read from the upstream, in order -/
theorem run_down (ticks : List Tick) (s : St) (hk : s.kind ≠ .local) :
    ∃ segs : List Bytes,
      (run s ticks).1.kind = s.kind ∧ (run s ticks).1.maxSend = s.maxSend ∧
      (run s ticks).1.recvU = s.recvU ++ segs.flatten ∧
      D (run s ticks).1 = D s ++ segs.flatten ∧
      (run s ticks).1.queuedC = s.queuedC ++ segs ∧
      ∀ b ∈ segs, b ≠ [] ∧ ∃ t ∈ ticks, t.uRecv = .data b := by
  induction ticks generalizing s with
  | nil => exact ⟨[], by simp [run]⟩
  | cons t ts ih =>
    obtain ⟨seg, h⟩ := step_down s t hk
    -- the segments queued by this step
    have hq : ∃ sg : List Bytes, (step s t).1.queuedC = s.queuedC ++ sg ∧ sg.flatten = seg ∧
        ∀ b ∈ sg, b ≠ [] ∧ t.uRecv = .data b := by
      rcases h.q with hq | ⟨h1, h2, h3⟩
      · refine ⟨[], by simp [hq], ?_, by simp⟩
        have := h.qf; rw [hq] at this
        simpa using (List.append_right_eq_self.mp this.symm).symm
      · exact ⟨[seg], h3, by simp, by simp [h1, h2]⟩
    obtain ⟨sg, q1, q2, q3⟩ := hq
    rw [run_cons]
    split
    · have hk' : (step s t).1.kind ≠ .local := by rw [h.kind]; exact hk
      obtain ⟨segs, i1, i2, i3, i4, i5, i6⟩ := ih (step s t).1 hk'
      refine ⟨sg ++ segs, ?_, ?_, ?_, ?_, ?_, ?_⟩
      · rw [i1, h.kind]
      · rw [i2, h.maxSend]
      · rw [i3, h.recvU, ← q2]; simp
      · rw [i4, h.d, ← q2]; simp
      · rw [i5, q1]; simp
      · intro b hb
        rcases List.mem_append.mp hb with hb | hb
        · exact ⟨(q3 b hb).1, t, by simp, (q3 b hb).2⟩
        · obtain ⟨n1, t', ht', e⟩ := i6 b hb
          exact ⟨n1, t', by simp [ht'], e⟩
    · refine ⟨sg, h.kind, h.maxSend, by rw [h.recvU, q2], by rw [h.d, q2], q1, ?_⟩
      intro b hb
      exact ⟨(q3 b hb).1, t, by simp, (q3 b hb).2⟩

/-- upstream accounting over a whole run of a tunnel -/
theorem run_up (ticks : List Tick) (s : St) (hk : s.kind = .tunnel) (hc : s.upstream.closed = false) :
    (∃ segs : Bytes, (run s ticks).1.recvC = s.recvC ++ segs ∧ U (run s ticks).1 = U s ++ segs) ∧
    (run s ticks).2 ≠ .raised := by
  induction ticks generalizing s with
  | nil => exact ⟨⟨[], by simp [run]⟩, by simp [run]⟩
  | cons t ts ih =>
    obtain ⟨⟨seg, h⟩, hr⟩ := tick_up s (mask (events s) t) hk hc
    rw [run_cons]
    split
    · obtain ⟨⟨segs, i1, i2⟩, i3⟩ := ih (step s t).1 (by rw [step, h.kind]; exact hk) (by rw [step, h.closed]; exact hc)
      refine ⟨⟨seg ++ segs, ?_, ?_⟩, i3⟩
      · rw [i1]; show (tick s (mask (events s) t)).1.recvC ++ segs = _; rw [h.recvC]; simp
      · rw [i2]; show U (tick s (mask (events s) t)).1 ++ segs = _; rw [h.u]; simp
    · exact ⟨⟨seg, h.recvC, h.u⟩, hr⟩

/-! ### C07: teardown, final flush -/

/-- a client-side send failure happened in the tick: the client was reported
    writable with output pending and its `send` raised -/
def ClientSendFailed (s : St) (t : Tick) : Prop :=
  t.cW = true ∧ s.client.hasBuffer = true ∧
    (t.cSend = .brokenPipe ∨ t.cSend = .osError ∨ t.cSend = .sslWantWrite)

instance (s : St) (t : Tick) : Decidable (ClientSendFailed s t) := by
  unfold ClientSendFailed; infer_instance

theorem finish_teardown (s : St) (h : (finish s).2 = .teardown) : s.client.hasBuffer = false := by
  unfold finish at h
  split at h
  · rename_i hc; simp at hc; exact hc.2
  · simp at h

theorem finish_cont (s : St) (h : (finish s).2 = .cont) : ¬ (s.readsTeared = true ∧ s.client.hasBuffer = false) := by
  unfold finish at h
  split at h
  · simp at h
  · rename_i hc; simpa using hc

theorem readHalf_teardown (s : St) (t : Tick) (h : (readHalf s t).2 = .teardown) :
    (readHalf s t).1.client.hasBuffer = false := by
  unfold readHalf at h ⊢
  split
  · rename_i hr; rw [if_pos hr] at h; exact finish_teardown _ h
  · rename_i hr; rw [if_neg hr] at h
    rcases hcr : phaseCR s t with ⟨s1, r⟩
    rw [hcr] at h
    cases r with
    | raised => simp at h
    | yes => simp only at h ⊢; exact finish_teardown _ h
    | no =>
      simp only at h ⊢
      exact finish_teardown _ h

/-- `afterCW` returns `True` only after a send exception or with the buffer drained -/
theorem afterCW_true (s : St) (r : FlushRes) (h : (afterCW s r).2 = true) :
    r.exc ≠ none ∨ ((afterCW s r).1.client.hasBuffer = false ∧ s.mustFlush = true) := by
  obtain ⟨conn, off, acc, exc⟩ := r
  unfold afterCW at h ⊢
  cases exc with
  | some e => left; simp
  | none =>
    right
    simp only at h ⊢
    split at h
    · rename_i hc; simp at hc; rw [if_pos (by simpa using hc)]; simpa using hc.symm
    · simp at h

theorem afterCW_false (s : St) (r : FlushRes) (h : (afterCW s r).2 = false) :
    r.exc = none ∧ (s.mustFlush = true → (afterCW s r).1.client.hasBuffer = true) ∧
    (afterCW s r).1.mustFlush = s.mustFlush ∧ (afterCW s r).1.client = r.conn ∧
    (afterCW s r).1.sentC = s.sentC ++ r.wire := by
  obtain ⟨conn, off, acc, exc⟩ := r
  unfold afterCW at h ⊢
  cases exc with
  | some e => simp at h
  | none =>
    simp only at h ⊢
    split at h
    · simp at h
    · rename_i hc
      rw [if_neg hc]
      simp at hc ⊢
      intro hm
      cases hb : conn.hasBuffer with
      | true => rfl
      | false => exact absurd (hc hm) (by simp [hb])

/-- **no early close, one tick.** -/
theorem tick_no_early_close (s : St) (t : Tick) (h : (tick s t).2 = .teardown)
    (hb : (tick s t).1.client.hasBuffer = true) : ClientSendFailed s t := by
  unfold tick at h hb
  simp only at h hb
  rcases hcw : phaseCW { s with trC := none, trU := none } t with ⟨s1, w⟩
  rw [hcw] at h hb
  cases w with
  | true =>
    simp only at h hb
    unfold phaseCW at hcw
    split at hcw
    · rename_i hc
      simp at hc
      have h2 : (afterCW { s with trC := none, trU := none } (flush s.maxSend s.client t.cSend)).2 = true := by
        simp at hcw; rw [hcw]
      have h1 : (afterCW { s with trC := none, trU := none } (flush s.maxSend s.client t.cSend)).1 = s1 := by
        simp at hcw; rw [hcw]
      rcases afterCW_true _ _ h2 with he | ⟨he, _⟩
      · have := (flush_exc_iff s.maxSend s.client t.cSend).mp he
        exact ⟨hc.1, hc.2, this.2⟩
      · rw [h1] at he; rw [he] at hb; simp at hb
    · simp at hcw
  | false =>
    simp only at h hb
    rcases huw : phaseUW { s1 with writesTeared := false } t with ⟨s2, w2⟩
    rw [huw] at h hb
    simp only at h hb
    have := readHalf_teardown _ _ h
    rw [this] at hb; simp at hb

theorem step_no_early_close (s : St) (t : Tick) (h : (step s t).2 = .teardown)
    (hb : (step s t).1.client.hasBuffer = true) : ClientSendFailed s t := by
  have := tick_no_early_close s (mask (events s) t) h hb
  obtain ⟨h1, h2, h3⟩ := this
  refine ⟨?_, h2, h3⟩
  simp [mask] at h1; exact h1.1

/-- a run that ends in teardown with client output pending: its last executed
    tick had a client-side send failure -/
theorem run_no_early_close (ticks : List Tick) (s : St) (h : (run s ticks).2 = .teardown)
    (hb : (run s ticks).1.client.hasBuffer = true) :
    ∃ s0 t, t ∈ ticks ∧ ClientSendFailed s0 t ∧ step s0 t = run s ticks := by
  induction ticks generalizing s with
  | nil => simp [run] at h
  | cons t ts ih =>
    rw [run_cons] at h hb ⊢
    split at h
    · rename_i hc
      rw [if_pos hc] at hb ⊢
      obtain ⟨s0, t0, m, f, e⟩ := ih _ h hb
      exact ⟨s0, t0, by simp [m], f, e⟩
    · rename_i hc
      rw [if_neg hc] at hb ⊢
      exact ⟨s, t, by simp, step_no_early_close s t h hb, rfl⟩

/-! #### exceptions -/

theorem readHalf_raised (s : St) (t : Tick) (h : (readHalf s t).2 = .raised) :
    s.kind ≠ .tunnel ∧ t.app = .raised ∧ t.cR = true ∧ s.readsTeared = false := by
  unfold readHalf at h
  split at h
  · exact absurd h (finish_snd_ne_raised _)
  · rename_i hrt
    rcases hcr : phaseCR s t with ⟨s1, r⟩
    rw [hcr] at h
    cases r with
    | yes => exact absurd h (finish_snd_ne_raised _)
    | no => exact absurd h (finish_snd_ne_raised _)
    | raised =>
      unfold phaseCR at hcr
      split at hcr
      · rename_i hcR
        cases hr : Conn.recv t.cRecv with
        | none_ => rw [hr] at hcr; simp at hcr
        | exc o => rw [hr] at hcr; cases o <;> simp at hcr
        | seg b =>
          rw [hr] at hcr
          simp only at hcr
          have h2 : (onClientData { s with recvC := s.recvC ++ b } b t.app).2 = .raised := by
            generalize onClientData { s with recvC := s.recvC ++ b } b t.app = x at hcr
            obtain ⟨x1, x2⟩ := x
            unfold afterHD at hcr
            cases x2 with
            | raised => rfl
            | ret c => cases c <;> simp at hcr <;> split at hcr <;> simp at hcr
          unfold onClientData at h2
          cases hk : s.kind with
          | tunnel => simp [hk] at h2; split at h2 <;> simp at h2
          | http =>
            simp [hk] at h2
            split at h2
            · simp at h2
            · cases ha : t.app with
              | raised => exact ⟨by simp, rfl, hcR, by simpa using hrt⟩
              | ok a b c => rw [ha] at h2; simp at h2
          | «local» =>
            simp [hk] at h2
            cases ha : t.app with
            | raised => exact ⟨by simp, rfl, hcR, by simpa using hrt⟩
            | ok a b c => rw [ha] at h2; simp at h2
      · simp at hcr

theorem tick_raised (s : St) (t : Tick) (h : (tick s t).2 = .raised) :
    s.kind ≠ .tunnel ∧ t.app = .raised ∧ t.cR = true := by
  unfold tick at h
  simp only at h
  have fw := phaseCW_frame { s with trC := none, trU := none } t
  rcases hcw : phaseCW { s with trC := none, trU := none } t with ⟨s1, w⟩
  rw [hcw] at h fw
  cases w with
  | true => simp at h
  | false =>
    simp only at h fw
    have fu := phaseUW_frame { s1 with writesTeared := false } t
    rcases huw : phaseUW { s1 with writesTeared := false } t with ⟨s2, w2⟩
    rw [huw] at h fu
    simp only at h fu
    obtain ⟨r1, r2, r3, _⟩ := readHalf_raised _ _ h
    refine ⟨?_, r2, r3⟩
    simpa [fu.1, fw.1] using r1

/-! #### the client buffer after the write phases only grows -/

theorem onClientData_client (s : St) (b : Bytes) (a : AppOut) :
    ∃ extra, (onClientData s b a).1.client.buffer = s.client.buffer ++ extra := by
  unfold onClientData
  cases s.kind with
  | tunnel => simp only; split <;> exact ⟨[], by simp⟩
  | http =>
    simp only
    split
    · exact ⟨[], by simp⟩
    · cases a with
      | raised => exact ⟨[], by simp⟩
      | ok u c cl => cases u <;> exact ⟨[], by simp⟩
  | «local» =>
    cases a with
    | raised => exact ⟨[], by simp⟩
    | ok u c cl =>
      cases c with
      | none => exact ⟨[], by simp⟩
      | some x => exact ⟨[x], by simp [Conn.queue]⟩

theorem afterHD_client (s : St) (hd : HD) : (afterHD s hd).1.client = s.client := by
  rcases afterHD_state s hd with h | h <;> rw [h]

theorem phaseCR_client (s : St) (t : Tick) :
    ∃ extra, (phaseCR s t).1.client.buffer = s.client.buffer ++ extra := by
  unfold phaseCR
  split
  · cases hr : Conn.recv t.cRecv with
    | none_ => exact ⟨[], by simp⟩
    | exc o => cases o <;> exact ⟨[], by simp⟩
    | seg b =>
      simp only
      obtain ⟨e, he⟩ := onClientData_client { s with recvC := s.recvC ++ b } b t.app
      exact ⟨e, by rw [afterHD_client, he]⟩
  · exact ⟨[], by simp⟩

theorem phaseUR_client (s : St) (t : Tick) :
    ∃ extra, (phaseUR s t).1.client.buffer = s.client.buffer ++ extra := by
  obtain ⟨seg, _, _, _, h⟩ := phaseUR_seg s t
  rcases h with ⟨_, h⟩ | ⟨_, _, _, h⟩
  · exact ⟨[], by rw [h]; simp⟩
  · exact ⟨[seg], by rw [h]; simp [Conn.queue]⟩

theorem readHalf_client (s : St) (t : Tick) :
    ∃ extra, (readHalf s t).1.client.buffer = s.client.buffer ++ extra := by
  unfold readHalf
  split
  · exact ⟨[], by simp [finish_fst]⟩
  · obtain ⟨e1, h1⟩ := phaseCR_client s t
    rcases hcr : phaseCR s t with ⟨s1, r⟩
    rw [hcr] at h1
    cases r with
    | raised => exact ⟨e1, h1⟩
    | yes => exact ⟨e1, by simpa [finish_fst] using h1⟩
    | no =>
      simp only
      obtain ⟨e2, h2⟩ := phaseUR_client s1 t
      rcases hur : phaseUR s1 t with ⟨s2, r2⟩
      rw [hur] at h2
      refine ⟨e1 ++ e2, ?_⟩
      simp only [finish_fst] at h1 h2 ⊢
      rw [h2, h1]; simp

theorem hasBuffer_append_false (c c' : Conn) (extra : List Bytes)
    (h : c'.buffer = c.buffer ++ extra) (he : c'.hasBuffer = false) : c.hasBuffer = false := by
  simp [Conn.hasBuffer, h] at he ⊢; exact he.1

/-- what the client-write phase leaves when it does not return `True` -/
theorem phaseCW_false (s : St) (t : Tick) (h : (phaseCW s t).2 = false) :
    (s.mustFlush = true → s.client.hasBuffer = true → (phaseCW s t).1.client.hasBuffer = true) ∧
    (phaseCW s t).1.mustFlush = s.mustFlush := by
  unfold phaseCW at h ⊢
  split
  · rename_i hc; rw [if_pos hc] at h
    obtain ⟨_, a2, a3, _, _⟩ := afterCW_false _ _ h
    exact ⟨fun hm _ => a2 hm, a3⟩
  · exact ⟨fun _ hb => hb, rfl⟩

/-- **prompt close, one tick**: in a final-flush state the tick after which the
    client buffer is empty returns `True` -/
theorem tick_prompt (s : St) (t : Tick) (hf : s.mustFlush = true ∨ s.readsTeared = true)
    (hi : s.mustFlush = true → s.client.hasBuffer = true)
    (he : (tick s t).1.client.hasBuffer = false) : (tick s t).2 = .teardown := by
  unfold tick at he ⊢
  simp only at he ⊢
  have fw := phaseCW_frame { s with trC := none, trU := none } t
  have pf := phaseCW_false { s with trC := none, trU := none } t
  rcases hcw : phaseCW { s with trC := none, trU := none } t with ⟨s1, w⟩
  rw [hcw] at he fw pf
  cases w with
  | true => rfl
  | false =>
    simp only at he fw pf ⊢
    obtain ⟨p1, p2⟩ := pf trivial
    have fu := phaseUW_frame { s1 with writesTeared := false } t
    rcases huw : phaseUW { s1 with writesTeared := false } t with ⟨s2, w2⟩
    rw [huw] at he fu
    simp only at he fu ⊢
    obtain ⟨extra, hx⟩ := readHalf_client { s2 with writesTeared := w2, readsTeared := s2.readsTeared || w2 } t
    have h3 := hasBuffer_append_false _ _ _ hx he
    simp only at h3
    have hc2 : s2.client = s1.client := fu.2.2.1
    rw [hc2] at h3
    have hnm : s.mustFlush ≠ true := by
      intro hm
      have := p1 hm (hi hm)
      rw [this] at h3; simp at h3
    have hrt : s.readsTeared = true := by
      rcases hf with h | h
      · exact absurd h hnm
      · exact h
    have hrt2 : s2.readsTeared = true := by
      rw [fu.2.2.2.2.2.2.2.1]; show s1.readsTeared = true; rw [fw.2.2.2.2.2.2.2.1]; exact hrt
    unfold readHalf at he ⊢
    simp only [hrt2, Bool.true_or, if_true] at he ⊢
    unfold finish at he ⊢
    simp only at he ⊢
    simp [he]

/-- in a `must_flush_before_shutdown` state the client is not read and the flag
    stays up until the tick that returns `True` -/
theorem step_mustFlush (s : St) (t : Tick) (hm : s.mustFlush = true) :
    (events s).cR = false ∧ (step s t).1.recvC = s.recvC ∧
    ((step s t).2 = .cont → (step s t).1.mustFlush = true) := by
  refine ⟨by simp [events, hm], ?_⟩
  have hcR : (mask (events s) t).cR = false := by simp [mask, events, hm]
  unfold step tick
  simp only
  have fw := phaseCW_frame { s with trC := none, trU := none } (mask (events s) t)
  have pf := phaseCW_false { s with trC := none, trU := none } (mask (events s) t)
  rcases hcw : phaseCW { s with trC := none, trU := none } (mask (events s) t) with ⟨s1, w⟩
  rw [hcw] at fw pf
  cases w with
  | true => simp only at fw ⊢; exact ⟨by simp [fw.2.2.2.2.1], by simp⟩
  | false =>
    simp only at fw pf ⊢
    obtain ⟨_, p2⟩ := pf trivial
    have fu := phaseUW_frame { s1 with writesTeared := false } (mask (events s) t)
    rcases huw : phaseUW { s1 with writesTeared := false } (mask (events s) t) with ⟨s2, w2⟩
    rw [huw] at fu
    simp only at fu ⊢
    have hm2 : s2.mustFlush = true := by rw [fu.2.2.2.2.2.2.2.2.1]; show s1.mustFlush = true; rw [p2]; exact hm
    have hr2 : s2.recvC = s.recvC := by rw [fu.2.2.2.2.1]; show s1.recvC = s.recvC; rw [fw.2.2.2.2.1]
    unfold readHalf
    split
    · exact ⟨by simp [finish_fst, hr2], fun _ => by simp [finish_fst, hm2]⟩
    · have hp : phaseCR { s2 with writesTeared := w2, readsTeared := s2.readsTeared || w2 } (mask (events s) t)
          = ({ s2 with writesTeared := w2, readsTeared := s2.readsTeared || w2 }, .no) := by
        unfold phaseCR; rw [hcR]; simp
      rw [hp]
      simp only
      have fr := phaseUR_frame { s2 with writesTeared := w2, readsTeared := s2.readsTeared || w2 } (mask (events s) t)
      rcases hur : phaseUR { s2 with writesTeared := w2, readsTeared := s2.readsTeared || w2 } (mask (events s) t) with ⟨s3, r3⟩
      rw [hur] at fr
      simp only at fr ⊢
      exact ⟨by simp [finish_fst, fr.2.2.2.1, hr2], fun _ => by simp [finish_fst, fr.2.2.2.2.2.2, hm2]⟩

/-! #### final flush: output only shrinks, and is delivered -/

/-- final-flush states: reads are torn down (upstream closed / failed, client
    closed its sending side), or a close was requested with output pending on a
    connection without upstream (error response, web-server reply) -/
def FinalFlush (s : St) : Prop :=
  s.readsTeared = true ∨ (s.mustFlush = true ∧ s.kind = .local)

/-- `must_flush_before_shutdown` is only ever up while output is pending -/
def FlushInv (s : St) : Prop := s.mustFlush = true → s.client.hasBuffer = true

/-- the client can take at least one byte -/
def GoodTick (t : Tick) : Prop := t.cW = true ∧ ∃ k, t.cSend = .sent (k + 1)

theorem afterCW_client (s : St) (r : FlushRes) :
    (afterCW s r).1.client = r.conn ∧ (afterCW s r).1.sentC = s.sentC ++ r.wire ∧
    (afterCW s r).1.kind = s.kind := by
  obtain ⟨conn, off, acc, exc⟩ := r
  unfold afterCW
  cases exc with
  | some e => simp
  | none => simp only; split <;> simp

/-- the client-write phase in terms of the flush it performs -/
theorem phaseCW_client (s : St) (t : Tick) :
    ((t.cW && s.client.hasBuffer) = true ∧
      (phaseCW s t).1.client = (s.client.flush s.maxSend t.cSend).conn ∧
      (phaseCW s t).1.sentC = s.sentC ++ (s.client.flush s.maxSend t.cSend).wire) ∨
    ((t.cW && s.client.hasBuffer) = false ∧ (phaseCW s t).1.client = s.client ∧
      (phaseCW s t).1.sentC = s.sentC) := by
  unfold phaseCW
  split
  · rename_i h; left; exact ⟨h, (afterCW_client _ _).1, (afterCW_client _ _).2.1⟩
  · rename_i h; right; exact ⟨by simpa using h, rfl, rfl⟩

/-- in a final-flush state, after the client-write phase nothing touches the
    client side of the state, nothing is read, no exception can escape, and the
    state stays a final-flush state -/
theorem step_final (s : St) (t : Tick) (hf : FinalFlush s) :
    (step s t).1.client = (phaseCW { s with trC := none, trU := none } (mask (events s) t)).1.client ∧
    (step s t).1.sentC = (phaseCW { s with trC := none, trU := none } (mask (events s) t)).1.sentC ∧
    (step s t).1.recvU = s.recvU ∧ (step s t).1.recvC = s.recvC ∧
    (step s t).1.kind = s.kind ∧ (step s t).2 ≠ .raised ∧
    ((step s t).2 = .cont → FinalFlush (step s t).1) := by
  unfold step tick
  simp only
  have fw := phaseCW_frame { s with trC := none, trU := none } (mask (events s) t)
  have pf := phaseCW_false { s with trC := none, trU := none } (mask (events s) t)
  rcases hcw : phaseCW { s with trC := none, trU := none } (mask (events s) t) with ⟨s1, w⟩
  rw [hcw] at fw pf
  cases w with
  | true =>
    simp only at fw ⊢
    exact ⟨trivial, trivial, by simp [fw.2.2.2.1], by simp [fw.2.2.2.2.1], by simp [fw.1], by simp, by simp⟩
  | false =>
    simp only at fw pf ⊢
    obtain ⟨_, p2⟩ := pf trivial
    have fu := phaseUW_frame { s1 with writesTeared := false } (mask (events s) t)
    have hupw : s.kind = .local → phaseUW { s1 with writesTeared := false } (mask (events s) t)
        = ({ s1 with writesTeared := false }, false) := by
      intro hk; unfold phaseUW upLive; simp [fw.1, hk]
    rcases huw : phaseUW { s1 with writesTeared := false } (mask (events s) t) with ⟨s2, w2⟩
    rw [huw] at fu hupw
    simp only at fu ⊢
    obtain ⟨b1, b2, b3, b4, b5, b6, b7, b8, b9, b10, b11⟩ := fu
    have k2 : s2.kind = s.kind := by rw [b1]; exact fw.1
    have ru : s2.recvU = s.recvU := by rw [b4]; exact fw.2.2.2.1
    have rc : s2.recvC = s.recvC := by rw [b5]; exact fw.2.2.2.2.1
    rcases hf with hrt | ⟨hm, hk⟩
    · have hrt2 : s2.readsTeared = true := by
        rw [b8]; show s1.readsTeared = true; rw [fw.2.2.2.2.2.2.2.1]; exact hrt
      unfold readHalf
      simp only [hrt2, Bool.true_or, if_true, finish_fst]
      refine ⟨by rw [b3], by rw [b6], ru, rc, k2, finish_snd_ne_raised _, fun _ => Or.inl ?_⟩
      simp [hrt2]
    · have e2 := hupw hk
      injection e2 with e2a e2b
      subst e2b
      have hcR : (mask (events s) t).cR = false := by simp [mask, events, hm]
      have hm2 : s2.mustFlush = true := by rw [b9]; show s1.mustFlush = true; rw [p2]; exact hm
      unfold readHalf
      split
      · rename_i hr
        simp only [finish_fst]
        exact ⟨by rw [b3], by rw [b6], ru, rc, k2, finish_snd_ne_raised _,
          fun _ => Or.inl (by simpa using hr)⟩
      · have hp : phaseCR { s2 with writesTeared := false, readsTeared := s2.readsTeared || false } (mask (events s) t)
            = ({ s2 with writesTeared := false, readsTeared := s2.readsTeared || false }, .no) := by
          unfold phaseCR; rw [hcR]; simp
        rw [hp]
        simp only
        have hq : phaseUR { s2 with writesTeared := false, readsTeared := s2.readsTeared || false } (mask (events s) t)
            = ({ s2 with writesTeared := false, readsTeared := s2.readsTeared || false }, false) := by
          unfold phaseUR upLive; simp [k2, hk]
        rw [hq]
        simp only [finish_fst]
        exact ⟨by rw [b3], by rw [b6], ru, rc, k2, finish_snd_ne_raised _,
          fun _ => Or.inr ⟨hm2, by rw [k2]; exact hk⟩⟩

/-- **pending output only shrinks** in a final-flush state: one step removes a
    prefix `w` of the pending bytes and appends exactly it to what was delivered -/
theorem step_only_shrinks (s : St) (t : Tick) (hf : FinalFlush s) :
    ∃ w, s.client.buffer.flatten = w ++ (step s t).1.client.buffer.flatten ∧
      (step s t).1.sentC = s.sentC ++ w ∧
      pending (step s t).1.client ≤ pending s.client := by
  obtain ⟨h1, h2, _⟩ := step_final s t hf
  rw [h1, h2]
  rcases phaseCW_client { s with trC := none, trU := none } (mask (events s) t) with ⟨_, c1, c2⟩ | ⟨_, c1, c2⟩
  · rw [c1, c2]
    exact ⟨_, (flush_wire_append s.maxSend s.client _).symm, rfl, flush_pending_le _ _ _⟩
  · rw [c1, c2]
    exact ⟨[], by simp, by simp, Nat.le_refl _⟩

/-- one good tick of a final flush: strictly less pending, nothing lost, and
    either the close (buffer empty) or still a final-flush state -/
theorem step_final_good (s : St) (t : Tick) (hf : FinalFlush s) (hi : FlushInv s)
    (hb : s.client.hasBuffer = true) (hg : GoodTick t) :
    D (step s t).1 = D s ∧ pending (step s t).1.client < pending s.client ∧
    (((step s t).2 = .teardown ∧ (step s t).1.client.hasBuffer = false) ∨
     ((step s t).2 = .cont ∧ FinalFlush (step s t).1 ∧ FlushInv (step s t).1 ∧
        (step s t).1.client.hasBuffer = true)) := by
  obtain ⟨h1, h2, _, _, _, h6, h7⟩ := step_final s t hf
  obtain ⟨gw, k, gk⟩ := hg
  have hmw : ((mask (events s) t).cW && s.client.hasBuffer) = true := by
    simp [mask, events, gw, hb]
  have hbne : s.client.buffer ≠ [] := (hasBuffer_true_iff _).mp hb
  rcases phaseCW_client { s with trC := none, trU := none } (mask (events s) t) with ⟨_, c1, c2⟩ | ⟨hc, _, _⟩
  · have hcs : (mask (events s) t).cSend = .sent (k + 1) := gk
    simp only at c1 c2
    rw [hcs] at c1 c2
    refine ⟨?_, ?_, ?_⟩
    · unfold D; rw [h1, h2, c1, c2, List.append_assoc, flush_wire_append]
    · rw [h1, c1]; exact flush_pending_lt _ _ _ hbne
    · cases hr : (step s t).2 with
      | raised => exact absurd hr h6
      | teardown =>
        left; refine ⟨rfl, ?_⟩
        cases hx : (step s t).1.client.hasBuffer with
        | false => rfl
        | true =>
          obtain ⟨_, _, f⟩ := step_no_early_close s t hr hx
          rw [gk] at f; simp at f
      | cont =>
        right
        have hx : (step s t).1.client.hasBuffer = true := by
          cases hx : (step s t).1.client.hasBuffer with
          | true => rfl
          | false =>
            have hff : s.mustFlush = true ∨ s.readsTeared = true := by
              rcases hf with h | ⟨h, _⟩
              · exact Or.inr h
              · exact Or.inl h
            have := tick_prompt s (mask (events s) t) hff hi hx
            rw [show (tick s (mask (events s) t)).2 = (step s t).2 from rfl, hr] at this
            simp at this
        exact ⟨rfl, h7 hr, fun _ => hx, hx⟩
  · simp only at hc; rw [hmw] at hc; simp at hc

/-- **delivery**: from a final-flush state with output pending, any run of
    ticks in each of which the client takes at least one byte, at least as long
    as the pending measure, ends in teardown with every pending byte accepted by
    the client's `send`, in order -/
theorem run_delivered (ticks : List Tick) (s : St) (hf : FinalFlush s) (hi : FlushInv s)
    (hb : s.client.hasBuffer = true) (hg : ∀ t ∈ ticks, GoodTick t)
    (hn : pending s.client ≤ ticks.length) :
    (run s ticks).2 = .teardown ∧ (run s ticks).1.client.buffer = [] ∧
    (run s ticks).1.sentC = s.sentC ++ s.client.buffer.flatten := by
  induction ticks generalizing s with
  | nil =>
    have : 0 < pending s.client := by
      have := (hasBuffer_true_iff _).mp hb
      unfold pending
      cases hbuf : s.client.buffer with
      | nil => exact absurd hbuf this
      | cons a b => simp; omega
    simp at hn; omega
  | cons t ts ih =>
    obtain ⟨d, p, c⟩ := step_final_good s t hf hi hb (hg t (by simp))
    rw [run_cons]
    rcases c with ⟨r, e⟩ | ⟨r, f', i', b'⟩
    · rw [if_neg (by rw [r]; simp)]
      have he := (hasBuffer_false_iff _).mp e
      refine ⟨r, he, ?_⟩
      have := d; unfold D at this; rw [he] at this; simpa using this
    · rw [if_pos r]
      have hn' : pending (step s t).1.client ≤ ts.length := by simp at hn; omega
      obtain ⟨a1, a2, a3⟩ := ih (step s t).1 f' i' b' (fun x hx => hg x (by simp [hx])) hn'
      refine ⟨a1, a2, ?_⟩
      rw [a3]; exact d

/-! #### shape of the client side after one tick; threaded shutdown -/

/-- on a tunnel / plain-HTTP exchange the client connection after a tick is what
    the client-write phase left, possibly with one non-empty upstream segment
    queued behind it; `sentC` is what the client-write phase left -/
theorem tick_shape (s : St) (t : Tick) (hk : s.kind ≠ .local) :
    (tick s t).1.sentC = (phaseCW { s with trC := none, trU := none } t).1.sentC ∧
    ((tick s t).1.client = (phaseCW { s with trC := none, trU := none } t).1.client ∨
      ∃ seg, seg ≠ [] ∧
        (tick s t).1.client = ((phaseCW { s with trC := none, trU := none } t).1.client).queue seg) := by
  unfold tick
  simp only
  have fw := phaseCW_frame { s with trC := none, trU := none } t
  rcases hcw : phaseCW { s with trC := none, trU := none } t with ⟨s1, w⟩
  rw [hcw] at fw
  cases w with
  | true => exact ⟨rfl, Or.inl rfl⟩
  | false =>
    simp only at fw ⊢
    have fu := phaseUW_frame { s1 with writesTeared := false } t
    rcases huw : phaseUW { s1 with writesTeared := false } t with ⟨s2, w2⟩
    rw [huw] at fu
    simp only at fu ⊢
    obtain ⟨b1, b2, b3, b4, b5, b6, b7, b8, b9, b10, b11⟩ := fu
    have k2 : s2.kind ≠ .local := by rw [b1]; show s1.kind ≠ .local; rw [fw.1]; exact hk
    unfold readHalf
    split
    · simp only [finish_fst]; exact ⟨b6, Or.inl b3⟩
    · have fc := phaseCR_frame { s2 with writesTeared := w2, readsTeared := s2.readsTeared || w2 } t k2
      rcases hcr : phaseCR { s2 with writesTeared := w2, readsTeared := s2.readsTeared || w2 } t with ⟨s3, r⟩
      rw [hcr] at fc
      simp only at fc
      obtain ⟨c1, c2, c3, c4, c5, c6, c7, c8⟩ := fc
      cases r with
      | raised => exact ⟨by rw [c5]; exact b6, Or.inl (by rw [c3]; exact b3)⟩
      | yes => simp only [finish_fst]; exact ⟨by rw [c5]; exact b6, Or.inl (by rw [c3]; exact b3)⟩
      | no =>
        simp only
        have fr := phaseUR_frame s3 t
        obtain ⟨seg, _, _, _, u4⟩ := phaseUR_seg s3 t
        rcases hur : phaseUR s3 t with ⟨s4, r4⟩
        rw [hur] at fr u4
        simp only [finish_fst] at fr u4 ⊢
        refine ⟨by rw [fr.2.2.2.2.1, c5]; exact b6, ?_⟩
        rcases u4 with ⟨_, h⟩ | ⟨_, hne, _, h⟩
        · left; rw [h, c3]; exact b3
        · right; exact ⟨seg, hne, by rw [h, c3]; exact congrArg (·.queue seg) b3⟩

theorem tick_noEmpty (s : St) (t : Tick) (hk : s.kind ≠ .local) (h : NoEmpty s.client) :
    NoEmpty (tick s t).1.client := by
  have hcw : NoEmpty (phaseCW { s with trC := none, trU := none } t).1.client := by
    rcases phaseCW_client { s with trC := none, trU := none } t with ⟨_, c, _⟩ | ⟨_, c, _⟩
    · rw [c]; exact flush_noEmpty _ _ _ h
    · rw [c]; exact h
  rcases (tick_shape s t hk).2 with e | ⟨seg, hne, e⟩
  · rw [e]; exact hcw
  · rw [e]; exact queue_noEmpty _ _ hcw hne

theorem run_noEmpty (ticks : List Tick) (s : St) (hk : s.kind ≠ .local) (h : NoEmpty s.client) :
    NoEmpty (run s ticks).1.client := by
  induction ticks generalizing s with
  | nil => exact h
  | cons t ts ih =>
    obtain ⟨seg, d⟩ := step_down s t hk
    have h1 : NoEmpty (step s t).1.client := tick_noEmpty s _ hk h
    rw [run_cons]
    split
    · exact ih _ (by rw [d.kind]; exact hk) h1
    · exact h1

/-- progress of one tick: client writable, a non-empty head element pending and
    the kernel takes at least one byte ⇒ a non-empty prefix of the pending bytes
    is appended to what was delivered -/
theorem step_progress (s : St) (t : Tick) (hk : s.kind ≠ .local) (mv : Bytes) (rest : List Bytes)
    (hb : s.client.buffer = mv :: rest) (hne : mv ≠ []) (hw : t.cW = true) (k : Nat)
    (hs : t.cSend = .sent (k + 1)) :
    ∃ w, w ≠ [] ∧ (step s t).1.sentC = s.sentC ++ w ∧ w <+: s.client.buffer.flatten ∧
      w.length = min (k + 1) (min (effMax s.maxSend) mv.length) := by
  have hhb : s.client.hasBuffer = true := by simp [Conn.hasBuffer, hb]
  have hmw : ((mask (events s) t).cW && s.client.hasBuffer) = true := by simp [mask, events, hw, hhb]
  have h1 := (tick_shape s (mask (events s) t) hk).1
  rcases phaseCW_client { s with trC := none, trU := none } (mask (events s) t) with ⟨_, _, c2⟩ | ⟨hc, _, _⟩
  · simp only at c2
    have hcs : (mask (events s) t).cSend = .sent (k + 1) := hs
    rw [hcs] at c2
    refine ⟨(flush s.maxSend s.client (.sent (k + 1))).wire, ?_, ?_, ?_, ?_⟩
    · intro h0
      have := wire_length s.maxSend s.client (.sent (k + 1))
      rw [h0, flush_accepted _ _ _ mv rest hb] at this
      have hm := effMax_pos s.maxSend
      have : 0 < mv.length := List.length_pos_iff.mpr hne
      simp at *; omega
    · show (tick s (mask (events s) t)).1.sentC = _; rw [h1, c2]
    · have := flush_wire_append s.maxSend s.client (.sent (k + 1))
      exact ⟨_, this⟩
    · rw [wire_length, flush_accepted _ _ _ mv rest hb]
  · simp only at hc; rw [hmw] at hc; simp at hc

/-! threaded `_flush` -/

theorem flushLoop_account (m : Nat) (script : List SelEv) (c : Conn) (sent : Bytes) :
    (flushLoop m c sent script).2.1 ++ (flushLoop m c sent script).1.buffer.flatten
      = sent ++ c.buffer.flatten := by
  induction script generalizing c sent with
  | nil => simp [flushLoop]
  | cons e es ih =>
    unfold flushLoop
    split
    · rfl
    · cases e with
      | timeout => exact ih c sent
      | ready o =>
        simp only
        have hw := flush_wire_append m c o
        cases he : (flush m c o).exc with
        | some x => cases x <;> simp [List.append_assoc, hw]
        | none => simp only; rw [ih, List.append_assoc, hw]

theorem flushLoop_closed (m : Nat) (script : List SelEv) (c : Conn) (sent : Bytes) :
    (flushLoop m c sent script).1.closed = c.closed := by
  induction script generalizing c sent with
  | nil => simp [flushLoop]
  | cons e es ih =>
    unfold flushLoop
    split
    · rfl
    · cases e with
      | timeout => exact ih c sent
      | ready o =>
        simp only
        have hc := flush_closed m c o
        cases he : (flush m c o).exc with
        | some x => cases x <;> simp [hc]
        | none => simp only; rw [ih, hc]

/-- `_flush` ends `drained` exactly with an empty buffer; it ends otherwise only
    with output still pending and after a failing `send` (or with the script used up) -/
theorem flushLoop_end (m : Nat) (script : List SelEv) (c : Conn) (sent : Bytes) :
    ((flushLoop m c sent script).2.2 = .drained → (flushLoop m c sent script).1.buffer = []) ∧
    ((flushLoop m c sent script).2.2 ≠ .drained → (flushLoop m c sent script).1.buffer ≠ []) ∧
    ((flushLoop m c sent script).2.2 = .brokenPipe → .ready .brokenPipe ∈ script) ∧
    ((flushLoop m c sent script).2.2 = .osError →
        .ready .osError ∈ script ∨ .ready .sslWantWrite ∈ script) := by
  induction script generalizing c sent with
  | nil =>
    unfold flushLoop
    cases h : c.hasBuffer <;> simp [h] <;> simpa [Conn.hasBuffer] using h
  | cons e es ih =>
    unfold flushLoop
    split
    · rename_i h
      have : c.buffer = [] := by simpa [Conn.hasBuffer] using h
      simp [this]
    · rename_i h
      have hne : c.buffer ≠ [] := by simpa [Conn.hasBuffer] using h
      cases e with
      | timeout =>
        obtain ⟨i1, i2, i3, i4⟩ := ih c sent
        exact ⟨i1, i2, fun x => by simp [i3 x], fun x => by rcases i4 x with y | y <;> simp [y]⟩
      | ready o =>
        simp only
        cases he : (flush m c o).exc with
        | some x =>
          have hc := (flush_exc_conn m c o x he).1
          rcases flush_exc_eq m c o x he with ⟨hx, ho⟩ | ⟨hx, ho⟩ | ⟨hx, ho⟩ <;> subst hx <;> subst ho <;>
            simp [hc, hne]
        | none =>
          simp only
          obtain ⟨i1, i2, i3, i4⟩ := ih (flush m c o).conn (sent ++ (flush m c o).wire)
          exact ⟨i1, i2, fun x => by simp [i3 x], fun x => by rcases i4 x with y | y <;> simp [y]⟩

/-- number of `select()` rounds of a script that report the client writable -/
def readyCount : List SelEv → Nat
  | [] => 0
  | .timeout :: es => readyCount es
  | .ready _ :: es => readyCount es + 1

/-- termination of `_flush` with everything sent: enough ready events in each of
    which the kernel takes at least one byte -/
theorem flushLoop_drains (m : Nat) (script : List SelEv) (c : Conn) (sent : Bytes)
    (hg : ∀ e ∈ script, e = .timeout ∨ ∃ k, e = .ready (.sent (k + 1)))
    (hn : pending c ≤ readyCount script) :
    (flushLoop m c sent script).2.2 = .drained ∧
    (flushLoop m c sent script).2.1 = sent ++ c.buffer.flatten := by
  induction script generalizing c sent with
  | nil =>
    have : c.buffer = [] := by
      unfold pending at hn
      cases hb : c.buffer with
      | nil => rfl
      | cons a b => rw [hb] at hn; simp [readyCount] at hn
    simp [flushLoop, Conn.hasBuffer, this]
  | cons e es ih =>
    unfold flushLoop
    split
    · rename_i h
      have : c.buffer = [] := by simpa [Conn.hasBuffer] using h
      simp [this]
    · rename_i h
      have hne : c.buffer ≠ [] := by simpa [Conn.hasBuffer] using h
      rcases hg e (by simp) with he | ⟨k, he⟩
      · subst he
        exact ih c sent (fun x hx => hg x (by simp [hx])) (by simpa [readyCount] using hn)
      · subst he
        simp only
        have hex : (flush m c (.sent (k + 1))).exc = none := by
          cases hx : (flush m c (.sent (k + 1))).exc with
          | none => rfl
          | some x =>
            have := ((flush_exc_iff m c (.sent (k + 1))).mp (by rw [hx]; simp)).2
            simp at this
        rw [hex]
        simp only
        have hlt := flush_pending_lt m c k hne
        obtain ⟨a1, a2⟩ := ih (flush m c (.sent (k + 1))).conn (sent ++ (flush m c (.sent (k + 1))).wire)
          (fun x hx => hg x (by simp [hx])) (by simp [readyCount] at hn; omega)
        refine ⟨a1, ?_⟩
        rw [a2, List.append_assoc, flush_wire_append]

/-! #### `FlushInv` is an invariant -/

theorem hasBuffer_append_true (c c' : Conn) (extra : List Bytes)
    (h : c'.buffer = c.buffer ++ extra) (he : c.hasBuffer = true) : c'.hasBuffer = true := by
  simp [Conn.hasBuffer, h] at he ⊢; intro h0; exact absurd h0 he

theorem afterCW_flushInv (s : St) (r : FlushRes) (hi : FlushInv s)
    (hx : r.exc ≠ none → r.conn = s.client) : FlushInv (afterCW s r).1 := by
  obtain ⟨conn, off, acc, exc⟩ := r
  unfold afterCW FlushInv
  cases exc with
  | some e =>
    have : conn = s.client := hx (by simp)
    subst this
    exact hi
  | none =>
    simp only
    split
    · simp
    · rename_i hc
      simp at hc ⊢
      intro hm
      cases hb : conn.hasBuffer with
      | true => rfl
      | false => exact absurd (hc hm) (by simp [hb])

theorem phaseCW_flushInv (s : St) (t : Tick) (hi : FlushInv s) : FlushInv (phaseCW s t).1 := by
  unfold phaseCW
  split
  · apply afterCW_flushInv _ _ hi
    intro hx
    cases he : (flush s.maxSend s.client t.cSend).exc with
    | none => exact absurd he hx
    | some e => exact (flush_exc_conn _ _ _ e he).1
  · exact hi

theorem onClientData_mustFlush (s : St) (b : Bytes) (a : AppOut) :
    (onClientData s b a).1.mustFlush = s.mustFlush := by
  unfold onClientData
  cases s.kind with
  | tunnel => simp only; split <;> rfl
  | http =>
    simp only
    split
    · rfl
    · cases a with
      | raised => rfl
      | ok u c cl => cases u <;> rfl
  | «local» =>
    cases a with
    | raised => rfl
    | ok u c cl => cases c <;> rfl

theorem afterHD_flushInv (s : St) (hd : HD) (hi : FlushInv s) : FlushInv (afterHD s hd).1 := by
  unfold afterHD
  cases hd with
  | raised => exact hi
  | ret c =>
    cases c with
    | false => exact hi
    | true =>
      simp only
      split
      · rename_i h; intro _; exact h
      · exact hi

theorem phaseCR_flushInv (s : St) (t : Tick) (hi : FlushInv s) : FlushInv (phaseCR s t).1 := by
  unfold phaseCR
  split
  · cases hr : Conn.recv t.cRecv with
    | none_ => exact hi
    | exc o => cases o <;> exact hi
    | seg b =>
      simp only
      apply afterHD_flushInv
      obtain ⟨e, he⟩ := onClientData_client { s with recvC := s.recvC ++ b } b t.app
      intro hm
      rw [onClientData_mustFlush] at hm
      exact hasBuffer_append_true _ _ _ he (hi hm)
  · exact hi

theorem phaseUR_flushInv (s : St) (t : Tick) (hi : FlushInv s) : FlushInv (phaseUR s t).1 := by
  obtain ⟨e, he⟩ := phaseUR_client s t
  intro hm
  rw [(phaseUR_frame s t).2.2.2.2.2.2] at hm
  exact hasBuffer_append_true _ _ _ he (hi hm)

theorem readHalf_flushInv (s : St) (t : Tick) (hi : FlushInv s) : FlushInv (readHalf s t).1 := by
  unfold readHalf
  split
  · exact hi
  · have h1 := phaseCR_flushInv s t hi
    rcases hcr : phaseCR s t with ⟨s1, r⟩
    rw [hcr] at h1
    cases r with
    | raised => exact h1
    | yes => exact h1
    | no =>
      simp only
      have h2 := phaseUR_flushInv s1 t h1
      rcases hur : phaseUR s1 t with ⟨s2, r2⟩
      rw [hur] at h2
      exact h2

/-- `must_flush_before_shutdown` ⇒ output pending, in every state a tick produces -/
theorem tick_flushInv (s : St) (t : Tick) (hi : FlushInv s) : FlushInv (tick s t).1 := by
  unfold tick
  simp only
  have h1 := phaseCW_flushInv { s with trC := none, trU := none } t hi
  rcases hcw : phaseCW { s with trC := none, trU := none } t with ⟨s1, w⟩
  rw [hcw] at h1
  cases w with
  | true => exact h1
  | false =>
    simp only
    have fu := phaseUW_frame { s1 with writesTeared := false } t
    rcases huw : phaseUW { s1 with writesTeared := false } t with ⟨s2, w2⟩
    rw [huw] at fu
    simp only at fu ⊢
    apply readHalf_flushInv
    intro hm
    show s2.client.hasBuffer = true
    rw [fu.2.2.1]
    apply h1
    have : s2.mustFlush = s1.mustFlush := fu.2.2.2.2.2.2.2.2.1
    rw [← this]; exact hm

theorem run_flushInv (ticks : List Tick) (s : St) (hi : FlushInv s) : FlushInv (run s ticks).1 := by
  induction ticks generalizing s with
  | nil => exact hi
  | cons t ts ih =>
    have h1 : FlushInv (step s t).1 := tick_flushInv s _ hi
    rw [run_cons]
    split
    · exact ih _ h1
    · exact h1

end Px.Relay
